#!/bin/bash
# usage: seed.sh <property-id> <worktree> <name> [extra check ids...]
# Confirms a seeded change produced in <worktree> (SEED/patch.diff + SEED/zz_seed_demo_test.go),
# stores it under /verif/seeded/<name>/ and runs the property's check(s) against it in /repo.
if [ -n "$(git -C /repo status --porcelain)" ]; then echo "REFUSING: /repo has uncommitted changes (this script reverts the working tree)"; exit 9; fi
ID=$1; WT=$2; NAME=$3; shift 3; CHECKS="$ID $@"
export GOFLAGS=-mod=mod GOPROXY=off
OUT=/verif/seeded/$NAME; mkdir -p $OUT
cd $WT || exit 2
cp SEED/patch.diff $OUT/patch.diff || exit 2
cp SEED/zz_seed_demo_test.go $OUT/demo_test.go.txt
[ -f SEED/notes.md ] && cp SEED/notes.md $OUT/notes.md
git checkout -q -- . ; cp SEED/zz_seed_demo_test.go vgirpc/zz_seed_demo_test.go
echo "== demo without change (expect PASS)"; go test -vet=off -count=1 -run TestSeedDemo ./vgirpc/ 2>&1 | tail -3 | tee $OUT/.demo_without
git apply SEED/patch.diff || { echo "patch does not apply in worktree"; exit 3; }
echo "== build + suite with change"; go build ./... && go test -vet=off -count=1 -skip 'TestSeedDemo' ./vgirpc/ 2>&1 | tail -2 | tee $OUT/.suite
echo "== demo with change (expect FAIL)"; go test -vet=off -count=1 -run TestSeedDemo ./vgirpc/ 2>&1 | tail -3 | tee $OUT/.demo_with
echo "== checks against /repo with the change applied"
cd /repo && git apply $OUT/patch.diff || { echo "PATCH DOES NOT APPLY TO /repo"; exit 3; }
: > $OUT/.checks
for c in $CHECKS; do /verif/check.sh $c quick 2>&1 | grep -E "^(VIOLATION|OK|INCONCLUSIVE|KNOWN)" | cut -c1-220 | tee -a $OUT/.checks; done
git -C /repo checkout -- .
git -C /repo status --short | head -3
