#!/bin/bash
# usage: sweep.sh quick|thorough [ids...] — runs the registered checks one after the other and prints one line each
TIER=${1:-quick}; shift
IDS="$@"
[ -z "$IDS" ] && IDS=$(python3 -c "import json;print(' '.join(sorted(json.load(open('/verif/checks.json')))))")
for id in $IDS; do
  s=$(date +%s)
  out=$(/verif/check.sh $id $TIER 2>&1); rc=$?
  e=$(date +%s)
  echo "$id rc=$rc $((e-s))s $(echo "$out" | grep -E '^(OK|VIOLATION|INCONCLUSIVE|KNOWN)' | head -3 | tr '\n' ' ')"
  echo "$out" | grep -E "^harness" | grep -v " holds " | cut -c1-200
done
