package vgirpc

import "testing"

func TestVerifReplay(t *testing.T) {
	verifRunReplay(t, "verifH_C39_enqueue_during_close", verifH_C39_enqueue_during_close)
}
