#!/bin/bash
# Engine self-test: the goroutine scheduler and the happens-before race detector (toy harnesses with known verdicts),
# and the symbolic UTF-8 decoder against the library's own decoder.
cd /verif; export PATH=/opt/veriftools/go1.26.8/bin:$PATH GOTOOLCHAIN=local GOFLAGS=-mod=mod GOPROXY=off
out=$(timeout 600 bin/gosym run -id SELF -harness /verif/harness/_selftest_sched -tier quick -evidence /tmp/gosym_selftest.json 2>&1 | grep "^harness")
rm -rf /tmp/gosym_selftest.json /verif/replays/SELF
fail=0
for want in "verifH_ST_channel holds" "verifH_ST_deadlock VIOLATED" "verifH_ST_goroutine_panic VIOLATED" "verifH_ST_mutex_counter holds" "verifH_ST_once holds" "verifH_ST_toctou VIOLATED" "verifH_RT_plain_race VIOLATED" "verifH_RT_mutex_ok holds" "verifH_RT_channel_handoff_ok holds" "verifH_RT_once_publish_ok holds" "verifH_RT_half_locked VIOLATED"; do
  set -- $want
  echo "$out" | grep -q "harness $1 *$2" || { echo "SELFTEST FAIL: $1 expected $2"; fail=1; }
done
out2=$(timeout 900 bin/gosym run -id SELF -harness /verif/harness/_selftest_models -tier quick -evidence /tmp/gosym_selftest.json 2>&1 | grep "^harness")
rm -rf /tmp/gosym_selftest.json /verif/replays/SELF
echo "$out2" | grep -q "harness verifH_MT_runes *holds" || { echo "SELFTEST FAIL: verifH_MT_runes expected holds"; fail=1; }
[ $fail = 0 ] && echo "SELFTEST OK"
exit $fail
