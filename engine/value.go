package main

import (
	"fmt"
	"go/types"
	"strings"

	"golang.org/x/tools/go/ssa"
)

// Value is the dynamic value of an SSA variable in the symbolic interpreter:
//
//	*Term        bool and every integer type (constant terms when concrete)
//	FloatV       floats (concrete only)
//	StringV      string with concrete length; bytes may be symbolic
//	[]Value      slice (aliasing/cap semantics inherited from Go slices)
//	ArrayV       array value
//	StructV      struct value (fields addressable as &s[i])
//	*Value       pointer
//	*MapV        map
//	IfaceV       interface value
//	*ssa.Function, *ClosureV, *ssa.Builtin, *NativeFn   function values
//	TupleV       multi-value
//	*ChanV       channel
//	Poison       result of a skipped opaque call (any observation aborts)
//	model values (TimeV, *RegexpV, ...)
type Value interface{}

type FloatV struct {
	F    float64
	Bits int
}

type StringV struct {
	S string  // concrete content when B == nil
	B []*Term // per-byte terms otherwise
}

func (s StringV) Len() int {
	if s.B != nil {
		return len(s.B)
	}
	return len(s.S)
}

func (s StringV) Conc() (string, bool) {
	if s.B == nil {
		return s.S, true
	}
	bs := make([]byte, len(s.B))
	for i, t := range s.B {
		if !t.IsConst() {
			return "", false
		}
		bs[i] = byte(constU(t))
	}
	return string(bs), true
}

type ArrayV []Value
type StructV []Value
type TupleV []Value

type IfaceV struct {
	T types.Type // nil for nil interface
	V Value
}

type ClosureV struct {
	Fn  *ssa.Function
	Env []Value
}

// NativeFn is a function value implemented by the engine (bound model methods).
type NativeFn struct {
	Name string
	Fn   func(p *Path, args []Value) Value
}

type MapV struct {
	KT   types.Type
	VT   types.Type
	Keys []Value
	Vals []Value
	idx  map[string]int // index for concrete string/int keys
}

type ChanV struct {
	Buf    []Value
	Cap    int
	Closed bool
	ET     types.Type
	Sent   int // unbuffered sends staged so far (scheduler mode)
	Recvd  int // values taken by receivers
}

type Poison struct{ Why string }

type IterV struct {
	// map iteration
	m     *MapV
	order []int
	pos   int
	// string iteration
	s   StringV
	str bool
}

// TimeV models time.Time as seconds since Unix epoch + nanoseconds, UTC only.
type TimeV struct {
	Sec  *Term
	Nsec *Term
	Zero bool // the zero Time (year 1) — kept distinct
}

func constU(t *Term) uint64 {
	if t.S.K == SInt {
		return t.I.Uint64()
	}
	return t.U
}

func constI(t *Term) int64 {
	if t.S.K == SInt {
		return t.I.Int64()
	}
	if t.S.K == SBool {
		return int64(t.U)
	}
	return t.SVal()
}

// copyVal returns a deep copy of value-typed aggregates (struct/array).
func copyVal(v Value) Value {
	switch v := v.(type) {
	case StructV:
		c := make(StructV, len(v))
		for i, f := range v {
			c[i] = copyVal(f)
		}
		return c
	case ArrayV:
		c := make(ArrayV, len(v))
		for i, f := range v {
			c[i] = copyVal(f)
		}
		return c
	case TupleV:
		panic("copyVal of tuple")
	}
	return v
}

func isNamed(t types.Type, pkg, name string) bool {
	n, ok := t.(*types.Named)
	if !ok {
		return false
	}
	o := n.Obj()
	return o.Name() == name && o.Pkg() != nil && o.Pkg().Path() == pkg
}

// zero returns the zero value of type t.
func (p *Path) zero(t types.Type) Value {
	if isNamed(t, "time", "Time") {
		return TimeV{Sec: p.intConst(zeroTimeSec, tInt64), Nsec: p.intConst(0, tInt64)}
	}
	switch t := t.(type) {
	case *types.Basic:
		if t.Kind() == types.UntypedNil {
			panic("untyped nil has no zero value")
		}
		if t.Info()&types.IsUntyped != 0 {
			t = types.Default(t).(*types.Basic)
		}
		switch {
		case t.Kind() == types.Bool:
			return p.ts.Bool(false)
		case t.Info()&types.IsInteger != 0:
			return p.intConst(0, t)
		case t.Info()&types.IsFloat != 0:
			if t.Kind() == types.Float32 {
				return FloatV{0, 32}
			}
			return FloatV{0, 64}
		case t.Kind() == types.String:
			return StringV{}
		case t.Kind() == types.UnsafePointer:
			return (*Value)(nil)
		case t.Info()&types.IsComplex != 0:
			return Poison{"complex"}
		}
	case *types.Pointer:
		return (*Value)(nil)
	case *types.Array:
		a := make(ArrayV, t.Len())
		for i := range a {
			a[i] = p.zero(t.Elem())
		}
		return a
	case *types.Named, *types.Alias:
		return p.zero(t.Underlying())
	case *types.Interface:
		return IfaceV{}
	case *types.Slice:
		return []Value(nil)
	case *types.Struct:
		s := make(StructV, t.NumFields())
		for i := range s {
			s[i] = p.zero(t.Field(i).Type())
		}
		return s
	case *types.Tuple:
		if t.Len() == 1 {
			return p.zero(t.At(0).Type())
		}
		s := make(TupleV, t.Len())
		for i := range s {
			s[i] = p.zero(t.At(i).Type())
		}
		return s
	case *types.Chan:
		return (*ChanV)(nil)
	case *types.Map:
		return (*MapV)(nil)
	case *types.Signature:
		return (*ClosureV)(nil)
	case *types.TypeParam:
		panic("zero of type parameter")
	}
	panic(fmt.Sprintf("zero: unexpected type %T %v", t, t))
}

func isNilFunc(v Value) bool {
	switch f := v.(type) {
	case *ClosureV:
		return f == nil
	case *ssa.Function:
		return f == nil
	case *NativeFn:
		return f == nil
	case *ssa.Builtin:
		return f == nil
	case nil:
		return true
	}
	return false
}

// ---- equality ----

// equals returns a Bool term for x == y at static type t.
func (p *Path) equals(t types.Type, x, y Value) *Term {
	ts := p.ts
	switch x := x.(type) {
	case *Term:
		yt, ok := y.(*Term)
		if !ok {
			p.abortf(abortUnsupported, "equals: term vs %T", y)
		}
		return ts.Eq(x, yt)
	case FloatV:
		return ts.Bool(x.F == y.(FloatV).F)
	case StringV:
		return p.strEq(x, y.(StringV))
	case *Value:
		yp, ok := y.(*Value)
		if !ok {
			return ts.Bool(false)
		}
		return ts.Bool(x == yp)
	case *MapV:
		return ts.Bool(x == y.(*MapV))
	case *ChanV:
		return ts.Bool(x == y.(*ChanV))
	case []Value:
		// only comparison to nil is legal
		if _, abs := y.(*AbsBytes); abs {
			return ts.Bool(false)
		}
		ys := y.([]Value)
		return ts.Bool(x == nil && ys == nil)
	case *AbsBytes:
		// an opaque byte slice is never nil
		return ts.Bool(false)
	case StructV:
		ys := y.(StructV)
		r := ts.Bool(true)
		var st *types.Struct
		if t != nil {
			st, _ = t.Underlying().(*types.Struct)
		}
		for i := range x {
			var ft types.Type
			if st != nil {
				ft = st.Field(i).Type()
			}
			r = ts.And(r, p.equals(ft, x[i], ys[i]))
		}
		return r
	case ArrayV:
		ys := y.(ArrayV)
		r := ts.Bool(true)
		var et types.Type
		if t != nil {
			if at, ok := t.Underlying().(*types.Array); ok {
				et = at.Elem()
			}
		}
		for i := range x {
			r = ts.And(r, p.equals(et, x[i], ys[i]))
		}
		return r
	case IfaceV:
		yi, ok := y.(IfaceV)
		if !ok {
			p.abortf(abortUnsupported, "equals: iface vs %T", y)
		}
		if x.T == nil || yi.T == nil {
			return ts.Bool(x.T == nil && yi.T == nil)
		}
		if !types.Identical(x.T, yi.T) {
			return ts.Bool(false)
		}
		if !types.Comparable(x.T) {
			p.targetPanicStr("runtime error: comparing uncomparable type " + x.T.String())
		}
		return p.equals(x.T, x.V, yi.V)
	case TimeV:
		yt := y.(TimeV)
		return ts.And(ts.Eq(x.Sec, yt.Sec), ts.Eq(x.Nsec, yt.Nsec))
	case *ClosureV, *ssa.Function, *NativeFn, *ssa.Builtin:
		return ts.Bool(isNilFunc(x) && isNilFunc(y))
	case nil:
		return ts.Bool(isNilFunc(y))
	case Poison:
		p.abortf(abortUnmodelled, "comparison of poisoned value (%s)", x.Why)
	}
	if reflectEqHook != nil {
		if r, ok := reflectEqHook(p, x, y); ok {
			return r
		}
	}
	p.abortf(abortUnsupported, "equals: unsupported %T", x)
	return nil
}

var reflectEqHook func(p *Path, x, y Value) (*Term, bool)

func (p *Path) strEq(a, b StringV) *Term {
	ts := p.ts
	if a.Len() != b.Len() {
		return ts.Bool(false)
	}
	if a.B == nil && b.B == nil {
		return ts.Bool(a.S == b.S)
	}
	r := ts.Bool(true)
	for i := 0; i < a.Len(); i++ {
		r = ts.And(r, ts.Eq(p.strByte(a, i), p.strByte(b, i)))
	}
	return r
}

func (p *Path) strByte(s StringV, i int) *Term {
	if s.B != nil {
		return s.B[i]
	}
	return p.intConst(int64(s.S[i]), tUint8)
}

func (p *Path) strBytes(s StringV) []*Term {
	if s.B != nil {
		return s.B
	}
	out := make([]*Term, len(s.S))
	for i := 0; i < len(s.S); i++ {
		out[i] = p.intConst(int64(s.S[i]), tUint8)
	}
	return out
}

// mkString builds a StringV from byte terms, collapsing to concrete when possible.
func (p *Path) mkString(bs []*Term) StringV {
	allc := true
	for _, b := range bs {
		if !b.IsConst() {
			allc = false
			break
		}
	}
	if allc {
		raw := make([]byte, len(bs))
		for i, b := range bs {
			raw[i] = byte(constU(b))
		}
		return StringV{S: string(raw)}
	}
	cp := make([]*Term, len(bs))
	copy(cp, bs)
	return StringV{B: cp}
}

// strLess returns a < b lexicographically as a Bool term.
func (p *Path) strLess(a, b StringV) *Term {
	ts := p.ts
	if a.B == nil && b.B == nil {
		return ts.Bool(a.S < b.S)
	}
	n := a.Len()
	if b.Len() < n {
		n = b.Len()
	}
	// build from the end
	var r *Term
	if a.Len() < b.Len() {
		r = ts.Bool(true)
	} else {
		r = ts.Bool(false)
	}
	for i := n - 1; i >= 0; i-- {
		x, y := p.strByte(a, i), p.strByte(b, i)
		r = ts.Ite(ts.Eq(x, y), r, p.intLtU(x, y))
	}
	return r
}

// ---- maps ----

func concKey(k Value) (string, bool) {
	switch k := k.(type) {
	case *Term:
		if k.IsConst() {
			if k.S.K == SInt {
				return "i" + k.I.String(), true
			}
			return fmt.Sprintf("b%d:%d", k.S.W, k.U), true
		}
	case StringV:
		if s, ok := k.Conc(); ok {
			return "s" + s, true
		}
	case *Value:
		return fmt.Sprintf("p%p", k), true
	case IfaceV:
		if k.T == nil {
			return "nil", true
		}
		if s, ok := concKey(k.V); ok {
			return "I" + k.T.String() + "|" + s, true
		}
	case StructV:
		var sb strings.Builder
		sb.WriteString("S")
		for _, f := range k {
			s, ok := concKey(f)
			if !ok {
				return "", false
			}
			fmt.Fprintf(&sb, "%d:%s", len(s), s)
		}
		return sb.String(), true
	case ArrayV:
		var sb strings.Builder
		sb.WriteString("A")
		for _, f := range k {
			s, ok := concKey(f)
			if !ok {
				return "", false
			}
			fmt.Fprintf(&sb, "%d:%s", len(s), s)
		}
		return sb.String(), true
	case FloatV:
		return fmt.Sprintf("f%v", k.F), true
	}
	return "", false
}

// mapFind returns the index of key k in m (or -1), forking on symbolic equality.
func (p *Path) mapFind(m *MapV, k Value) int {
	if m == nil {
		return -1
	}
	if ck, ok := concKey(k); ok && m.idx != nil && len(m.idx) == len(m.Keys) {
		if i, ok := m.idx[ck]; ok {
			return i
		}
		return -1
	}
	ts := p.ts
	// build conditions
	var conds []*Term
	var idxs []int
	none := ts.Bool(true)
	for i, mk := range m.Keys {
		eq := p.equals(m.KT, mk, k)
		if eq.IsFalse() {
			continue
		}
		c := ts.And(none, eq)
		if eq.IsTrue() {
			conds = append(conds, c)
			idxs = append(idxs, i)
			none = ts.Bool(false)
			break
		}
		conds = append(conds, c)
		idxs = append(idxs, i)
		none = ts.And(none, ts.Not(eq))
	}
	if len(conds) == 0 {
		return -1
	}
	conds = append(conds, none)
	idxs = append(idxs, -1)
	c := p.decide(conds, "mapkey")
	return idxs[c]
}

func (p *Path) mapSet(m *MapV, k, v Value) {
	if m == nil {
		p.targetPanicStr("assignment to entry in nil map")
	}
	i := p.mapFind(m, k)
	if i >= 0 {
		m.Vals[i] = v
		return
	}
	ck, ok := concKey(k)
	if ok && m.idx != nil && len(m.idx) == len(m.Keys) {
		m.idx[ck] = len(m.Keys)
	} else {
		m.idx = nil
	}
	m.Keys = append(m.Keys, k)
	m.Vals = append(m.Vals, v)
}

func (p *Path) mapDelete(m *MapV, k Value) {
	if m == nil {
		return
	}
	i := p.mapFind(m, k)
	if i < 0 {
		return
	}
	m.Keys = append(m.Keys[:i:i], m.Keys[i+1:]...)
	m.Vals = append(m.Vals[:i:i], m.Vals[i+1:]...)
	m.idx = nil
	p.reindex(m)
}

func (p *Path) reindex(m *MapV) {
	idx := map[string]int{}
	for i, k := range m.Keys {
		ck, ok := concKey(k)
		if !ok {
			m.idx = nil
			return
		}
		idx[ck] = i
	}
	m.idx = idx
}

func newMap(kt, vt types.Type) *MapV {
	return &MapV{KT: kt, VT: vt, idx: map[string]int{}}
}

// ---- printing (diagnostics / fmt model) ----

func (p *Path) showVal(v Value) string {
	switch v := v.(type) {
	case *Term:
		return p.ts.Show(v)
	case StringV:
		if s, ok := v.Conc(); ok {
			return fmt.Sprintf("%q", s)
		}
		var sb strings.Builder
		sb.WriteString("str[")
		for i, b := range v.B {
			if i > 0 {
				sb.WriteString(" ")
			}
			sb.WriteString(p.ts.Show(b))
		}
		sb.WriteString("]")
		return sb.String()
	case IfaceV:
		if v.T == nil {
			return "nil"
		}
		return fmt.Sprintf("iface(%s:%s)", v.T, p.showVal(v.V))
	case StructV:
		var sb strings.Builder
		sb.WriteString("{")
		for i, f := range v {
			if i > 0 {
				sb.WriteString(", ")
			}
			sb.WriteString(p.showVal(f))
		}
		sb.WriteString("}")
		return sb.String()
	case []Value:
		if len(v) > 16 {
			return fmt.Sprintf("slice(len=%d)", len(v))
		}
		var sb strings.Builder
		sb.WriteString("[")
		for i, f := range v {
			if i > 0 {
				sb.WriteString(", ")
			}
			sb.WriteString(p.showVal(f))
		}
		sb.WriteString("]")
		return sb.String()
	case *Value:
		if v == nil {
			return "nil"
		}
		return fmt.Sprintf("&%p", v)
	}
	return fmt.Sprintf("%T", v)
}
