package main

// Engine models for leaf library functions (assembly, unsafe, runtime) and for
// functions whose source would fork per byte (case folding, trimming).

import (
	"fmt"
	"go/token"
	"go/types"
	"math/big"
	"strings"
	"unicode/utf8"

	"golang.org/x/tools/go/ssa"
)

type modelFn func(p *Path, caller *frame, pos token.Pos, fn *ssa.Function, args []Value) Value

var models = map[string]modelFn{}

func defaultOpaque(name string) bool {
	switch {
	case strings.HasPrefix(name, "log/slog."), strings.HasPrefix(name, "(*log/slog."), strings.HasPrefix(name, "(log/slog."):
		return true
	case strings.HasPrefix(name, "log."), strings.HasPrefix(name, "(*log.Logger)"):
		return true
	case name == "runtime.KeepAlive", name == "runtime.SetFinalizer", name == "runtime.GC", name == "runtime.Gosched":
		return true
	case strings.HasPrefix(name, "internal/race."), strings.HasPrefix(name, "internal/msan."), strings.HasPrefix(name, "internal/asan."):
		return true
	}
	return false
}

// NativeObj is an engine-implemented object usable behind an interface.
type NativeObj struct {
	Kind    string
	State   interface{}
	Methods map[string]func(p *Path, self *NativeObj, args []Value) Value
}

func (n *NativeObj) method(p *Path, name string) Value {
	m := n.Methods[name]
	if m == nil {
		return nil
	}
	return &NativeFn{Name: n.Kind + "." + name, Fn: func(p *Path, args []Value) Value { return m(p, n, args) }}
}

func (n *NativeObj) implements(it *types.Interface) bool {
	for i := 0; i < it.NumMethods(); i++ {
		if n.Methods[it.Method(i).Name()] == nil {
			return false
		}
	}
	return true
}

func bytesOf(p *Path, v Value) []*Term {
	switch v := v.(type) {
	case StringV:
		return p.strBytes(v)
	case []Value:
		out := make([]*Term, len(v))
		for i, e := range v {
			t, ok := e.(*Term)
			if !ok {
				p.abortf(abortUnsupported, "byte slice element is %T", e)
			}
			out[i] = t
		}
		return out
	case nil:
		return nil
	}
	p.abortf(abortUnsupported, "bytesOf %T", v)
	return nil
}

func (p *Path) byteConst(b byte) *Term { return p.intConst(int64(b), tUint8) }

func (p *Path) byteEq(a, b *Term) *Term { return p.ts.Eq(a, b) }

func (p *Path) byteInRange(b *Term, lo, hi byte) *Term {
	ts := p.ts
	if p.lia {
		return ts.And(ts.ILe(ts.Int64(int64(lo)), b), ts.ILe(b, ts.Int64(int64(hi))))
	}
	return ts.And(ts.bvCmp(OBvUle, ts.BV(uint64(lo), 8), b), ts.bvCmp(OBvUle, b, ts.BV(uint64(hi), 8)))
}

func (p *Path) byteAdd(b *Term, d int) *Term {
	if p.lia {
		return p.ts.IAdd(b, p.ts.Int64(int64(d)))
	}
	return p.ts.bvBin(OBvAdd, b, p.ts.BV(uint64(d), 8))
}

// indexByte forks over the position of the first byte equal to c.
func (p *Path) indexByte(bs []*Term, c *Term) int {
	ts := p.ts
	conds := make([]*Term, 0, len(bs)+1)
	none := ts.Bool(true)
	for _, b := range bs {
		eq := ts.Eq(b, c)
		conds = append(conds, ts.And(none, eq))
		none = ts.And(none, ts.Not(eq))
	}
	conds = append(conds, none)
	i := p.decide(conds, "indexbyte")
	if i == len(bs) {
		return -1
	}
	return i
}

func (p *Path) lastIndexByte(bs []*Term, c *Term) int {
	ts := p.ts
	conds := make([]*Term, 0, len(bs)+1)
	idx := make([]int, 0, len(bs)+1)
	none := ts.Bool(true)
	for i := len(bs) - 1; i >= 0; i-- {
		eq := ts.Eq(bs[i], c)
		conds = append(conds, ts.And(none, eq))
		idx = append(idx, i)
		none = ts.And(none, ts.Not(eq))
	}
	conds = append(conds, none)
	idx = append(idx, -1)
	return idx[p.decide(conds, "lastindexbyte")]
}

func (p *Path) bytesEqTerm(a, b []*Term) *Term {
	if len(a) != len(b) {
		return p.ts.Bool(false)
	}
	r := p.ts.Bool(true)
	for i := range a {
		r = p.ts.And(r, p.ts.Eq(a[i], b[i]))
	}
	return r
}

// indexSub forks over the first position where sub occurs in s.
func (p *Path) indexSub(s, sub []*Term) int {
	ts := p.ts
	n, m := len(s), len(sub)
	if m == 0 {
		return 0
	}
	if m > n {
		return -1
	}
	var conds []*Term
	none := ts.Bool(true)
	for i := 0; i+m <= n; i++ {
		eq := p.bytesEqTerm(s[i:i+m], sub)
		conds = append(conds, ts.And(none, eq))
		none = ts.And(none, ts.Not(eq))
	}
	conds = append(conds, none)
	i := p.decide(conds, "indexsub")
	if i == len(conds)-1 {
		return -1
	}
	return i
}

func (p *Path) lowerByte(b *Term) *Term {
	if b.IsConst() {
		c := byte(constU(b))
		if 'A' <= c && c <= 'Z' {
			c += 32
		}
		return p.byteConst(c)
	}
	return p.ts.Ite(p.byteInRange(b, 'A', 'Z'), p.byteAdd(b, 32), b)
}

func (p *Path) upperByte(b *Term) *Term {
	if b.IsConst() {
		c := byte(constU(b))
		if 'a' <= c && c <= 'z' {
			c -= 32
		}
		return p.byteConst(c)
	}
	return p.ts.Ite(p.byteInRange(b, 'a', 'z'), p.byteAdd(b, -32), b)
}

func (p *Path) isSpaceByte(b *Term) *Term {
	ts := p.ts
	return ts.OrN(ts.Eq(b, p.byteConst(' ')), p.byteInRange(b, '\t', '\r'))
}

// requireASCII restricts symbolic bytes to ASCII (a stated bound).
func (p *Path) requireASCII(bs []*Term, why string) {
	for _, b := range bs {
		if b.IsConst() {
			continue
		}
		var c *Term
		if p.lia {
			c = p.ts.ILt(b, p.ts.Int64(0x80))
		} else {
			c = p.ts.bvCmp(OBvUlt, b, p.ts.BV(0x80, 8))
		}
		if !p.branch(c, "ascii") {
			p.abortf(abortOutOfBound, "non-ASCII symbolic byte in %s (outside stated bound)", why)
		}
	}
}

func allConst(bs []*Term) bool {
	for _, b := range bs {
		if !b.IsConst() {
			return false
		}
	}
	return true
}

func sliceOfTerms(bs []*Term) []Value {
	out := make([]Value, len(bs))
	for i, b := range bs {
		out[i] = b
	}
	return out
}

func init() {
	// ---- internal/bytealg ----
	models["internal/bytealg.IndexByteString"] = func(p *Path, c *frame, pos token.Pos, fn *ssa.Function, a []Value) Value {
		return p.intConst(int64(p.indexByte(bytesOf(p, a[0]), a[1].(*Term))), tInt)
	}
	models["internal/bytealg.IndexByte"] = models["internal/bytealg.IndexByteString"]
	models["internal/bytealg.LastIndexByteString"] = func(p *Path, c *frame, pos token.Pos, fn *ssa.Function, a []Value) Value {
		return p.intConst(int64(p.lastIndexByte(bytesOf(p, a[0]), a[1].(*Term))), tInt)
	}
	models["internal/bytealg.LastIndexByte"] = models["internal/bytealg.LastIndexByteString"]
	models["internal/bytealg.IndexString"] = func(p *Path, c *frame, pos token.Pos, fn *ssa.Function, a []Value) Value {
		return p.intConst(int64(p.indexSub(bytesOf(p, a[0]), bytesOf(p, a[1]))), tInt)
	}
	models["internal/bytealg.Index"] = models["internal/bytealg.IndexString"]
	models["strings.Index"] = models["internal/bytealg.IndexString"]
	models["bytes.Index"] = models["internal/bytealg.IndexString"]
	models["strings.Contains"] = func(p *Path, c *frame, pos token.Pos, fn *ssa.Function, a []Value) Value {
		return p.ts.Bool(p.indexSub(bytesOf(p, a[0]), bytesOf(p, a[1])) >= 0)
	}
	models["bytes.Contains"] = models["strings.Contains"]
	models["strings.IndexByte"] = models["internal/bytealg.IndexByteString"]
	models["bytes.IndexByte"] = models["internal/bytealg.IndexByteString"]
	models["strings.LastIndexByte"] = models["internal/bytealg.LastIndexByteString"]
	models["internal/bytealg.CountString"] = func(p *Path, c *frame, pos token.Pos, fn *ssa.Function, a []Value) Value {
		bs := bytesOf(p, a[0])
		ch := a[1].(*Term)
		n := 0
		for _, b := range bs {
			if p.branch(p.ts.Eq(b, ch), "count") {
				n++
			}
		}
		return p.intConst(int64(n), tInt)
	}
	models["internal/bytealg.Count"] = models["internal/bytealg.CountString"]
	models["internal/bytealg.Equal"] = func(p *Path, c *frame, pos token.Pos, fn *ssa.Function, a []Value) Value {
		return p.bytesEqTerm(bytesOf(p, a[0]), bytesOf(p, a[1]))
	}
	models["bytes.Equal"] = models["internal/bytealg.Equal"]
	// compiler intrinsic with a panicking Go body
	models["crypto/internal/constanttime.boolToUint8"] = func(p *Path, c *frame, pos token.Pos, fn *ssa.Function, a []Value) Value {
		return p.ts.Ite(a[0].(*Term), p.intConst(1, tUint8), p.intConst(0, tUint8))
	}
	// ConstantTimeCompare(x, y): 1 iff equal length and equal content (timing is not modelled)
	ctc := func(p *Path, c *frame, pos token.Pos, fn *ssa.Function, a []Value) Value {
		x, y := bytesOf(p, a[0]), bytesOf(p, a[1])
		if len(x) != len(y) {
			return p.intConst(0, tInt)
		}
		return p.ts.Ite(p.bytesEqTerm(x, y), p.intConst(1, tInt), p.intConst(0, tInt))
	}
	models["crypto/subtle.ConstantTimeCompare"] = ctc
	models["crypto/internal/fips140/subtle.ConstantTimeCompare"] = ctc
	models["internal/bytealg.Compare"] = func(p *Path, c *frame, pos token.Pos, fn *ssa.Function, a []Value) Value {
		x := p.mkString(bytesOf(p, a[0]))
		y := p.mkString(bytesOf(p, a[1]))
		if p.branch(p.strEq(x, y), "cmp") {
			return p.intConst(0, tInt)
		}
		if p.branch(p.strLess(x, y), "cmp") {
			return p.intConst(-1, tInt)
		}
		return p.intConst(1, tInt)
	}
	models["strings.Compare"] = models["internal/bytealg.Compare"]
	models["bytes.Compare"] = models["internal/bytealg.Compare"]
	models["internal/stringslite.Index"] = models["internal/bytealg.IndexString"]
	models["internal/stringslite.IndexByte"] = models["internal/bytealg.IndexByteString"]
	models["internal/bytealg.MakeNoZero"] = func(p *Path, c *frame, pos token.Pos, fn *ssa.Function, a []Value) Value {
		n := p.mustConcInt(a[0], tInt, 1<<24, "MakeNoZero", pos)
		out := make([]Value, n)
		for i := range out {
			out[i] = p.byteConst(0)
		}
		return out
	}
	models["internal/stringslite.Clone"] = func(p *Path, c *frame, pos token.Pos, fn *ssa.Function, a []Value) Value { return a[0] }
	models["strings.Clone"] = models["internal/stringslite.Clone"]
	models["strconv.cloneString"] = models["internal/stringslite.Clone"]
	models["internal/abi.NoEscape"] = func(p *Path, c *frame, pos token.Pos, fn *ssa.Function, a []Value) Value { return a[0] }
	models["internal/abi.Escape"] = func(p *Path, c *frame, pos token.Pos, fn *ssa.Function, a []Value) Value { return a[0] }

	// ---- strings: formula models that avoid per-byte forking ----
	models["strings.ToLower"] = func(p *Path, c *frame, pos token.Pos, fn *ssa.Function, a []Value) Value {
		s := a[0].(StringV)
		if cs, ok := s.Conc(); ok {
			return StringV{S: strings.ToLower(cs)}
		}
		p.requireASCII(s.B, "strings.ToLower")
		out := make([]*Term, len(s.B))
		for i, b := range s.B {
			out[i] = p.lowerByte(b)
		}
		return p.mkString(out)
	}
	models["strings.ToUpper"] = func(p *Path, c *frame, pos token.Pos, fn *ssa.Function, a []Value) Value {
		s := a[0].(StringV)
		if cs, ok := s.Conc(); ok {
			return StringV{S: strings.ToUpper(cs)}
		}
		p.requireASCII(s.B, "strings.ToUpper")
		out := make([]*Term, len(s.B))
		for i, b := range s.B {
			out[i] = p.upperByte(b)
		}
		return p.mkString(out)
	}
	models["strings.EqualFold"] = func(p *Path, c *frame, pos token.Pos, fn *ssa.Function, a []Value) Value {
		s, t := a[0].(StringV), a[1].(StringV)
		cs, ok1 := s.Conc()
		ct, ok2 := t.Conc()
		if ok1 && ok2 {
			return p.ts.Bool(strings.EqualFold(cs, ct))
		}
		sb, tb := p.strBytes(s), p.strBytes(t)
		// non-ASCII concrete operands: fall back to outside-bound
		for _, b := range append(append([]*Term{}, sb...), tb...) {
			if b.IsConst() && constU(b) >= 0x80 {
				p.abortf(abortOutOfBound, "strings.EqualFold with non-ASCII operand and symbolic bytes")
			}
		}
		p.requireASCII(sb, "strings.EqualFold")
		p.requireASCII(tb, "strings.EqualFold")
		if len(sb) != len(tb) {
			return p.ts.Bool(false)
		}
		r := p.ts.Bool(true)
		for i := range sb {
			r = p.ts.And(r, p.ts.Eq(p.lowerByte(sb[i]), p.lowerByte(tb[i])))
		}
		return r
	}
	trim := func(left, right bool) modelFn {
		return func(p *Path, c *frame, pos token.Pos, fn *ssa.Function, a []Value) Value {
			s := a[0].(StringV)
			if cs, ok := s.Conc(); ok {
				switch {
				case left && right:
					return StringV{S: strings.TrimSpace(cs)}
				}
			}
			bs := p.strBytes(s)
			// like the library, only the bytes at the two scan frontiers are looked
			// at; a non-ASCII byte there (Unicode white space) is outside the bound
			lo, hi := 0, len(bs)
			edge := func(b *Term) bool {
				p.requireASCII([]*Term{b}, "strings.TrimSpace")
				return p.branch(p.isSpaceByte(b), "trim")
			}
			if left {
				for lo < hi && edge(bs[lo]) {
					lo++
				}
			}
			if right {
				for hi > lo && edge(bs[hi-1]) {
					hi--
				}
			}
			return p.mkString(bs[lo:hi])
		}
	}
	models["strings.TrimSpace"] = trim(true, true)
	models["bytes.TrimSpace"] = func(p *Path, c *frame, pos token.Pos, fn *ssa.Function, a []Value) Value {
		sl, _ := a[0].([]Value)
		bs := bytesOf(p, sl)
		lo, hi := 0, len(bs)
		edge := func(b *Term) bool {
			p.requireASCII([]*Term{b}, "bytes.TrimSpace")
			return p.branch(p.isSpaceByte(b), "trim")
		}
		for lo < hi && edge(bs[lo]) {
			lo++
		}
		for hi > lo && edge(bs[hi-1]) {
			hi--
		}
		if lo == hi {
			return []Value(nil)
		}
		return sl[lo:hi]
	}
	models["unicode/utf8.ValidString"] = func(p *Path, c *frame, pos token.Pos, fn *ssa.Function, a []Value) Value {
		return p.utf8Valid(bytesOf(p, a[0]))
	}
	models["unicode/utf8.Valid"] = models["unicode/utf8.ValidString"]

	// ---- errors ----
	models["errors.Is"] = func(p *Path, c *frame, pos token.Pos, fn *ssa.Function, a []Value) Value {
		return p.ts.Bool(p.errorsIs(a[0], a[1], 0))
	}
	models["errors.As"] = func(p *Path, c *frame, pos token.Pos, fn *ssa.Function, a []Value) Value {
		return p.ts.Bool(p.errorsAs(a[0], a[1], 0))
	}

	// ---- encoding/binary (LIA-friendly) ----
	le := func(n int, put bool, appendMode bool) modelFn {
		return func(p *Path, c *frame, pos token.Pos, fn *ssa.Function, a []Value) Value {
			// receiver a[0] is the (empty struct) byte order
			if put {
				b := a[1].([]Value)
				if len(b) < n {
					p.targetPanicStr(fmt.Sprintf("runtime error: index out of range [%d] with length %d", n-1, len(b)))
				}
				v := a[2].(*Term)
				for i := 0; i < n; i++ {
					b[i] = p.extractByte(v, i, n)
				}
				return nil
			}
			b := bytesOf(p, a[1])
			if len(b) < n {
				p.targetPanicStr(fmt.Sprintf("runtime error: index out of range [%d] with length %d", n-1, len(b)))
			}
			return p.composeLE(b[:n], n)
		}
	}
	for _, recv := range []string{"(encoding/binary.littleEndian)"} {
		models[recv+".Uint16"] = le(2, false, false)
		models[recv+".Uint32"] = le(4, false, false)
		models[recv+".Uint64"] = le(8, false, false)
		models[recv+".PutUint16"] = le(2, true, false)
		models[recv+".PutUint32"] = le(4, true, false)
		models[recv+".PutUint64"] = le(8, true, false)
	}

	// ---- runtime odds and ends ----
	models["runtime.Stack"] = func(p *Path, c *frame, pos token.Pos, fn *ssa.Function, a []Value) Value {
		return p.intConst(0, tInt)
	}
	models["runtime/debug.Stack"] = func(p *Path, c *frame, pos token.Pos, fn *ssa.Function, a []Value) Value {
		return sliceOfTerms(p.strBytes(StringV{S: "goroutine 1 [running]:\nstack elided by model\n"}))
	}
	models["runtime.Callers"] = func(p *Path, c *frame, pos token.Pos, fn *ssa.Function, a []Value) Value {
		return p.intConst(0, tInt)
	}
	models["os.Getenv"] = func(p *Path, c *frame, pos token.Pos, fn *ssa.Function, a []Value) Value {
		return StringV{}
	}
	models["os.LookupEnv"] = func(p *Path, c *frame, pos token.Pos, fn *ssa.Function, a []Value) Value {
		return TupleV{StringV{}, p.ts.Bool(false)}
	}
}

// composeLE builds the little-endian integer from n byte terms.
func (p *Path) composeLE(b []*Term, n int) *Term {
	ts := p.ts
	if p.lia {
		// bytes that are exactly the little-endian decomposition of one value v
		// (written by extractByte) recompose to v when v fits n bytes.
		if v := p.sameDecomposition(b, n); v != nil {
			return v
		}
		r := ts.Int64(0)
		for i := n - 1; i >= 0; i-- {
			r = ts.IAdd(ts.IMul(r, ts.Int64(256)), b[i])
		}
		return r
	}
	w := n * 8
	// concat of extracts of one value
	if b[0].Op == OBvExtract && b[0].Lo == 0 && b[0].Args[0].S.W == w {
		v := b[0].Args[0]
		ok := true
		for i := 0; i < n; i++ {
			if !(b[i].Op == OBvExtract && b[i].Args[0] == v && b[i].Lo == 8*i && b[i].Hi == 8*i+7) {
				ok = false
				break
			}
		}
		if ok {
			return v
		}
	}
	r := ts.BV(0, w)
	for i := 0; i < n; i++ {
		r = ts.bvBin(OBvOr, r, ts.bvBin(OBvShl, ts.Zext(b[i], w), ts.BV(uint64(8*i), w)))
	}
	return r
}

func (p *Path) sameDecomposition(b []*Term, n int) *Term {
	var v *Term
	for i := 0; i < n; i++ {
		t := b[i]
		// expect (mod (div v 256^i) 256), with div elided for i == 0
		if t.Op != OMod || !t.Args[1].IsConst() || t.Args[1].I.Cmp(big.NewInt(256)) != 0 {
			return nil
		}
		inner := t.Args[0]
		var base *Term
		if i == 0 {
			base = inner
		} else {
			if inner.Op != ODiv || !inner.Args[1].IsConst() {
				return nil
			}
			d := new(big.Int).Lsh(big.NewInt(1), uint(8*i))
			if inner.Args[1].I.Cmp(d) != 0 {
				return nil
			}
			base = inner.Args[0]
		}
		if v == nil {
			v = base
		} else if v != base {
			return nil
		}
	}
	if v == nil || v.lo == nil || v.hi == nil {
		return nil
	}
	lim := new(big.Int).Lsh(big.NewInt(1), uint(8*n))
	if v.lo.Sign() < 0 || v.hi.Cmp(lim) >= 0 {
		return nil
	}
	return v
}

// extractByte returns byte i of integer v of n bytes.
func (p *Path) extractByte(v *Term, i, n int) *Term {
	ts := p.ts
	if p.lia {
		d := new(big.Int).Lsh(big.NewInt(1), uint(8*i))
		return ts.IMod(ts.IDiv(v, ts.IntBig(d)), ts.Int64(256))
	}
	return ts.Extract(v, 8*i+7, 8*i)
}

// utf8Valid returns a Bool term; symbolic bytes are decided by forking on ASCII-ness.
func (p *Path) utf8Valid(bs []*Term) *Term {
	if allConst(bs) {
		raw := make([]byte, len(bs))
		for i, b := range bs {
			raw[i] = byte(constU(b))
		}
		return p.ts.Bool(utf8ValidBytes(raw))
	}
	// exact automaton over symbolic bytes, path-forking (bounded by string length)
	i := 0
	inR := func(b *Term, lo, hi byte) bool { return p.branch(p.byteInRange(b, lo, hi), "utf8") }
	for i < len(bs) {
		b := bs[i]
		if inR(b, 0x00, 0x7F) {
			i++
			continue
		}
		need := 0
		lo2, hi2 := byte(0x80), byte(0xBF)
		switch {
		case inR(b, 0xC2, 0xDF):
			need = 1
		case inR(b, 0xE0, 0xE0):
			need, lo2 = 2, 0xA0
		case inR(b, 0xE1, 0xEC), inR(b, 0xEE, 0xEF):
			need = 2
		case inR(b, 0xED, 0xED):
			need, hi2 = 2, 0x9F
		case inR(b, 0xF0, 0xF0):
			need, lo2 = 3, 0x90
		case inR(b, 0xF1, 0xF3):
			need = 3
		case inR(b, 0xF4, 0xF4):
			need, hi2 = 3, 0x8F
		default:
			return p.ts.Bool(false)
		}
		if i+need > len(bs)-1 {
			return p.ts.Bool(false)
		}
		if !inR(bs[i+1], lo2, hi2) {
			return p.ts.Bool(false)
		}
		for k := 2; k <= need; k++ {
			if !inR(bs[i+k], 0x80, 0xBF) {
				return p.ts.Bool(false)
			}
		}
		i += need + 1
	}
	return p.ts.Bool(true)
}

func utf8ValidBytes(b []byte) bool { return utf8.Valid(b) }

// ---- errors.Is / errors.As over interpreter values ----

func (p *Path) callMethodByName(recv IfaceV, name string, args ...Value) (Value, bool) {
	if recv.T == nil {
		return nil, false
	}
	var pkg *types.Package
	if n, ok := derefNamed(recv.T); ok {
		pkg = n.Obj().Pkg()
	}
	f := p.eng.prog.LookupMethod(recv.T, pkg, name)
	if f == nil {
		ms := p.eng.prog.MethodSets.MethodSet(recv.T)
		for i := 0; i < ms.Len(); i++ {
			if ms.At(i).Obj().Name() == name {
				f = p.eng.prog.MethodValue(ms.At(i))
				break
			}
		}
	}
	if f == nil {
		return nil, false
	}
	return p.callSSA(nil, token.NoPos, f, append([]Value{recv.V}, args...), nil), true
}

func derefNamed(t types.Type) (*types.Named, bool) {
	if pt, ok := t.(*types.Pointer); ok {
		t = pt.Elem()
	}
	n, ok := t.(*types.Named)
	return n, ok
}

func hasMethod(p *Path, t types.Type, name string) bool {
	ms := p.eng.prog.MethodSets.MethodSet(t)
	for i := 0; i < ms.Len(); i++ {
		if ms.At(i).Obj().Name() == name {
			return true
		}
	}
	return false
}

func (p *Path) errorsIs(errV, targetV Value, depth int) bool {
	err, ok := errV.(IfaceV)
	if !ok {
		p.abortf(abortUnmodelled, "errors.Is on %T", errV)
	}
	target, _ := targetV.(IfaceV)
	if err.T == nil || target.T == nil {
		return err.T == nil && target.T == nil
	}
	if depth > 16 {
		p.abortf(abortBudget, "errors.Is chain deeper than 16")
	}
	if types.Comparable(target.T) && types.Identical(err.T, target.T) {
		if p.branch(p.equals(err.T, err.V, target.V), "errors.Is") {
			return true
		}
	}
	if hasMethod(p, err.T, "Is") {
		if r, ok := p.callMethodByName(err, "Is", target); ok {
			if p.branch(r.(*Term), "errors.Is") {
				return true
			}
		}
	}
	if hasMethod(p, err.T, "Unwrap") {
		r, _ := p.callMethodByName(err, "Unwrap")
		switch r := r.(type) {
		case IfaceV:
			if r.T == nil {
				return false
			}
			return p.errorsIs(r, target, depth+1)
		case []Value:
			for _, e := range r {
				if ei, ok := e.(IfaceV); ok && ei.T != nil {
					if p.errorsIs(ei, target, depth+1) {
						return true
					}
				}
			}
		}
	}
	return false
}

func (p *Path) errorsAs(errV, targetV Value, depth int) bool {
	err, ok := errV.(IfaceV)
	if !ok {
		p.abortf(abortUnmodelled, "errors.As on %T", errV)
	}
	tgt, _ := targetV.(IfaceV)
	if tgt.T == nil {
		p.targetPanicStr("errors: target cannot be nil")
	}
	pt, ok := tgt.T.Underlying().(*types.Pointer)
	if !ok {
		p.targetPanicStr("errors: target must be a non-nil pointer")
	}
	ptr := tgt.V.(*Value)
	if ptr == nil {
		p.targetPanicStr("errors: target must be a non-nil pointer")
	}
	elemT := pt.Elem()
	if err.T == nil {
		return false
	}
	if depth > 16 {
		p.abortf(abortBudget, "errors.As chain deeper than 16")
	}
	if it, isI := elemT.Underlying().(*types.Interface); isI {
		if types.Implements(err.T, it) {
			*ptr = err
			return true
		}
	} else if types.Identical(err.T, elemT) {
		*ptr = copyVal(err.V)
		return true
	}
	if hasMethod(p, err.T, "As") {
		if r, ok := p.callMethodByName(err, "As", tgt); ok {
			if p.branch(r.(*Term), "errors.As") {
				return true
			}
		}
	}
	if hasMethod(p, err.T, "Unwrap") {
		r, _ := p.callMethodByName(err, "Unwrap")
		switch r := r.(type) {
		case IfaceV:
			if r.T == nil {
				return false
			}
			return p.errorsAs(r, tgt, depth+1)
		case []Value:
			for _, e := range r {
				if ei, ok := e.(IfaceV); ok && ei.T != nil {
					if p.errorsAs(ei, tgt, depth+1) {
						return true
					}
				}
			}
		}
	}
	return false
}
