package main

// A happens-before data-race detector for the scheduler mode (//verif:race).
//
// Every thread carries a vector clock. The synchronisation operations the engine
// models are exactly the ones that create happens-before edges: go (parent ->
// child), mutex unlock -> lock, channel send/close -> receive, WaitGroup.Done ->
// Wait, the end of Once.Do's f -> every later Do, and atomic operations on the
// same cell (treated as acquire+release). A load or store of a heap cell by the
// code under test is checked against the last write and the reads since: two
// accesses to the same cell, at least one a write, by different threads and not
// ordered by happens-before, are a data race — in whatever schedule they were
// observed, they may also happen simultaneously. Only races whose two accesses
// are both in the repository's own source are reported (harness ghosts are
// deliberately unsynchronised).

import (
	"fmt"
	"go/token"
	"strings"
)

const maxThreads = 16

type vclock [maxThreads]int

func (a *vclock) join(b *vclock) {
	if b == nil {
		return
	}
	for i := range a {
		if b[i] > a[i] {
			a[i] = b[i]
		}
	}
}

type epoch struct {
	tid, clk int
	pos      token.Pos
}

type memAccess struct {
	w     epoch
	hasW  bool
	reads []epoch
}

type raceState struct {
	vc     []*vclock // per thread
	locks  map[*Value]*vclock
	chans  map[*ChanV]*vclock
	wgs    map[*Value]*vclock
	onces  map[*Value]*vclock
	atoms  map[*Value]*vclock
	mem    map[*Value]*memAccess
	report map[string]bool
}

func (p *Path) raceOn() bool {
	return p.h != nil && p.h.Race && p.sched != nil && len(p.sched.threads) > 1 && !p.sched.finished
}

func (p *Path) rs() *raceState {
	s := p.sched
	if s.race == nil {
		s.race = &raceState{locks: map[*Value]*vclock{}, chans: map[*ChanV]*vclock{}, wgs: map[*Value]*vclock{},
			onces: map[*Value]*vclock{}, atoms: map[*Value]*vclock{}, mem: map[*Value]*memAccess{}, report: map[string]bool{}}
	}
	for len(s.race.vc) < len(s.threads) {
		v := &vclock{}
		v[len(s.race.vc)] = 1
		s.race.vc = append(s.race.vc, v)
	}
	return s.race
}

func (p *Path) myVC() (*raceState, *vclock, int) {
	r := p.rs()
	t := p.sched.cur
	return r, r.vc[t], t
}

// raceSpawn: called by the parent right after the child thread was created.
func (p *Path) raceSpawn(child int) {
	if p.h == nil || !p.h.Race || p.sched == nil {
		return
	}
	r := p.rs()
	parent := p.sched.cur
	*r.vc[child] = *r.vc[parent]
	r.vc[child][child]++
	r.vc[parent][parent]++
}

func (p *Path) raceRelease(m map[*Value]*vclock, key *Value) {
	if !p.raceOn() {
		return
	}
	_, vc, t := p.myVC()
	cp := *vc
	if old := m[key]; old != nil {
		cp.join(old)
	}
	m[key] = &cp
	vc[t]++
}

func (p *Path) raceAcquire(m map[*Value]*vclock, key *Value) {
	if !p.raceOn() {
		return
	}
	_, vc, _ := p.myVC()
	vc.join(m[key])
}

func (p *Path) raceChanRelease(ch *ChanV) {
	if !p.raceOn() {
		return
	}
	r, vc, t := p.myVC()
	cp := *vc
	if old := r.chans[ch]; old != nil {
		cp.join(old)
	}
	r.chans[ch] = &cp
	vc[t]++
}

func (p *Path) raceChanAcquire(ch *ChanV) {
	if !p.raceOn() {
		return
	}
	r, vc, _ := p.myVC()
	vc.join(r.chans[ch])
}

func (p *Path) inRepo(pos token.Pos) bool {
	if !pos.IsValid() {
		return false
	}
	f := p.eng.prog.Fset.Position(pos).Filename
	return strings.HasPrefix(f, "/repo/") && !strings.Contains(f, "zz_verif")
}

func (p *Path) raceReport(cell *Value, a, b epoch, kind string) {
	r := p.sched.race
	if !p.h.RaceAll && (!p.inRepo(a.pos) || !p.inRepo(b.pos)) {
		return
	}
	pa, pb := p.posStr(a.pos), p.posStr(b.pos)
	if pb < pa {
		pa, pb = pb, pa
	}
	label := fmt.Sprintf("data race (%s) between %s and %s", kind, pa, pb)
	if r.report[label] {
		return
	}
	r.report[label] = true
	v := Violation{Label: label, Kind: "race", Detail: fmt.Sprintf("goroutine %d at %s / goroutine %d at %s, not ordered by any synchronisation", a.tid, p.posStr(a.pos), b.tid, p.posStr(b.pos)), Trace: p.trace}
	v.Model = p.modelFor(nil)
	v.raw = p.lastModel
	v.decisions = append([]int{}, p.decisions...)
	p.violations = append(p.violations, v)
}

func (p *Path) raceRead(cell *Value, pos token.Pos) {
	if !p.raceOn() || cell == nil {
		return
	}
	r, vc, t := p.myVC()
	m := r.mem[cell]
	if m == nil {
		m = &memAccess{}
		r.mem[cell] = m
	}
	if m.hasW && m.w.tid != t && m.w.clk > vc[m.w.tid] {
		p.raceReport(cell, m.w, epoch{t, vc[t], pos}, "write/read")
	}
	for i := range m.reads {
		if m.reads[i].tid == t {
			m.reads[i] = epoch{t, vc[t], pos}
			return
		}
	}
	m.reads = append(m.reads, epoch{t, vc[t], pos})
}

func (p *Path) raceWrite(cell *Value, pos token.Pos) {
	if !p.raceOn() || cell == nil {
		return
	}
	r, vc, t := p.myVC()
	m := r.mem[cell]
	if m == nil {
		m = &memAccess{}
		r.mem[cell] = m
	}
	me := epoch{t, vc[t], pos}
	if m.hasW && m.w.tid != t && m.w.clk > vc[m.w.tid] {
		p.raceReport(cell, m.w, me, "write/write")
	}
	for _, rd := range m.reads {
		if rd.tid != t && rd.clk > vc[rd.tid] {
			p.raceReport(cell, rd, me, "read/write")
		}
	}
	m.w, m.hasW, m.reads = me, true, nil
}

// raceAtomic: an atomic operation synchronises with every other atomic operation on the same cell.
func (p *Path) raceAtomic(v Value) {
	if !p.raceOn() {
		return
	}
	cell, ok := v.(*Value)
	if !ok || cell == nil {
		return
	}
	p.raceAcquire(p.rs().atoms, cell)
	p.raceRelease(p.rs().atoms, cell)
}
