package main

import (
	"fmt"
	"go/token"
	"go/types"
	"runtime"
	"strings"
)

type intrinsicFn func(p *Path, caller *frame, pos token.Pos, args []Value) Value

func runtimeStack(buf []byte) int { return runtime.Stack(buf, false) }

func concStr(p *Path, v Value, what string) string {
	s, ok := v.(StringV)
	if !ok {
		p.abortf(abortUnsupported, "%s: expected string, got %T", what, v)
	}
	cs, ok := s.Conc()
	if !ok {
		p.abortf(abortUnsupported, "%s: name must be concrete", what)
	}
	return cs
}

// ndName returns the replay-stable name of the k-th nondet call with this base name.
func (p *Path) ndName(base string) string {
	k := p.nameCount[base]
	p.nameCount[base] = k + 1
	return fmt.Sprintf("%s#%d", base, k)
}

func (p *Path) nondetInt(name string, t types.Type) *Term {
	nm := p.ndName(name)
	var v *Term
	w, signed, _ := intInfo(t)
	if p.lia {
		lo, hi := typeRange(w, signed)
		v = p.ts.IntVarRange(nm, lo, hi)
		p.rangeAssert(v, lo, hi)
	} else {
		v = p.ts.Var(nm, BVSort(w))
	}
	p.nondets = append(p.nondets, NondetRec{Name: nm, Terms: []*Term{v}, Kind: "int", Signed: signed})
	return v
}

func (p *Path) nondetBytes(name string, n int, kind string) []*Term {
	nm := p.ndName(name)
	bs := make([]*Term, n)
	for i := 0; i < n; i++ {
		bn := fmt.Sprintf("%s[%d]", nm, i)
		if p.lia {
			lo, hi := typeRange(8, false)
			bs[i] = p.ts.IntVarRange(bn, lo, hi)
			p.rangeAssert(bs[i], lo, hi)
		} else {
			bs[i] = p.ts.Var(bn, BVSort(8))
		}
	}
	p.nondets = append(p.nondets, NondetRec{Name: nm, Terms: bs, Kind: kind})
	return bs
}

func registerIntrinsics(e *Engine) {
	in := e.intrinsics
	mkInt := func(t types.Type) intrinsicFn {
		return func(p *Path, caller *frame, pos token.Pos, args []Value) Value {
			return p.nondetInt(concStr(p, args[0], "nondet name"), t)
		}
	}
	in["verifNondetInt"] = mkInt(tInt)
	in["verifNondetInt64"] = mkInt(tInt64)
	in["verifNondetInt32"] = mkInt(tInt32)
	in["verifNondetUint64"] = mkInt(tUint64)
	in["verifNondetUint32"] = mkInt(tUint32)
	in["verifNondetUint16"] = mkInt(tUint16)
	in["verifNondetByte"] = mkInt(tUint8)
	in["verifNondetBool"] = func(p *Path, caller *frame, pos token.Pos, args []Value) Value {
		nm := p.ndName(concStr(p, args[0], "nondet name"))
		v := p.ts.Var(nm, BoolSort)
		p.nondets = append(p.nondets, NondetRec{Name: nm, Terms: []*Term{v}, Kind: "bool"})
		return v
	}
	// verifNondetString(name, n): exactly n symbolic bytes
	in["verifNondetString"] = func(p *Path, caller *frame, pos token.Pos, args []Value) Value {
		n := p.mustConcInt(args[1], tInt, 1<<16, "nondet string length", pos)
		bs := p.nondetBytes(concStr(p, args[0], "nondet name"), n, "string")
		if n == 0 {
			return StringV{}
		}
		return StringV{B: bs}
	}
	in["verifNondetBytes"] = func(p *Path, caller *frame, pos token.Pos, args []Value) Value {
		n := p.mustConcInt(args[1], tInt, 1<<16, "nondet bytes length", pos)
		bs := p.nondetBytes(concStr(p, args[0], "nondet name"), n, "bytes")
		out := make([]Value, n)
		for i := range bs {
			out[i] = bs[i]
		}
		return out
	}
	// verifChoice(name, n): symbolic int in [0,n), concretised by forking
	in["verifChoice"] = func(p *Path, caller *frame, pos token.Pos, args []Value) Value {
		n := p.mustConcInt(args[1], tInt, 1<<10, "choice arity", pos)
		if n <= 0 {
			p.abortf(abortInfeasible, "verifChoice over empty range")
		}
		v := p.nondetInt(concStr(p, args[0], "nondet name"), tInt)
		ts := p.ts
		if p.lia {
			p.assume(ts.And(ts.ILe(ts.Int64(0), v), ts.ILt(v, ts.Int64(int64(n)))))
		} else {
			p.assume(ts.bvCmp(OBvUlt, v, ts.BV(uint64(n), 64)))
		}
		i := p.concretize(v, n, tInt, "choice")
		return p.intConst(int64(i), tInt)
	}
	in["verifAssume"] = func(p *Path, caller *frame, pos token.Pos, args []Value) Value {
		p.assume(args[0].(*Term))
		return nil
	}
	in["verifAssert"] = func(p *Path, caller *frame, pos token.Pos, args []Value) Value {
		c := args[0].(*Term)
		label := concStr(p, args[1], "assert label")
		p.assertProp(c, label, pos)
		return nil
	}
	in["verifReach"] = func(p *Path, caller *frame, pos token.Pos, args []Value) Value {
		p.reached[concStr(p, args[0], "reach label")] = true
		return nil
	}
	in["verifTier"] = func(p *Path, caller *frame, pos token.Pos, args []Value) Value {
		if p.eng.tier == "thorough" {
			return p.intConst(1, tInt)
		}
		return p.intConst(0, tInt)
	}
	in["verifSymbolic"] = func(p *Path, caller *frame, pos token.Pos, args []Value) Value {
		return p.ts.Bool(true)
	}
	// verifConcretizeInt(v, n): fork v over [0,n); values outside are cut (outside bound)
	in["verifConcretize"] = func(p *Path, caller *frame, pos token.Pos, args []Value) Value {
		n := p.mustConcInt(args[1], tInt, 1<<10, "concretize arity", pos)
		v := args[0].(*Term)
		i := p.concretize(v, n, tInt, "concretize")
		if i < 0 {
			p.abortf(abortOutOfBound, "verifConcretize: value outside [0,%d)", n)
		}
		return p.intConst(int64(i), tInt)
	}
	in["verifOverflowed"] = func(p *Path, caller *frame, pos token.Pos, args []Value) Value {
		return p.ts.Bool(len(p.overflows) > 0)
	}
	// verifUnmodelled(msg): the environment model has no answer for what the code
	// under test just asked of it — the path is inconclusive, never a finding
	in["verifUnmodelled"] = func(p *Path, caller *frame, pos token.Pos, args []Value) Value {
		p.abortf(abortUnmodelled, "environment model: %s", concStr(p, args[0], "unmodelled"))
		return nil
	}
	in["verifTrace"] = func(p *Path, caller *frame, pos token.Pos, args []Value) Value {
		p.tracef("%s", concStr(p, args[0], "trace"))
		return nil
	}
	// verifIsConcrete(x int) bool: true when the engine holds a constant
	in["verifYield"] = func(p *Path, caller *frame, pos token.Pos, args []Value) Value {
		p.yield("yield")
		return nil
	}
	// verifInSet(c byte, ranges string) bool: c lies in one of the [lo,hi] byte pairs
	// of the concrete ranges string; one Boolean term, no forking.
	in["verifInSet"] = func(p *Path, caller *frame, pos token.Pos, args []Value) Value {
		rs := concStr(p, args[1], "verifInSet ranges")
		if len(rs)%2 != 0 {
			p.abortf(abortUnsupported, "verifInSet: ranges string must have even length")
		}
		c := args[0].(*Term)
		out := p.ts.Bool(false)
		for i := 0; i+1 < len(rs); i += 2 {
			if rs[i] == rs[i+1] {
				out = p.ts.Or(out, p.byteEq(c, p.byteConst(rs[i])))
			} else {
				out = p.ts.Or(out, p.byteInRange(c, rs[i], rs[i+1]))
			}
		}
		return out
	}
	// verifAllInSet(s string, ranges string) bool: every byte of s in the set; no forking
	in["verifAllInSet"] = func(p *Path, caller *frame, pos token.Pos, args []Value) Value {
		rs := concStr(p, args[1], "verifAllInSet ranges")
		s := args[0].(StringV)
		all := p.ts.Bool(true)
		for _, c := range p.strBytes(s) {
			one := p.ts.Bool(false)
			for i := 0; i+1 < len(rs); i += 2 {
				if rs[i] == rs[i+1] {
					one = p.ts.Or(one, p.byteEq(c, p.byteConst(rs[i])))
				} else {
					one = p.ts.Or(one, p.byteInRange(c, rs[i], rs[i+1]))
				}
			}
			all = p.ts.And(all, one)
		}
		return all
	}
	// verifOpaqueBytes(n): a byte slice of (possibly symbolic) length n whose
	// content is never observed (len() works; indexing/iterating aborts the path)
	in["verifOpaqueBytes"] = func(p *Path, caller *frame, pos token.Pos, args []Value) Value {
		n := args[0].(*Term)
		if p.lia {
			p.assume(p.ts.ILe(p.ts.Int64(0), n))
		}
		return &AbsBytes{Len: n, Name: "opaque"}
	}
	// verifSetField(ptr, "a.b.c", v): stores v into the (possibly unexported, possibly
	// foreign-package) field reached from *ptr by the dotted path. Lets a harness
	// build objects of library types whose constructors are out of the engine's
	// reach (arrow arrays: unsafe-backed buffers) while the library's own accessors
	// run as written.
	in["verifSetField"] = func(p *Path, caller *frame, pos token.Pos, args []Value) Value {
		iv, ok := args[0].(IfaceV)
		if !ok || iv.T == nil {
			p.abortf(abortUnsupported, "verifSetField: nil object")
		}
		cur, ok := iv.V.(*Value)
		if !ok || cur == nil {
			p.abortf(abortUnsupported, "verifSetField: object is not a pointer (%T)", iv.V)
		}
		pt, ok := iv.T.Underlying().(*types.Pointer)
		if !ok {
			p.abortf(abortUnsupported, "verifSetField: %s is not a pointer type", iv.T)
		}
		t := pt.Elem()
		for _, name := range strings.Split(concStr(p, args[1], "verifSetField path"), ".") {
			st, ok := t.Underlying().(*types.Struct)
			if !ok {
				p.abortf(abortUnsupported, "verifSetField: %s is not a struct", t)
			}
			sv, ok := (*cur).(StructV)
			if !ok {
				p.abortf(abortUnsupported, "verifSetField: storage holds %T", *cur)
			}
			idx := -1
			for i := 0; i < st.NumFields(); i++ {
				if st.Field(i).Name() == name {
					idx = i
				}
			}
			if idx < 0 {
				p.abortf(abortUnsupported, "verifSetField: %s has no field %s", t, name)
			}
			cur, t = &sv[idx], st.Field(idx).Type()
		}
		val := args[2]
		if vi, isI := val.(IfaceV); isI && !types.IsInterface(t) {
			val = vi.V
		}
		*cur = copyVal(val)
		return nil
	}
	// verifRunUntilBlocked(f): runs f as if on its own goroutine until it either
	// returns (false) or parks forever on a channel operation that cannot
	// proceed (true). A parked activation keeps every mutex it holds; its
	// deferred calls do not run.
	in["verifRunUntilBlocked"] = func(p *Path, caller *frame, pos token.Pos, args []Value) (res Value) {
		depth := p.depth
		p.suspendable++
		defer func() {
			p.suspendable--
			if r := recover(); r != nil {
				if _, ok := r.(suspendSignal); ok {
					p.depth = depth
					res = p.ts.Bool(true)
					return
				}
				panic(r)
			}
		}()
		p.call(caller, pos, args[0], nil)
		return p.ts.Bool(false)
	}
	// taint
	in["verifTaintString"] = func(p *Path, caller *frame, pos token.Pos, args []Value) Value {
		s := args[0].(StringV)
		for _, b := range s.B {
			b.taint |= 1
		}
		return s
	}
	in["verifStringTainted"] = func(p *Path, caller *frame, pos token.Pos, args []Value) Value {
		s := args[0].(StringV)
		for _, b := range s.B {
			if b.taint != 0 {
				return p.ts.Bool(true)
			}
		}
		return p.ts.Bool(false)
	}
}

// assertProp checks that c holds on every input reaching this point on this path.
func (p *Path) assertProp(c *Term, label string, pos token.Pos) {
	p.asserts++
	if c.IsTrue() {
		p.proven++
		return
	}
	neg := p.ts.Not(c)
	if p.concModel != nil {
		if p.evalBool(neg) {
			p.violations = append(p.violations, Violation{Label: label, Kind: "assert", Pos: p.posStr(pos), Model: p.renderModel(p.concModel), Trace: p.trace})
			p.abortf(abortInfeasible, "concrete replay: assertion %q fails", label)
		}
		p.proven++
		return
	}
	var res string
	var m Model
	if neg.IsTrue() {
		res, m = p.solver.Check(nil, true, p.ts.Vars)
	} else {
		res, m = p.solver.Check(neg, true, p.ts.Vars)
	}
	switch res {
	case "unsat":
		p.proven++
		return
	case "sat":
		v := Violation{Label: label, Kind: "assert", Pos: p.posStr(pos), Model: p.renderModel(m), Trace: append([]string{}, p.trace...)}
		v.raw = m
		v.decisions = append([]int{}, p.decisions...)
		p.violations = append(p.violations, v)
		// continue on the part of the path where the assertion holds
		p.assume(c)
	default:
		p.unknownAs++
		p.tracef("assert %q: solver answered %s", label, res)
	}
}
