package main

// Models for package time (UTC only; monotonic readings abstracted away) and for
// sync / sync/atomic under the cooperative scheduler.

import (
	"fmt"
	"go/token"
	"go/types"
	"math/big"
	"time"

	"golang.org/x/tools/go/ssa"
)

const zeroTimeSec = -62135596800 // 0001-01-01T00:00:00Z as Unix seconds

// ---- 64-bit integer helpers valid in both encodings ----

func (p *Path) i64(v int64) *Term { return p.intConst(v, tInt64) }

func (p *Path) iadd(a, b *Term) *Term {
	if p.lia {
		return p.ts.IAdd(a, b)
	}
	return p.ts.bvBin(OBvAdd, a, b)
}
func (p *Path) isub(a, b *Term) *Term {
	if p.lia {
		return p.ts.ISub(a, b)
	}
	return p.ts.bvBin(OBvSub, a, b)
}
func (p *Path) imulc(a *Term, c int64) *Term {
	if p.lia {
		return p.ts.IMul(a, p.ts.Int64(c))
	}
	return p.ts.bvBin(OBvMul, a, p.ts.BV(uint64(c), a.S.W))
}
func (p *Path) ilt(a, b *Term) *Term {
	if p.lia {
		return p.ts.ILt(a, b)
	}
	return p.ts.bvCmp(OBvSlt, a, b)
}
func (p *Path) ile(a, b *Term) *Term {
	if p.lia {
		return p.ts.ILe(a, b)
	}
	return p.ts.bvCmp(OBvSle, a, b)
}

// floor division / modulus by a positive constant
func (p *Path) ifloordiv(a *Term, c int64) *Term {
	if p.lia {
		return p.ts.IDiv(a, p.ts.Int64(c))
	}
	ts := p.ts
	w := a.S.W
	cc := ts.BV(uint64(c), w)
	q := ts.bvBin(OBvSdiv, a, cc)
	r := ts.bvBin(OBvSrem, a, cc)
	adj := ts.And(ts.bvCmp(OBvSlt, r, ts.BV(0, w)), ts.Bool(true))
	return ts.Ite(adj, ts.bvBin(OBvSub, q, ts.BV(1, w)), q)
}
func (p *Path) ifloormod(a *Term, c int64) *Term {
	if p.lia {
		return p.ts.IMod(a, p.ts.Int64(c))
	}
	ts := p.ts
	w := a.S.W
	cc := ts.BV(uint64(c), w)
	r := ts.bvBin(OBvSrem, a, cc)
	return ts.Ite(ts.bvCmp(OBvSlt, r, ts.BV(0, w)), ts.bvBin(OBvAdd, r, cc), r)
}

func (p *Path) mkTime(sec, nsec *Term) TimeV { return TimeV{Sec: sec, Nsec: nsec} }

func (p *Path) zeroTime() TimeV { return TimeV{Sec: p.i64(zeroTimeSec), Nsec: p.i64(0)} }

func (p *Path) concTime(t TimeV) (time.Time, bool) {
	if t.Sec.IsConst() && t.Nsec.IsConst() {
		return time.Unix(constI(t.Sec), constI(t.Nsec)).UTC(), true
	}
	return time.Time{}, false
}

func timeArg(p *Path, v Value) TimeV {
	switch v := v.(type) {
	case TimeV:
		if v.Sec == nil {
			return p.zeroTime()
		}
		return v
	case *Value:
		if v == nil {
			p.targetPanicStr("runtime error: invalid memory address or nil pointer dereference")
		}
		return timeArg(p, *v)
	case Poison:
		p.abortf(abortUnmodelled, "time operation on poisoned value (%s)", v.Why)
	}
	p.abortf(abortUnsupported, "time value is %T", v)
	return TimeV{}
}

// timeNormalize builds a Time from seconds and an arbitrary nanosecond count.
func (p *Path) timeNormalize(sec, nsec *Term) TimeV {
	return TimeV{Sec: p.iadd(sec, p.ifloordiv(nsec, 1e9)), Nsec: p.ifloormod(nsec, 1e9)}
}

func (p *Path) timeLess(a, b TimeV) *Term {
	ts := p.ts
	return ts.Or(p.ilt(a.Sec, b.Sec), ts.And(ts.Eq(a.Sec, b.Sec), p.ilt(a.Nsec, b.Nsec)))
}

// timeSub returns a-b as a saturating int64 Duration.
func (p *Path) timeSub(a, b TimeV) *Term {
	ts := p.ts
	if p.lia {
		d := ts.IAdd(ts.IMul(ts.ISub(a.Sec, b.Sec), ts.Int64(1e9)), ts.ISub(a.Nsec, b.Nsec))
		lo, hi := typeRange(64, true)
		d = ts.Ite(ts.ILt(d, ts.IntBig(lo)), ts.IntBig(lo), ts.Ite(ts.ILt(ts.IntBig(hi), d), ts.IntBig(hi), d))
		d.lo, d.hi = lo, hi
		return d
	}
	// BV: assume no saturation for |a-b| < 292 years (stated assumption); compute wrapped
	return ts.bvBin(OBvAdd, ts.bvBin(OBvMul, ts.bvBin(OBvSub, a.Sec, b.Sec), ts.BV(1e9, 64)), ts.bvBin(OBvSub, a.Nsec, b.Nsec))
}

// now returns the next reading of the symbolic, non-decreasing clock.
func (p *Path) now() TimeV {
	sec := p.nondetInt("time.Now.sec", tInt64)
	nsec := p.nondetInt("time.Now.nsec", tInt64)
	ts := p.ts
	p.assume(ts.And(p.ile(p.i64(0), nsec), p.ilt(nsec, p.i64(1e9))))
	// plausible wall clock: 1970..2200 keeps every downstream product inside int64
	p.assume(ts.And(p.ile(p.i64(0), sec), p.ilt(sec, p.i64(7258118400))))
	t := TimeV{Sec: sec, Nsec: nsec}
	if p.lastNow != nil {
		p.assume(ts.Not(p.timeLess(t, *p.lastNow)))
	}
	p.lastNow = &t
	return t
}

// nowOrStub reads the clock for time.Since/time.Until: the harness's time.Now stub
// when one is installed, the symbolic non-decreasing clock otherwise.
func (p *Path) nowOrStub(pos token.Pos) TimeV {
	if p.h != nil {
		if stub, ok := p.h.Stubs["time.Now"]; ok {
			return timeArg(p, p.callSSA(nil, pos, stub, nil, nil))
		}
	}
	return p.now()
}

func init() {
	M := func(name string, f func(p *Path, a []Value, pos token.Pos) Value) {
		models[name] = func(p *Path, c *frame, pos token.Pos, fn *ssa.Function, a []Value) Value { return f(p, a, pos) }
	}
	M("time.Now", func(p *Path, a []Value, pos token.Pos) Value { return p.now() })
	M("time.Unix", func(p *Path, a []Value, pos token.Pos) Value {
		return p.timeNormalize(a[0].(*Term), a[1].(*Term))
	})
	M("time.UnixMicro", func(p *Path, a []Value, pos token.Pos) Value {
		us := a[0].(*Term)
		return TimeV{Sec: p.ifloordiv(us, 1e6), Nsec: p.imulc(p.ifloormod(us, 1e6), 1000)}
	})
	M("time.UnixMilli", func(p *Path, a []Value, pos token.Pos) Value {
		ms := a[0].(*Term)
		return TimeV{Sec: p.ifloordiv(ms, 1e3), Nsec: p.imulc(p.ifloormod(ms, 1e3), 1e6)}
	})
	M("(time.Time).Unix", func(p *Path, a []Value, pos token.Pos) Value { return timeArg(p, a[0]).Sec })
	wrap64 := func(p *Path, t *Term, pos token.Pos, what string) *Term {
		if p.lia {
			return p.wrapLIA(t, tInt64, pos, what)
		}
		return t
	}
	M("(time.Time).UnixNano", func(p *Path, a []Value, pos token.Pos) Value {
		t := timeArg(p, a[0])
		return wrap64(p, p.iadd(p.imulc(t.Sec, 1e9), t.Nsec), pos, "Time.UnixNano")
	})
	M("(time.Time).UnixMicro", func(p *Path, a []Value, pos token.Pos) Value {
		t := timeArg(p, a[0])
		return wrap64(p, p.iadd(p.imulc(t.Sec, 1e6), p.ifloordiv(t.Nsec, 1000)), pos, "Time.UnixMicro")
	})
	M("(time.Time).UnixMilli", func(p *Path, a []Value, pos token.Pos) Value {
		t := timeArg(p, a[0])
		return wrap64(p, p.iadd(p.imulc(t.Sec, 1e3), p.ifloordiv(t.Nsec, 1e6)), pos, "Time.UnixMilli")
	})
	M("(time.Time).Nanosecond", func(p *Path, a []Value, pos token.Pos) Value { return timeArg(p, a[0]).Nsec })
	ident := func(p *Path, a []Value, pos token.Pos) Value { return timeArg(p, a[0]) }
	M("(time.Time).UTC", ident)
	M("(time.Time).Local", ident)
	M("(time.Time).In", ident)
	M("(time.Time).Round", func(p *Path, a []Value, pos token.Pos) Value {
		d := a[1].(*Term)
		if d.IsConst() && constI(d) <= 0 {
			return timeArg(p, a[0])
		}
		p.abortf(abortUnsupported, "Time.Round with positive duration")
		return nil
	})
	M("(time.Time).Truncate", func(p *Path, a []Value, pos token.Pos) Value {
		d := a[1].(*Term)
		t := timeArg(p, a[0])
		if d.IsConst() {
			dv := constI(d)
			if dv <= 0 {
				return t
			}
			if dv < 1e9 && 1e9%dv == 0 {
				return TimeV{Sec: t.Sec, Nsec: p.isub(t.Nsec, p.ifloormod(t.Nsec, dv))}
			}
			if dv%1e9 == 0 && 86400%(dv/1e9) == 0 {
				// absolute time since year 1 is a multiple of 86400 away from the Unix epoch
				return TimeV{Sec: p.isub(t.Sec, p.ifloormod(t.Sec, dv/1e9)), Nsec: p.i64(0)}
			}
		}
		p.abortf(abortUnsupported, "Time.Truncate with this duration")
		return nil
	})
	M("(time.Time).IsZero", func(p *Path, a []Value, pos token.Pos) Value {
		t := timeArg(p, a[0])
		return p.ts.And(p.ts.Eq(t.Sec, p.i64(zeroTimeSec)), p.ts.Eq(t.Nsec, p.i64(0)))
	})
	M("(time.Time).Add", func(p *Path, a []Value, pos token.Pos) Value {
		t := timeArg(p, a[0])
		d := a[1].(*Term)
		return p.timeNormalize(t.Sec, p.iadd(t.Nsec, d))
	})
	M("(time.Time).Sub", func(p *Path, a []Value, pos token.Pos) Value {
		return p.timeSub(timeArg(p, a[0]), timeArg(p, a[1]))
	})
	M("time.Since", func(p *Path, a []Value, pos token.Pos) Value {
		return p.timeSub(p.nowOrStub(pos), timeArg(p, a[0]))
	})
	M("time.Until", func(p *Path, a []Value, pos token.Pos) Value {
		return p.timeSub(timeArg(p, a[0]), p.nowOrStub(pos))
	})
	M("(time.Time).After", func(p *Path, a []Value, pos token.Pos) Value {
		return p.timeLess(timeArg(p, a[1]), timeArg(p, a[0]))
	})
	M("(time.Time).Before", func(p *Path, a []Value, pos token.Pos) Value {
		return p.timeLess(timeArg(p, a[0]), timeArg(p, a[1]))
	})
	M("(time.Time).Equal", func(p *Path, a []Value, pos token.Pos) Value {
		x, y := timeArg(p, a[0]), timeArg(p, a[1])
		return p.ts.And(p.ts.Eq(x.Sec, y.Sec), p.ts.Eq(x.Nsec, y.Nsec))
	})
	M("(time.Time).Compare", func(p *Path, a []Value, pos token.Pos) Value {
		x, y := timeArg(p, a[0]), timeArg(p, a[1])
		return p.ts.Ite(p.timeLess(x, y), p.intConst(-1, tInt), p.ts.Ite(p.timeLess(y, x), p.intConst(1, tInt), p.intConst(0, tInt)))
	})
	M("(time.Time).Clock", func(p *Path, a []Value, pos token.Pos) Value {
		t := timeArg(p, a[0])
		sod := p.ifloormod(t.Sec, 86400)
		h := p.ifloordiv(sod, 3600)
		m := p.ifloordiv(p.ifloormod(sod, 3600), 60)
		s := p.ifloormod(sod, 60)
		return TupleV{h, m, s}
	})
	M("(time.Time).Hour", func(p *Path, a []Value, pos token.Pos) Value {
		t := timeArg(p, a[0])
		return p.ifloordiv(p.ifloormod(t.Sec, 86400), 3600)
	})
	M("(time.Time).Minute", func(p *Path, a []Value, pos token.Pos) Value {
		t := timeArg(p, a[0])
		return p.ifloordiv(p.ifloormod(p.ifloormod(t.Sec, 86400), 3600), 60)
	})
	M("(time.Time).Second", func(p *Path, a []Value, pos token.Pos) Value {
		t := timeArg(p, a[0])
		return p.ifloormod(t.Sec, 60)
	})
	M("(time.Time).Location", func(p *Path, a []Value, pos token.Pos) Value { return (*Value)(nil) })
	M("time.Date", func(p *Path, a []Value, pos token.Pos) Value {
		var v [7]int
		for i := 0; i < 7; i++ {
			t, ok := a[i].(*Term)
			if !ok || !t.IsConst() {
				p.abortf(abortUnsupported, "time.Date with symbolic component %d", i)
			}
			v[i] = int(constI(t))
		}
		tt := time.Date(v[0], time.Month(v[1]), v[2], v[3], v[4], v[5], v[6], time.UTC)
		return TimeV{Sec: p.i64(tt.Unix()), Nsec: p.i64(int64(tt.Nanosecond()))}
	})
	M("(time.Time).AddDate", func(p *Path, a []Value, pos token.Pos) Value {
		t := timeArg(p, a[0])
		y, m, d := a[1].(*Term), a[2].(*Term), a[3].(*Term)
		if y.IsConst() && m.IsConst() && constI(y) == 0 && constI(m) == 0 {
			// pure day arithmetic: +86400*d seconds (UTC has no DST)
			return TimeV{Sec: p.iadd(t.Sec, p.imulc(d, 86400)), Nsec: t.Nsec}
		}
		if ct, ok := p.concTime(t); ok && y.IsConst() && m.IsConst() && d.IsConst() {
			r := ct.AddDate(int(constI(y)), int(constI(m)), int(constI(d)))
			return TimeV{Sec: p.i64(r.Unix()), Nsec: p.i64(int64(r.Nanosecond()))}
		}
		p.abortf(abortUnsupported, "Time.AddDate with symbolic year/month")
		return nil
	})
	concOnly := func(name string, f func(t time.Time, p *Path) Value) {
		M(name, func(p *Path, a []Value, pos token.Pos) Value {
			ct, ok := p.concTime(timeArg(p, a[0]))
			if !ok {
				p.abortf(abortUnsupported, "%s on a symbolic instant", name)
			}
			return f(ct, p)
		})
	}
	concOnly("(time.Time).Year", func(t time.Time, p *Path) Value { return p.intConst(int64(t.Year()), tInt) })
	concOnly("(time.Time).Month", func(t time.Time, p *Path) Value { return p.intConst(int64(t.Month()), tInt) })
	concOnly("(time.Time).Day", func(t time.Time, p *Path) Value { return p.intConst(int64(t.Day()), tInt) })
	concOnly("(time.Time).YearDay", func(t time.Time, p *Path) Value { return p.intConst(int64(t.YearDay()), tInt) })
	concOnly("(time.Time).Weekday", func(t time.Time, p *Path) Value { return p.intConst(int64(t.Weekday()), tInt) })
	concOnly("(time.Time).Date", func(t time.Time, p *Path) Value {
		y, m, d := t.Date()
		return TupleV{p.intConst(int64(y), tInt), p.intConst(int64(m), tInt), p.intConst(int64(d), tInt)}
	})
	M("(time.Time).Format", func(p *Path, a []Value, pos token.Pos) Value {
		layout := concStr(p, a[1], "time layout")
		if ct, ok := p.concTime(timeArg(p, a[0])); ok {
			return StringV{S: ct.Format(layout)}
		}
		return StringV{S: "<symbolic-time>"}
	})
	M("(time.Time).String", func(p *Path, a []Value, pos token.Pos) Value {
		if ct, ok := p.concTime(timeArg(p, a[0])); ok {
			return StringV{S: ct.String()}
		}
		return StringV{S: "<symbolic-time>"}
	})
	M("(time.Time).MarshalJSON", func(p *Path, a []Value, pos token.Pos) Value {
		return TupleV{sliceOfTerms(p.strBytes(StringV{S: "\"<time>\""})), IfaceV{}}
	})
	M("time.Sleep", func(p *Path, a []Value, pos token.Pos) Value { p.yield("sleep"); return nil })
	M("(time.Duration).String", func(p *Path, a []Value, pos token.Pos) Value {
		d := a[0].(*Term)
		if d.IsConst() {
			return StringV{S: time.Duration(constI(d)).String()}
		}
		return StringV{S: "<symbolic-duration>"}
	})
	M("(time.Duration).Seconds", func(p *Path, a []Value, pos token.Pos) Value {
		d := a[0].(*Term)
		if d.IsConst() {
			return FloatV{time.Duration(constI(d)).Seconds(), 64}
		}
		p.abortf(abortUnsupported, "Duration.Seconds (float) of a symbolic duration")
		return nil
	})

	// ---- sync ----
	M("(*sync.Mutex).Lock", func(p *Path, a []Value, pos token.Pos) Value { p.lock(a[0].(*Value), false, pos); return nil })
	M("(*sync.Mutex).Unlock", func(p *Path, a []Value, pos token.Pos) Value { p.unlock(a[0].(*Value), false); return nil })
	M("(*sync.Mutex).TryLock", func(p *Path, a []Value, pos token.Pos) Value {
		m := a[0].(*Value)
		if p.locks[m] != 0 {
			return p.ts.Bool(false)
		}
		p.locks[m] = -1
		return p.ts.Bool(true)
	})
	M("(*sync.RWMutex).Lock", func(p *Path, a []Value, pos token.Pos) Value { p.lock(a[0].(*Value), false, pos); return nil })
	M("(*sync.RWMutex).Unlock", func(p *Path, a []Value, pos token.Pos) Value { p.unlock(a[0].(*Value), false); return nil })
	M("(*sync.RWMutex).RLock", func(p *Path, a []Value, pos token.Pos) Value { p.lock(a[0].(*Value), true, pos); return nil })
	M("(*sync.RWMutex).RUnlock", func(p *Path, a []Value, pos token.Pos) Value { p.unlock(a[0].(*Value), true); return nil })
	M("(*sync.Once).Do", func(p *Path, a []Value, pos token.Pos) Value {
		o := a[0].(*Value)
		p.yield("once")
		if p.onceDone[o] {
			if p.raceOn() {
				p.raceAcquire(p.rs().onces, o)
			}
			return nil
		}
		if p.onceRunning[o] {
			// another goroutine is inside f: Do returns only after f has returned
			p.waitUntil(func() bool { return p.onceDone[o] }, "sync.Once.Do", pos)
			if p.raceOn() {
				p.raceAcquire(p.rs().onces, o)
			}
			return nil
		}
		if p.multi() {
			p.onceRunning[o] = true
			func() {
				// Go marks the Once done even when f panics
				defer func() {
					if p.raceOn() {
						p.raceRelease(p.rs().onces, o)
					}
					p.onceDone[o] = true
					delete(p.onceRunning, o)
				}()
				p.call(nil, pos, a[1], nil)
			}()
			return nil
		}
		p.onceDone[o] = true
		p.call(nil, pos, a[1], nil)
		return nil
	})
	M("(*sync.WaitGroup).Add", func(p *Path, a []Value, pos token.Pos) Value {
		w := a[0].(*Value)
		d := a[1].(*Term)
		if !d.IsConst() {
			p.abortf(abortUnsupported, "WaitGroup.Add with symbolic delta")
		}
		p.wgCount[w] += int(constI(d))
		if p.wgCount[w] < 0 {
			p.targetPanicStr("sync: negative WaitGroup counter")
		}
		return nil
	})
	M("(*sync.WaitGroup).Done", func(p *Path, a []Value, pos token.Pos) Value {
		w := a[0].(*Value)
		if p.raceOn() {
			p.raceRelease(p.rs().wgs, w)
		}
		p.wgCount[w]--
		if p.wgCount[w] < 0 {
			p.targetPanicStr("sync: negative WaitGroup counter")
		}
		return nil
	})
	M("(*sync.WaitGroup).Wait", func(p *Path, a []Value, pos token.Pos) Value {
		w := a[0].(*Value)
		p.waitUntil(func() bool { return p.wgCount[w] == 0 }, "WaitGroup.Wait", pos)
		if p.raceOn() {
			p.raceAcquire(p.rs().wgs, w)
		}
		return nil
	})
	M("(*sync.WaitGroup).Go", func(p *Path, a []Value, pos token.Pos) Value {
		p.abortf(abortUnsupported, "WaitGroup.Go")
		return nil
	})
	M("(*sync.Pool).Get", func(p *Path, a []Value, pos token.Pos) Value {
		pool := a[0].(*Value)
		st := (*pool).(StructV)
		newFn := st[len(st)-1]
		if isNilFunc(newFn) {
			return IfaceV{}
		}
		return p.call(nil, pos, newFn, nil)
	})
	M("(*sync.Pool).Put", func(p *Path, a []Value, pos token.Pos) Value { return nil })
	// sync.Map as an association list keyed by interface values
	syncMap := func(p *Path, v Value) *MapV {
		ptr := v.(*Value)
		m := p.syncMaps[ptr]
		if m == nil {
			m = newMap(nil, nil)
			p.syncMaps[ptr] = m
		}
		return m
	}
	M("(*sync.Map).Load", func(p *Path, a []Value, pos token.Pos) Value {
		m := syncMap(p, a[0])
		if i := p.mapFind(m, a[1]); i >= 0 {
			return TupleV{m.Vals[i], p.ts.Bool(true)}
		}
		return TupleV{IfaceV{}, p.ts.Bool(false)}
	})
	M("(*sync.Map).Store", func(p *Path, a []Value, pos token.Pos) Value {
		p.mapSet(syncMap(p, a[0]), a[1], a[2])
		return nil
	})
	M("(*sync.Map).LoadOrStore", func(p *Path, a []Value, pos token.Pos) Value {
		m := syncMap(p, a[0])
		if i := p.mapFind(m, a[1]); i >= 0 {
			return TupleV{m.Vals[i], p.ts.Bool(true)}
		}
		p.mapSet(m, a[1], a[2])
		return TupleV{a[2], p.ts.Bool(false)}
	})
	M("(*sync.Map).LoadAndDelete", func(p *Path, a []Value, pos token.Pos) Value {
		m := syncMap(p, a[0])
		if i := p.mapFind(m, a[1]); i >= 0 {
			v := m.Vals[i]
			p.mapDelete(m, a[1])
			return TupleV{v, p.ts.Bool(true)}
		}
		return TupleV{IfaceV{}, p.ts.Bool(false)}
	})
	M("(*sync.Map).Delete", func(p *Path, a []Value, pos token.Pos) Value {
		p.mapDelete(syncMap(p, a[0]), a[1])
		return nil
	})
	M("(*sync.Map).Range", func(p *Path, a []Value, pos token.Pos) Value {
		m := syncMap(p, a[0])
		keys := append([]Value{}, m.Keys...)
		vals := append([]Value{}, m.Vals...)
		for i := range keys {
			r := p.call(nil, pos, a[1], []Value{keys[i], vals[i]})
			if !p.branch(r.(*Term), "syncmap-range") {
				break
			}
		}
		return nil
	})

	// ---- sync/atomic ----
	for _, ty := range []string{"Int32", "Int64", "Uint32", "Uint64", "Uintptr", "Pointer"} {
		ty := ty
		var gt types.Type
		switch ty {
		case "Int32":
			gt = tInt32
		case "Int64":
			gt = tInt64
		case "Uint32":
			gt = tUint32
		case "Uint64", "Uintptr":
			gt = tUint64
		}
		M("sync/atomic.Load"+ty, func(p *Path, a []Value, pos token.Pos) Value {
			p.yield("atomic")
			p.raceAtomic(a[0])
			return copyVal(*derefPtr(p, a[0]))
		})
		M("sync/atomic.Store"+ty, func(p *Path, a []Value, pos token.Pos) Value {
			p.yield("atomic")
			p.raceAtomic(a[0])
			*derefPtr(p, a[0]) = a[1]
			return nil
		})
		M("sync/atomic.Swap"+ty, func(p *Path, a []Value, pos token.Pos) Value {
			p.yield("atomic")
			p.raceAtomic(a[0])
			ptr := derefPtr(p, a[0])
			old := *ptr
			*ptr = a[1]
			return old
		})
		M("sync/atomic.CompareAndSwap"+ty, func(p *Path, a []Value, pos token.Pos) Value {
			p.yield("atomic")
			p.raceAtomic(a[0])
			ptr := derefPtr(p, a[0])
			eq := p.equals(gt, *ptr, a[1])
			if p.branch(eq, "cas") {
				*ptr = a[2]
				return p.ts.Bool(true)
			}
			return p.ts.Bool(false)
		})
		if gt != nil {
			M("sync/atomic.Add"+ty, func(p *Path, a []Value, pos token.Pos) Value {
				p.yield("atomic")
			p.raceAtomic(a[0])
				ptr := derefPtr(p, a[0])
				nv := p.binop(token.ADD, gt, *ptr, a[1], gt, pos)
				*ptr = nv
				return nv
			})
			M("sync/atomic.And"+ty, func(p *Path, a []Value, pos token.Pos) Value {
				ptr := derefPtr(p, a[0])
				old := *ptr
				*ptr = p.binop(token.AND, gt, *ptr, a[1], gt, pos)
				return old
			})
			M("sync/atomic.Or"+ty, func(p *Path, a []Value, pos token.Pos) Value {
				ptr := derefPtr(p, a[0])
				old := *ptr
				*ptr = p.binop(token.OR, gt, *ptr, a[1], gt, pos)
				return old
			})
		}
	}
	// atomic.Value: keep the stored interface in a side table
	M("(*sync/atomic.Value).Load", func(p *Path, a []Value, pos token.Pos) Value {
		if v, ok := p.atomicVals[a[0].(*Value)]; ok {
			return v
		}
		return IfaceV{}
	})
	M("(*sync/atomic.Value).Store", func(p *Path, a []Value, pos token.Pos) Value {
		p.atomicVals[a[0].(*Value)] = a[1]
		return nil
	})
	M("sync.runtime_registerPoolCleanup", func(p *Path, a []Value, pos token.Pos) Value { return nil })
	M("sync.OnceFunc", nil)
	delete(models, "sync.OnceFunc")
}

func derefPtr(p *Path, v Value) *Value {
	ptr, ok := v.(*Value)
	if !ok {
		p.abortf(abortUnsupported, "atomic op on %T", v)
	}
	if ptr == nil {
		p.targetPanicStr("runtime error: invalid memory address or nil pointer dereference")
	}
	return ptr
}

// lock state: 0 free, -1 write-locked, n>0 read-locked n times
func (p *Path) lock(m *Value, read bool, pos token.Pos) {
	if m == nil {
		p.targetPanicStr("runtime error: invalid memory address or nil pointer dereference")
	}
	p.yield("lock")
	can := func() bool {
		if read {
			return p.locks[m] >= 0
		}
		return p.locks[m] == 0
	}
	p.waitUntil(can, "mutex lock", pos)
	if p.raceOn() {
		p.raceAcquire(p.rs().locks, m)
	}
	if read {
		p.locks[m]++
	} else {
		p.locks[m] = -1
		p.lockOwner[m] = p.curThread()
	}
}

func (p *Path) unlock(m *Value, read bool) {
	if p.raceOn() {
		p.raceRelease(p.rs().locks, m)
	}
	if read {
		if p.locks[m] <= 0 {
			p.fatal("sync: RUnlock of unlocked RWMutex")
		}
		p.locks[m]--
	} else {
		if p.locks[m] != -1 {
			p.fatal("sync: unlock of unlocked mutex")
		}
		p.locks[m] = 0
		delete(p.lockOwner, m)
	}
	p.yield("unlock")
}

// fatal models an unrecoverable runtime error (fatal error: ...), reported as a violation.
func (p *Path) fatal(msg string) {
	v := Violation{Label: "fatal runtime error: " + msg, Kind: "panic", Detail: msg, Trace: p.trace}
	v.Model = p.modelFor(nil)
	v.raw = p.lastModel
	v.decisions = append([]int{}, p.decisions...)
	p.violations = append(p.violations, v)
	p.abortf(abortInfeasible, "fatal: %s", msg)
}

var _ = fmt.Sprintf
var _ = big.NewInt
