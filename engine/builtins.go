package main

import (
	"fmt"
	"go/token"
	"go/types"

	"golang.org/x/tools/go/ssa"
)

func (p *Path) callBuiltin(caller *frame, pos token.Pos, fn *ssa.Builtin, args []Value) Value {
	ts := p.ts
	switch fn.Name() {
	case "append":
		if len(args) == 1 {
			return args[0]
		}
		if s, ok := args[1].(StringV); ok {
			// append([]byte, string...)
			dst := args[0].([]Value)
			for _, b := range p.strBytes(s) {
				dst = append(dst, b)
			}
			return dst
		}
		dst, _ := args[0].([]Value)
		src, ok := args[1].([]Value)
		if !ok {
			p.abortf(abortUnsupported, "append of %T", args[1])
		}
		for _, e := range src {
			dst = append(dst, copyVal(e))
		}
		if dst == nil && src != nil && len(src) == 0 {
			// append(nil, empty...) stays nil in Go
			return []Value(nil)
		}
		return dst
	case "copy":
		dst, _ := args[0].([]Value)
		if s, ok := args[1].(StringV); ok {
			n := len(dst)
			if s.Len() < n {
				n = s.Len()
			}
			bs := p.strBytes(s)
			for i := 0; i < n; i++ {
				dst[i] = bs[i]
			}
			return p.intConst(int64(n), tInt)
		}
		src, _ := args[1].([]Value)
		n := len(dst)
		if len(src) < n {
			n = len(src)
		}
		tmp := make([]Value, n)
		for i := 0; i < n; i++ {
			tmp[i] = copyVal(src[i])
		}
		copy(dst, tmp)
		return p.intConst(int64(n), tInt)
	case "close":
		p.chanClose(args[0])
		return nil
	case "delete":
		m, _ := args[0].(*MapV)
		p.mapDelete(m, args[1])
		return nil
	case "print", "println":
		return nil
	case "len":
		switch x := args[0].(type) {
		case StringV:
			return p.intConst(int64(x.Len()), tInt)
		case ArrayV:
			return p.intConst(int64(len(x)), tInt)
		case *Value:
			if x == nil {
				// len(*[N]T)(nil) is N statically; ssa gives constant in that case
				return p.intConst(0, tInt)
			}
			return p.intConst(int64(len((*x).(ArrayV))), tInt)
		case []Value:
			return p.intConst(int64(len(x)), tInt)
		case *MapV:
			if x == nil {
				return p.intConst(0, tInt)
			}
			return p.intConst(int64(len(x.Keys)), tInt)
		case *ChanV:
			if x == nil {
				return p.intConst(0, tInt)
			}
			return p.intConst(int64(len(x.Buf)), tInt)
		case *AbsBytes:
			return x.Len
		case Poison:
			p.abortf(abortUnmodelled, "len of poisoned value (%s) at %s", x.Why, p.posStr(pos))
		}
		p.abortf(abortUnsupported, "len of %T", args[0])
	case "cap":
		switch x := args[0].(type) {
		case ArrayV:
			return p.intConst(int64(len(x)), tInt)
		case *Value:
			return p.intConst(int64(len((*x).(ArrayV))), tInt)
		case []Value:
			return p.intConst(int64(cap(x)), tInt)
		case *ChanV:
			if x == nil {
				return p.intConst(0, tInt)
			}
			return p.intConst(int64(x.Cap), tInt)
		}
		p.abortf(abortUnsupported, "cap of %T", args[0])
	case "min", "max":
		r := args[0]
		for _, a := range args[1:] {
			r = p.minmax(fn.Name() == "min", r, a, fn, pos)
		}
		return r
	case "clear":
		switch x := args[0].(type) {
		case *MapV:
			if x != nil {
				x.Keys, x.Vals, x.idx = nil, nil, map[string]int{}
			}
		case []Value:
			// element type unknown here: derive from signature
			var et types.Type
			if sig, ok := fn.Type().(*types.Signature); ok && sig.Params().Len() > 0 {
				if st, ok := sig.Params().At(0).Type().Underlying().(*types.Slice); ok {
					et = st.Elem()
				}
			}
			for i := range x {
				if et != nil {
					x[i] = p.zero(et)
				}
			}
		}
		return nil
	case "panic":
		panic(targetPanic{v: args[0]})
	case "recover":
		return p.doRecover(caller)
	case "ssa:wrapnilchk":
		recv := args[0]
		if ptr, ok := recv.(*Value); ok && ptr == nil {
			recvType, _ := args[1].(StringV).Conc()
			methodName, _ := args[2].(StringV).Conc()
			p.targetPanicStr(fmt.Sprintf("value method %s.%s called using nil *%s pointer", recvType, methodName, recvType))
		}
		return recv
	case "ssa:deferstack":
		return nil
	case "String": // unsafe.String(ptr, len)
		if sd, ok := args[0].(sliceDataPtr); ok {
			n := p.mustConcInt(args[1], tInt, 1<<20, "unsafe.String len", pos)
			bs := make([]*Term, n)
			for i := 0; i < n; i++ {
				bs[i] = sd.s[i].(*Term)
			}
			return p.mkString(bs)
		}
		if ptr, ok := args[0].(*Value); ok && ptr == nil {
			return StringV{}
		}
		p.abortf(abortUnsupported, "unsafe.String on %T", args[0])
	case "SliceData":
		s, _ := args[0].([]Value)
		return sliceDataPtr{s: s}
	case "StringData":
		return stringDataPtr{s: args[0].(StringV)}
	case "Slice": // unsafe.Slice(ptr, len)
		if sd, ok := args[0].(stringDataPtr); ok {
			n := p.mustConcInt(args[1], tInt, 1<<20, "unsafe.Slice len", pos)
			out := make([]Value, n)
			for i, b := range p.strBytes(sd.s)[:n] {
				out[i] = b
			}
			return out
		}
		if sd, ok := args[0].(sliceDataPtr); ok {
			n := p.mustConcInt(args[1], tInt, 1<<20, "unsafe.Slice len", pos)
			return sd.s[:n:n]
		}
		p.abortf(abortUnsupported, "unsafe.Slice on %T", args[0])
	}
	_ = ts
	p.abortf(abortUnsupported, "builtin %s", fn.Name())
	return nil
}

type sliceDataPtr struct{ s []Value }
type stringDataPtr struct{ s StringV }

// AbsBytes is a byte slice / string of symbolic length whose content is unobserved.
type AbsBytes struct {
	Len  *Term
	Name string
}

func (p *Path) minmax(isMin bool, a, b Value, fn *ssa.Builtin, pos token.Pos) Value {
	var t types.Type
	if sig, ok := fn.Type().(*types.Signature); ok && sig.Params().Len() > 0 {
		t = sig.Params().At(0).Type()
	}
	switch x := a.(type) {
	case *Term:
		lt := p.binop(token.LSS, t, a, b, t, pos).(*Term)
		if isMin {
			return p.ts.Ite(lt, x, b.(*Term))
		}
		return p.ts.Ite(lt, b.(*Term), x)
	case FloatV:
		y := b.(FloatV)
		if isMin == (x.F < y.F) {
			return x
		}
		return y
	case StringV:
		lt := p.strLess(x, b.(StringV))
		if p.branch(lt, "minmax") == isMin {
			return x
		}
		return b
	}
	p.abortf(abortUnsupported, "min/max of %T", a)
	return nil
}
