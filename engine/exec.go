package main

import (
	"fmt"
	"os"
	"go/token"
	"go/types"
	"strings"

	"golang.org/x/tools/go/ssa"
)

var traceCalls = os.Getenv("GOSYM_TRACE") != ""

type deferred struct {
	fn    Value
	args  []Value
	instr *ssa.Defer
	tail  *deferred
}

type frame struct {
	p         *Path
	caller    *frame
	fn        *ssa.Function
	block     *ssa.BasicBlock
	prevBlock *ssa.BasicBlock
	env       map[ssa.Value]Value
	locals    []Value
	defers    *deferred
	result    Value
	panicking bool
	panicVal  interface{}
	callPos   token.Pos
}

func (fr *frame) get(key ssa.Value) Value {
	switch key := key.(type) {
	case nil:
		return nil
	case *ssa.Function:
		return key
	case *ssa.Builtin:
		return key
	case *ssa.Const:
		return fr.p.constValue(key)
	case *ssa.Global:
		return fr.p.globalAddr(key)
	}
	if r, ok := fr.env[key]; ok {
		return r
	}
	panic(fmt.Sprintf("get: no value for %T: %v in %s", key, key.Name(), fr.fn))
}

// ---- globals and package initialisation ----

func (p *Path) globalAddr(g *ssa.Global) *Value {
	if a, ok := p.globals[g]; ok {
		return a
	}
	p.ensureInit(g.Pkg)
	if a, ok := p.globals[g]; ok {
		return a
	}
	a := new(Value)
	*a = p.zero(g.Type().(*types.Pointer).Elem())
	p.globals[g] = a
	return a
}

// ensureInit runs pkg's initialiser (without chaining into imports' inits, which
// run lazily on their own first access). Unmodelled calls during init yield Poison.
func (p *Path) ensureInit(pkg *ssa.Package) {
	if pkg == nil || p.pkgInit[pkg] != 0 {
		return
	}
	p.pkgInit[pkg] = 1
	// allocate all globals first
	for _, m := range pkg.Members {
		if g, ok := m.(*ssa.Global); ok {
			if _, ok := p.globals[g]; !ok {
				a := new(Value)
				*a = p.zero(g.Type().(*types.Pointer).Elem())
				p.globals[g] = a
			}
		}
	}
	if p.eng.skipInit[pkg.Pkg.Path()] || (p.h != nil && p.h.NoInit[pkg.Pkg.Path()]) {
		p.pkgInit[pkg] = 2
		return
	}
	p.eng.buildPkg(pkg)
	initFn := pkg.Func("init")
	if initFn == nil || initFn.Blocks == nil {
		p.pkgInit[pkg] = 2
		return
	}
	p.inInit++
	func() {
		defer func() {
			if r := recover(); r != nil {
				switch r := r.(type) {
				case targetPanic:
					p.tracef("init of %s panicked: %s", pkg.Pkg.Path(), p.panicString(r))
				case pathAbort:
					if r.kind == abortUnmodelled || r.kind == abortUnsupported {
						p.tracef("init of %s stopped early: %s", pkg.Pkg.Path(), r.msg)
						p.eng.noteInitStop(pkg.Pkg.Path(), r.msg)
						return
					}
					panic(r)
				default:
					panic(r)
				}
			}
		}()
		p.callSSA(nil, token.NoPos, initFn, nil, nil)
	}()
	p.inInit--
	p.pkgInit[pkg] = 2
}

// initCall runs one call of a package initialiser; failure to model the callee
// yields Poison for its result instead of abandoning the initialiser.
func (p *Path) initCall(fr *frame, instr *ssa.Call) (res Value) {
	depth := p.depth
	defer func() {
		if r := recover(); r != nil {
			p.depth = depth
			why := ""
			switch r := r.(type) {
			case targetPanic:
				why = "init call panicked: " + p.panicString(r)
			case pathAbort:
				if r.kind != abortUnmodelled && r.kind != abortUnsupported {
					panic(r)
				}
				why = r.msg
			default:
				panic(r)
			}
			p.eng.noteInitStop(fr.fn.Pkg.Pkg.Path()+" @ "+p.posStr(instr.Pos()), why)
			n := 1
			if tup, ok := instr.Type().(*types.Tuple); ok {
				n = tup.Len()
			}
			if n <= 1 {
				res = Poison{why}
			} else {
				t := make(TupleV, n)
				for i := range t {
					t[i] = Poison{why}
				}
				res = t
			}
		}
	}()
	fn, args := p.prepareCall(fr, &instr.Call)
	return p.call(fr, instr.Pos(), fn, args)
}

// ---- calls ----

func (p *Path) prepareCall(fr *frame, call *ssa.CallCommon) (fn Value, args []Value) {
	v := fr.get(call.Value)
	if call.Method == nil {
		fn = v
	} else {
		recv, ok := v.(IfaceV)
		if !ok {
			if pz, isP := v.(Poison); isP {
				p.abortf(abortUnmodelled, "method %s invoked on poisoned value (%s) at %s", call.Method.Name(), pz.Why, p.posStr(call.Pos()))
			}
			p.abortf(abortUnsupported, "invoke on %T", v)
		}
		if recv.T == nil {
			p.targetPanicStr("runtime error: invalid memory address or nil pointer dereference")
		}
		if nm, ok := recv.V.(*NativeObj); ok {
			fn = nm.method(p, call.Method.Name())
			if fn == nil {
				p.abortf(abortUnmodelled, "native object %s has no method %s", nm.Kind, call.Method.Name())
			}
			for _, arg := range call.Args {
				args = append(args, fr.get(arg))
			}
			return
		}
		f := p.eng.prog.LookupMethod(recv.T, call.Method.Pkg(), call.Method.Name())
		if f == nil {
			p.abortf(abortUnsupported, "method set of %v lacks %s", recv.T, call.Method.Name())
		}
		fn = f
		args = append(args, recv.V)
	}
	for _, arg := range call.Args {
		args = append(args, fr.get(arg))
	}
	return
}

func (p *Path) call(caller *frame, pos token.Pos, fn Value, args []Value) Value {
	switch fn := fn.(type) {
	case *ssa.Function:
		if fn == nil {
			p.targetPanicStr("runtime error: invalid memory address or nil pointer dereference")
		}
		return p.callSSA(caller, pos, fn, args, nil)
	case *ClosureV:
		if fn == nil {
			p.targetPanicStr("runtime error: invalid memory address or nil pointer dereference")
		}
		return p.callSSA(caller, pos, fn.Fn, args, fn.Env)
	case *ssa.Builtin:
		return p.callBuiltin(caller, pos, fn, args)
	case *NativeFn:
		if fn == nil {
			p.targetPanicStr("runtime error: invalid memory address or nil pointer dereference")
		}
		return fn.Fn(p, args)
	case Poison:
		p.abortf(abortUnmodelled, "call of poisoned function value (%s)", fn.Why)
	case nil:
		p.targetPanicStr("runtime error: invalid memory address or nil pointer dereference")
	}
	p.abortf(abortUnsupported, "cannot call %T", fn)
	return nil
}

func fnName(fn *ssa.Function) string {
	return fn.String()
}

func (p *Path) resultZero(fn *ssa.Function) Value {
	res := fn.Signature.Results()
	switch res.Len() {
	case 0:
		return nil
	case 1:
		return p.zero(res.At(0).Type())
	}
	return p.zero(res)
}

func (p *Path) poisonResult(fn *ssa.Function, why string) Value {
	res := fn.Signature.Results()
	switch res.Len() {
	case 0:
		return nil
	case 1:
		return Poison{why}
	}
	t := make(TupleV, res.Len())
	for i := range t {
		t[i] = Poison{why}
	}
	return t
}

func (p *Path) callSSA(caller *frame, pos token.Pos, fn *ssa.Function, args []Value, env []Value) Value {
	name := fnName(fn)
	if fn.Parent() == nil {
		// generic instance: match on origin name too
		key := name
		if o := fn.Origin(); o != nil {
			key = fnName(o)
		}
		if p.h != nil {
			if in := p.eng.intrinsics[fn.Name()]; in != nil && fn.Pkg != nil && strings.HasPrefix(fn.Name(), "verif") {
				return in(p, caller, pos, args)
			}
			if stub, ok := p.h.Stubs[key]; ok {
				return p.callSSA(caller, pos, stub, args, nil)
			}
		}
		if fn.Name() == "init" && fn.Synthetic != "" && fn.Pkg != nil && caller != nil && caller.fn.Pkg != fn.Pkg {
			// imported package initialiser called from another package's init:
			// initialisation is lazy (first access to one of its globals)
			return nil
		}
		if m, ok := models[key]; ok {
			return m(p, caller, pos, fn, args)
		}
		if p.h != nil && p.h.Opaque[key] {
			p.opaqueSeen[key]++
			return p.poisonResult(fn, "opaque "+key)
		}
		if defaultOpaque(key) {
			p.opaqueSeen[key]++
			return p.poisonResult(fn, "opaque "+key)
		}
	}
	// Always go through the package's build Once: testing fn.Blocks first races
	// with another worker that is still inside Pkg.Build() (blocks exist but
	// are unfinished).
	if fn.Pkg != nil || fn.Synthetic == "" {
		p.eng.buildFn(fn)
	}
	if fn.Blocks == nil {
		if fn.Blocks == nil {
			if p.inInit > 0 {
				return p.poisonResult(fn, "no body: "+name)
			}
			p.abortf(abortUnmodelled, "call to %s (no Go body, no model) at %s", name, p.posStr(pos))
		}
	}
	if fn.TypeParams().Len() > 0 && len(fn.TypeArgs()) == 0 {
		p.abortf(abortUnsupported, "uninstantiated generic %s", name)
	}
	if traceCalls {
		fmt.Fprintf(os.Stderr, "%*s> %s (steps=%d)\n", p.depth, "", name, p.steps)
	}
	p.depth++
	if p.depth > 400 {
		p.abortf(abortBudget, "call depth > 400 in %s", name)
	}
	defer func() { p.depth-- }()
	if !p.funcsSeen[fn] {
		p.funcsSeen[fn] = true
	}
	fr := &frame{p: p, caller: caller, fn: fn, callPos: pos}
	fr.env = make(map[ssa.Value]Value, 16)
	fr.block = fn.Blocks[0]
	fr.locals = make([]Value, len(fn.Locals))
	for i, l := range fn.Locals {
		fr.locals[i] = p.zero(l.Type().(*types.Pointer).Elem())
		fr.env[l] = &fr.locals[i]
	}
	if len(args) != len(fn.Params) {
		p.abortf(abortUnsupported, "arity mismatch calling %s: %d args for %d params", name, len(args), len(fn.Params))
	}
	for i, prm := range fn.Params {
		fr.env[prm] = args[i]
	}
	for i, fv := range fn.FreeVars {
		fr.env[fv] = env[i]
	}
	for fr.block != nil {
		p.runFrame(fr)
	}
	return fr.result
}

func (p *Path) runFrame(fr *frame) {
	defer func() {
		if fr.block == nil {
			return // normal return
		}
		r := recover()
		if tp, ok := r.(targetPanic); ok {
			fr.panicking = true
			fr.panicVal = tp
			fr.runDefers()
			// recovered
			fr.block = fr.fn.Recover
			if fr.block == nil {
				fr.result = p.resultZero(fr.fn)
			}
			return
		}
		panic(r) // engine abort or engine bug: propagate
	}()
	for {
		block := fr.block
		instrs := block.Instrs
		// phis
		n := 0
		for n < len(instrs) {
			if _, ok := instrs[n].(*ssa.Phi); !ok {
				break
			}
			n++
		}
		if n > 0 {
			predIndex := -1
			for i, pb := range block.Preds {
				if pb == fr.prevBlock {
					predIndex = i
					break
				}
			}
			tmp := make([]Value, n)
			for i := 0; i < n; i++ {
				tmp[i] = fr.get(instrs[i].(*ssa.Phi).Edges[predIndex])
			}
			for i := 0; i < n; i++ {
				fr.env[instrs[i].(*ssa.Phi)] = tmp[i]
			}
		}
		jumped := false
		for _, instr := range instrs[n:] {
			p.steps++
			if traceCalls && p.steps%1000000 == 0 {
				fmt.Fprintf(os.Stderr, "... %d steps, in %s block %d\n", p.steps, fr.fn, fr.block.Index)
			}
			if p.steps > p.h.MaxSteps {
				p.abortf(abortBudget, "step budget %d exhausted in %s", p.h.MaxSteps, fr.fn)
			}
			switch p.visitInstr(fr, instr) {
			case kReturn:
				return
			case kJump:
				jumped = true
			}
			if jumped {
				break
			}
		}
		if !jumped {
			panic("block without terminator in " + fr.fn.String())
		}
	}
}

func (fr *frame) runDefer(d *deferred) {
	var ok bool
	defer func() {
		if !ok {
			r := recover()
			if tp, isT := r.(targetPanic); isT {
				fr.panicking = true
				fr.panicVal = tp
				return
			}
			panic(r)
		}
	}()
	fr.p.call(fr, d.instr.Pos(), d.fn, d.args)
	ok = true
}

func (fr *frame) runDefers() {
	for d := fr.defers; d != nil; d = fr.defers {
		fr.defers = d.tail
		fr.runDefer(d)
	}
	fr.defers = nil
	if fr.panicking {
		panic(fr.panicVal)
	}
}

func (p *Path) doRecover(caller *frame) Value {
	// recover() is effective only when called directly by a deferred function
	// whose parent frame is panicking.
	if caller != nil && !caller.panicking && caller.caller != nil && caller.caller.panicking {
		caller.caller.panicking = false
		pv := caller.caller.panicVal
		caller.caller.panicVal = nil
		if tp, ok := pv.(targetPanic); ok {
			return tp.v
		}
		panic(fmt.Sprintf("unexpected panic type %T", pv))
	}
	return IfaceV{}
}

type continuation int

const (
	kNext continuation = iota
	kReturn
	kJump
)

func (p *Path) symBranchSite(fr *frame, instr ssa.Instruction) {
	k := siteKey{fr, instr}
	p.siteHits[k]++
	if p.siteHits[k] > p.h.Unwind {
		p.abortf(abortUnwind, "unwinding bound %d reached at %s (%s)", p.h.Unwind, p.posStr(instr.Pos()), fr.fn)
	}
}

func (p *Path) visitInstr(fr *frame, instr ssa.Instruction) continuation {
	ts := p.ts
	switch instr := instr.(type) {
	case *ssa.DebugRef:
	case *ssa.UnOp:
		fr.env[instr] = p.unop(instr, fr.get(instr.X))
	case *ssa.BinOp:
		fr.env[instr] = p.binop(instr.Op, instr.X.Type(), fr.get(instr.X), fr.get(instr.Y), instr.Y.Type(), instr.Pos())
	case *ssa.Call:
		if fr.fn.Synthetic != "" && fr.fn.Name() == "init" && fr.caller == nil {
			// top-level statement of a package initialiser: a callee the engine cannot
			// run poisons only the value it would have produced
			fr.env[instr] = p.initCall(fr, instr)
			break
		}
		fn, args := p.prepareCall(fr, &instr.Call)
		fr.env[instr] = p.call(fr, instr.Pos(), fn, args)
	case *ssa.ChangeInterface:
		fr.env[instr] = fr.get(instr.X)
	case *ssa.ChangeType:
		fr.env[instr] = fr.get(instr.X)
	case *ssa.Convert:
		fr.env[instr] = p.conv(instr.Type(), instr.X.Type(), fr.get(instr.X), instr.Pos())
	case *ssa.MultiConvert:
		fr.env[instr] = p.conv(instr.Type(), instr.X.Type(), fr.get(instr.X), instr.Pos())
	case *ssa.SliceToArrayPointer:
		sl := fr.get(instr.X).([]Value)
		n := int(instr.Type().Underlying().(*types.Pointer).Elem().Underlying().(*types.Array).Len())
		if len(sl) < n {
			p.targetPanicStr("runtime error: cannot convert slice to array pointer: length too short")
		}
		if sl == nil {
			fr.env[instr] = (*Value)(nil)
		} else {
			var cell Value = ArrayV(sl[:n:n])
			fr.env[instr] = &cell
		}
	case *ssa.MakeInterface:
		fr.env[instr] = IfaceV{T: instr.X.Type(), V: fr.get(instr.X)}
	case *ssa.Extract:
		tup := fr.get(instr.Tuple)
		tv, ok := tup.(TupleV)
		if !ok {
			if pz, isP := tup.(Poison); isP {
				fr.env[instr] = pz
				break
			}
			p.abortf(abortUnsupported, "extract from %T in %s", tup, fr.fn)
		}
		fr.env[instr] = tv[instr.Index]
	case *ssa.Slice:
		fr.env[instr] = p.slice(instr, fr.get(instr.X), fr.get(instr.Low), fr.get(instr.High), fr.get(instr.Max))
	case *ssa.Return:
		switch len(instr.Results) {
		case 0:
		case 1:
			fr.result = fr.get(instr.Results[0])
		default:
			res := make(TupleV, len(instr.Results))
			for i, r := range instr.Results {
				res[i] = fr.get(r)
			}
			fr.result = res
		}
		fr.block = nil
		return kReturn
	case *ssa.RunDefers:
		fr.runDefers()
	case *ssa.Panic:
		panic(targetPanic{v: fr.get(instr.X)})
	case *ssa.Send:
		p.chanSend(fr.get(instr.Chan), fr.get(instr.X))
	case *ssa.Store:
		addr := fr.get(instr.Addr)
		ptr, ok := addr.(*Value)
		if !ok {
			if pz, isP := addr.(Poison); isP {
				p.abortf(abortUnmodelled, "store through poisoned pointer (%s) at %s", pz.Why, p.posStr(instr.Pos()))
			}
			p.abortf(abortUnsupported, "store through %T", addr)
		}
		if ptr == nil {
			p.targetPanicStr("runtime error: invalid memory address or nil pointer dereference")
		}
		p.raceWrite(ptr, instr.Pos())
		*ptr = copyVal(fr.get(instr.Val))
	case *ssa.If:
		c := fr.get(instr.Cond)
		ct, ok := c.(*Term)
		if !ok {
			if pz, isP := c.(Poison); isP {
				p.abortf(abortUnmodelled, "branch on poisoned value (%s) at %s", pz.Why, p.posStr(instr.Pos()))
			}
			p.abortf(abortUnsupported, "branch on %T", c)
		}
		succ := 1
		if ct.IsConst() {
			if ct.U == 1 {
				succ = 0
			}
		} else {
			p.symBranchSite(fr, instr)
			if p.branch(ct, "if") {
				succ = 0
			}
		}
		fr.prevBlock, fr.block = fr.block, fr.block.Succs[succ]
		return kJump
	case *ssa.Jump:
		fr.prevBlock, fr.block = fr.block, fr.block.Succs[0]
		return kJump
	case *ssa.Defer:
		fn, args := p.prepareCall(fr, &instr.Call)
		defers := &fr.defers
		if instr.DeferStack != nil {
			if into := fr.get(instr.DeferStack); into != nil {
				p.abortf(abortUnsupported, "defer with explicit DeferStack")
			}
		}
		*defers = &deferred{fn: fn, args: args, instr: instr, tail: *defers}
	case *ssa.Go:
		fn, args := p.prepareCall(fr, &instr.Call)
		p.spawn(fr, instr, fn, args)
	case *ssa.MakeChan:
		sz := fr.get(instr.Size).(*Term)
		if !sz.IsConst() {
			p.abortf(abortUnsupported, "make(chan) with symbolic size")
		}
		fr.env[instr] = &ChanV{Cap: int(constI(sz)), ET: instr.Type().Underlying().(*types.Chan).Elem()}
	case *ssa.Alloc:
		var addr *Value
		if instr.Heap {
			addr = new(Value)
			fr.env[instr] = addr
		} else {
			addr = fr.env[instr].(*Value)
		}
		*addr = p.zero(instr.Type().Underlying().(*types.Pointer).Elem())
	case *ssa.MakeSlice:
		ln := p.mustConcInt(fr.get(instr.Len), instr.Len.Type(), 1<<24, "make len", instr.Pos())
		cp := p.mustConcInt(fr.get(instr.Cap), instr.Cap.Type(), 1<<24, "make cap", instr.Pos())
		if ln < 0 || cp < ln {
			p.targetPanicStr("runtime error: makeslice: len out of range")
		}
		tElt := instr.Type().Underlying().(*types.Slice).Elem()
		sl := make([]Value, cp)
		for i := range sl {
			sl[i] = p.zero(tElt)
		}
		fr.env[instr] = sl[:ln]
	case *ssa.MakeMap:
		mt := instr.Type().Underlying().(*types.Map)
		fr.env[instr] = newMap(mt.Key(), mt.Elem())
	case *ssa.Range:
		fr.env[instr] = p.rangeIter(fr.get(instr.X), instr)
	case *ssa.Next:
		fr.env[instr] = p.iterNext(fr, fr.get(instr.Iter).(*IterV), instr)
	case *ssa.FieldAddr:
		x := fr.get(instr.X)
		ptr, ok := x.(*Value)
		if !ok {
			if pz, isP := x.(Poison); isP {
				fr.env[instr] = pz
				break
			}
			p.abortf(abortUnsupported, "FieldAddr on %T at %s", x, p.posStr(instr.Pos()))
		}
		if ptr == nil {
			p.targetPanicStr("runtime error: invalid memory address or nil pointer dereference")
		}
		st, ok := (*ptr).(StructV)
		if !ok {
			if pz, isP := (*ptr).(Poison); isP {
				fr.env[instr] = pz
				break
			}
			p.abortf(abortUnsupported, "FieldAddr: pointee is %T (%s) at %s", *ptr, instr.X.Type(), p.posStr(instr.Pos()))
		}
		fr.env[instr] = &st[instr.Field]
	case *ssa.Field:
		x := fr.get(instr.X)
		st, ok := x.(StructV)
		if !ok {
			if pz, isP := x.(Poison); isP {
				fr.env[instr] = pz
				break
			}
			p.abortf(abortUnsupported, "Field on %T", x)
		}
		fr.env[instr] = st[instr.Field]
	case *ssa.IndexAddr:
		x := fr.get(instr.X)
		idx := fr.get(instr.Index).(*Term)
		switch x := x.(type) {
		case []Value:
			if !idx.IsConst() && len(x) > p.h.MaxConcretize {
				if se := p.symElemAddr(x, idx, instr.Index.Type(), instr.Pos()); se != nil {
					fr.env[instr] = se
					break
				}
			}
			i := p.indexCheck(idx, len(x), instr.Index.Type(), instr.Pos())
			fr.env[instr] = &x[i]
		case *Value:
			if x == nil {
				p.targetPanicStr("runtime error: invalid memory address or nil pointer dereference")
			}
			arr := (*x).(ArrayV)
			if !idx.IsConst() && len(arr) > p.h.MaxConcretize {
				if se := p.symElemAddr(arr, idx, instr.Index.Type(), instr.Pos()); se != nil {
					fr.env[instr] = se
					break
				}
			}
			i := p.indexCheck(idx, len(arr), instr.Index.Type(), instr.Pos())
			fr.env[instr] = &arr[i]
		case Poison:
			fr.env[instr] = x
		default:
			p.abortf(abortUnsupported, "IndexAddr on %T", x)
		}
	case *ssa.Index:
		x := fr.get(instr.X)
		idx := fr.get(instr.Index).(*Term)
		switch x := x.(type) {
		case ArrayV:
			if !idx.IsConst() && len(x) > p.h.MaxConcretize {
				if se := p.symElemAddr(x, idx, instr.Index.Type(), instr.Pos()); se != nil {
					fr.env[instr] = p.selectElem(se)
					break
				}
			}
			i := p.indexCheck(idx, len(x), instr.Index.Type(), instr.Pos())
			fr.env[instr] = x[i]
		case StringV:
			i := p.indexCheck(idx, x.Len(), instr.Index.Type(), instr.Pos())
			fr.env[instr] = p.strByte(x, i)
		default:
			p.abortf(abortUnsupported, "Index on %T", x)
		}
	case *ssa.Lookup:
		fr.env[instr] = p.lookup(instr, fr.get(instr.X), fr.get(instr.Index))
	case *ssa.MapUpdate:
		m, ok := fr.get(instr.Map).(*MapV)
		if !ok {
			p.abortf(abortUnsupported, "MapUpdate on %T", fr.get(instr.Map))
		}
		p.mapSet(m, copyVal(fr.get(instr.Key)), copyVal(fr.get(instr.Value)))
	case *ssa.TypeAssert:
		fr.env[instr] = p.typeAssert(instr, fr.get(instr.X))
	case *ssa.MakeClosure:
		var bindings []Value
		for _, b := range instr.Bindings {
			bindings = append(bindings, fr.get(b))
		}
		fr.env[instr] = &ClosureV{Fn: instr.Fn.(*ssa.Function), Env: bindings}
	case *ssa.Select:
		fr.env[instr] = p.doSelect(fr, instr)
	default:
		p.abortf(abortUnsupported, "instruction %T", instr)
	}
	_ = ts
	return kNext
}

// mustConcInt requires a concrete (or small, forkable) integer.
func (p *Path) mustConcInt(v Value, t types.Type, max int, what string, pos token.Pos) int {
	tm, ok := v.(*Term)
	if !ok {
		p.abortf(abortUnsupported, "%s: not an integer (%T) at %s", what, v, p.posStr(pos))
	}
	if tm.IsConst() {
		return int(constI(tm))
	}
	// fork over small range
	n := p.h.MaxConcretize
	i := p.concretize(tm, n, t, what)
	if i < 0 {
		p.abortf(abortOutOfBound, "%s: symbolic value outside [0,%d) at %s", what, n, p.posStr(pos))
	}
	return i
}

func (p *Path) indexCheck(idx *Term, n int, t types.Type, pos token.Pos) int {
	if idx.IsConst() {
		i := p.concretize(idx, n, t, "index")
		if i < 0 {
			p.targetPanicStr(fmt.Sprintf("runtime error: index out of range [%d] with length %d", constI(idx), n))
		}
		return i
	}
	if n > p.h.MaxConcretize {
		p.abortf(abortUnsupported, "symbolic index into length %d at %s", n, p.posStr(pos))
	}
	i := p.concretize(idx, n, t, "index")
	if i < 0 {
		p.targetPanicStr(fmt.Sprintf("runtime error: index out of range with length %d", n))
	}
	return i
}

func (p *Path) slice(instr *ssa.Slice, x, lo, hi, max Value) Value {
	getBound := func(v Value, sv ssa.Value, def int, limit int) int {
		if v == nil {
			return def
		}
		t := v.(*Term)
		if t.IsConst() {
			c := constI(t)
			if c < 0 || c > int64(limit) {
				return -1
			}
			return int(c)
		}
		if limit+1 > p.h.MaxConcretize {
			p.abortf(abortUnsupported, "symbolic slice bound over length %d at %s", limit, p.posStr(instr.Pos()))
		}
		var bt types.Type = tInt
		if sv != nil {
			bt = sv.Type() // a bound may be of any integer type (int32 offsets, uint8 lengths, ...)
		}
		return p.concretize(t, limit+1, bt, "slicebound")
	}
	oob := func() {
		p.targetPanicStr("runtime error: slice bounds out of range")
	}
	switch x := x.(type) {
	case StringV:
		n := x.Len()
		h := getBound(hi, instr.High, n, n)
		if h < 0 {
			oob()
		}
		l := getBound(lo, instr.Low, 0, h)
		if l < 0 {
			oob()
		}
		if x.B == nil {
			return StringV{S: x.S[l:h]}
		}
		return p.mkString(x.B[l:h])
	case []Value:
		c := cap(x)
		m := getBound(max, instr.Max, c, c)
		if m < 0 {
			oob()
		}
		hdef := len(x)
		h := getBound(hi, instr.High, hdef, m)
		if h < 0 {
			oob()
		}
		l := getBound(lo, instr.Low, 0, h)
		if l < 0 {
			oob()
		}
		if x == nil {
			return []Value(nil)
		}
		return x[l:h:m]
	case *Value:
		if x == nil {
			p.targetPanicStr("runtime error: invalid memory address or nil pointer dereference")
		}
		arr := []Value((*x).(ArrayV))
		c := len(arr)
		m := getBound(max, instr.Max, c, c)
		if m < 0 {
			oob()
		}
		h := getBound(hi, instr.High, c, m)
		if h < 0 {
			oob()
		}
		l := getBound(lo, instr.Low, 0, h)
		if l < 0 {
			oob()
		}
		return arr[l:h:m]
	case Poison:
		return x
	}
	p.abortf(abortUnsupported, "slice of %T", x)
	return nil
}

func (p *Path) lookup(instr *ssa.Lookup, x, idx Value) Value {
	switch x := x.(type) {
	case *MapV:
		var vt types.Type
		if mt, ok := instr.X.Type().Underlying().(*types.Map); ok {
			vt = mt.Elem()
		}
		i := p.mapFind(x, idx)
		var v Value
		ok := i >= 0
		if ok {
			v = copyVal(x.Vals[i])
		} else {
			v = p.zero(vt)
		}
		if instr.CommaOk {
			return TupleV{v, p.ts.Bool(ok)}
		}
		return v
	case Poison:
		p.abortf(abortUnmodelled, "map lookup on poisoned value (%s)", x.Why)
	}
	p.abortf(abortUnsupported, "lookup on %T", x)
	return nil
}

func (p *Path) typeAssert(instr *ssa.TypeAssert, xv Value) Value {
	x, ok := xv.(IfaceV)
	if !ok {
		if pz, isP := xv.(Poison); isP {
			p.abortf(abortUnmodelled, "type assertion on poisoned value (%s) at %s", pz.Why, p.posStr(instr.Pos()))
		}
		p.abortf(abortUnsupported, "typeAssert on %T", xv)
	}
	var v Value
	good := false
	if it, isI := instr.AssertedType.Underlying().(*types.Interface); isI {
		if x.T != nil {
			if _, isNative := x.V.(*NativeObj); isNative {
				good = x.V.(*NativeObj).implements(it)
			} else {
				good = types.Implements(x.T, it)
			}
			if good {
				v = x
			}
		}
	} else {
		if x.T != nil && types.Identical(x.T, instr.AssertedType) {
			v = x.V
			good = true
		}
	}
	if instr.CommaOk {
		if !good {
			v = p.zero(instr.AssertedType)
		}
		return TupleV{v, p.ts.Bool(good)}
	}
	if !good {
		got := "nil"
		if x.T != nil {
			got = x.T.String()
		}
		p.targetPanicStr(fmt.Sprintf("interface conversion: interface is %s, not %s", got, instr.AssertedType))
	}
	return v
}

// ---- range ----

func (p *Path) rangeIter(x Value, instr *ssa.Range) Value {
	switch x := x.(type) {
	case *MapV:
		it := &IterV{m: x}
		if x != nil {
			n := len(x.Keys)
			// iteration order: symbolic permutation when the harness asks for it
			it.order = make([]int, n)
			for i := range it.order {
				it.order[i] = i
			}
			if p.h.MapOrder && n > 1 && n <= 4 {
				rem := make([]int, n)
				copy(rem, it.order)
				for k := 0; k < n-1; k++ {
					conds := make([]*Term, len(rem))
					sel := p.freshChoice("maporder", len(rem))
					for j := range rem {
						conds[j] = p.ts.Eq(sel, p.intConst(int64(j), tInt))
					}
					j := p.decide(conds, "maporder")
					it.order[k] = rem[j]
					rem = append(rem[:j:j], rem[j+1:]...)
				}
				it.order[n-1] = rem[0]
			}
		}
		return it
	case StringV:
		return &IterV{s: x, str: true}
	case Poison:
		p.abortf(abortUnmodelled, "range over poisoned value (%s)", x.Why)
	}
	p.abortf(abortUnsupported, "range over %T", x)
	return nil
}

func (p *Path) freshChoice(name string, n int) *Term {
	v := p.freshInt(name, tInt)
	ts := p.ts
	if p.lia {
		p.assertPC(ts.And(ts.ILe(ts.Int64(0), v), ts.ILt(v, ts.Int64(int64(n)))))
	} else {
		p.assertPC(ts.bvCmp(OBvUlt, v, ts.BV(uint64(n), 64)))
	}
	return v
}

func (p *Path) iterNext(fr *frame, it *IterV, instr *ssa.Next) Value {
	ts := p.ts
	if it.str {
		s := it.s
		if it.pos >= s.Len() {
			return TupleV{ts.Bool(false), p.intConst(0, tInt), p.intConst(0, tInt32)}
		}
		i := it.pos
		if s.B == nil {
			// concrete decoding
			for k, r := range s.S[i:] {
				_ = k
				w := len(string(r))
				if r == 0xFFFD {
					// invalid encoding consumes one byte (or is a real U+FFFD of 3 bytes)
					if !(len(s.S) >= i+3 && s.S[i:i+3] == "�") {
						w = 1
					}
				}
				it.pos += w
				return TupleV{ts.Bool(true), p.intConst(int64(i), tInt), p.intConst(int64(r), tInt32)}
			}
		}
		b := s.B[i]
		allConc := true
		for j := i; j < len(s.B) && j < i+4; j++ {
			allConc = allConc && s.B[j].IsConst()
		}
		if b.IsConst() && constU(b) >= 0x80 && allConc {
			// multi-byte, all continuation bytes concrete
			j := i + 1
			for j < len(s.B) && j < i+4 && s.B[j].IsConst() && constU(s.B[j])&0xC0 == 0x80 {
				j++
			}
			raw := make([]byte, 0, 4)
			for k := i; k < j; k++ {
				raw = append(raw, byte(constU(s.B[k])))
			}
			for _, r := range string(raw) {
				w := len(string(r))
				if r == 0xFFFD && string(raw[:min(3, len(raw))]) != "�" {
					w = 1
				}
				it.pos += w
				return TupleV{ts.Bool(true), p.intConst(int64(i), tInt), p.intConst(int64(r), tInt32)}
			}
		}
		r, w := p.decodeRuneSym(s.B[i:])
		it.pos += w
		return TupleV{ts.Bool(true), p.intConst(int64(i), tInt), r}
	}
	// map
	if it.m == nil || it.pos >= len(it.order) {
		var kz, vz Value
		if it.m != nil {
			kz, vz = p.zero(it.m.KT), p.zero(it.m.VT)
		} else {
			kz, vz = Poison{"nil map iter"}, Poison{"nil map iter"}
		}
		return TupleV{ts.Bool(false), kz, vz}
	}
	for it.pos < len(it.order) {
		i := it.order[it.pos]
		it.pos++
		if i < len(it.m.Keys) {
			return TupleV{ts.Bool(true), copyVal(it.m.Keys[i]), copyVal(it.m.Vals[i])}
		}
	}
	return TupleV{ts.Bool(false), p.zero(it.m.KT), p.zero(it.m.VT)}
}

func (p *Path) panicString(tp targetPanic) string {
	v := tp.v
	if iv, ok := v.(IfaceV); ok {
		if iv.T == nil {
			return "panic(nil)"
		}
		if s, ok := iv.V.(StringV); ok {
			cs, _ := s.Conc()
			return "panic: " + cs
		}
		if types.Implements(iv.T, p.eng.errorIface) || types.Implements(types.NewPointer(iv.T), p.eng.errorIface) {
			msg := p.tryErrorString(iv)
			return "panic: " + iv.T.String() + ": " + msg
		}
		return "panic: value of type " + iv.T.String()
	}
	return fmt.Sprintf("panic: %T", v)
}

func (p *Path) tryErrorString(iv IfaceV) (out string) {
	defer func() {
		if r := recover(); r != nil {
			if _, ok := r.(targetPanic); ok {
				out = "<Error() panicked>"
				return
			}
			if _, ok := r.(pathAbort); ok {
				out = "<Error() not evaluable>"
				return
			}
			panic(r)
		}
	}()
	f := p.eng.prog.LookupMethod(iv.T, nil, "Error")
	if f == nil {
		return "<no Error method>"
	}
	r := p.callSSA(nil, token.NoPos, f, []Value{iv.V}, nil)
	if s, ok := r.(StringV); ok {
		if cs, ok := s.Conc(); ok {
			return cs
		}
		return "<symbolic message>"
	}
	return "<?>"
}

// decodeRuneSym decodes the UTF-8 sequence at the head of bs (len >= 1) whose
// bytes may be symbolic, forking on the encoding class exactly as
// unicode/utf8.DecodeRune classifies it; invalid or short sequences yield
// U+FFFD of width 1. Returns the rune (int32 term) and its width.
func (p *Path) decodeRuneSym(bs []*Term) (*Term, int) {
	ts := p.ts
	w32 := func(b *Term) *Term { return p.intResize(b, tUint8, tInt32) }
	k := func(v int64) *Term { return p.intConst(v, tInt32) }
	add := func(x, y *Term) *Term { return p.binop(token.ADD, tInt32, x, y, tInt32, token.NoPos).(*Term) }
	sub := func(x, y *Term) *Term { return p.binop(token.SUB, tInt32, x, y, tInt32, token.NoPos).(*Term) }
	mul := func(x *Term, c int64) *Term { return p.binop(token.MUL, tInt32, x, k(c), tInt32, token.NoPos).(*Term) }
	bad := func() (*Term, int) { return k(0xFFFD), 1 }
	in := func(b *Term, lo, hi byte) bool {
		c := p.byteInRange(b, lo, hi)
		if c.IsConst() {
			return c.IsTrue()
		}
		return p.branch(c, "utf8")
	}
	b0 := bs[0]
	if in(b0, 0x00, 0x7F) {
		return w32(b0), 1
	}
	cont := func(j int, lo, hi byte) bool { return j < len(bs) && in(bs[j], lo, hi) }
	tail := func(b *Term) *Term { return sub(w32(b), k(0x80)) }
	switch {
	case in(b0, 0xC2, 0xDF):
		if !cont(1, 0x80, 0xBF) {
			return bad()
		}
		return add(mul(sub(w32(b0), k(0xC0)), 64), tail(bs[1])), 2
	case in(b0, 0xE0, 0xEF):
		lo, hi := byte(0x80), byte(0xBF)
		if in(b0, 0xE0, 0xE0) {
			lo = 0xA0
		} else if in(b0, 0xED, 0xED) {
			hi = 0x9F
		}
		if !cont(1, lo, hi) || !cont(2, 0x80, 0xBF) {
			return bad()
		}
		return add(add(mul(sub(w32(b0), k(0xE0)), 4096), mul(tail(bs[1]), 64)), tail(bs[2])), 3
	case in(b0, 0xF0, 0xF4):
		lo, hi := byte(0x80), byte(0xBF)
		if in(b0, 0xF0, 0xF0) {
			lo = 0x90
		} else if in(b0, 0xF4, 0xF4) {
			hi = 0x8F
		}
		if !cont(1, lo, hi) || !cont(2, 0x80, 0xBF) || !cont(3, 0x80, 0xBF) {
			return bad()
		}
		return add(add(add(mul(sub(w32(b0), k(0xF0)), 262144), mul(tail(bs[1]), 4096)), mul(tail(bs[2]), 64)), tail(bs[3])), 4
	}
	_ = ts
	return bad()
}
