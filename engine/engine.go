package main

import (
	"fmt"
	"go/ast"
	"go/token"
	"go/types"
	"os"
	"path/filepath"
	"sort"
	"strconv"
	"strings"
	"sync"
	"sync/atomic"
	"time"

	"golang.org/x/tools/go/packages"
	"golang.org/x/tools/go/ssa"
	"golang.org/x/tools/go/ssa/ssautil"
)

type Harness struct {
	Name          string
	Fn            *ssa.Function
	LIA           bool
	Unwind        int
	MaxPaths      int
	MaxSteps      int64
	MaxDecisions  int
	MaxConcretize int
	MapOrder      bool
	Race          bool
	RaceAll       bool
	Stubs         map[string]*ssa.Function
	StubNames     []string
	Opaque        map[string]bool
	NoInit        map[string]bool
	Expect        string // "" | "violation" (self-test harnesses)
	Bound         string // free-text bound statement from //verif:bound
	QuoteApprox   bool   // //verif:quote approx
	Assumes       []string
	Tier          string // "" (both) | "quick" | "thorough"
	Sched         bool
	MaxSwitches   int
}

type Engine struct {
	prog       *ssa.Program
	pkgs       []*packages.Package
	target     *ssa.Package
	targetPkg  *packages.Package
	errorIface *types.Interface
	intrinsics map[string]intrinsicFn
	skipInit   map[string]bool
	buildMu    sync.Mutex
	initStops  map[string]string
	initMu     sync.Mutex
	tier       string
	solverKind SolverKind
	timeoutMs  int
	workers    int
	verbose    bool
	errStrType types.Type
	errNewFn   *ssa.Function
	seed       int64
	logSmt     string
	sampleBudget atomic.Int64
	rtypeMu      sync.Mutex
	rtypes       map[string]*Value
	rtypeObjs    map[string]*NativeObj
}

func (e *Engine) noteInitStop(pkg, msg string) {
	e.initMu.Lock()
	defer e.initMu.Unlock()
	if e.initStops == nil {
		e.initStops = map[string]string{}
	}
	e.initStops[pkg] = msg
}

func (e *Engine) buildPkg(pkg *ssa.Package) {
	pkg.Build()
}

func (e *Engine) buildFn(fn *ssa.Function) {
	if fn.Pkg != nil {
		fn.Pkg.Build()
		return
	}
	if o := fn.Origin(); o != nil && o.Pkg != nil {
		o.Pkg.Build()
	}
}

// LoadEngine loads patterns from dir with the overlay files mapped into the package.
func LoadEngine(dir string, pattern string, overlay map[string][]byte) (*Engine, error) {
	cfg := &packages.Config{
		Mode:    packages.LoadAllSyntax,
		Dir:     dir,
		Overlay: overlay,
		Env:     append(os.Environ(), "PATH=/opt/veriftools/go1.26.8/bin:"+os.Getenv("PATH"), "GOFLAGS=-mod=mod", "GOPROXY=off", "GOTOOLCHAIN=local", "CGO_ENABLED=1"),
		Tests:   false,
	}
	pkgs, err := packages.Load(cfg, pattern)
	if err != nil {
		return nil, err
	}
	var errs []string
	packages.Visit(pkgs, nil, func(p *packages.Package) {
		for _, e := range p.Errors {
			errs = append(errs, e.Error())
		}
	})
	if len(errs) > 0 {
		if len(errs) > 12 {
			errs = errs[:12]
		}
		return nil, fmt.Errorf("load errors:\n  %s", strings.Join(errs, "\n  "))
	}
	prog, spkgs := ssautil.AllPackages(pkgs, ssa.InstantiateGenerics|ssa.SanityCheckFunctions*0)
	e := &Engine{prog: prog, pkgs: pkgs, intrinsics: map[string]intrinsicFn{}, skipInit: map[string]bool{}}
	if len(spkgs) == 0 || spkgs[0] == nil {
		return nil, fmt.Errorf("no SSA package for %s", pattern)
	}
	e.target = spkgs[0]
	e.targetPkg = pkgs[0]
	e.target.Build()
	e.errorIface = types.Universe.Lookup("error").Type().Underlying().(*types.Interface)
	if ep := prog.ImportedPackage("errors"); ep != nil {
		ep.Build()
		e.errNewFn = ep.Func("New")
		if t := ep.Type("errorString"); t != nil {
			e.errStrType = types.NewPointer(t.Type())
		}
	}
	registerIntrinsics(e)
	return e, nil
}

func (e *Engine) makeErrorString(p *Path, msg string) IfaceV {
	if e.errStrType == nil {
		return IfaceV{T: tString, V: StringV{S: msg}}
	}
	cell := new(Value)
	*cell = StructV{StringV{S: msg}}
	return IfaceV{T: e.errStrType, V: cell}
}

// ---- harness discovery ----

func (e *Engine) findHarnesses(filter string) ([]*Harness, error) {
	var out []*Harness
	fileDirectives := map[*ast.File][]string{}
	for _, f := range e.targetPkg.Syntax {
		for _, cg := range f.Comments {
			for _, c := range cg.List {
				if strings.HasPrefix(c.Text, "//verif:") {
					fileDirectives[f] = append(fileDirectives[f], strings.TrimPrefix(c.Text, "//verif:"))
				}
			}
		}
	}
	for _, f := range e.targetPkg.Syntax {
		for _, d := range f.Decls {
			fd, ok := d.(*ast.FuncDecl)
			if !ok || fd.Recv != nil || !strings.HasPrefix(fd.Name.Name, "verifH_") {
				continue
			}
			if filter != "" && !strings.Contains(fd.Name.Name, filter) {
				continue
			}
			h := &Harness{Name: fd.Name.Name, Unwind: 8, MaxPaths: 20000, MaxSteps: 20_000_000, MaxDecisions: 400, MaxConcretize: 64,
				Stubs: map[string]*ssa.Function{}, Opaque: map[string]bool{}, MaxSwitches: 8}
			if e.tier == "thorough" {
				// default path budget of the thorough tier (a //verif:maxpaths directive overrides it)
				h.MaxPaths = 600000
			}
			h.Fn = e.target.Func(fd.Name.Name)
			if h.Fn == nil {
				return nil, fmt.Errorf("no SSA function for %s", fd.Name.Name)
			}
			// file-level directives that are not attached to a function doc apply to all
			// harnesses of the file; function doc directives apply to that function.
			var dirs []string
			funcDocs := map[string]bool{}
			for _, d2 := range f.Decls {
				if fd2, ok := d2.(*ast.FuncDecl); ok && fd2.Doc != nil {
					for _, c := range fd2.Doc.List {
						if strings.HasPrefix(c.Text, "//verif:") {
							funcDocs[strings.TrimPrefix(c.Text, "//verif:")+"@"+fd2.Name.Name] = true
						}
					}
				}
			}
			for _, dtext := range fileDirectives[f] {
				attached := false
				for k := range funcDocs {
					if strings.HasPrefix(k, dtext+"@") {
						attached = true
					}
				}
				if !attached {
					dirs = append(dirs, dtext)
				}
			}
			if fd.Doc != nil {
				for _, c := range fd.Doc.List {
					if strings.HasPrefix(c.Text, "//verif:") {
						dirs = append(dirs, strings.TrimPrefix(c.Text, "//verif:"))
					}
				}
			}
			for _, dtext := range dirs {
				if err := e.applyDirective(h, dtext); err != nil {
					return nil, fmt.Errorf("%s: %v", fd.Name.Name, err)
				}
			}
			if h.Tier != "" && h.Tier != e.tier {
				continue
			}
			out = append(out, h)
		}
	}
	sort.Slice(out, func(i, j int) bool { return out[i].Name < out[j].Name })
	return out, nil
}

func (e *Engine) applyDirective(h *Harness, d string) error {
	fields := strings.Fields(d)
	if len(fields) == 0 {
		return nil
	}
	tierVal := func(args []string) string {
		// "N" or "quick=N thorough=M"
		val := ""
		for _, a := range args {
			if strings.HasPrefix(a, "quick=") {
				if e.tier == "quick" {
					val = strings.TrimPrefix(a, "quick=")
				}
			} else if strings.HasPrefix(a, "thorough=") {
				if e.tier == "thorough" {
					val = strings.TrimPrefix(a, "thorough=")
				}
			} else if val == "" {
				val = a
			}
		}
		return val
	}
	switch fields[0] {
	case "ints":
		h.LIA = len(fields) > 1 && fields[1] == "lia"
	case "unwind":
		n, err := strconv.Atoi(tierVal(fields[1:]))
		if err != nil {
			return err
		}
		h.Unwind = n
	case "maxpaths":
		n, err := strconv.Atoi(tierVal(fields[1:]))
		if err != nil {
			return err
		}
		h.MaxPaths = n
	case "maxsteps":
		n, err := strconv.Atoi(tierVal(fields[1:]))
		if err != nil {
			return err
		}
		h.MaxSteps = int64(n)
	case "maxdecisions":
		n, err := strconv.Atoi(tierVal(fields[1:]))
		if err != nil {
			return err
		}
		h.MaxDecisions = n
	case "maxconcretize":
		n, err := strconv.Atoi(tierVal(fields[1:]))
		if err != nil {
			return err
		}
		h.MaxConcretize = n
	case "quote":
		h.QuoteApprox = len(fields) > 1 && fields[1] == "approx"
	case "maporder":
		h.MapOrder = true
	case "race":
		h.Race = true
		h.RaceAll = len(fields) > 1 && fields[1] == "all"
	case "sched":
		h.Sched = true
		if len(fields) > 1 {
			n, err := strconv.Atoi(tierVal(fields[1:]))
			if err == nil {
				h.MaxSwitches = n
			}
		}
	case "tier":
		if len(fields) > 1 {
			h.Tier = fields[1]
		}
	case "expect":
		if len(fields) > 1 {
			h.Expect = fields[1]
		}
	case "bound":
		h.Bound = strings.TrimSpace(strings.TrimPrefix(d, "bound"))
	case "assume":
		h.Assumes = append(h.Assumes, strings.TrimSpace(strings.TrimPrefix(d, "assume")))
	case "opaque":
		for _, f := range fields[1:] {
			h.Opaque[f] = true
		}
	case "noinit":
		// noinit <pkgpath>...: the package initialiser is not run (its globals start at
		// their zero values; a harness may assign the ones it needs)
		if h.NoInit == nil {
			h.NoInit = map[string]bool{}
		}
		for _, f := range fields[1:] {
			h.NoInit[f] = true
		}
	case "stub":
		// stub <target> = <harnessFunc>
		rest := strings.TrimSpace(strings.TrimPrefix(d, "stub"))
		parts := strings.SplitN(rest, "=", 2)
		if len(parts) != 2 {
			return fmt.Errorf("bad stub directive %q", d)
		}
		target := strings.TrimSpace(parts[0])
		repl := strings.TrimSpace(parts[1])
		fn := e.target.Func(repl)
		if fn == nil {
			return fmt.Errorf("stub replacement %s not found", repl)
		}
		h.Stubs[target] = fn
		h.StubNames = append(h.StubNames, target+" = "+repl)
	case "use":
		// use <set>...: expands to a named set of stub redirects (harness/common)
		for _, name := range fields[1:] {
			set, ok := stubSets[name]
			if !ok {
				return fmt.Errorf("unknown stub set %q", name)
			}
			for _, line := range set {
				if err := e.applyDirective(h, "stub "+line); err != nil {
					return err
				}
			}
		}
	case "pkg", "dir", "property":
		// handled by the driver
	default:
		return fmt.Errorf("unknown directive %q", d)
	}
	return nil
}

const repoPkg = "github.com/Query-farm/vgi-rpc-go/vgirpc"
const arrowPkg = "github.com/apache/arrow-go/v18/arrow"

// stubSets are the named environment models of harness/common.
var stubSets = map[string][]string{
	// abstract Arrow IPC (harness/common/ipc.go)
	"ipc": {
		arrowPkg + "/ipc.NewReader = verifIpcNewReader",
		"(*" + arrowPkg + "/ipc.Reader).Next = verifReaderNext",
		"(*" + arrowPkg + "/ipc.Reader).RecordBatch = verifReaderRecordBatch",
		"(*" + arrowPkg + "/ipc.Reader).Record = verifReaderRecordBatch",
		"(*" + arrowPkg + "/ipc.Reader).Err = verifReaderErr",
		"(*" + arrowPkg + "/ipc.Reader).Release = verifReaderRelease",
		"(*" + arrowPkg + "/ipc.Reader).Retain = verifReaderRetain",
		"(*" + arrowPkg + "/ipc.Reader).Schema = verifReaderSchema",
		arrowPkg + "/ipc.NewWriter = verifIpcNewWriter",
		arrowPkg + "/ipc.WithSchema = verifIpcWithSchema",
		"(*" + arrowPkg + "/ipc.Writer).Write = verifWriterWrite",
		"(*" + arrowPkg + "/ipc.Writer).Close = verifWriterClose",
		arrowPkg + "/array.NewRecordBatchWithMetadata = verifNewRecordBatchWithMetadata",
		arrowPkg + "/array.NewRecordBatch = verifNewRecordBatch",
		repoPkg + ".emptyBatch = verifEmptyBatch",
		repoPkg + ".batchBufferSize = verifBatchBufferSize",
		repoPkg + ".serializeSchema = verifSerializeSchema",
		repoPkg + ".deserializeSchema = verifDeserializeSchema",
	},
	// ghost handlers behind reflect (harness/common/handler.go)
	"handler": {
		"reflect.ValueOf = verifReflectValueOf",
		"(reflect.Value).Call = verifReflectCall",
		"(reflect.Value).IsNil = verifReflectIsNil",
		"(reflect.Value).Interface = verifReflectInterface",
		repoPkg + ".deserializeParams = verifDeserializeParams",
	},
	// pipe-session scaffolding (harness/common/pipe.go)
	"pipe": {
		repoPkg + ".serializeArrowSerializable = verifSerializeArrowSerializable",
		repoPkg + ".serializeResult = verifSerializeResult",
		repoPkg + ".SerializeRequestBatch = verifSerializeRequestBatch",
		"(*" + repoPkg + ".Server).ProtocolHash = verifXProtocolHash",
		"encoding/json.Marshal = verifJSONMarshal",
		"crypto/rand.Read = verifRandRead",
	},
	// HTTP handler scaffolding (harness/common/httpx.go)
	"httpx": {
		"(*" + repoPkg + ".Server).ProtocolHash = verifXProtocolHash",
		"(*" + repoPkg + ".HttpServer).readHTTPBody = verifXReadBody",
		repoPkg + ".buildHTTPCookies = verifXCookies",
		"encoding/json.Marshal = verifJSONMarshal",
		"time.Now = verifFixedNow",
	},
	// ideal-cryptography token algebra (harness/common/tokens.go)
	"tokens": {
		"(*" + repoPkg + ".HttpServer).sealToken = verifSealToken",
		"(*" + repoPkg + ".HttpServer).openToken = verifOpenToken",
		repoPkg + ".sealSessionToken = verifSealSessionToken",
		repoPkg + ".openSessionToken = verifOpenSessionToken",
		"crypto/rand.Read = verifRandRead",
	},
}

// ---- running a harness ----

type PathOutcome struct {
	Decisions  []int
	Abort      *pathAbort
	Violations []Violation
	Reached    map[string]bool
	Forks      []workItem
	Asserts    int
	Proven     int
	UnknownAs  int
	Steps      int64
	Funcs      map[*ssa.Function]bool
	Opaque     map[string]int
	Overflows  []string
	Sample     map[string]string
	Trace      []string
	Assumes    int
	NDecisions int
	EscPanic   string
}

type HarnessResult struct {
	H            *Harness
	Paths        int
	Completed    int
	Aborts       map[string]int
	AbortMsgs    map[string]int
	Violations   []Violation
	Reached      map[string]bool
	Asserts      int
	Proven       int
	UnknownAs    int
	Steps        int64
	Funcs        map[string]int
	Opaque       map[string]int
	Overflows    map[string]int
	Samples      []map[string]string
	Queries      int
	Sat, Unsat   int
	Unknown      int
	SolverErrors int
	SolveTime    time.Duration
	Wall         time.Duration
	Exhaustive   bool
	Decisions    int
	BudgetHit    bool
	ConcChecked  int
	ConcFailed   int
}

func (e *Engine) RunHarness(h *Harness) *HarnessResult {
	res := &HarnessResult{H: h, Aborts: map[string]int{}, AbortMsgs: map[string]int{}, Reached: map[string]bool{},
		Funcs: map[string]int{}, Opaque: map[string]int{}, Overflows: map[string]int{}}
	t0 := time.Now()
	var mu sync.Mutex
	work := []workItem{{prefix: nil}}
	active := 0
	cond := sync.NewCond(&mu)
	done := false
	nw := e.workers
	var wg sync.WaitGroup
	for w := 0; w < nw; w++ {
		wg.Add(1)
		go func(wid int) {
			defer wg.Done()
			solver, err := NewSolver(e.solverKind, e.timeoutMs)
			if err != nil {
				fmt.Fprintln(os.Stderr, "solver start failed:", err)
				return
			}
			if wid == 0 && e.logSmt != "" {
				if f, err := os.OpenFile(e.logSmt, os.O_CREATE|os.O_WRONLY|os.O_APPEND, 0o644); err == nil {
					solver.log = f
					defer f.Close()
				}
			}
			defer func() {
				mu.Lock()
				res.Queries += solver.Queries
				res.Sat += solver.Sat
				res.Unsat += solver.Unsat
				res.Unknown += solver.Unknown
				res.SolverErrors += solver.Errors
				res.SolveTime += solver.SolveTime
				mu.Unlock()
				solver.Close()
			}()
			for {
				mu.Lock()
				for len(work) == 0 && active > 0 && !done {
					cond.Wait()
				}
				if done || (len(work) == 0 && active == 0) {
					done = true
					cond.Broadcast()
					mu.Unlock()
					return
				}
				// DFS: take the most recent item
				item := work[len(work)-1]
				work = work[:len(work)-1]
				if res.Paths >= h.MaxPaths {
					res.BudgetHit = true
					done = true
					cond.Broadcast()
					mu.Unlock()
					return
				}
				res.Paths++
				active++
				mu.Unlock()

				out := e.runPath(h, item.prefix, solver, nil)

				mu.Lock()
				active--
				work = append(work, out.Forks...)
				e.mergeOutcome(res, out)
				cond.Broadcast()
				mu.Unlock()
			}
		}(w)
	}
	wg.Wait()
	res.Wall = time.Since(t0)
	res.Exhaustive = !res.BudgetHit
	for k, n := range res.Aborts {
		if k != "infeasible" && n > 0 {
			res.Exhaustive = false
		}
	}
	return res
}

func (e *Engine) mergeOutcome(res *HarnessResult, out *PathOutcome) {
	if out.Abort != nil {
		res.Aborts[out.Abort.kind.String()]++
		if out.Abort.kind != abortInfeasible {
			res.AbortMsgs[out.Abort.kind.String()+": "+out.Abort.msg]++
		}
	} else {
		res.Completed++
	}
	for _, v := range out.Violations {
		// dedupe by label: keep first few per label
		n := 0
		for _, ev := range res.Violations {
			if ev.Label == v.Label {
				n++
			}
		}
		if n < 3 {
			res.Violations = append(res.Violations, v)
		}
	}
	for k := range out.Reached {
		res.Reached[k] = true
	}
	res.Asserts += out.Asserts
	res.Proven += out.Proven
	res.UnknownAs += out.UnknownAs
	res.Steps += out.Steps
	res.Decisions += out.NDecisions
	for f := range out.Funcs {
		n := 0
		for _, b := range f.Blocks {
			n += len(b.Instrs)
		}
		res.Funcs[f.String()] = n
	}
	for k, n := range out.Opaque {
		res.Opaque[k] += n
	}
	for _, o := range out.Overflows {
		res.Overflows[o]++
	}
	if out.Sample != nil && len(res.Samples) < 4 && out.Abort == nil {
		res.Samples = append(res.Samples, out.Sample)
	}
}

func (e *Engine) runPath(h *Harness, prefix []int, solver *Solver, concModel Model) (out *PathOutcome) {
	p := &Path{eng: e, h: h, ts: NewTermStore(), solver: solver, lia: h.LIA, prefix: prefix,
		globals: map[*ssa.Global]*Value{}, pkgInit: map[*ssa.Package]int{}, siteHits: map[siteKey]int{},
		reached: map[string]bool{}, funcsSeen: map[*ssa.Function]bool{}, opaqueSeen: map[string]int{},
		ghost: map[string]Value{}, errStrs: map[string]*Value{}, concModel: concModel, nameCount: map[string]int{},
		locks: map[*Value]int{}, lockOwner: map[*Value]int{}, onceDone: map[*Value]bool{}, wgCount: map[*Value]int{},
		syncMaps: map[*Value]*MapV{}, atomicVals: map[*Value]Value{}, onceRunning: map[*Value]bool{}}
	if concModel == nil {
		solver.Reset()
	}
	out = &PathOutcome{}
	defer func() {
		r := recover()
		if p.sched != nil && !p.sched.finished {
			p.sched.finish(p)
		}
		if r != nil {
			switch r := r.(type) {
			case pathAbort:
				out.Abort = &r
			case targetPanic:
				msg := p.panicString(r)
				out.EscPanic = msg
				v := Violation{Label: "uncaught panic escapes harness", Kind: "panic", Detail: msg, Trace: p.trace}
				v.Model = p.modelFor(nil)
				out.Violations = append(p.violations, v)
				p.violations = out.Violations
			default:
				// engine bug: report as unsupported with stack hint
				out.Abort = &pathAbort{kind: abortUnsupported, msg: fmt.Sprintf("engine panic: %v @ %s", r, shortStack())}
			}
		}
		out.Decisions = p.decisions
		out.NDecisions = len(p.decisions)
		if out.Violations == nil {
			out.Violations = p.violations
		}
		out.Reached = p.reached
		out.Forks = p.forks
		out.Asserts = p.asserts
		out.Proven = p.proven
		out.UnknownAs = p.unknownAs
		out.Steps = p.steps
		out.Funcs = p.funcsSeen
		out.Opaque = p.opaqueSeen
		out.Overflows = p.overflows
		out.Trace = p.trace
		out.Assumes = p.assumes
		if out.Abort == nil && concModel == nil && e.sampleBudget.Add(-1) >= 0 {
			out.Sample = p.modelFor(nil)
		}
	}()
	p.callSSA(nil, token.NoPos, h.Fn, nil, nil)
	return out
}

// modelFor asks the solver for a model of pc ∧ extra and renders the nondet inputs.
func (p *Path) modelFor(extra *Term) map[string]string {
	if p.concModel != nil {
		return p.renderModel(p.concModel)
	}
	if p.solver == nil {
		return nil
	}
	res, m := p.solver.Check(extra, true, p.ts.Vars)
	if res != "sat" {
		return map[string]string{"_status": res}
	}
	out := p.renderModel(m)
	p.lastModel = m
	return out
}

func (p *Path) renderModel(m Model) map[string]string {
	out := map[string]string{}
	memo := map[int]ModelVal{}
	for _, nd := range p.nondets {
		switch nd.Kind {
		case "string", "bytes":
			bs := make([]byte, len(nd.Terms))
			for i, t := range nd.Terms {
				v := evalTerm(t, m, memo)
				if v.Sort.K == SInt {
					bs[i] = byte(v.I.Uint64())
				} else {
					bs[i] = byte(v.U)
				}
			}
			out[nd.Name] = fmt.Sprintf("hex:%x", bs)
		case "bool":
			v := evalTerm(nd.Terms[0], m, memo)
			out[nd.Name] = fmt.Sprintf("%v", v.U == 1)
		default:
			v := evalTerm(nd.Terms[0], m, memo)
			if v.Sort.K == SInt {
				out[nd.Name] = v.I.String()
			} else if nd.Signed {
				w := v.Sort.W
				u := v.U
				if w < 64 && u&(1<<uint(w-1)) != 0 {
					u |= ^mask(w)
				}
				out[nd.Name] = fmt.Sprintf("%d", int64(u))
			} else {
				out[nd.Name] = fmt.Sprintf("%d", v.U)
			}
		}
	}
	return out
}

func shortStack() string {
	buf := make([]byte, 4096)
	n := runtimeStack(buf)
	lines := strings.Split(string(buf[:n]), "\n")
	var keep []string
	for _, l := range lines {
		l = strings.TrimSpace(l)
		if strings.Contains(l, "/engine/") && !strings.Contains(l, "engine.go") {
			if i := strings.LastIndex(l, "/"); i >= 0 {
				l = l[i+1:]
			}
			if j := strings.Index(l, " "); j > 0 {
				l = l[:j]
			}
			keep = append(keep, l)
			if len(keep) >= 6 {
				break
			}
		}
	}
	return strings.Join(keep, " < ")
}

func relPath(base, p string) string {
	r, err := filepath.Rel(base, p)
	if err != nil {
		return p
	}
	return r
}
