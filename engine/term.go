package main

// SMT term DAG with constant folding. Sorts: Bool, BitVec(w<=64), Int.

import (
	"fmt"
	"math/big"
	"strings"
)

type SortKind uint8

const (
	SBool SortKind = iota
	SBV
	SInt
)

type Sort struct {
	K SortKind
	W int // bit width for SBV
}

func (s Sort) String() string {
	switch s.K {
	case SBool:
		return "Bool"
	case SBV:
		return fmt.Sprintf("(_ BitVec %d)", s.W)
	default:
		return "Int"
	}
}

var (
	BoolSort = Sort{K: SBool}
	IntSort  = Sort{K: SInt}
)

func BVSort(w int) Sort { return Sort{K: SBV, W: w} }

type Op uint8

const (
	OConst Op = iota
	OVar
	ONot
	OAnd
	OOr
	OIte
	OEq
	// BV
	OBvAdd
	OBvSub
	OBvMul
	OBvUdiv
	OBvSdiv
	OBvUrem
	OBvSrem
	OBvAnd
	OBvOr
	OBvXor
	OBvNot
	OBvNeg
	OBvShl
	OBvLshr
	OBvAshr
	OBvUlt
	OBvUle
	OBvSlt
	OBvSle
	OBvConcat
	OBvExtract // hi, lo in Hi, Lo
	OBvZext    // to width sort.W
	OBvSext
	// Int
	OAdd
	OSub
	OMul
	ODiv // SMT-LIB div (floor for positive divisor)
	OMod
	OLt
	OLe
	ONeg
)

var opNames = map[Op]string{
	ONot: "not", OAnd: "and", OOr: "or", OIte: "ite", OEq: "=",
	OBvAdd: "bvadd", OBvSub: "bvsub", OBvMul: "bvmul", OBvUdiv: "bvudiv", OBvSdiv: "bvsdiv",
	OBvUrem: "bvurem", OBvSrem: "bvsrem", OBvAnd: "bvand", OBvOr: "bvor", OBvXor: "bvxor",
	OBvNot: "bvnot", OBvNeg: "bvneg", OBvShl: "bvshl", OBvLshr: "bvlshr", OBvAshr: "bvashr",
	OBvUlt: "bvult", OBvUle: "bvule", OBvSlt: "bvslt", OBvSle: "bvsle", OBvConcat: "concat",
	OAdd: "+", OSub: "-", OMul: "*", ODiv: "div", OMod: "mod", OLt: "<", OLe: "<=", ONeg: "-",
}

type Term struct {
	Op     Op
	S      Sort
	Args   []*Term
	U      uint64   // BV / Bool constant value (Bool: 0/1)
	I      *big.Int // Int constant
	Name   string   // var
	Hi, Lo int      // extract
	id     int
	// interval for Int-sorted terms (nil = unbounded)
	lo, hi *big.Int
	taint  uint32
}

// TermStore hash-conses terms for one path.
type TermStore struct {
	next  int
	table map[string]*Term
	Vars  []*Term
}

func NewTermStore() *TermStore {
	return &TermStore{table: map[string]*Term{}}
}

func (ts *TermStore) intern(t *Term) *Term {
	var sb strings.Builder
	fmt.Fprintf(&sb, "%d|%d.%d|", t.Op, t.S.K, t.S.W)
	switch t.Op {
	case OConst:
		if t.S.K == SInt {
			sb.WriteString(t.I.String())
		} else {
			fmt.Fprintf(&sb, "%d", t.U)
		}
	case OVar:
		sb.WriteString(t.Name)
	case OBvExtract:
		fmt.Fprintf(&sb, "%d,%d|", t.Hi, t.Lo)
	}
	for _, a := range t.Args {
		fmt.Fprintf(&sb, "#%d", a.id)
	}
	k := sb.String()
	if e, ok := ts.table[k]; ok {
		return e
	}
	ts.next++
	t.id = ts.next
	for _, a := range t.Args {
		t.taint |= a.taint
	}
	ts.table[k] = t
	return t
}

func mask(w int) uint64 {
	if w >= 64 {
		return ^uint64(0)
	}
	return (uint64(1) << uint(w)) - 1
}

func (ts *TermStore) Bool(b bool) *Term {
	u := uint64(0)
	if b {
		u = 1
	}
	return ts.intern(&Term{Op: OConst, S: BoolSort, U: u})
}

func (ts *TermStore) BV(v uint64, w int) *Term {
	return ts.intern(&Term{Op: OConst, S: BVSort(w), U: v & mask(w)})
}

func (ts *TermStore) IntBig(v *big.Int) *Term {
	c := new(big.Int).Set(v)
	t := ts.intern(&Term{Op: OConst, S: IntSort, I: c})
	t.lo, t.hi = c, c
	return t
}

func (ts *TermStore) Int64(v int64) *Term { return ts.IntBig(big.NewInt(v)) }

func (ts *TermStore) Var(name string, s Sort) *Term {
	before := ts.next
	t := ts.intern(&Term{Op: OVar, S: s, Name: name})
	if ts.next != before {
		ts.Vars = append(ts.Vars, t)
	}
	return t
}

func (t *Term) IsConst() bool { return t.Op == OConst }
func (t *Term) IsTrue() bool  { return t.Op == OConst && t.S.K == SBool && t.U == 1 }
func (t *Term) IsFalse() bool { return t.Op == OConst && t.S.K == SBool && t.U == 0 }

// signed value of a BV const
func (t *Term) SVal() int64 {
	w := t.S.W
	if w >= 64 {
		return int64(t.U)
	}
	if t.U&(1<<uint(w-1)) != 0 {
		return int64(t.U | ^mask(w))
	}
	return int64(t.U)
}

func (ts *TermStore) Not(a *Term) *Term {
	if a.IsConst() {
		return ts.Bool(a.U == 0)
	}
	if a.Op == ONot {
		return a.Args[0]
	}
	return ts.intern(&Term{Op: ONot, S: BoolSort, Args: []*Term{a}})
}

func (ts *TermStore) And(a, b *Term) *Term {
	if a.IsConst() {
		if a.U == 0 {
			return a
		}
		return b
	}
	if b.IsConst() {
		if b.U == 0 {
			return b
		}
		return a
	}
	if a == b {
		return a
	}
	return ts.intern(&Term{Op: OAnd, S: BoolSort, Args: []*Term{a, b}})
}

func (ts *TermStore) Or(a, b *Term) *Term {
	if a.IsConst() {
		if a.U == 1 {
			return a
		}
		return b
	}
	if b.IsConst() {
		if b.U == 1 {
			return b
		}
		return a
	}
	if a == b {
		return a
	}
	return ts.intern(&Term{Op: OOr, S: BoolSort, Args: []*Term{a, b}})
}

func (ts *TermStore) AndN(xs ...*Term) *Term {
	r := ts.Bool(true)
	for _, x := range xs {
		r = ts.And(r, x)
	}
	return r
}

func (ts *TermStore) OrN(xs ...*Term) *Term {
	r := ts.Bool(false)
	for _, x := range xs {
		r = ts.Or(r, x)
	}
	return r
}

func (ts *TermStore) Ite(c, a, b *Term) *Term {
	if c.IsConst() {
		if c.U == 1 {
			return a
		}
		return b
	}
	if a == b {
		return a
	}
	if a.S.K == SBool {
		if a.IsConst() && b.IsConst() {
			if a.U == 1 {
				return c
			}
			return ts.Not(c)
		}
	}
	t := ts.intern(&Term{Op: OIte, S: a.S, Args: []*Term{c, a, b}})
	if a.S.K == SInt && t.lo == nil && t.hi == nil {
		if a.lo != nil && b.lo != nil {
			t.lo = minBig(a.lo, b.lo)
		}
		if a.hi != nil && b.hi != nil {
			t.hi = maxBig(a.hi, b.hi)
		}
	}
	return t
}

func minBig(a, b *big.Int) *big.Int {
	if a.Cmp(b) <= 0 {
		return a
	}
	return b
}
func maxBig(a, b *big.Int) *big.Int {
	if a.Cmp(b) >= 0 {
		return a
	}
	return b
}

func (ts *TermStore) Eq(a, b *Term) *Term {
	if a.S != b.S {
		panic(fmt.Sprintf("Eq sort mismatch %v %v (%s vs %s)", a.S, b.S, ts.Show(a), ts.Show(b)))
	}
	if a == b {
		return ts.Bool(true)
	}
	if a.IsConst() && b.IsConst() {
		if a.S.K == SInt {
			return ts.Bool(a.I.Cmp(b.I) == 0)
		}
		return ts.Bool(a.U == b.U)
	}
	if a.S.K == SBool {
		if a.IsConst() {
			a, b = b, a
		}
		if b.IsConst() {
			if b.U == 1 {
				return a
			}
			return ts.Not(a)
		}
	}
	if a.S.K == SInt {
		// disjoint intervals
		if a.hi != nil && b.lo != nil && a.hi.Cmp(b.lo) < 0 {
			return ts.Bool(false)
		}
		if b.hi != nil && a.lo != nil && b.hi.Cmp(a.lo) < 0 {
			return ts.Bool(false)
		}
	}
	if a.id > b.id {
		a, b = b, a
	}
	return ts.intern(&Term{Op: OEq, S: BoolSort, Args: []*Term{a, b}})
}

// ---- BV ops ----

func (ts *TermStore) bvBin(op Op, a, b *Term) *Term {
	if a.S != b.S || a.S.K != SBV {
		panic(fmt.Sprintf("bv op %s sort mismatch %v %v", opNames[op], a.S, b.S))
	}
	w := a.S.W
	if a.IsConst() && b.IsConst() {
		x, y := a.U, b.U
		sx, sy := a.SVal(), b.SVal()
		switch op {
		case OBvAdd:
			return ts.BV(x+y, w)
		case OBvSub:
			return ts.BV(x-y, w)
		case OBvMul:
			return ts.BV(x*y, w)
		case OBvUdiv:
			if y == 0 {
				return ts.BV(mask(w), w)
			}
			return ts.BV(x/y, w)
		case OBvUrem:
			if y == 0 {
				return ts.BV(x, w)
			}
			return ts.BV(x%y, w)
		case OBvSdiv:
			if y == 0 {
				if sx >= 0 {
					return ts.BV(mask(w), w)
				}
				return ts.BV(1, w)
			}
			if sy == -1 {
				return ts.BV(uint64(-sx), w)
			}
			return ts.BV(uint64(sx/sy), w)
		case OBvSrem:
			if y == 0 {
				return ts.BV(x, w)
			}
			if sy == -1 {
				return ts.BV(0, w)
			}
			return ts.BV(uint64(sx%sy), w)
		case OBvAnd:
			return ts.BV(x&y, w)
		case OBvOr:
			return ts.BV(x|y, w)
		case OBvXor:
			return ts.BV(x^y, w)
		case OBvShl:
			if y >= uint64(w) {
				return ts.BV(0, w)
			}
			return ts.BV(x<<y, w)
		case OBvLshr:
			if y >= uint64(w) {
				return ts.BV(0, w)
			}
			return ts.BV(x>>y, w)
		case OBvAshr:
			if y >= uint64(w) {
				if sx < 0 {
					return ts.BV(mask(w), w)
				}
				return ts.BV(0, w)
			}
			return ts.BV(uint64(sx>>y), w)
		}
	}
	// identities
	switch op {
	case OBvAdd, OBvOr, OBvXor:
		if a.IsConst() && a.U == 0 {
			return b
		}
		if b.IsConst() && b.U == 0 {
			return a
		}
	case OBvSub, OBvShl, OBvLshr, OBvAshr:
		if b.IsConst() && b.U == 0 {
			return a
		}
	case OBvAnd:
		if a.IsConst() && a.U == 0 {
			return a
		}
		if b.IsConst() && b.U == 0 {
			return b
		}
		if a.IsConst() && a.U == mask(w) {
			return b
		}
		if b.IsConst() && b.U == mask(w) {
			return a
		}
	case OBvMul:
		if a.IsConst() && a.U == 1 {
			return b
		}
		if b.IsConst() && b.U == 1 {
			return a
		}
		if a.IsConst() && a.U == 0 {
			return a
		}
		if b.IsConst() && b.U == 0 {
			return b
		}
	}
	return ts.intern(&Term{Op: op, S: a.S, Args: []*Term{a, b}})
}

func (ts *TermStore) bvCmp(op Op, a, b *Term) *Term {
	if a.S != b.S || a.S.K != SBV {
		panic(fmt.Sprintf("bv cmp sort mismatch %v %v", a.S, b.S))
	}
	if a.IsConst() && b.IsConst() {
		switch op {
		case OBvUlt:
			return ts.Bool(a.U < b.U)
		case OBvUle:
			return ts.Bool(a.U <= b.U)
		case OBvSlt:
			return ts.Bool(a.SVal() < b.SVal())
		case OBvSle:
			return ts.Bool(a.SVal() <= b.SVal())
		}
	}
	if a == b {
		return ts.Bool(op == OBvUle || op == OBvSle)
	}
	return ts.intern(&Term{Op: op, S: BoolSort, Args: []*Term{a, b}})
}

func (ts *TermStore) BvNot(a *Term) *Term {
	if a.IsConst() {
		return ts.BV(^a.U, a.S.W)
	}
	return ts.intern(&Term{Op: OBvNot, S: a.S, Args: []*Term{a}})
}

func (ts *TermStore) BvNeg(a *Term) *Term {
	if a.IsConst() {
		return ts.BV(-a.U, a.S.W)
	}
	return ts.intern(&Term{Op: OBvNeg, S: a.S, Args: []*Term{a}})
}

func (ts *TermStore) Extract(a *Term, hi, lo int) *Term {
	if lo == 0 && hi == a.S.W-1 {
		return a
	}
	w := hi - lo + 1
	if a.IsConst() {
		return ts.BV(a.U>>uint(lo), w)
	}
	if a.Op == OBvZext || a.Op == OBvSext {
		inner := a.Args[0]
		if hi < inner.S.W {
			return ts.Extract(inner, hi, lo)
		}
	}
	return ts.intern(&Term{Op: OBvExtract, S: BVSort(w), Args: []*Term{a}, Hi: hi, Lo: lo})
}

func (ts *TermStore) Zext(a *Term, w int) *Term {
	if a.S.W == w {
		return a
	}
	if a.S.W > w {
		return ts.Extract(a, w-1, 0)
	}
	if a.IsConst() {
		return ts.BV(a.U, w)
	}
	return ts.intern(&Term{Op: OBvZext, S: BVSort(w), Args: []*Term{a}})
}

func (ts *TermStore) Sext(a *Term, w int) *Term {
	if a.S.W == w {
		return a
	}
	if a.S.W > w {
		return ts.Extract(a, w-1, 0)
	}
	if a.IsConst() {
		return ts.BV(uint64(a.SVal()), w)
	}
	return ts.intern(&Term{Op: OBvSext, S: BVSort(w), Args: []*Term{a}})
}

// ---- Int ops ----

func addB(a, b *big.Int) *big.Int {
	if a == nil || b == nil {
		return nil
	}
	return new(big.Int).Add(a, b)
}
func subB(a, b *big.Int) *big.Int {
	if a == nil || b == nil {
		return nil
	}
	return new(big.Int).Sub(a, b)
}

func (ts *TermStore) IAdd(a, b *Term) *Term {
	if a.IsConst() && b.IsConst() {
		return ts.IntBig(new(big.Int).Add(a.I, b.I))
	}
	if a.IsConst() && a.I.Sign() == 0 {
		return b
	}
	if b.IsConst() && b.I.Sign() == 0 {
		return a
	}
	// (x + c1) + c2 => x + (c1+c2)
	if b.IsConst() && a.Op == OAdd && a.Args[1].IsConst() {
		return ts.IAdd(a.Args[0], ts.IntBig(new(big.Int).Add(a.Args[1].I, b.I)))
	}
	if a.IsConst() {
		a, b = b, a
	}
	// byte reassembly: M*div(y,M) + mod(y,M) => y   (M > 0 constant, Euclidean div/mod)
	if r := ts.reassemble(a, b); r != nil {
		return r
	}
	if r := ts.reassemble(b, a); r != nil {
		return r
	}
	t := ts.intern(&Term{Op: OAdd, S: IntSort, Args: []*Term{a, b}})
	if t.lo == nil && t.hi == nil {
		t.lo, t.hi = addB(a.lo, b.lo), addB(a.hi, b.hi)
	}
	return t
}

// divOf views t as div(x, c) with c a positive constant (c = 1 when t is not a division).
func divOf(t *Term) (*Term, *big.Int) {
	if t.Op == ODiv && t.Args[1].IsConst() && t.Args[1].I.Sign() > 0 {
		return t.Args[0], t.Args[1].I
	}
	return t, big.NewInt(1)
}

func (ts *TermStore) reassemble(a, b *Term) *Term {
	if a.Op != OMul || !a.Args[1].IsConst() || a.Args[1].I.Sign() <= 0 {
		return nil
	}
	m := a.Args[1].I
	if b.Op != OMod || !b.Args[1].IsConst() || b.Args[1].I.Cmp(m) != 0 {
		return nil
	}
	xh, ch := divOf(a.Args[0])
	xb, cb := divOf(b.Args[0])
	if xh != xb || ch.Cmp(new(big.Int).Mul(cb, m)) != 0 {
		return nil
	}
	return ts.IDiv(xb, ts.IntBig(cb))
}

func (ts *TermStore) ISub(a, b *Term) *Term {
	if a.IsConst() && b.IsConst() {
		return ts.IntBig(new(big.Int).Sub(a.I, b.I))
	}
	if b.IsConst() {
		return ts.IAdd(a, ts.IntBig(new(big.Int).Neg(b.I)))
	}
	if a == b {
		return ts.Int64(0)
	}
	t := ts.intern(&Term{Op: OSub, S: IntSort, Args: []*Term{a, b}})
	if t.lo == nil && t.hi == nil {
		t.lo, t.hi = subB(a.lo, b.hi), subB(a.hi, b.lo)
	}
	return t
}

func (ts *TermStore) INeg(a *Term) *Term {
	return ts.ISub(ts.Int64(0), a)
}

func (ts *TermStore) IMul(a, b *Term) *Term {
	if a.IsConst() && b.IsConst() {
		return ts.IntBig(new(big.Int).Mul(a.I, b.I))
	}
	if a.IsConst() {
		a, b = b, a
	}
	if b.IsConst() {
		if b.I.Sign() == 0 {
			return b
		}
		if b.I.IsInt64() && b.I.Int64() == 1 {
			return a
		}
	}
	t := ts.intern(&Term{Op: OMul, S: IntSort, Args: []*Term{a, b}})
	if t.lo == nil && t.hi == nil && a.lo != nil && a.hi != nil && b.lo != nil && b.hi != nil {
		c := []*big.Int{new(big.Int).Mul(a.lo, b.lo), new(big.Int).Mul(a.lo, b.hi), new(big.Int).Mul(a.hi, b.lo), new(big.Int).Mul(a.hi, b.hi)}
		lo, hi := c[0], c[0]
		for _, x := range c[1:] {
			lo, hi = minBig(lo, x), maxBig(hi, x)
		}
		t.lo, t.hi = lo, hi
	}
	return t
}

// IDiv is SMT-LIB div (Euclidean: remainder non-negative).
func (ts *TermStore) IDiv(a, b *Term) *Term {
	if a.IsConst() && b.IsConst() && b.I.Sign() != 0 {
		q, _ := new(big.Int).DivMod(a.I, b.I, new(big.Int))
		return ts.IntBig(q)
	}
	if b.IsConst() && b.I.IsInt64() && b.I.Int64() == 1 {
		return a
	}
	// div(div(x,c1),c2) => div(x,c1*c2) for positive constants (floor division)
	if b.IsConst() && b.I.Sign() > 0 && a.Op == ODiv && a.Args[1].IsConst() && a.Args[1].I.Sign() > 0 {
		return ts.IDiv(a.Args[0], ts.IntBig(new(big.Int).Mul(a.Args[1].I, b.I)))
	}
	t := ts.intern(&Term{Op: ODiv, S: IntSort, Args: []*Term{a, b}})
	if t.lo == nil && t.hi == nil && b.IsConst() && b.I.Sign() > 0 && a.lo != nil && a.hi != nil {
		ql, _ := new(big.Int).DivMod(a.lo, b.I, new(big.Int))
		qh, _ := new(big.Int).DivMod(a.hi, b.I, new(big.Int))
		t.lo, t.hi = ql, qh
	}
	return t
}

func (ts *TermStore) IMod(a, b *Term) *Term {
	if a.IsConst() && b.IsConst() && b.I.Sign() != 0 {
		_, m := new(big.Int).DivMod(a.I, b.I, new(big.Int))
		return ts.IntBig(m)
	}
	if b.IsConst() && b.I.Sign() > 0 && a.lo != nil && a.hi != nil && a.lo.Sign() >= 0 && a.hi.Cmp(b.I) < 0 {
		return a
	}
	t := ts.intern(&Term{Op: OMod, S: IntSort, Args: []*Term{a, b}})
	if t.lo == nil && t.hi == nil && b.IsConst() && b.I.Sign() > 0 {
		t.lo = big.NewInt(0)
		t.hi = new(big.Int).Sub(b.I, big.NewInt(1))
	}
	return t
}

func (ts *TermStore) ILt(a, b *Term) *Term {
	if a.IsConst() && b.IsConst() {
		return ts.Bool(a.I.Cmp(b.I) < 0)
	}
	if a == b {
		return ts.Bool(false)
	}
	if a.hi != nil && b.lo != nil && a.hi.Cmp(b.lo) < 0 {
		return ts.Bool(true)
	}
	if a.lo != nil && b.hi != nil && a.lo.Cmp(b.hi) >= 0 {
		return ts.Bool(false)
	}
	return ts.intern(&Term{Op: OLt, S: BoolSort, Args: []*Term{a, b}})
}

func (ts *TermStore) ILe(a, b *Term) *Term {
	if a.IsConst() && b.IsConst() {
		return ts.Bool(a.I.Cmp(b.I) <= 0)
	}
	if a == b {
		return ts.Bool(true)
	}
	if a.hi != nil && b.lo != nil && a.hi.Cmp(b.lo) <= 0 {
		return ts.Bool(true)
	}
	if a.lo != nil && b.hi != nil && a.lo.Cmp(b.hi) > 0 {
		return ts.Bool(false)
	}
	return ts.intern(&Term{Op: OLe, S: BoolSort, Args: []*Term{a, b}})
}

// IntVarRange creates an Int var with an interval annotation (caller asserts the range).
func (ts *TermStore) IntVarRange(name string, lo, hi *big.Int) *Term {
	t := ts.Var(name, IntSort)
	t.lo, t.hi = lo, hi
	return t
}

// ---- printing ----

func bvLit(v uint64, w int) string {
	if w%4 == 0 {
		return fmt.Sprintf("#x%0*x", w/4, v)
	}
	return fmt.Sprintf("#b%0*b", w, v)
}

func intLit(v *big.Int) string {
	if v.Sign() < 0 {
		return "(- " + new(big.Int).Neg(v).String() + ")"
	}
	return v.String()
}

func smtName(n string) string {
	return "|" + strings.NewReplacer("|", "_", "\\", "_").Replace(n) + "|"
}

// ref returns the short textual reference for a term (leaf literal or tN name).
func (t *Term) ref() string {
	switch t.Op {
	case OConst:
		switch t.S.K {
		case SBool:
			if t.U == 1 {
				return "true"
			}
			return "false"
		case SBV:
			return bvLit(t.U, t.S.W)
		default:
			return intLit(t.I)
		}
	case OVar:
		return smtName(t.Name)
	}
	return fmt.Sprintf("t%d", t.id)
}

// body returns the defining expression of a non-leaf term in terms of arg refs.
func (t *Term) body() string {
	var sb strings.Builder
	switch t.Op {
	case OBvExtract:
		fmt.Fprintf(&sb, "((_ extract %d %d) %s)", t.Hi, t.Lo, t.Args[0].ref())
		return sb.String()
	case OBvZext:
		fmt.Fprintf(&sb, "((_ zero_extend %d) %s)", t.S.W-t.Args[0].S.W, t.Args[0].ref())
		return sb.String()
	case OBvSext:
		fmt.Fprintf(&sb, "((_ sign_extend %d) %s)", t.S.W-t.Args[0].S.W, t.Args[0].ref())
		return sb.String()
	}
	sb.WriteString("(")
	sb.WriteString(opNames[t.Op])
	for _, a := range t.Args {
		sb.WriteString(" ")
		sb.WriteString(a.ref())
	}
	sb.WriteString(")")
	return sb.String()
}

// Show renders a term fully (for diagnostics; may be exponential on DAGs — depth-limited).
func (ts *TermStore) Show(t *Term) string { return showDepth(t, 6) }

func showDepth(t *Term, d int) string {
	if t.Op == OConst || t.Op == OVar {
		return t.ref()
	}
	if d == 0 {
		return "…"
	}
	var sb strings.Builder
	sb.WriteString("(")
	switch t.Op {
	case OBvExtract:
		fmt.Fprintf(&sb, "(_ extract %d %d)", t.Hi, t.Lo)
	case OBvZext:
		sb.WriteString("zext")
	case OBvSext:
		sb.WriteString("sext")
	default:
		sb.WriteString(opNames[t.Op])
	}
	for _, a := range t.Args {
		sb.WriteString(" ")
		sb.WriteString(showDepth(a, d-1))
	}
	sb.WriteString(")")
	return sb.String()
}
