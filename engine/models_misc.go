package main

import (
	"go/token"
	"math"

	"golang.org/x/tools/go/ssa"
)

func init() {
	M := func(name string, f func(p *Path, a []Value, pos token.Pos) Value) {
		models[name] = func(p *Path, c *frame, pos token.Pos, fn *ssa.Function, a []Value) Value { return f(p, a, pos) }
	}
	// sort.Slice / sort.SliceStable: the real ones swap through internal/reflectlite;
	// here an insertion sort (stable) over the engine slice, calling the real less.
	sortSlice := func(p *Path, a []Value, pos token.Pos) Value {
		iv, ok := a[0].(IfaceV)
		if !ok || iv.T == nil {
			p.targetPanicStr("sort.Slice of nil")
		}
		sl, ok := iv.V.([]Value)
		if !ok {
			if iv.V == nil {
				return nil
			}
			p.abortf(abortUnsupported, "sort.Slice of %T", iv.V)
		}
		less := func(i, j int) bool {
			r := p.call(nil, pos, a[1], []Value{p.intConst(int64(i), tInt), p.intConst(int64(j), tInt)})
			return p.branch(r.(*Term), "sort.less")
		}
		for i := 1; i < len(sl); i++ {
			for j := i; j > 0 && less(j, j-1); j-- {
				sl[j], sl[j-1] = sl[j-1], sl[j]
			}
		}
		return nil
	}
	M("sort.Slice", sortSlice)
	M("sort.SliceStable", sortSlice)
	fl := func(name string, f func(float64) float64) {
		M(name, func(p *Path, a []Value, pos token.Pos) Value {
			x, ok := a[0].(FloatV)
			if !ok {
				p.abortf(abortUnsupported, "%s of %T", name, a[0])
			}
			return FloatV{F: f(x.F), Bits: 64}
		})
	}
	fl("math.Ceil", math.Ceil)
	fl("math.Floor", math.Floor)
	fl("math.Trunc", math.Trunc)
	fl("math.Round", math.Round)
	fl("math.Abs", math.Abs)
}
