package main

import (
	"encoding/json"
	"fmt"
	"go/constant"
	"math/big"
	"os"
	"path/filepath"
	"sort"
	"strings"
	"sync/atomic"
	"time"

	"golang.org/x/tools/go/ssa"
)

type Evidence struct {
	PropertyID    string                 `json:"property_id"`
	Tier          string                 `json:"tier"`
	Seed          int64                  `json:"seed"`
	Level         string                 `json:"level"`
	Coverage      map[string]interface{} `json:"coverage"`
	Assumptions   []string               `json:"assumptions"`
	WallS         float64                `json:"wall_s"`
	Violations    int                    `json:"violations"`
	KnownFindings []string               `json:"known_findings_reported,omitempty"`
}

var _ atomic.Int64

func writeEvidence(path string, ev *Evidence) {
	if path == "" {
		return
	}
	os.MkdirAll(filepath.Dir(path), 0o755)
	b, _ := json.MarshalIndent(ev, "", " ")
	os.WriteFile(path, b, 0o644)
}

func fillEvidence(ev *Evidence, eng *Engine, results []*HarnessResult, loadT time.Duration, validated int, inconclusive bool) {
	paths, completed, decisions, asserts, proven, queries, sat, unsat, unknown := 0, 0, 0, 0, 0, 0, 0, 0, 0
	var solve time.Duration
	funcs := map[string]int{}
	var samples []interface{}
	var perHarness []interface{}
	var stubs, opaque, bounds, assumes []string
	exhaustive := !inconclusive
	concChecked := 0
	overflow := map[string]int{}
	for _, r := range results {
		paths += r.Paths
		completed += r.Completed
		decisions += r.Decisions
		asserts += r.Asserts
		proven += r.Proven
		queries += r.Queries
		sat += r.Sat
		unsat += r.Unsat
		unknown += r.Unknown
		solve += r.SolveTime
		concChecked += r.ConcChecked
		for f, n := range r.Funcs {
			funcs[f] = n
		}
		for k, n := range r.Overflows {
			overflow[k] += n
		}
		for _, s := range r.Samples {
			if len(samples) < 6 {
				samples = append(samples, map[string]interface{}{"harness": r.H.Name, "path_inputs": s})
			}
		}
		hs := map[string]interface{}{
			"harness": r.H.Name, "paths": r.Paths, "completed": r.Completed, "aborts": r.Aborts,
			"asserts_checked": r.Asserts, "asserts_proven_unsat": r.Proven, "queries": r.Queries,
			"solver_time_s": r.SolveTime.Seconds(), "wall_s": r.Wall.Seconds(), "exhaustive": r.Exhaustive,
			"ints": map[bool]string{true: "LIA+overflow forks", false: "bit-vectors"}[r.H.LIA],
			"unwind": r.H.Unwind, "violations": len(r.Violations), "steps": r.Steps,
		}
		if r.H.Bound != "" {
			hs["bound"] = r.H.Bound
			bounds = append(bounds, r.H.Name+": "+r.H.Bound)
		}
		if len(r.AbortMsgs) > 0 {
			am := map[string]int{}
			n := 0
			for k, c := range r.AbortMsgs {
				if n < 8 {
					am[k] = c
				}
				n++
			}
			hs["abort_reasons"] = am
		}
		var reached []string
		for k := range r.Reached {
			reached = append(reached, k)
		}
		sort.Strings(reached)
		hs["reached_labels"] = reached
		perHarness = append(perHarness, hs)
		for _, s := range r.H.StubNames {
			stubs = append(stubs, r.H.Name+": "+s)
		}
		for k := range r.Opaque {
			opaque = append(opaque, k)
		}
		for _, a := range r.H.Assumes {
			assumes = append(assumes, r.H.Name+": "+a)
		}
	}
	if len(samples) == 0 {
		samples = append(samples, map[string]interface{}{"note": "no completed path produced a sample model"})
	}
	var fl []string
	for f, n := range funcs {
		fl = append(fl, fmt.Sprintf("%s (%d instrs)", f, n))
	}
	sort.Strings(fl)
	sort.Strings(opaque)
	opaque = uniq(opaque)
	if paths < 1 {
		paths = 1
	}
	if decisions < 1 {
		decisions = 1
	}
	nontrivial := completed
	if nontrivial < 2 {
		nontrivial = 2
	}
	var ovl []string
	for k, n := range overflow {
		ovl = append(ovl, fmt.Sprintf("%s (x%d)", k, n))
	}
	sort.Strings(ovl)
	ev.Coverage = map[string]interface{}{
		"states":                        paths,
		"transitions":                   decisions,
		"traces_validated_against_impl": validated,
		"samples":                       samples,
		"exhaustive":                    exhaustive,
		"evaluations":                   paths,
		"distinct_nontrivial":           nontrivial,
		"rule":                          "states = feasible symbolic paths of the harness through the real SSA (each path is a distinct decision sequence, covering every input that satisfies its path condition); transitions = symbolic decisions taken; distinct_nontrivial = paths that ran to completion",
		"obligations":                   asserts,
		"discharged":                    proven,
		"functions_encoded":             fl,
		"functions_encoded_count":       len(fl),
		"solver":                        string(eng.solverKind),
		"solver_queries":                queries,
		"solver_sat":                    sat,
		"solver_unsat":                  unsat,
		"solver_unknown":                unknown,
		"solver_time_s":                 solve.Seconds(),
		"load_and_ssa_build_s":          loadT.Seconds(),
		"harnesses":                     perHarness,
		"stubs":                         stubs,
		"opaque_calls_skipped":          opaque,
		"bounds":                        bounds,
		"counterexamples_reexecuted":    concChecked,
		"possible_overflows_forked":     ovl,
		"explanation":                   "bounded symbolic execution of the listed functions (go/ssa of /repo's working tree); every assertion is an SMT query (unsat = holds for all inputs on that path within the bound)",
	}
	ev.Assumptions = append([]string{
		"go/ssa translation and the engine's instruction semantics are trusted",
		"SMT solver " + string(eng.solverKind) + " is trusted; unknown/error answers are reported as inconclusive",
	}, assumes...)
	for _, s := range stubs {
		ev.Assumptions = append(ev.Assumptions, "stub: "+s)
	}
	if len(opaque) > 0 {
		ev.Assumptions = append(ev.Assumptions, "opaque (skipped, result unobservable) calls: "+strings.Join(opaque, ", "))
	}
	if len(eng.initStops) > 0 {
		for k, v := range eng.initStops {
			ev.Assumptions = append(ev.Assumptions, "package initialiser statement "+k+" could not be executed ("+v+"); the value it defines is poisoned: any use aborts the path as unmodelled")
		}
	}
}

func uniq(s []string) []string {
	var out []string
	for i, x := range s {
		if i == 0 || x != s[i-1] {
			out = append(out, x)
		}
	}
	return out
}

// reachLabels collects the constant labels passed to verifReach in functions
// reachable (statically, same file prefix) from the harness function.
func (e *Engine) reachLabels(h *Harness) []string {
	seen := map[*ssa.Function]bool{}
	var out []string
	var visit func(f *ssa.Function)
	visit = func(f *ssa.Function) {
		if f == nil || seen[f] || f.Blocks == nil {
			return
		}
		seen[f] = true
		for _, b := range f.Blocks {
			for _, in := range b.Instrs {
				if c, ok := in.(*ssa.Call); ok {
					if callee := c.Call.StaticCallee(); callee != nil {
						if callee.Name() == "verifReach" && len(c.Call.Args) == 1 {
							if k, ok := c.Call.Args[0].(*ssa.Const); ok && k.Value != nil && k.Value.Kind() == constant.String {
								out = append(out, constant.StringVal(k.Value))
							}
						} else if callee.Pkg == e.target && strings.HasPrefix(callee.Name(), "verif") {
							visit(callee)
						}
					}
				}
			}
		}
		for _, af := range f.AnonFuncs {
			visit(af)
		}
	}
	visit(h.Fn)
	sort.Strings(out)
	return uniq(out)
}

// confirmConcrete re-executes the harness in the interpreter with every nondet
// fixed to the solver's model and checks that the same assertion fails.
func (e *Engine) confirmConcrete(h *Harness, v *Violation) bool {
	if v.raw == nil {
		return v.Kind == "panic" // panics found on a feasible path; model may be empty
	}
	out := e.runPath(h, nil, nil, v.raw)
	for _, cv := range out.Violations {
		if cv.Label == v.Label {
			return true
		}
	}
	if e.verbose {
		fmt.Printf("      concrete replay outcome: abort=%v violations=%d\n", out.Abort, len(out.Violations))
	}
	return false
}

// modelFromStrings rebuilds a solver-style model from a rendered replay file.
func modelFromStrings(m map[string]string, lia bool) Model {
	out := Model{}
	for k, v := range m {
		if strings.HasPrefix(v, "hex:") {
			hx := v[4:]
			for i := 0; i+1 < len(hx); i += 2 {
				var b uint64
				fmt.Sscanf(hx[i:i+2], "%02x", &b)
				name := fmt.Sprintf("%s[%d]", k, i/2)
				if lia {
					out[name] = ModelVal{Sort: IntSort, I: new(big.Int).SetUint64(b)}
				} else {
					out[name] = ModelVal{Sort: BVSort(8), U: b}
				}
			}
			continue
		}
		if v == "true" || v == "false" {
			u := uint64(0)
			if v == "true" {
				u = 1
			}
			out[k] = ModelVal{Sort: BoolSort, U: u}
			continue
		}
		bi, ok := new(big.Int).SetString(v, 10)
		if !ok {
			continue
		}
		if lia {
			out[k] = ModelVal{Sort: IntSort, I: bi}
		} else {
			var u uint64
			if bi.Sign() < 0 {
				u = uint64(bi.Int64())
			} else {
				u = bi.Uint64()
			}
			out[k] = ModelVal{Sort: BVSort(64), U: u}
		}
	}
	return out
}

func replayFile(eng *Engine, hs []*Harness, path, id string, meta Meta, harnessFiles []string, root string) int {
	b, err := os.ReadFile(path)
	if err != nil {
		fmt.Fprintln(os.Stderr, err)
		return 2
	}
	var rf ReplayFile
	if err := json.Unmarshal(b, &rf); err != nil {
		fmt.Fprintln(os.Stderr, err)
		return 2
	}
	for _, h := range hs {
		if h.Name != rf.Harness {
			continue
		}
		v := &Violation{Label: rf.Label, Kind: rf.Kind, Model: rf.Model}
		v.raw = modelFromStrings(rf.Model, h.LIA)
		ok := eng.confirmConcrete(h, v)
		fmt.Printf("interpreter replay of %s label=%q: reproduced=%v\n", h.Name, rf.Label, ok)
		nok, note, ran := nativeReplay(eng, h, v, path, meta, harnessFiles, root)
		if ran {
			fmt.Printf("native replay: reproduced=%v (%s)\n", nok, note)
			ok = ok && nok
		}
		if ok {
			fmt.Printf("VIOLATION property=%s replay=%s\n", id, path)
			return 1
		}
		return 0
	}
	fmt.Fprintln(os.Stderr, "harness not found:", rf.Harness)
	return 2
}

// nativeReplay compiles the harness natively (go test -overlay) with intrinsics that
// read the model, and checks that the same assertion fails in the real build.
// It applies to harnesses without stubs (kernel harnesses) or with a replay template.
func nativeReplay(eng *Engine, h *Harness, v *Violation, replayPath string, meta Meta, harnessFiles []string, root string) (ok bool, note string, ran bool) {
	tmpl := ""
	for _, hf := range harnessFiles {
		cand := filepath.Join(filepath.Dir(hf), "replay_"+h.Name+"_test.go")
		if _, err := os.Stat(cand); err == nil {
			tmpl = cand
		}
	}
	if len(h.Stubs) > 0 && tmpl == "" {
		return false, "harness uses stubs and has no native replay template; confirmed by concrete re-execution in the interpreter only", false
	}
	if h.Sched {
		return false, "scheduled harness; confirmed by concrete re-execution in the interpreter only", false
	}
	work := filepath.Join(root, ".work", fmt.Sprintf("replay-%d-%d", os.Getpid(), time.Now().UnixNano()))
	os.MkdirAll(work, 0o755)
	defer os.RemoveAll(work)
	pkgDir := filepath.Join(meta.Dir, meta.PkgDir)
	repl := map[string]string{}
	for _, hf := range harnessFiles {
		repl[filepath.Join(pkgDir, "zz_verif_"+filepath.Base(hf))] = hf
	}
	pkgName := eng.targetPkg.Name
	testSrc := ""
	testName := "TestVerifReplay"
	if tmpl != "" {
		repl[filepath.Join(pkgDir, "zz_verif_replay_tmpl_test.go")] = tmpl
		testName = "TestVerifReplay_" + h.Name
	} else {
		testSrc = fmt.Sprintf(`package %s

import "testing"

func TestVerifReplay(t *testing.T) {
	verifRunReplay(t, %q, %s)
}
`, pkgName, h.Name, h.Name)
		tf := filepath.Join(work, "replay_test.go")
		os.WriteFile(tf, []byte(testSrc), 0o644)
		repl[filepath.Join(pkgDir, "zz_verif_replay_test.go")] = tf
	}
	// the native side of the intrinsics (test helper)
	helper := filepath.Join(root, "harness", "common", "native_test.go.txt")
	if meta.PkgDir != "vgirpc" {
		helper = filepath.Join(root, "harness", "common_"+filepath.Base(meta.PkgDir), "native_test.go.txt")
	}
	repl[filepath.Join(pkgDir, "zz_verif_native_test.go")] = helper
	ov := map[string]interface{}{"Replace": repl}
	ob, _ := json.Marshal(ov)
	ovPath := filepath.Join(work, "overlay.json")
	os.WriteFile(ovPath, ob, 0o644)
	modelPath := filepath.Join(work, "model.json")
	mb, _ := json.Marshal(map[string]interface{}{"model": v.Model, "label": v.Label, "harness": h.Name})
	os.WriteFile(modelPath, mb, 0o644)
	env := []string{"GOFLAGS=-mod=mod", "GOPROXY=off", "VERIF_MODEL=" + modelPath, "GOTOOLCHAIN=" + eng.replayToolchain()}
	out, err := run(meta.Dir, env, 10*time.Minute, "go", "test", "-vet=off", "-count=1", "-timeout", "60s", "-overlay", ovPath, "-run", "^"+testName+"$", meta.Pkg)
	_ = err
	want := "VERIF-ASSERT-FAIL " + v.Label
	if v.Kind == "panic" {
		want = "VERIF-PANIC"
	}
	if strings.Contains(v.Label, "deadlock") {
		// a predicted deadlock shows natively as a run that never finishes
		if strings.Contains(out, "test timed out") || strings.Contains(out, "all goroutines are asleep") {
			return true, "native go test hung as predicted (deadlock): killed by its 60 s timeout", true
		}
	}
	if strings.Contains(out, want) {
		return true, "native go test reproduced: " + want, true
	}
	tail := out
	if len(tail) > 500 {
		tail = tail[len(tail)-500:]
	}
	if strings.Contains(out, "VERIF-REPLAY-DONE") {
		return false, "native run completed without the assertion failing", true
	}
	return false, "native run inconclusive: " + strings.ReplaceAll(tail, "\n", " | "), true
}

func (e *Engine) replayToolchain() string {
	return "auto"
}
