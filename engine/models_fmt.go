package main

// Model of fmt's formatting verbs and strconv's integer formatting over
// interpreter values. Symbolic integers are rendered exactly (the digit count is
// forked, each digit is a term).

import (
	"fmt"
	"go/token"
	"go/types"
	"math/big"
	"strconv"
	"strings"

	"golang.org/x/tools/go/ssa"
)

func (p *Path) constBytes(s string) []*Term { return p.strBytes(StringV{S: s}) }

// intToDecimal renders integer term t (of Go type typ) in base 10.
func (p *Path) intToDecimal(t *Term, typ types.Type) []*Term {
	_, signed, ok := intInfo(typ)
	if !ok {
		signed = true
	}
	if t.IsConst() {
		if signed {
			return p.constBytes(strconv.FormatInt(constI(t), 10))
		}
		return p.constBytes(strconv.FormatUint(constU(t), 10))
	}
	ts := p.ts
	var out []*Term
	mag := t
	if signed {
		neg := p.ilt(t, p.intConst(0, typ))
		if p.branch(neg, "itoa-sign") {
			out = append(out, p.byteConst('-'))
			if p.lia {
				mag = ts.INeg(t)
			} else {
				mag = ts.BvNeg(t) // MinInt stays itself; treated as unsigned below
			}
		}
	}
	// digit count
	w, _, _ := intInfo(typ)
	if w == 0 {
		w = 64
	}
	maxDigits := len(new(big.Int).Lsh(big.NewInt(1), uint(w)).String())
	nd := 1
	pow := big.NewInt(10)
	for nd < maxDigits {
		var lt *Term
		if p.lia {
			lt = ts.ILt(mag, ts.IntBig(pow))
		} else {
			if pow.BitLen() > w {
				break
			}
			lt = ts.bvCmp(OBvUlt, mag, ts.BV(pow.Uint64(), w))
		}
		if p.branch(lt, "itoa-digits") {
			break
		}
		nd++
		pow = new(big.Int).Mul(pow, big.NewInt(10))
	}
	digits := make([]*Term, nd)
	div := big.NewInt(1)
	for i := nd - 1; i >= 0; i-- {
		var d *Term
		if p.lia {
			d = ts.IAdd(ts.IMod(ts.IDiv(mag, ts.IntBig(div)), ts.Int64(10)), ts.Int64('0'))
		} else {
			q := ts.bvBin(OBvUrem, ts.bvBin(OBvUdiv, mag, ts.BV(div.Uint64(), w)), ts.BV(10, w))
			d = ts.bvBin(OBvAdd, ts.Extract(q, 7, 0), ts.BV('0', 8))
		}
		digits[i] = d
		div = new(big.Int).Mul(div, big.NewInt(10))
	}
	return append(out, digits...)
}

func goTypeString(t types.Type) string {
	return types.TypeString(t, func(pk *types.Package) string { return pk.Name() })
}

// fmtValue renders one operand under verb.
func (p *Path) fmtValue(verb byte, flags string, v Value, depth int) []*Term {
	iv, isI := v.(IfaceV)
	if !isI {
		iv = IfaceV{T: nil, V: v}
	}
	if verb == 'T' {
		if iv.T == nil {
			return p.constBytes("<nil>")
		}
		return p.constBytes(goTypeString(iv.T))
	}
	if isI && iv.T == nil {
		if verb == 's' || verb == 'v' || verb == 'w' {
			return p.constBytes("<nil>")
		}
		return p.constBytes("%!" + string(verb) + "(<nil>)")
	}
	if depth > 6 {
		return p.constBytes("...")
	}
	plusV := verb == 'v' && strings.Contains(flags, "+")
	sharpV := verb == 'v' && strings.Contains(flags, "#")
	// error / Stringer take precedence for %s %v %q %w (and %x/%X on strings)
	if iv.T != nil && (verb == 's' || verb == 'v' || verb == 'w' || verb == 'q') && !sharpV {
		if _, isNative := iv.V.(*NativeObj); !isNative {
			if types.Implements(iv.T, p.eng.errorIface) {
				if ptr, ok := iv.V.(*Value); ok && ptr == nil {
					if _, isPtr := iv.T.Underlying().(*types.Pointer); isPtr {
						// nil pointer receiver: call anyway only if the method has a pointer receiver; fmt prints <nil> on panic
						return p.constBytes("<nil>")
					}
				}
				r, ok := p.callMethodByName(iv, "Error")
				if ok {
					s := r.(StringV)
					if verb == 'q' {
						return p.quoteBytes(p.strBytes(s))
					}
					return p.strBytes(s)
				}
			}
			if hasMethod(p, iv.T, "String") {
				ms := p.eng.prog.MethodSets.MethodSet(iv.T)
				for i := 0; i < ms.Len(); i++ {
					if ms.At(i).Obj().Name() == "String" {
						sig := ms.At(i).Type().(*types.Signature)
						if sig.Params().Len() == 0 && sig.Results().Len() == 1 && types.Identical(sig.Results().At(0).Type(), tString) {
							if ptr, ok := iv.V.(*Value); ok && ptr == nil {
								return p.constBytes("<nil>")
							}
							r, ok := p.callMethodByName(iv, "String")
							if ok {
								if s, ok := r.(StringV); ok {
									if verb == 'q' {
										return p.quoteBytes(p.strBytes(s))
									}
									return p.strBytes(s)
								}
							}
						}
					}
				}
			}
		}
	}
	var ut types.Type
	if iv.T != nil {
		ut = iv.T.Underlying()
	}
	switch x := iv.V.(type) {
	case StringV:
		switch verb {
		case 'q':
			return p.quoteBytes(p.strBytes(x))
		case 'x', 'X':
			if cs, ok := x.Conc(); ok {
				return p.constBytes(fmt.Sprintf("%"+flags+string(verb), cs))
			}
			return p.hexBytes(p.strBytes(x), verb == 'X')
		case 'v':
			if sharpV {
				return p.quoteBytes(p.strBytes(x))
			}
		}
		if cs, ok := x.Conc(); ok && flags != "" {
			return p.constBytes(fmt.Sprintf("%"+flags+"s", cs))
		}
		return p.strBytes(x)
	case *Term:
		if x.S.K == SBool {
			if x.IsConst() {
				return p.constBytes(strconv.FormatBool(x.U == 1))
			}
			if p.branch(x, "fmt-bool") {
				return p.constBytes("true")
			}
			return p.constBytes("false")
		}
		typ := iv.T
		if typ == nil {
			typ = tInt
		}
		if x.IsConst() {
			_, signed, _ := intInfo(typ)
			vb := verb
			if vb == 'v' || vb == 's' || vb == 'w' {
				vb = 'd'
			}
			if vb == 's' {
				vb = 'd'
			}
			f := "%" + flags + string(vb)
			if signed {
				return p.constBytes(fmt.Sprintf(f, constI(x)))
			}
			return p.constBytes(fmt.Sprintf(f, constU(x)))
		}
		switch verb {
		case 'd', 'v':
			ds := p.intToDecimal(x, typ)
			// zero padding like %02d
			if len(flags) >= 2 && flags[0] == '0' {
				if wd, err := strconv.Atoi(flags[1:]); err == nil {
					for len(ds) < wd {
						ds = append([]*Term{p.byteConst('0')}, ds...)
					}
				}
			}
			return ds
		case 'c':
			p.assumeASCII(x)
			return []*Term{p.intResize(x, typ, tUint8)}
		}
		return p.constBytes("<sym-int%" + string(verb) + ">")
	case FloatV:
		vb := verb
		if vb == 'v' {
			vb = 'g'
		}
		return p.constBytes(fmt.Sprintf("%"+flags+string(vb), x.F))
	case []Value:
		if st, ok := ut.(*types.Slice); ok {
			if eb, ok := st.Elem().Underlying().(*types.Basic); ok && eb.Kind() == types.Uint8 {
				bs := bytesOf(p, x)
				switch verb {
				case 's':
					return bs
				case 'q':
					return p.quoteBytes(bs)
				case 'x', 'X':
					return p.hexBytes(bs, verb == 'X')
				}
			}
			out := p.constBytes("[")
			for i, e := range x {
				if i > 0 {
					out = append(out, p.byteConst(' '))
				}
				out = append(out, p.fmtValue(verb, flags, p.asIface(st.Elem(), e), depth+1)...)
			}
			return append(out, p.byteConst(']'))
		}
	case ArrayV:
		if at, ok := ut.(*types.Array); ok {
			if eb, ok := at.Elem().Underlying().(*types.Basic); ok && eb.Kind() == types.Uint8 && (verb == 'x' || verb == 'X') {
				return p.hexBytes(bytesOf(p, []Value(x)), verb == 'X')
			}
			out := p.constBytes("[")
			for i, e := range x {
				if i > 0 {
					out = append(out, p.byteConst(' '))
				}
				out = append(out, p.fmtValue(verb, flags, p.asIface(at.Elem(), e), depth+1)...)
			}
			return append(out, p.byteConst(']'))
		}
	case StructV:
		if st, ok := ut.(*types.Struct); ok {
			out := p.constBytes("{")
			for i, f := range x {
				if i > 0 {
					out = append(out, p.byteConst(' '))
				}
				if plusV {
					out = append(out, p.constBytes(st.Field(i).Name()+":")...)
				}
				out = append(out, p.fmtValue(verb, flags, p.asIface(st.Field(i).Type(), f), depth+1)...)
			}
			return append(out, p.byteConst('}'))
		}
	case *Value:
		if x == nil {
			return p.constBytes("<nil>")
		}
		if pt, ok := ut.(*types.Pointer); ok && depth == 0 {
			if _, isStruct := pt.Elem().Underlying().(*types.Struct); isStruct && (verb == 'v' || verb == 's') {
				return append(p.constBytes("&"), p.fmtValue(verb, flags, p.asIface(pt.Elem(), *x), depth+1)...)
			}
		}
		return p.constBytes("0xc000000000")
	case *MapV:
		if x == nil {
			return p.constBytes("map[]")
		}
		mt, _ := ut.(*types.Map)
		out := p.constBytes("map[")
		// fmt sorts keys; only concrete string keys are ordered here
		idx := make([]int, len(x.Keys))
		for i := range idx {
			idx[i] = i
		}
		for a := 0; a < len(idx); a++ {
			for b := a + 1; b < len(idx); b++ {
				ka, oka := concKey(x.Keys[idx[a]])
				kb, okb := concKey(x.Keys[idx[b]])
				if oka && okb && kb < ka {
					idx[a], idx[b] = idx[b], idx[a]
				}
			}
		}
		for n, i := range idx {
			if n > 0 {
				out = append(out, p.byteConst(' '))
			}
			var kt, vt types.Type
			if mt != nil {
				kt, vt = mt.Key(), mt.Elem()
			}
			out = append(out, p.fmtValue(verb, flags, p.asIface(kt, x.Keys[i]), depth+1)...)
			out = append(out, p.byteConst(':'))
			out = append(out, p.fmtValue(verb, flags, p.asIface(vt, x.Vals[i]), depth+1)...)
		}
		return append(out, p.byteConst(']'))
	case IfaceV:
		return p.fmtValue(verb, flags, x, depth+1)
	case TimeV:
		if ct, ok := p.concTime(x); ok {
			return p.constBytes(ct.String())
		}
		return p.constBytes("<symbolic-time>")
	case Poison:
		return p.constBytes("<opaque>")
	case *ClosureV, *ssa.Function:
		return p.constBytes("0xfunc")
	case *NativeObj:
		return p.constBytes("<" + x.Kind + ">")
	}
	return p.constBytes(fmt.Sprintf("<%T>", iv.V))
}

// asIface wraps a statically typed value as an interface value (no double wrapping).
func (p *Path) asIface(t types.Type, v Value) Value {
	if iv, ok := v.(IfaceV); ok {
		return iv
	}
	if t == nil {
		return v
	}
	if _, isI := t.Underlying().(*types.Interface); isI {
		return v
	}
	return IfaceV{T: t, V: v}
}

func (p *Path) quoteBytes(bs []*Term) []*Term {
	if allConst(bs) {
		raw := make([]byte, len(bs))
		for i, b := range bs {
			raw[i] = byte(constU(b))
		}
		return p.constBytes(strconv.Quote(string(raw)))
	}
	if p.h != nil && p.h.QuoteApprox {
		// harness opted out (//verif:quote approx): the text inside %q quotes is not
		// the subject; render it without escapes instead of forking on every byte
		p.note("fmt %q on symbolic text rendered without escapes (//verif:quote approx: the quoted text's content is outside the claim)")
		out := []*Term{p.byteConst('"')}
		out = append(out, bs...)
		return append(out, p.byteConst('"'))
	}
	// symbolic content: strconv.Quote byte by byte; the class of every symbolic
	// byte is decided by forking (quote, backslash, printable ASCII, the seven
	// named control escapes, \xNN for the other ASCII control bytes). Symbolic
	// bytes >= 0x80 would need UTF-8 decoding across bytes: outside the bound.
	out := []*Term{p.byteConst('"')}
	esc := func(c byte) { out = append(out, p.byteConst('\\'), p.byteConst(c)) }
	for _, b := range bs {
		if b.IsConst() {
			q := strconv.Quote(string([]byte{byte(constU(b))}))
			if constU(b) >= 0x80 {
				p.abortf(abortOutOfBound, "fmt %%q: non-ASCII byte next to symbolic text")
			}
			out = append(out, p.constBytes(q[1:len(q)-1])...)
			continue
		}
		switch {
		case p.branch(p.byteEq(b, p.byteConst('"')), "quote-dq"):
			esc('"')
		case p.branch(p.byteEq(b, p.byteConst('\\')), "quote-bs"):
			esc('\\')
		case p.branch(p.byteInRange(b, 0x20, 0x7e), "quote-printable"):
			out = append(out, b)
		case p.branch(p.byteInRange(b, 0x80, 0xff), "quote-nonascii"):
			// rendered as strconv.Quote renders a byte that is not part of a valid
			// UTF-8 sequence; symbolic bytes that do form a valid multi-byte rune
			// would be copied (or \u-escaped) instead — recorded as an assumption
			p.note("fmt %q: symbolic bytes >= 0x80 rendered as invalid UTF-8 (\\xNN); valid multi-byte runes inside quoted symbolic text are outside the claim")
			out = append(out, p.byteConst('\\'), p.byteConst('x'), p.hexDigit(p.nibble(b, true), false), p.hexDigit(p.nibble(b, false), false))
		default:
			named := false
			for _, pr := range [][2]byte{{7, 'a'}, {8, 'b'}, {9, 't'}, {10, 'n'}, {11, 'v'}, {12, 'f'}, {13, 'r'}} {
				if p.branch(p.byteEq(b, p.byteConst(pr[0])), "quote-ctl") {
					esc(pr[1])
					named = true
					break
				}
			}
			if !named {
				out = append(out, p.byteConst('\\'), p.byteConst('x'), p.hexDigit(p.nibble(b, true), false), p.hexDigit(p.nibble(b, false), false))
			}
		}
	}
	return append(out, p.byteConst('"'))
}

func (p *Path) hexBytes(bs []*Term, upper bool) []*Term {
	out := make([]*Term, 0, 2*len(bs))
	for _, b := range bs {
		out = append(out, p.hexDigit(p.nibble(b, true), upper), p.hexDigit(p.nibble(b, false), upper))
	}
	return out
}

func (p *Path) nibble(b *Term, high bool) *Term {
	ts := p.ts
	if p.lia {
		if high {
			return ts.IDiv(b, ts.Int64(16))
		}
		return ts.IMod(b, ts.Int64(16))
	}
	if high {
		return ts.Zext(ts.Extract(b, 7, 4), 8)
	}
	return ts.Zext(ts.Extract(b, 3, 0), 8)
}

func (p *Path) hexDigit(n *Term, upper bool) *Term {
	ts := p.ts
	a := byte('a')
	if upper {
		a = 'A'
	}
	if n.IsConst() {
		v := byte(constU(n))
		if v < 10 {
			return p.byteConst('0' + v)
		}
		return p.byteConst(a + v - 10)
	}
	if p.lia {
		return ts.Ite(ts.ILt(n, ts.Int64(10)), ts.IAdd(n, ts.Int64('0')), ts.IAdd(n, ts.Int64(int64(a)-10)))
	}
	return ts.Ite(ts.bvCmp(OBvUlt, n, ts.BV(10, 8)), ts.bvBin(OBvAdd, n, ts.BV('0', 8)), ts.bvBin(OBvAdd, n, ts.BV(uint64(a)-10, 8)))
}

func (p *Path) note(s string) {
	if p.notes == nil {
		p.notes = map[string]bool{}
	}
	p.notes[s] = true
}

// sprintf implements the fmt verb language over interpreter values.
// It returns the text and the operands of %w verbs.
func (p *Path) sprintf(format string, args []Value) ([]*Term, []IfaceV) {
	var out []*Term
	var wrapped []IfaceV
	argi := 0
	for i := 0; i < len(format); i++ {
		c := format[i]
		if c != '%' {
			out = append(out, p.byteConst(c))
			continue
		}
		i++
		if i >= len(format) {
			out = append(out, p.constBytes("%!(NOVERB)")...)
			break
		}
		j := i
		for j < len(format) && strings.IndexByte("+-# 0123456789.*", format[j]) >= 0 {
			j++
		}
		flags := format[i:j]
		if j >= len(format) {
			out = append(out, p.constBytes("%!(NOVERB)")...)
			break
		}
		verb := format[j]
		i = j
		if verb == '%' {
			out = append(out, p.byteConst('%'))
			continue
		}
		if strings.Contains(flags, "*") {
			p.abortf(abortUnsupported, "fmt: '*' width in %q", format)
		}
		if argi >= len(args) {
			out = append(out, p.constBytes("%!"+string(verb)+"(MISSING)")...)
			continue
		}
		arg := args[argi]
		argi++
		if verb == 'w' {
			if iv, ok := arg.(IfaceV); ok && iv.T != nil && types.Implements(iv.T, p.eng.errorIface) {
				wrapped = append(wrapped, iv)
			}
		}
		out = append(out, p.fmtValue(verb, flags, arg, 0)...)
	}
	if argi < len(args) {
		out = append(out, p.constBytes("%!(EXTRA ")...)
		for k := argi; k < len(args); k++ {
			if k > argi {
				out = append(out, p.constBytes(", ")...)
			}
			out = append(out, p.fmtValue('T', "", args[k], 0)...)
			out = append(out, p.byteConst('='))
			out = append(out, p.fmtValue('v', "", args[k], 0)...)
		}
		out = append(out, p.byteConst(')'))
	}
	return out, wrapped
}

func (p *Path) sprint(args []Value, ln bool) []*Term {
	var out []*Term
	prevString := true
	for i, a := range args {
		isStr := false
		if iv, ok := a.(IfaceV); ok {
			_, isStr = iv.V.(StringV)
		}
		if i > 0 && (ln || (!isStr && !prevString)) {
			out = append(out, p.byteConst(' '))
		}
		out = append(out, p.fmtValue('v', "", a, 0)...)
		prevString = isStr
	}
	if ln {
		out = append(out, p.byteConst('\n'))
	}
	return out
}

func variadic(a Value) []Value {
	if a == nil {
		return nil
	}
	s, _ := a.([]Value)
	return s
}

func (p *Path) fmtPkgType(name string) types.Type {
	fp := p.eng.prog.ImportedPackage("fmt")
	if fp == nil {
		return nil
	}
	if t := fp.Type(name); t != nil {
		return t.Type()
	}
	return nil
}

func init() {
	M := func(name string, f func(p *Path, a []Value, pos token.Pos) Value) {
		models[name] = func(p *Path, c *frame, pos token.Pos, fn *ssa.Function, a []Value) Value { return f(p, a, pos) }
	}
	M("fmt.Sprintf", func(p *Path, a []Value, pos token.Pos) Value {
		bs, _ := p.sprintf(concStr(p, a[0], "format"), variadic(a[1]))
		return p.mkString(bs)
	})
	M("fmt.Sprint", func(p *Path, a []Value, pos token.Pos) Value { return p.mkString(p.sprint(variadic(a[0]), false)) })
	M("fmt.Sprintln", func(p *Path, a []Value, pos token.Pos) Value { return p.mkString(p.sprint(variadic(a[0]), true)) })
	M("fmt.Appendf", func(p *Path, a []Value, pos token.Pos) Value {
		bs, _ := p.sprintf(concStr(p, a[1], "format"), variadic(a[2]))
		dst, _ := a[0].([]Value)
		return append(dst, sliceOfTerms(bs)...)
	})
	M("fmt.Errorf", func(p *Path, a []Value, pos token.Pos) Value {
		bs, wrapped := p.sprintf(concStr(p, a[0], "format"), variadic(a[1]))
		msg := p.mkString(bs)
		switch len(wrapped) {
		case 0:
			cell := new(Value)
			*cell = StructV{msg}
			if p.eng.errStrType != nil {
				// fmt.Errorf without %w returns *fmt.fmtError? No: &errorString from package errors via errors.New
				return IfaceV{T: p.eng.errStrType, V: cell}
			}
		case 1:
			if wt := p.fmtPkgType("wrapError"); wt != nil {
				cell := new(Value)
				*cell = StructV{msg, wrapped[0]}
				return IfaceV{T: types.NewPointer(wt), V: cell}
			}
		default:
			if wt := p.fmtPkgType("wrapErrors"); wt != nil {
				errs := make([]Value, len(wrapped))
				for i, w := range wrapped {
					errs[i] = w
				}
				cell := new(Value)
				*cell = StructV{msg, errs}
				return IfaceV{T: types.NewPointer(wt), V: cell}
			}
		}
		p.abortf(abortUnsupported, "fmt.Errorf: fmt error types not found")
		return nil
	})
	writeTo := func(p *Path, w Value, bs []*Term, pos token.Pos) Value {
		iv, ok := w.(IfaceV)
		if !ok || iv.T == nil {
			p.targetPanicStr("runtime error: invalid memory address or nil pointer dereference")
		}
		var r Value
		if no, isN := iv.V.(*NativeObj); isN {
			r = p.call(nil, pos, no.method(p, "Write"), []Value{sliceOfTerms(bs)})
		} else {
			r, _ = p.callMethodByName(iv, "Write", sliceOfTerms(bs))
		}
		if r == nil {
			p.abortf(abortUnsupported, "fmt.Fprint*: writer %v has no Write", iv.T)
		}
		return r
	}
	M("fmt.Fprintf", func(p *Path, a []Value, pos token.Pos) Value {
		bs, _ := p.sprintf(concStr(p, a[1], "format"), variadic(a[2]))
		return writeTo(p, a[0], bs, pos)
	})
	M("fmt.Fprint", func(p *Path, a []Value, pos token.Pos) Value { return writeTo(p, a[0], p.sprint(variadic(a[1]), false), pos) })
	M("fmt.Fprintln", func(p *Path, a []Value, pos token.Pos) Value { return writeTo(p, a[0], p.sprint(variadic(a[1]), true), pos) })
	M("fmt.Printf", func(p *Path, a []Value, pos token.Pos) Value {
		return TupleV{p.intConst(0, tInt), IfaceV{}}
	})
	M("fmt.Println", func(p *Path, a []Value, pos token.Pos) Value { return TupleV{p.intConst(0, tInt), IfaceV{}} })
	M("fmt.Print", func(p *Path, a []Value, pos token.Pos) Value { return TupleV{p.intConst(0, tInt), IfaceV{}} })

	// ---- strconv integer formatting ----
	M("strconv.Itoa", func(p *Path, a []Value, pos token.Pos) Value {
		return p.mkString(p.intToDecimal(a[0].(*Term), tInt))
	})
	M("strconv.FormatInt", func(p *Path, a []Value, pos token.Pos) Value {
		v, base := a[0].(*Term), a[1].(*Term)
		if v.IsConst() && base.IsConst() {
			return StringV{S: strconv.FormatInt(constI(v), int(constI(base)))}
		}
		if base.IsConst() && constI(base) == 10 {
			return p.mkString(p.intToDecimal(v, tInt64))
		}
		p.abortf(abortUnsupported, "strconv.FormatInt with symbolic value in base != 10")
		return nil
	})
	M("strconv.FormatUint", func(p *Path, a []Value, pos token.Pos) Value {
		v, base := a[0].(*Term), a[1].(*Term)
		if v.IsConst() && base.IsConst() {
			return StringV{S: strconv.FormatUint(constU(v), int(constI(base)))}
		}
		if base.IsConst() && constI(base) == 10 {
			return p.mkString(p.intToDecimal(v, tUint64))
		}
		p.abortf(abortUnsupported, "strconv.FormatUint with symbolic value in base != 10")
		return nil
	})
	M("strconv.AppendInt", func(p *Path, a []Value, pos token.Pos) Value {
		dst, _ := a[0].([]Value)
		v, base := a[1].(*Term), a[2].(*Term)
		if base.IsConst() && constI(base) == 10 {
			return append(dst, sliceOfTerms(p.intToDecimal(v, tInt64))...)
		}
		if v.IsConst() && base.IsConst() {
			return append(dst, sliceOfTerms(p.constBytes(strconv.FormatInt(constI(v), int(constI(base)))))...)
		}
		p.abortf(abortUnsupported, "strconv.AppendInt symbolic base != 10")
		return nil
	})
	M("strconv.Quote", func(p *Path, a []Value, pos token.Pos) Value {
		return p.mkString(p.quoteBytes(p.strBytes(a[0].(StringV))))
	})
	M("strconv.FormatBool", func(p *Path, a []Value, pos token.Pos) Value {
		if p.branch(a[0].(*Term), "formatbool") {
			return StringV{S: "true"}
		}
		return StringV{S: "false"}
	})
	M("strconv.FormatFloat", func(p *Path, a []Value, pos token.Pos) Value {
		f := a[0].(FloatV)
		return StringV{S: strconv.FormatFloat(f.F, byte(constI(a[1].(*Term))), int(constI(a[2].(*Term))), int(constI(a[3].(*Term))))}
	})
}
