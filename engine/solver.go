package main

// One interactive SMT solver process per worker. Commands are framed by an
// (echo "DONE") sentinel so that reading never depends on solver flushing.

import (
	"bufio"
	"fmt"
	"io"
	"math/big"
	"os/exec"
	"strings"
	"time"
)

type SolverKind string

const (
	Z3    SolverKind = "z3"
	Z3New SolverKind = "z3-new"
	CVC5  SolverKind = "cvc5"
)

type Solver struct {
	kind    SolverKind
	cmd     *exec.Cmd
	in      io.WriteCloser
	out     *bufio.Reader
	defined map[int]bool
	decl    map[string]bool
	buf     strings.Builder
	// stats
	Queries   int
	Sat       int
	Unsat     int
	Unknown   int
	Errors    int
	SolveTime time.Duration
	timeoutMs int
	log       io.Writer
}

func NewSolver(kind SolverKind, timeoutMs int) (*Solver, error) {
	var cmd *exec.Cmd
	switch kind {
	case Z3:
		cmd = exec.Command("z3", "-in")
	case Z3New:
		cmd = exec.Command("z3-new", "-in")
	case CVC5:
		cmd = exec.Command("cvc5", "--incremental", "--produce-models", "--lang=smt2", fmt.Sprintf("--tlimit-per=%d", timeoutMs))
	}
	in, err := cmd.StdinPipe()
	if err != nil {
		return nil, err
	}
	outp, err := cmd.StdoutPipe()
	if err != nil {
		return nil, err
	}
	cmd.Stderr = cmd.Stdout
	if err := cmd.Start(); err != nil {
		return nil, err
	}
	s := &Solver{kind: kind, cmd: cmd, in: in, out: bufio.NewReaderSize(outp, 1<<16), timeoutMs: timeoutMs}
	s.Reset()
	return s, nil
}

func (s *Solver) Close() {
	if s.cmd != nil {
		s.in.Close()
		s.cmd.Process.Kill()
		c := s.cmd
		go c.Wait()
		s.cmd = nil
	}
}

// roundtrip sends buffered commands plus sentinel and returns output lines.
func (s *Solver) roundtrip() []string {
	s.buf.WriteString("(echo \"DONE\")\n")
	text := s.buf.String()
	s.buf.Reset()
	if s.log != nil {
		io.WriteString(s.log, text)
	}
	if _, err := io.WriteString(s.in, text); err != nil {
		panic(pathAbort{kind: abortSolver, msg: "solver write: " + err.Error()})
	}
	var lines []string
	for {
		line, err := s.out.ReadString('\n')
		if err != nil {
			panic(pathAbort{kind: abortSolver, msg: "solver read: " + err.Error() + " after " + strings.Join(lines, "|")})
		}
		line = strings.TrimSpace(line)
		if line == "DONE" || line == "\"DONE\"" {
			break
		}
		if line != "" {
			lines = append(lines, line)
		}
	}
	if s.log != nil {
		for _, l := range lines {
			fmt.Fprintf(s.log, "; -> %s\n", l)
		}
	}
	return lines
}

func (s *Solver) Reset() {
	s.defined = map[int]bool{}
	s.decl = map[string]bool{}
	s.buf.WriteString("(reset)\n")
	if s.kind != CVC5 {
		fmt.Fprintf(&s.buf, "(set-option :timeout %d)\n", s.timeoutMs)
	} else {
		s.buf.WriteString("(set-logic ALL)\n")
	}
	lines := s.roundtrip()
	for _, l := range lines {
		if strings.HasPrefix(l, "(error") {
			s.Errors++
		}
	}
}

// define emits declarations/definitions needed for t (at the current scope).
func (s *Solver) define(t *Term) {
	if t.Op == OConst {
		return
	}
	if t.Op == OVar {
		if !s.decl[t.Name] {
			s.decl[t.Name] = true
			fmt.Fprintf(&s.buf, "(declare-const %s %s)\n", smtName(t.Name), t.S)
		}
		return
	}
	if s.defined[t.id] {
		return
	}
	// iterative post-order to avoid deep recursion on long chains
	type fr struct {
		t *Term
		i int
	}
	stack := []fr{{t, 0}}
	for len(stack) > 0 {
		top := &stack[len(stack)-1]
		if top.i < len(top.t.Args) {
			a := top.t.Args[top.i]
			top.i++
			if a.Op == OConst {
				continue
			}
			if a.Op == OVar {
				if !s.decl[a.Name] {
					s.decl[a.Name] = true
					fmt.Fprintf(&s.buf, "(declare-const %s %s)\n", smtName(a.Name), a.S)
				}
				continue
			}
			if !s.defined[a.id] {
				stack = append(stack, fr{a, 0})
			}
			continue
		}
		if !s.defined[top.t.id] {
			s.defined[top.t.id] = true
			fmt.Fprintf(&s.buf, "(define-fun t%d () %s %s)\n", top.t.id, top.t.S, top.t.body())
		}
		stack = stack[:len(stack)-1]
	}
}

func (s *Solver) Assert(t *Term) {
	s.define(t)
	fmt.Fprintf(&s.buf, "(assert %s)\n", t.ref())
}

type Model map[string]ModelVal

type ModelVal struct {
	Sort Sort
	U    uint64
	I    *big.Int
}

func (m ModelVal) String() string {
	switch m.Sort.K {
	case SBool:
		if m.U == 1 {
			return "true"
		}
		return "false"
	case SBV:
		return fmt.Sprintf("%d", m.U)
	}
	return m.I.String()
}

// Check decides pc ∧ extra. If wantModel and sat, values for vars are returned.
func (s *Solver) Check(extra *Term, wantModel bool, vars []*Term) (string, Model) {
	if extra != nil {
		s.define(extra)
	}
	for _, v := range vars {
		s.define(v)
	}
	s.buf.WriteString("(push 1)\n")
	if extra != nil {
		fmt.Fprintf(&s.buf, "(assert %s)\n", extra.ref())
	}
	s.buf.WriteString("(check-sat)\n")
	t0 := time.Now()
	lines := s.roundtrip()
	s.SolveTime += time.Since(t0)
	s.Queries++
	res := "unknown"
	for _, l := range lines {
		if strings.HasPrefix(l, "(error") {
			s.Errors++
			res = "error"
			break
		}
		if l == "sat" || l == "unsat" || l == "unknown" {
			res = l
		}
	}
	var model Model
	if res == "sat" && wantModel && len(vars) > 0 {
		model = Model{}
		// query in chunks
		for i := 0; i < len(vars); i += 50 {
			j := i + 50
			if j > len(vars) {
				j = len(vars)
			}
			s.buf.WriteString("(get-value (")
			for _, v := range vars[i:j] {
				s.buf.WriteString(v.ref())
				s.buf.WriteString(" ")
			}
			s.buf.WriteString("))\n")
			out := strings.Join(s.roundtrip(), " ")
			parseGetValue(out, vars[i:j], model)
		}
	}
	s.buf.WriteString("(pop 1)\n")
	s.roundtrip()
	switch res {
	case "sat":
		s.Sat++
	case "unsat":
		s.Unsat++
	default:
		s.Unknown++
	}
	return res, model
}

// parseGetValue parses "((name val) (name val) ...)" pairing in order with vars.
func parseGetValue(out string, vars []*Term, m Model) {
	toks := tokenize(out)
	pos := 0
	// expect "(" then pairs
	if pos < len(toks) && toks[pos] == "(" {
		pos++
	}
	for _, v := range vars {
		// "(" name value ")"
		if pos >= len(toks) || toks[pos] != "(" {
			return
		}
		pos++
		// name may be a single token
		pos++ // skip name
		val, np := parseSexpValue(toks, pos, v.S)
		pos = np
		m[v.Name] = val
		if pos < len(toks) && toks[pos] == ")" {
			pos++
		}
	}
}

func tokenize(s string) []string {
	var toks []string
	i := 0
	for i < len(s) {
		c := s[i]
		switch {
		case c == '(' || c == ')':
			toks = append(toks, string(c))
			i++
		case c == ' ' || c == '\t' || c == '\n':
			i++
		case c == '|':
			j := i + 1
			for j < len(s) && s[j] != '|' {
				j++
			}
			toks = append(toks, s[i:j+1])
			i = j + 1
		default:
			j := i
			for j < len(s) && s[j] != '(' && s[j] != ')' && s[j] != ' ' {
				j++
			}
			toks = append(toks, s[i:j])
			i = j
		}
	}
	return toks
}

func parseSexpValue(toks []string, pos int, sort Sort) (ModelVal, int) {
	mv := ModelVal{Sort: sort}
	if pos >= len(toks) {
		return mv, pos
	}
	t := toks[pos]
	switch sort.K {
	case SBool:
		if t == "true" {
			mv.U = 1
		}
		return mv, pos + 1
	case SBV:
		if strings.HasPrefix(t, "#x") {
			fmt.Sscanf(t[2:], "%x", &mv.U)
			return mv, pos + 1
		}
		if strings.HasPrefix(t, "#b") {
			var u uint64
			for _, c := range t[2:] {
				u = u<<1 | uint64(c-'0')
			}
			mv.U = u
			return mv, pos + 1
		}
		if t == "(" && pos+3 < len(toks) && toks[pos+1] == "_" && strings.HasPrefix(toks[pos+2], "bv") {
			b := new(big.Int)
			b.SetString(toks[pos+2][2:], 10)
			mv.U = b.Uint64()
			return mv, pos + 5
		}
		return mv, pos + 1
	default:
		mv.I = new(big.Int)
		if t == "(" && pos+2 < len(toks) && toks[pos+1] == "-" {
			mv.I.SetString(toks[pos+2], 10)
			mv.I.Neg(mv.I)
			return mv, pos + 4
		}
		mv.I.SetString(t, 10)
		return mv, pos + 1
	}
}
