package main

import (
	"fmt"
	"go/token"
	"go/types"
	"math/big"
	"strings"

	"golang.org/x/tools/go/ssa"
)

var (
	tInt    = types.Typ[types.Int]
	tInt64  = types.Typ[types.Int64]
	tInt32  = types.Typ[types.Int32]
	tUint8  = types.Typ[types.Uint8]
	tUint16 = types.Typ[types.Uint16]
	tUint32 = types.Typ[types.Uint32]
	tUint64 = types.Typ[types.Uint64]
	tBool   = types.Typ[types.Bool]
	tString = types.Typ[types.String]
)

type abortKind int

const (
	abortInfeasible  abortKind = iota // assumption made the path infeasible (not an error)
	abortUnmodelled                   // call without semantics
	abortUnsupported                  // construct without semantics
	abortUnwind                       // unwinding bound hit
	abortBudget                       // step/path budget hit
	abortSolver                       // solver failure / unknown on a needed query
	abortOutOfBound                   // input left the stated bound (recorded cut)
)

func (k abortKind) String() string {
	return [...]string{"infeasible", "unmodelled", "unsupported", "unwind", "budget", "solver", "outofbound"}[k]
}

type pathAbort struct {
	kind abortKind
	msg  string
}

// targetPanic is a panic of the program under analysis.
type targetPanic struct {
	v Value // an interface value (IfaceV)
}

type Violation struct {
	Label  string
	Pos    string
	Model  map[string]string
	Trace  []string
	Kind   string // "assert" | "panic" | "overflow"
	Detail string

	raw       Model
	decisions []int
}

type NondetRec struct {
	Name  string
	Terms []*Term
	Kind  string // int,bool,string,bytes,choice
	Signed bool
}

type Path struct {
	eng    *Engine
	h      *Harness
	ts     *TermStore
	solver *Solver
	lia    bool

	prefix    []int
	pos       int
	decisions []int
	decKinds  []string

	nvar     int
	globals  map[*ssa.Global]*Value
	pkgInit  map[*ssa.Package]int // 1 = running, 2 = done
	steps    int64
	depth    int
	suspendable int // >0 while inside verifRunUntilBlocked
	siteHits map[siteKey]int

	reached    map[string]bool
	violations []Violation
	asserts    int
	proven     int
	unknownAs  int
	nondets    []NondetRec
	trace      []string
	funcsSeen  map[*ssa.Function]bool
	opaqueSeen map[string]int
	overflows  []string
	assumes    int
	inInit     int
	ghost      map[string]Value
	pcTerms    []*Term
	sched      *scheduler
	errStrs    map[string]*Value
	forks      []workItem
	concModel  Model // when non-nil: concrete replay — all decisions evaluated under this model
	outNote    string
	nameCount  map[string]int
	lastModel  Model
	lastNow    *TimeV
	locks      map[*Value]int
	lockOwner  map[*Value]int
	onceDone   map[*Value]bool
	onceRunning map[*Value]bool
	wgCount    map[*Value]int
	syncMaps   map[*Value]*MapV
	atomicVals map[*Value]Value
	notes      map[string]bool
}

type siteKey struct {
	fr   *frame
	inst ssa.Instruction
}

type workItem struct {
	prefix []int
}

func (p *Path) abortf(k abortKind, format string, args ...interface{}) {
	panic(pathAbort{kind: k, msg: fmt.Sprintf(format, args...)})
}

func (p *Path) tracef(format string, args ...interface{}) {
	if len(p.trace) < 400 {
		p.trace = append(p.trace, fmt.Sprintf(format, args...))
	}
}

// ---- integer typing ----

func intInfo(t types.Type) (w int, signed bool, ok bool) {
	b, isb := t.Underlying().(*types.Basic)
	if !isb {
		return 0, false, false
	}
	switch b.Kind() {
	case types.Int, types.Int64, types.UntypedInt, types.UntypedRune:
		return 64, true, true
	case types.Int32:
		return 32, true, true
	case types.Int16:
		return 16, true, true
	case types.Int8:
		return 8, true, true
	case types.Uint, types.Uint64, types.Uintptr:
		return 64, false, true
	case types.Uint32:
		return 32, false, true
	case types.Uint16:
		return 16, false, true
	case types.Uint8:
		return 8, false, true
	}
	return 0, false, false
}

func typeRange(w int, signed bool) (lo, hi *big.Int) {
	one := big.NewInt(1)
	if signed {
		hi = new(big.Int).Lsh(one, uint(w-1))
		lo = new(big.Int).Neg(hi)
		hi = new(big.Int).Sub(hi, one)
		return
	}
	lo = big.NewInt(0)
	hi = new(big.Int).Sub(new(big.Int).Lsh(one, uint(w)), one)
	return
}

func (p *Path) intSort(t types.Type) Sort {
	if p.lia {
		return IntSort
	}
	w, _, ok := intInfo(t)
	if !ok {
		panic(fmt.Sprintf("intSort of %v", t))
	}
	return BVSort(w)
}

func (p *Path) intConst(v int64, t types.Type) *Term {
	if p.lia {
		return p.ts.Int64(v)
	}
	w, _, ok := intInfo(t)
	if !ok {
		panic(fmt.Sprintf("intConst of %v", t))
	}
	return p.ts.BV(uint64(v), w)
}

func (p *Path) uintConst(v uint64, t types.Type) *Term {
	if p.lia {
		return p.ts.IntBig(new(big.Int).SetUint64(v))
	}
	w, _, _ := intInfo(t)
	return p.ts.BV(v, w)
}

func (p *Path) intLtU(x, y *Term) *Term {
	if p.lia {
		return p.ts.ILt(x, y)
	}
	return p.ts.bvCmp(OBvUlt, x, y)
}

// freshInt creates a symbolic integer of Go type t.
func (p *Path) freshInt(name string, t types.Type) *Term {
	p.nvar++
	nm := fmt.Sprintf("%s!%d", name, p.nvar)
	if p.lia {
		w, s, _ := intInfo(t)
		lo, hi := typeRange(w, s)
		v := p.ts.IntVarRange(nm, lo, hi)
		p.rangeAssert(v, lo, hi)
		return v
	}
	w, _, _ := intInfo(t)
	return p.ts.Var(nm, BVSort(w))
}

func (p *Path) freshBool(name string) *Term {
	p.nvar++
	return p.ts.Var(fmt.Sprintf("%s!%d", name, p.nvar), BoolSort)
}

// ---- path condition and decisions ----

func (p *Path) assertPC(t *Term) {
	if t.IsTrue() {
		return
	}
	p.pcTerms = append(p.pcTerms, t)
	if p.solver != nil && p.concModel == nil {
		p.solver.Assert(t)
	}
}

// rangeAssert emits lo <= v <= hi for a LIA var without interval-based folding.
func (p *Path) rangeAssert(v *Term, lo, hi *big.Int) {
	ts := p.ts
	a := ts.intern(&Term{Op: OLe, S: BoolSort, Args: []*Term{ts.IntBig(lo), v}})
	b := ts.intern(&Term{Op: OLe, S: BoolSort, Args: []*Term{v, ts.IntBig(hi)}})
	p.assertPC(a)
	p.assertPC(b)
}

func (p *Path) check(extra *Term) string {
	if p.concModel != nil {
		if p.evalBool(extra) {
			return "sat"
		}
		return "unsat"
	}
	r, _ := p.solver.Check(extra, false, nil)
	return r
}

// decide picks one of the exhaustive, mutually exclusive alternatives conds.
func (p *Path) decide(conds []*Term, kind string) int {
	// constants
	for i, c := range conds {
		if c.IsTrue() {
			return i
		}
	}
	if p.concModel != nil {
		for i, c := range conds {
			if p.evalBool(c) {
				p.decisions = append(p.decisions, i)
				return i
			}
		}
		p.abortf(abortInfeasible, "concrete replay: no alternative holds (%s)", kind)
	}
	if p.pos < len(p.prefix) {
		i := p.prefix[p.pos]
		p.pos++
		if i >= len(conds) {
			p.abortf(abortSolver, "replay divergence at decision %d (%s): %d >= %d", p.pos-1, kind, i, len(conds))
		}
		p.decisions = append(p.decisions, i)
		p.decKinds = append(p.decKinds, kind)
		p.assertPC(conds[i])
		return i
	}
	if len(p.decisions) >= p.h.MaxDecisions {
		p.abortf(abortBudget, "more than %d symbolic decisions on one path", p.h.MaxDecisions)
	}
	chosen := -1
	lastNonFalse := -1
	for i, c := range conds {
		if !c.IsFalse() {
			lastNonFalse = i
		}
	}
	for i, c := range conds {
		if c.IsFalse() {
			continue
		}
		if chosen < 0 && i == lastNonFalse {
			// exhaustive alternatives under a satisfiable pc: the last one must hold
			chosen = i
			break
		}
		r := p.check(c)
		if r == "unsat" {
			continue
		}
		if chosen < 0 {
			chosen = i
			continue
		}
		np := make([]int, len(p.decisions)+1)
		copy(np, p.decisions)
		np[len(p.decisions)] = i
		p.forks = append(p.forks, workItem{prefix: np})
	}
	if chosen < 0 {
		p.abortf(abortInfeasible, "no feasible alternative (%s)", kind)
	}
	p.decisions = append(p.decisions, chosen)
	p.decKinds = append(p.decKinds, kind)
	p.assertPC(conds[chosen])
	return chosen
}

// branch decides a boolean condition.
func (p *Path) branch(c *Term, kind string) bool {
	if c.IsConst() {
		return c.U == 1
	}
	return p.decide([]*Term{c, p.ts.Not(c)}, kind) == 0
}

// concretize forks a symbolic integer over [0,n) (returns -1 for out of range).
func (p *Path) concretize(t *Term, n int, typ types.Type, kind string) int {
	if t.IsConst() {
		v := constI(t)
		if _, s, _ := intInfo(typ); !s && !p.lia {
			if t.U >= uint64(n) {
				return -1
			}
			return int(t.U)
		}
		if v < 0 || v >= int64(n) {
			return -1
		}
		return int(v)
	}
	if n > p.h.MaxConcretize {
		p.abortf(abortUnsupported, "concretize over %d alternatives (%s)", n, kind)
	}
	conds := make([]*Term, 0, n+1)
	inr := p.ts.Bool(false)
	for i := 0; i < n; i++ {
		e := p.ts.Eq(t, p.intConst(int64(i), typ))
		conds = append(conds, e)
		inr = p.ts.Or(inr, e)
	}
	conds = append(conds, p.ts.Not(inr))
	i := p.decide(conds, kind)
	if i == n {
		return -1
	}
	return i
}

func (p *Path) assume(c *Term) {
	p.assumes++
	if c.IsTrue() {
		return
	}
	if c.IsFalse() {
		p.abortf(abortInfeasible, "assume(false)")
	}
	if p.concModel != nil {
		if !p.evalBool(c) {
			p.abortf(abortInfeasible, "assume fails under concrete model")
		}
		return
	}
	if p.pos >= len(p.prefix) {
		if r := p.check(c); r == "unsat" {
			p.abortf(abortInfeasible, "assumption infeasible")
		}
	}
	p.assertPC(c)
}

func (p *Path) targetPanicStr(msg string) {
	panic(targetPanic{v: p.mkError(msg)})
}

// mkError builds an interface value of dynamic type *errors.errorString.
func (p *Path) mkError(msg string) IfaceV {
	return p.eng.makeErrorString(p, msg)
}

func (p *Path) posStr(pos token.Pos) string {
	if pos == token.NoPos {
		return "?"
	}
	ps := p.eng.prog.Fset.Position(pos)
	f := ps.Filename
	if i := strings.Index(f, "/repo/"); i >= 0 {
		f = f[i+6:]
	}
	return fmt.Sprintf("%s:%d", f, ps.Line)
}

// ---- model evaluation (concrete replay and sample extraction) ----

func (p *Path) evalBool(t *Term) bool {
	v := evalTerm(t, p.concModel, map[int]ModelVal{})
	return v.U == 1
}

func evalTerm(t *Term, m Model, memo map[int]ModelVal) ModelVal {
	if t.Op == OConst {
		return ModelVal{Sort: t.S, U: t.U, I: t.I}
	}
	if v, ok := memo[t.id]; ok {
		return v
	}
	var r ModelVal
	r.Sort = t.S
	if t.Op == OVar {
		if mv, ok := m[t.Name]; ok {
			r = mv
			r.Sort = t.S
			if t.S.K == SBV {
				r.U &= mask(t.S.W)
			}
			if t.S.K == SInt && r.I == nil {
				r.I = new(big.Int).SetUint64(mv.U)
			}
		} else if t.S.K == SInt {
			r.I = new(big.Int)
			if t.lo != nil && t.lo.Sign() > 0 {
				r.I.Set(t.lo)
			}
		}
		memo[t.id] = r
		return r
	}
	args := make([]ModelVal, len(t.Args))
	for i, a := range t.Args {
		if t.Op == OIte && i > 0 {
			break
		}
		args[i] = evalTerm(a, m, memo)
	}
	b2u := func(b bool) uint64 {
		if b {
			return 1
		}
		return 0
	}
	sv := func(mv ModelVal) int64 {
		w := mv.Sort.W
		if w >= 64 {
			return int64(mv.U)
		}
		if mv.U&(1<<uint(w-1)) != 0 {
			return int64(mv.U | ^mask(w))
		}
		return int64(mv.U)
	}
	w := t.S.W
	switch t.Op {
	case ONot:
		r.U = 1 - args[0].U
	case OAnd:
		r.U = args[0].U & args[1].U
	case OOr:
		r.U = args[0].U | args[1].U
	case OIte:
		if args[0].U == 1 {
			r = evalTerm(t.Args[1], m, memo)
		} else {
			r = evalTerm(t.Args[2], m, memo)
		}
	case OEq:
		if t.Args[0].S.K == SInt {
			r.U = b2u(args[0].I.Cmp(args[1].I) == 0)
		} else {
			r.U = b2u(args[0].U == args[1].U)
		}
	case OBvAdd:
		r.U = (args[0].U + args[1].U) & mask(w)
	case OBvSub:
		r.U = (args[0].U - args[1].U) & mask(w)
	case OBvMul:
		r.U = (args[0].U * args[1].U) & mask(w)
	case OBvUdiv:
		if args[1].U == 0 {
			r.U = mask(w)
		} else {
			r.U = args[0].U / args[1].U
		}
	case OBvUrem:
		if args[1].U == 0 {
			r.U = args[0].U
		} else {
			r.U = args[0].U % args[1].U
		}
	case OBvSdiv:
		x, y := sv(args[0]), sv(args[1])
		if y == 0 {
			if x >= 0 {
				r.U = mask(w)
			} else {
				r.U = 1
			}
		} else if y == -1 {
			r.U = uint64(-x) & mask(w)
		} else {
			r.U = uint64(x/y) & mask(w)
		}
	case OBvSrem:
		x, y := sv(args[0]), sv(args[1])
		if y == 0 {
			r.U = args[0].U
		} else if y == -1 {
			r.U = 0
		} else {
			r.U = uint64(x%y) & mask(w)
		}
	case OBvAnd:
		r.U = args[0].U & args[1].U
	case OBvOr:
		r.U = args[0].U | args[1].U
	case OBvXor:
		r.U = args[0].U ^ args[1].U
	case OBvNot:
		r.U = ^args[0].U & mask(w)
	case OBvNeg:
		r.U = (-args[0].U) & mask(w)
	case OBvShl:
		if args[1].U >= uint64(w) {
			r.U = 0
		} else {
			r.U = (args[0].U << args[1].U) & mask(w)
		}
	case OBvLshr:
		if args[1].U >= uint64(w) {
			r.U = 0
		} else {
			r.U = args[0].U >> args[1].U
		}
	case OBvAshr:
		x := sv(args[0])
		if args[1].U >= uint64(w) {
			if x < 0 {
				r.U = mask(w)
			} else {
				r.U = 0
			}
		} else {
			r.U = uint64(x>>args[1].U) & mask(w)
		}
	case OBvUlt:
		r.U = b2u(args[0].U < args[1].U)
	case OBvUle:
		r.U = b2u(args[0].U <= args[1].U)
	case OBvSlt:
		r.U = b2u(sv(args[0]) < sv(args[1]))
	case OBvSle:
		r.U = b2u(sv(args[0]) <= sv(args[1]))
	case OBvConcat:
		r.U = (args[0].U<<uint(t.Args[1].S.W) | args[1].U) & mask(w)
	case OBvExtract:
		r.U = (args[0].U >> uint(t.Lo)) & mask(w)
	case OBvZext:
		r.U = args[0].U
	case OBvSext:
		r.U = uint64(sv(args[0])) & mask(w)
	case OAdd:
		r.I = new(big.Int).Add(args[0].I, args[1].I)
	case OSub:
		r.I = new(big.Int).Sub(args[0].I, args[1].I)
	case OMul:
		r.I = new(big.Int).Mul(args[0].I, args[1].I)
	case ODiv:
		if args[1].I.Sign() == 0 {
			r.I = new(big.Int)
		} else {
			q, _ := new(big.Int).DivMod(args[0].I, args[1].I, new(big.Int))
			r.I = q
		}
	case OMod:
		if args[1].I.Sign() == 0 {
			r.I = new(big.Int).Set(args[0].I)
		} else {
			_, mm := new(big.Int).DivMod(args[0].I, args[1].I, new(big.Int))
			r.I = mm
		}
	case OLt:
		r.U = b2u(args[0].I.Cmp(args[1].I) < 0)
	case OLe:
		r.U = b2u(args[0].I.Cmp(args[1].I) <= 0)
	default:
		panic(fmt.Sprintf("evalTerm: op %d", t.Op))
	}
	memo[t.id] = r
	return r
}
