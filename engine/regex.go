package main

// Model of package regexp over concrete-length strings with symbolic bytes.
// Patterns are compiled natively with regexp/syntax (the same front end the real
// package uses). MatchString is a polynomial NFA-reachability formula; the
// submatch / find-all / replace entry points run a leftmost-first backtracker
// whose rune tests are symbolic branches.

import (
	"go/token"
	"regexp/syntax"
	"unicode"

	"golang.org/x/tools/go/ssa"
)

type RegexpV struct {
	Pattern   string
	Prog      *syntax.Prog
	NumCap    int
	asciiOnly bool // every rune class lies within ASCII: byte-wise simulation is exact for all bytes
}

func compileRegexp(p *Path, pat string) (*RegexpV, string) {
	re, err := syntax.Parse(pat, syntax.Perl)
	if err != nil {
		return nil, err.Error()
	}
	ncap := re.MaxCap()
	re = re.Simplify()
	prog, err := syntax.Compile(re)
	if err != nil {
		return nil, err.Error()
	}
	rv := &RegexpV{Pattern: pat, Prog: prog, NumCap: ncap, asciiOnly: true}
	for i := range prog.Inst {
		in := &prog.Inst[i]
		switch in.Op {
		case syntax.InstRuneAny, syntax.InstRuneAnyNotNL:
			rv.asciiOnly = false
		case syntax.InstRune, syntax.InstRune1:
			for _, r := range in.Rune {
				if r >= 0x80 {
					rv.asciiOnly = false
				}
			}
		}
	}
	return rv, ""
}

func getRegexp(p *Path, v Value) *RegexpV {
	ptr, ok := v.(*Value)
	if !ok || ptr == nil {
		p.targetPanicStr("runtime error: invalid memory address or nil pointer dereference")
	}
	rv, ok := (*ptr).(*RegexpV)
	if !ok {
		p.abortf(abortUnmodelled, "regexp receiver is %T (not created through the model)", *ptr)
	}
	return rv
}

// runeCond is the condition under which byte b is matched by instruction in.
func (p *Path) runeCond(in *syntax.Inst, b *Term) *Term {
	ts := p.ts
	switch in.Op {
	case syntax.InstRuneAny:
		return ts.Bool(true)
	case syntax.InstRuneAnyNotNL:
		return ts.Not(ts.Eq(b, p.byteConst('\n')))
	}
	fold := syntax.Flags(in.Arg)&syntax.FoldCase != 0
	if b.IsConst() {
		c := rune(constU(b))
		if c >= 0x80 {
			return ts.Bool(false) // only reachable for asciiOnly programs
		}
		return ts.Bool(in.MatchRune(c))
	}
	r := ts.Bool(false)
	rs := in.Rune
	if len(rs) == 1 {
		c := rs[0]
		r = p.byteIs(b, c)
		if fold {
			for f := unicode.SimpleFold(c); f != c; f = unicode.SimpleFold(f) {
				r = ts.Or(r, p.byteIs(b, f))
			}
		}
		return r
	}
	for i := 0; i+1 < len(rs); i += 2 {
		lo, hi := rs[i], rs[i+1]
		if lo >= 0x80 {
			continue
		}
		if hi >= 0x80 {
			hi = 0x7f
		}
		r = ts.Or(r, p.byteInRange(b, byte(lo), byte(hi)))
	}
	return r
}

func (p *Path) byteIs(b *Term, c rune) *Term {
	if c >= 0x80 || c < 0 {
		return p.ts.Bool(false)
	}
	return p.ts.Eq(b, p.byteConst(byte(c)))
}

func (p *Path) emptyCond(op syntax.EmptyOp, bs []*Term, pos int) *Term {
	ts := p.ts
	r := ts.Bool(true)
	if op&syntax.EmptyBeginText != 0 && pos != 0 {
		return ts.Bool(false)
	}
	if op&syntax.EmptyEndText != 0 && pos != len(bs) {
		return ts.Bool(false)
	}
	if op&syntax.EmptyBeginLine != 0 && pos != 0 {
		r = ts.And(r, ts.Eq(bs[pos-1], p.byteConst('\n')))
	}
	if op&syntax.EmptyEndLine != 0 && pos != len(bs) {
		r = ts.And(r, ts.Eq(bs[pos], p.byteConst('\n')))
	}
	if op&(syntax.EmptyWordBoundary|syntax.EmptyNoWordBoundary) != 0 {
		isWord := func(i int) *Term {
			if i < 0 || i >= len(bs) {
				return ts.Bool(false)
			}
			b := bs[i]
			return ts.OrN(p.byteInRange(b, 'a', 'z'), p.byteInRange(b, 'A', 'Z'), p.byteInRange(b, '0', '9'), ts.Eq(b, p.byteConst('_')))
		}
		a, c := isWord(pos-1), isWord(pos)
		boundary := ts.Not(ts.Eq(a, c))
		if op&syntax.EmptyWordBoundary != 0 {
			r = ts.And(r, boundary)
		}
		if op&syntax.EmptyNoWordBoundary != 0 {
			r = ts.And(r, ts.Not(boundary))
		}
	}
	return r
}

func (p *Path) regexInputCheck(rv *RegexpV, bs []*Term, what string) {
	if rv.asciiOnly {
		// exact for arbitrary bytes: non-ASCII bytes match no instruction
		for _, b := range bs {
			if b.IsConst() && constU(b) >= 0x80 {
				continue
			}
		}
		return
	}
	for _, b := range bs {
		if b.IsConst() && constU(b) >= 0x80 {
			p.abortf(abortOutOfBound, "%s: non-ASCII subject with a pattern containing non-ASCII/any-rune classes (%s)", what, rv.Pattern)
		}
	}
	p.requireASCII(bs, what)
}

// matchFormula returns the Bool term "pattern matches somewhere in bs".
func (p *Path) matchFormula(rv *RegexpV, bs []*Term) *Term {
	ts := p.ts
	prog := rv.Prog
	n := len(bs)
	// threads: cond per pc
	cur := map[int]*Term{}
	matched := ts.Bool(false)
	var add func(set map[int]*Term, pc int, cond *Term, pos int, depth int)
	add = func(set map[int]*Term, pc int, cond *Term, pos int, depth int) {
		if cond.IsFalse() || depth > 4*len(prog.Inst) {
			return
		}
		in := &prog.Inst[pc]
		switch in.Op {
		case syntax.InstFail:
			return
		case syntax.InstAlt, syntax.InstAltMatch:
			// guard against epsilon loops: a pc already holding a condition that
			// subsumes this one is not revisited when conditions are identical
			add(set, int(in.Out), cond, pos, depth+1)
			add(set, int(in.Arg), cond, pos, depth+1)
		case syntax.InstNop, syntax.InstCapture:
			add(set, int(in.Out), cond, pos, depth+1)
		case syntax.InstEmptyWidth:
			add(set, int(in.Out), ts.And(cond, p.emptyCond(syntax.EmptyOp(in.Arg), bs, pos)), pos, depth+1)
		case syntax.InstMatch:
			matched = ts.Or(matched, cond)
		default: // rune instructions
			if old, ok := set[pc]; ok {
				set[pc] = ts.Or(old, cond)
			} else {
				set[pc] = cond
			}
		}
	}
	// epsilon loops: syntax.Compile never produces an epsilon cycle without a rune
	// instruction for simplified regexps except (x*)* forms; bound the depth.
	for pos := 0; pos <= n; pos++ {
		add(cur, prog.Start, ts.Bool(true), pos, 0) // unanchored: a new thread at every position
		if pos == n {
			break
		}
		next := map[int]*Term{}
		for pc, cond := range cur {
			in := &prog.Inst[pc]
			c := ts.And(cond, p.runeCond(in, bs[pos]))
			add(next, int(in.Out), c, pos+1, 0)
		}
		cur = next
	}
	return matched
}

// backtrack finds the leftmost-first match starting exactly at start.
// caps has 2*(NumCap+1) entries.
func (p *Path) backtrack(rv *RegexpV, bs []*Term, start int) ([]int, bool) {
	prog := rv.Prog
	caps := make([]int, 2*(rv.NumCap+1))
	for i := range caps {
		caps[i] = -1
	}
	steps := 0
	var run func(pc, pos int, caps []int) ([]int, bool)
	run = func(pc, pos int, caps []int) ([]int, bool) {
		for {
			steps++
			if steps > 200000 {
				p.abortf(abortBudget, "regexp backtracker exceeded 200000 steps on %s", rv.Pattern)
			}
			in := &prog.Inst[pc]
			switch in.Op {
			case syntax.InstFail:
				return nil, false
			case syntax.InstMatch:
				out := append([]int{}, caps...)
				out[1] = pos
				return out, true
			case syntax.InstAlt, syntax.InstAltMatch:
				if r, ok := run(int(in.Out), pos, append([]int{}, caps...)); ok {
					return r, true
				}
				pc = int(in.Arg)
			case syntax.InstNop:
				pc = int(in.Out)
			case syntax.InstCapture:
				if int(in.Arg) < len(caps) {
					caps = append([]int{}, caps...)
					caps[in.Arg] = pos
				}
				pc = int(in.Out)
			case syntax.InstEmptyWidth:
				if !p.branch(p.emptyCond(syntax.EmptyOp(in.Arg), bs, pos), "re-empty") {
					return nil, false
				}
				pc = int(in.Out)
			default:
				if pos >= len(bs) {
					return nil, false
				}
				if !p.branch(p.runeCond(in, bs[pos]), "re-rune") {
					return nil, false
				}
				pos++
				pc = int(in.Out)
			}
		}
	}
	caps[0] = start
	return run(prog.Start, start, caps)
}

// find returns the leftmost match at or after from.
func (p *Path) regexFind(rv *RegexpV, bs []*Term, from int) ([]int, bool) {
	for s := from; s <= len(bs); s++ {
		if caps, ok := p.backtrack(rv, bs, s); ok {
			return caps, true
		}
	}
	return nil, false
}

func init() {
	compile := func(must bool) modelFn {
		return func(p *Path, c *frame, pos token.Pos, fn *ssa.Function, a []Value) Value {
			pat := concStr(p, a[0], "regexp pattern")
			rv, errs := compileRegexp(p, pat)
			if rv == nil {
				if must {
					p.targetPanicStr("regexp: Compile(" + pat + "): " + errs)
				}
				return TupleV{(*Value)(nil), p.mkError("regexp: " + errs)}
			}
			cell := new(Value)
			*cell = rv
			if must {
				return cell
			}
			return TupleV{cell, IfaceV{}}
		}
	}
	models["regexp.MustCompile"] = compile(true)
	models["regexp.Compile"] = compile(false)
	models["(*regexp.Regexp).MatchString"] = func(p *Path, c *frame, pos token.Pos, fn *ssa.Function, a []Value) Value {
		rv := getRegexp(p, a[0])
		bs := bytesOf(p, a[1])
		p.regexInputCheck(rv, bs, "regexp.MatchString")
		return p.matchFormula(rv, bs)
	}
	models["(*regexp.Regexp).Match"] = models["(*regexp.Regexp).MatchString"]
	models["(*regexp.Regexp).String"] = func(p *Path, c *frame, pos token.Pos, fn *ssa.Function, a []Value) Value {
		return StringV{S: getRegexp(p, a[0]).Pattern}
	}
	models["(*regexp.Regexp).FindStringSubmatch"] = func(p *Path, c *frame, pos token.Pos, fn *ssa.Function, a []Value) Value {
		rv := getRegexp(p, a[0])
		s := a[1].(StringV)
		bs := p.strBytes(s)
		p.regexInputCheck(rv, bs, "regexp.FindStringSubmatch")
		caps, ok := p.regexFind(rv, bs, 0)
		if !ok {
			return []Value(nil)
		}
		out := make([]Value, rv.NumCap+1)
		for i := range out {
			if caps[2*i] >= 0 && caps[2*i+1] >= 0 {
				out[i] = p.mkString(bs[caps[2*i]:caps[2*i+1]])
			} else {
				out[i] = StringV{}
			}
		}
		return out
	}
	models["(*regexp.Regexp).FindAllString"] = func(p *Path, c *frame, pos token.Pos, fn *ssa.Function, a []Value) Value {
		rv := getRegexp(p, a[0])
		s := a[1].(StringV)
		bs := p.strBytes(s)
		limit := p.mustConcInt(a[2], tInt, 1<<20, "FindAllString n", pos)
		p.regexInputCheck(rv, bs, "regexp.FindAllString")
		var out []Value
		at := 0
		prevEnd := -1
		for at <= len(bs) && (limit < 0 || len(out) < limit) {
			caps, ok := p.regexFind(rv, bs, at)
			if !ok {
				break
			}
			accept := true
			if caps[1] == caps[0] && caps[0] == prevEnd {
				accept = false // empty match adjacent to the previous match is ignored
			}
			if accept {
				out = append(out, p.mkString(bs[caps[0]:caps[1]]))
			}
			prevEnd = caps[1]
			if caps[1] > at {
				at = caps[1]
			} else {
				at++
			}
		}
		if out == nil {
			return []Value(nil)
		}
		return out
	}
	models["(*regexp.Regexp).ReplaceAllString"] = func(p *Path, c *frame, pos token.Pos, fn *ssa.Function, a []Value) Value {
		rv := getRegexp(p, a[0])
		s := a[1].(StringV)
		bs := p.strBytes(s)
		repl := concStr(p, a[2], "ReplaceAllString replacement")
		p.regexInputCheck(rv, bs, "regexp.ReplaceAllString")
		var out []*Term
		at := 0
		last := 0
		prevEnd := -1
		for at <= len(bs) {
			caps, ok := p.regexFind(rv, bs, at)
			if !ok {
				break
			}
			if !(caps[1] == caps[0] && caps[0] == prevEnd) {
				out = append(out, bs[last:caps[0]]...)
				out = append(out, p.expandTemplate(rv, repl, bs, caps)...)
				last = caps[1]
			}
			prevEnd = caps[1]
			if caps[1] > at {
				at = caps[1]
			} else {
				at++
			}
		}
		out = append(out, bs[last:]...)
		return p.mkString(out)
	}
}

// expandTemplate handles $N and ${N} (numeric groups only).
func (p *Path) expandTemplate(rv *RegexpV, tmpl string, bs []*Term, caps []int) []*Term {
	var out []*Term
	for i := 0; i < len(tmpl); i++ {
		ch := tmpl[i]
		if ch != '$' || i+1 >= len(tmpl) {
			out = append(out, p.byteConst(ch))
			continue
		}
		j := i + 1
		if tmpl[j] == '$' {
			out = append(out, p.byteConst('$'))
			i = j
			continue
		}
		brace := tmpl[j] == '{'
		if brace {
			j++
		}
		k := j
		num := 0
		for k < len(tmpl) && tmpl[k] >= '0' && tmpl[k] <= '9' {
			num = num*10 + int(tmpl[k]-'0')
			k++
		}
		if k == j {
			p.abortf(abortUnsupported, "regexp template %q: only numeric groups are modelled", tmpl)
		}
		if brace {
			if k >= len(tmpl) || tmpl[k] != '}' {
				p.abortf(abortUnsupported, "regexp template %q", tmpl)
			}
			k++
		}
		if num <= rv.NumCap && caps[2*num] >= 0 {
			out = append(out, bs[caps[2*num]:caps[2*num+1]]...)
		}
		i = k - 1
	}
	return out
}
