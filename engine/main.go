package main

import (
	"encoding/json"
	"flag"
	"fmt"
	"os"
	"os/exec"
	"path/filepath"
	"runtime"
	"runtime/pprof"
	"sort"
	"strings"
	"time"
)

type Meta struct {
	Dir     string `json:"dir"`     // module dir (default /repo)
	Pkg     string `json:"pkg"`     // package pattern (default ./vgirpc)
	PkgDir  string `json:"pkg_dir"` // directory of the package relative to Dir (default vgirpc)
	PkgName string `json:"pkg_name"` // package clause to give the overlay files (default: unchanged, "vgirpc")
	Common  string `json:"common"`   // harness/<common> directory holding the shared overlay files (default "common")
	Level   string `json:"level"`
	Summary string `json:"summary"`
}

type KnownFinding struct {
	Property string `json:"property"`
	Harness  string `json:"harness"`
	Label    string `json:"label"`
	What     string `json:"what"`
	Status   string `json:"status"` // "open" | "fixed"
	Commit   string `json:"commit,omitempty"`
}

func main() {
	os.Setenv("PATH", "/opt/veriftools/go1.26.8/bin:"+os.Getenv("PATH"))
	if len(os.Args) < 2 {
		fmt.Fprintln(os.Stderr, "usage: gosym run|selftest ...")
		os.Exit(2)
	}
	switch os.Args[1] {
	case "run":
		os.Exit(cmdRun(os.Args[2:]))
	default:
		fmt.Fprintln(os.Stderr, "unknown command", os.Args[1])
		os.Exit(2)
	}
}

func cmdRun(args []string) int {
	fs := flag.NewFlagSet("run", flag.ExitOnError)
	id := fs.String("id", "", "property id")
	hdir := fs.String("harness", "", "harness directory")
	filter := fs.String("filter", "", "only harnesses whose name contains this")
	tier := fs.String("tier", "quick", "quick|thorough")
	evPath := fs.String("evidence", "", "evidence file to write")
	solver := fs.String("solver", "z3", "z3|z3-new|cvc5")
	workers := fs.Int("workers", runtime.NumCPU(), "parallel workers")
	verbose := fs.Bool("v", false, "verbose")
	timeoutMs := fs.Int("timeout", 20000, "per-query solver timeout (ms)")
	noReplay := fs.Bool("noreplay", false, "skip native replay")
	replayOnly := fs.String("replay", "", "replay a recorded violation file")
	root := fs.String("verif", "/verif", "verif root")
	logSmt := fs.String("logsmt", "", "write SMT commands of worker 0 to this file")
	cpuprof := fs.String("cpuprofile", "", "write CPU profile")
	fs.Parse(args)
	if *cpuprof != "" {
		f, _ := os.Create(*cpuprof)
		go func() {
			time.Sleep(7 * time.Second)
			pprof.StartCPUProfile(f)
			time.Sleep(6 * time.Second)
			pprof.StopCPUProfile()
			f.Close()
			fmt.Fprintln(os.Stderr, "profile written")
		}()
	}
	if abs, err := filepath.Abs(*hdir); err == nil {
		*hdir = abs
	}
	t0 := time.Now()
	seed := int64(0)
	if s := os.Getenv("VERIF_SEED"); s != "" {
		fmt.Sscanf(s, "%d", &seed)
	}

	meta := Meta{Dir: "/repo", Pkg: "./vgirpc", PkgDir: "vgirpc", Level: "model_checking"}
	if b, err := os.ReadFile(filepath.Join(*hdir, "meta.json")); err == nil {
		if err := json.Unmarshal(b, &meta); err != nil {
			fmt.Fprintln(os.Stderr, "bad meta.json:", err)
			return 2
		}
	}
	// overlay: harness files + common intrinsics
	overlay := map[string][]byte{}
	var harnessFiles []string
	addDir := func(d string) error {
		ents, err := os.ReadDir(d)
		if err != nil {
			return err
		}
		for _, en := range ents {
			n := en.Name()
			if en.IsDir() || !strings.HasSuffix(n, ".go") || strings.HasSuffix(n, "_test.go") {
				continue
			}
			b, err := os.ReadFile(filepath.Join(d, n))
			if err != nil {
				return err
			}
			// rewrite package clause if the target package has a different name
			virt := filepath.Join(meta.Dir, meta.PkgDir, "zz_verif_"+n)
			if meta.PkgName != "" {
				b = []byte(strings.Replace(string(b), "package vgirpc", "package "+meta.PkgName, 1))
			}
			overlay[virt] = b
			harnessFiles = append(harnessFiles, filepath.Join(d, n))
		}
		return nil
	}
	if err := addDir(*hdir); err != nil {
		fmt.Fprintln(os.Stderr, err)
		return 2
	}
	commonDir := filepath.Join(*root, "harness", "common")
	if meta.Common != "" {
		commonDir = filepath.Join(*root, "harness", meta.Common)
	} else if meta.PkgDir != "vgirpc" {
		commonDir = filepath.Join(*root, "harness", "common_"+filepath.Base(meta.PkgDir))
	}
	if err := addDir(commonDir); err != nil {
		fmt.Fprintln(os.Stderr, err)
		return 2
	}

	ev := &Evidence{PropertyID: *id, Tier: *tier, Seed: seed, Level: meta.Level}
	inconclusive := func(reason string) int {
		fmt.Printf("INCONCLUSIVE property=%s reason=%s\n", *id, reason)
		ev.Coverage = map[string]interface{}{
			"states": 1, "transitions": 1, "traces_validated_against_impl": 0,
			"samples":    []interface{}{map[string]string{"inconclusive": reason}},
			"exhaustive": false, "explanation": "check could not decide: " + reason,
			"evaluations": 1, "distinct_nontrivial": 2,
		}
		ev.Assumptions = []string{"INCONCLUSIVE: " + reason}
		ev.WallS = time.Since(t0).Seconds()
		writeEvidence(*evPath, ev)
		return 0
	}

	eng, err := LoadEngine(meta.Dir, meta.Pkg, overlay)
	if err != nil {
		msg := err.Error()
		if len(msg) > 600 {
			msg = msg[:600]
		}
		fmt.Fprintln(os.Stderr, "load failed:", err)
		return inconclusive("harness does not load against the working tree: " + strings.ReplaceAll(msg, "\n", " | "))
	}
	eng.tier = *tier
	eng.solverKind = SolverKind(*solver)
	eng.timeoutMs = *timeoutMs
	eng.workers = *workers
	eng.verbose = *verbose
	eng.seed = seed
	eng.logSmt = *logSmt
	loadT := time.Since(t0)

	hs, err := eng.findHarnesses(*filter)
	if err != nil {
		fmt.Fprintln(os.Stderr, err)
		return inconclusive("harness directives: " + err.Error())
	}
	if len(hs) == 0 {
		return inconclusive("no harness functions found")
	}
	known := loadKnown(filepath.Join(*root, "known_findings.json"))

	if *replayOnly != "" {
		return replayFile(eng, hs, *replayOnly, *id, meta, harnessFiles, *root)
	}

	exit := 0
	var results []*HarnessResult
	anyInconclusive := false
	validated := 0
	for _, h := range hs {
		eng.sampleBudget.Store(4)
		res := eng.RunHarness(h)
		results = append(results, res)
		status := "holds"
		if len(res.Violations) > 0 {
			status = "VIOLATED"
		} else if !res.Exhaustive || res.UnknownAs > 0 {
			status = "inconclusive"
		}
		fmt.Printf("harness %-40s %-12s paths=%d completed=%d asserts=%d proven=%d queries=%d (sat %d unsat %d unk %d) solve=%.1fs wall=%.1fs\n",
			h.Name, status, res.Paths, res.Completed, res.Asserts, res.Proven, res.Queries, res.Sat, res.Unsat, res.Unknown,
			res.SolveTime.Seconds(), res.Wall.Seconds())
		if *verbose || status == "inconclusive" {
			keys := make([]string, 0, len(res.AbortMsgs))
			for k := range res.AbortMsgs {
				keys = append(keys, k)
			}
			sort.Strings(keys)
			for i, k := range keys {
				if i >= 12 {
					break
				}
				fmt.Printf("    abort x%d: %s\n", res.AbortMsgs[k], k)
			}
		}
		// vacuity: every verifReach label mentioned in the harness must have been reached
		for _, lbl := range eng.reachLabels(h) {
			if !res.Reached[lbl] {
				fmt.Printf("    UNREACHED label %q in %s\n", lbl, h.Name)
				anyInconclusive = true
				res.Exhaustive = false
				res.AbortMsgs["vacuity: label "+lbl+" not reached"]++
			}
		}
		if !res.Exhaustive || res.UnknownAs > 0 || res.SolverErrors > 0 {
			anyInconclusive = true
		}
		// violations: confirm and report
		seenLabel := map[string]bool{}
		for i := range res.Violations {
			v := &res.Violations[i]
			if seenLabel[v.Label] {
				continue
			}
			rp := writeReplay(*root, *id, h, v, i)
			conf := eng.confirmConcrete(h, v)
			res.ConcChecked++
			if !conf {
				res.ConcFailed++
				fmt.Printf("    UNCONFIRMED (concrete re-execution in the interpreter did not reproduce) label=%q replay=%s\n", v.Label, rp)
				anyInconclusive = true
				continue
			}
			nativeNote := ""
			if !*noReplay {
				ok, note, ran := nativeReplay(eng, h, v, rp, meta, harnessFiles, *root)
				if ran {
					validated++
					nativeNote = note
					if !ok {
						fmt.Printf("    UNCONFIRMED (native replay did not reproduce: %s) label=%q replay=%s\n", note, v.Label, rp)
						anyInconclusive = true
						res.ConcFailed++
						continue
					}
				}
			}
			seenLabel[v.Label] = true
			if h.Expect == "violation" {
				fmt.Printf("    expected-violation witness ok: %q (%s)\n", v.Label, nativeNote)
				continue
			}
			if kf := matchKnown(known, *id, h.Name, v.Label); kf != nil {
				fmt.Printf("KNOWN-FINDING: property=%s %s [harness=%s label=%q replay=%s]\n", *id, kf.What, h.Name, v.Label, rp)
				ev.KnownFindings = append(ev.KnownFindings, v.Label)
				continue
			}
			fmt.Printf("VIOLATION property=%s replay=%s\n", *id, rp)
			fmt.Printf("    harness=%s label=%q kind=%s at %s %s %s\n", h.Name, v.Label, v.Kind, v.Pos, v.Detail, nativeNote)
			if len(v.Model) > 0 {
				mj, _ := json.Marshal(v.Model)
				fmt.Printf("    model=%s\n", mj)
			}
			ev.Violations++
			exit = 1
		}
		if h.Expect == "violation" && len(seenLabel) == 0 {
			fmt.Printf("    self-test harness %s found no witness: reachability/vacuity guard failed\n", h.Name)
			anyInconclusive = true
		}
	}
	fillEvidence(ev, eng, results, loadT, validated, anyInconclusive)
	ev.WallS = time.Since(t0).Seconds()
	writeEvidence(*evPath, ev)
	if anyInconclusive && exit == 0 {
		fmt.Printf("INCONCLUSIVE property=%s reason=see evidence (non-exhaustive paths, unknown solver answers or unreached labels)\n", *id)
	}
	if exit == 0 && !anyInconclusive {
		fmt.Printf("OK property=%s tier=%s wall=%.1fs\n", *id, *tier, time.Since(t0).Seconds())
	}
	return exit
}

func loadKnown(path string) []KnownFinding {
	b, err := os.ReadFile(path)
	if err != nil {
		return nil
	}
	var k struct {
		Findings []KnownFinding `json:"findings"`
	}
	if err := json.Unmarshal(b, &k); err != nil {
		fmt.Fprintln(os.Stderr, "known_findings.json:", err)
		return nil
	}
	return k.Findings
}

func matchKnown(known []KnownFinding, id, harness, label string) *KnownFinding {
	for i := range known {
		k := &known[i]
		if k.Status == "fixed" {
			continue
		}
		if k.Property == id && (k.Harness == "" || k.Harness == harness) && k.Label == label {
			return k
		}
	}
	return nil
}

type ReplayFile struct {
	Property  string            `json:"property"`
	Harness   string            `json:"harness"`
	Label     string            `json:"label"`
	Kind      string            `json:"kind"`
	Pos       string            `json:"pos"`
	Detail    string            `json:"detail,omitempty"`
	Model     map[string]string `json:"model"`
	Decisions []int             `json:"decisions"`
	Trace     []string          `json:"trace,omitempty"`
	Tier      string            `json:"tier"`
}

func writeReplay(root, id string, h *Harness, v *Violation, n int) string {
	dir := filepath.Join(root, "replays", id)
	os.MkdirAll(dir, 0o755)
	lbl := strings.Map(func(r rune) rune {
		if r >= 'a' && r <= 'z' || r >= 'A' && r <= 'Z' || r >= '0' && r <= '9' {
			return r
		}
		return '_'
	}, v.Label)
	if len(lbl) > 40 {
		lbl = lbl[:40]
	}
	path := filepath.Join(dir, fmt.Sprintf("%s__%s.json", h.Name, lbl))
	rf := ReplayFile{Property: id, Harness: h.Name, Label: v.Label, Kind: v.Kind, Pos: v.Pos, Detail: v.Detail, Model: v.Model, Decisions: v.decisions, Trace: v.Trace}
	b, _ := json.MarshalIndent(rf, "", " ")
	os.WriteFile(path, b, 0o644)
	return path
}

func run(dir string, env []string, timeout time.Duration, name string, args ...string) (string, error) {
	cmd := exec.Command(name, args...)
	cmd.Dir = dir
	cmd.Env = append(os.Environ(), env...)
	done := make(chan struct{})
	var out []byte
	var err error
	go func() {
		out, err = cmd.CombinedOutput()
		close(done)
	}()
	select {
	case <-done:
	case <-time.After(timeout):
		if cmd.Process != nil {
			cmd.Process.Kill()
		}
		<-done
		return string(out), fmt.Errorf("timeout after %s", timeout)
	}
	return string(out), err
}
