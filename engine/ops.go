package main

import (
	"fmt"
	"go/constant"
	"go/token"
	"go/types"
	"math"
	"math/big"

	"golang.org/x/tools/go/ssa"
)

// constValue converts an ssa.Const to a Value.
func (p *Path) constValue(c *ssa.Const) Value {
	t := c.Type()
	if c.Value == nil {
		// zero value of the type (nil, or zero of aggregate / type param)
		if b, ok := t.Underlying().(*types.Basic); ok && b.Kind() == types.UntypedNil {
			return IfaceV{}
		}
		return p.zero(t)
	}
	if b, ok := t.Underlying().(*types.Basic); ok {
		switch {
		case b.Kind() == types.Bool || b.Kind() == types.UntypedBool:
			return p.ts.Bool(constant.BoolVal(c.Value))
		case b.Info()&types.IsInteger != 0:
			v := constant.ToInt(c.Value)
			if i64, ok := constant.Int64Val(v); ok {
				return p.intConst(i64, t)
			}
			u64, _ := constant.Uint64Val(v)
			return p.uintConst(u64, t)
		case b.Info()&types.IsFloat != 0:
			f, _ := constant.Float64Val(c.Value)
			if b.Kind() == types.Float32 {
				return FloatV{float64(float32(f)), 32}
			}
			return FloatV{f, 64}
		case b.Info()&types.IsString != 0:
			if c.Value.Kind() == constant.String {
				return StringV{S: constant.StringVal(c.Value)}
			}
			// rune constant converted to string
			i, _ := constant.Int64Val(constant.ToInt(c.Value))
			return StringV{S: string(rune(i))}
		case b.Info()&types.IsComplex != 0:
			return Poison{"complex constant"}
		}
	}
	p.abortf(abortUnsupported, "constValue: %v of type %v", c.Value, t)
	return nil
}

// wrapLIA brings a mathematical result into the range of Go type t, forking when
// an overflow is possible (the overflow branch carries the exact wrapped value).
func (p *Path) wrapLIA(r *Term, t types.Type, pos token.Pos, what string) *Term {
	w, signed, ok := intInfo(t)
	if !ok {
		return r
	}
	lo, hi := typeRange(w, signed)
	if r.lo != nil && r.hi != nil && r.lo.Cmp(lo) >= 0 && r.hi.Cmp(hi) <= 0 {
		return r
	}
	ts := p.ts
	inr := ts.And(ts.ILe(ts.IntBig(lo), r), ts.ILe(r, ts.IntBig(hi)))
	if inr.IsTrue() {
		return r
	}
	if p.branch(inr, "overflow") {
		// name the in-range result so that its interval is known downstream
		p.nvar++
		alias := ts.IntVarRange(fmt.Sprintf("$r!%d", p.nvar), lo, hi)
		p.assertPC(ts.intern(&Term{Op: OEq, S: BoolSort, Args: []*Term{alias, r}}))
		return alias
	}
	p.overflows = append(p.overflows, fmt.Sprintf("%s at %s", what, p.posStr(pos)))
	mod := new(big.Int).Lsh(big.NewInt(1), uint(w))
	if !signed {
		return ts.IMod(r, ts.IntBig(mod))
	}
	half := new(big.Int).Lsh(big.NewInt(1), uint(w-1))
	return ts.ISub(ts.IMod(ts.IAdd(r, ts.IntBig(half)), ts.IntBig(mod)), ts.IntBig(half))
}

func isPow2Minus1(v *big.Int) (int, bool) {
	if v.Sign() < 0 {
		return 0, false
	}
	x := new(big.Int).Add(v, big.NewInt(1))
	if x.BitLen() > 0 && new(big.Int).And(x, v).Sign() == 0 {
		return x.BitLen() - 1, true
	}
	return 0, false
}

func (p *Path) divZeroCheck(y *Term, t types.Type) {
	z := p.ts.Eq(y, p.intConst(0, t))
	if p.branch(z, "divzero") {
		p.targetPanicStr("runtime error: integer divide by zero")
	}
}

// shiftAmount normalises the shift count y (of type yt) for an operand of width w.
// Returns (count term in x's sort, tooBig Bool term).
func (p *Path) shiftPrep(y *Term, yt types.Type, w int, xt types.Type) (*Term, *Term) {
	ts := p.ts
	yw, ysigned, _ := intInfo(yt)
	if ysigned {
		neg := ts.bvCmp(OBvSlt, y, ts.BV(0, yw))
		if p.branch(neg, "negshift") {
			p.targetPanicStr("runtime error: negative shift amount")
		}
	}
	tooBig := ts.Not(ts.bvCmp(OBvUlt, y, ts.BV(uint64(w), yw)))
	var cnt *Term
	if yw >= w {
		cnt = ts.Extract(y, w-1, 0)
	} else {
		cnt = ts.Zext(y, w)
	}
	return cnt, tooBig
}

func (p *Path) binop(op token.Token, t types.Type, x, y Value, yt types.Type, pos token.Pos) Value {
	ts := p.ts
	switch x := x.(type) {
	case Poison:
		p.abortf(abortUnmodelled, "operation on poisoned value (%s) at %s", x.Why, p.posStr(pos))
	case *Term:
		yv, ok := y.(*Term)
		if !ok {
			if pz, isP := y.(Poison); isP {
				p.abortf(abortUnmodelled, "operation on poisoned value (%s) at %s", pz.Why, p.posStr(pos))
			}
			p.abortf(abortUnsupported, "binop %s: term vs %T", op, y)
		}
		if x.S.K == SBool {
			switch op {
			case token.EQL:
				return ts.Eq(x, yv)
			case token.NEQ:
				return ts.Not(ts.Eq(x, yv))
			case token.AND, token.LAND:
				return ts.And(x, yv)
			case token.OR, token.LOR:
				return ts.Or(x, yv)
			}
			p.abortf(abortUnsupported, "bool binop %s", op)
		}
		if p.lia {
			return p.binopLIA(op, t, x, yv, yt, pos)
		}
		return p.binopBV(op, t, x, yv, yt, pos)
	case FloatV:
		yf := y.(FloatV)
		switch op {
		case token.ADD:
			return fl(x.F+yf.F, x.Bits)
		case token.SUB:
			return fl(x.F-yf.F, x.Bits)
		case token.MUL:
			return fl(x.F*yf.F, x.Bits)
		case token.QUO:
			return fl(x.F/yf.F, x.Bits)
		case token.EQL:
			return ts.Bool(x.F == yf.F)
		case token.NEQ:
			return ts.Bool(x.F != yf.F)
		case token.LSS:
			return ts.Bool(x.F < yf.F)
		case token.LEQ:
			return ts.Bool(x.F <= yf.F)
		case token.GTR:
			return ts.Bool(x.F > yf.F)
		case token.GEQ:
			return ts.Bool(x.F >= yf.F)
		}
	case StringV:
		ys := y.(StringV)
		switch op {
		case token.ADD:
			if x.B == nil && ys.B == nil {
				return StringV{S: x.S + ys.S}
			}
			return p.mkString(append(append([]*Term{}, p.strBytes(x)...), p.strBytes(ys)...))
		case token.EQL:
			return p.strEq(x, ys)
		case token.NEQ:
			return ts.Not(p.strEq(x, ys))
		case token.LSS:
			return p.strLess(x, ys)
		case token.GTR:
			return p.strLess(ys, x)
		case token.LEQ:
			return ts.Not(p.strLess(ys, x))
		case token.GEQ:
			return ts.Not(p.strLess(x, ys))
		}
	}
	switch op {
	case token.EQL:
		return p.equals(t, x, y)
	case token.NEQ:
		return ts.Not(p.equals(t, x, y))
	}
	p.abortf(abortUnsupported, "binop %s on %T at %s", op, x, p.posStr(pos))
	return nil
}

func fl(f float64, bits int) FloatV {
	if bits == 32 {
		return FloatV{float64(float32(f)), 32}
	}
	return FloatV{f, 64}
}

func (p *Path) binopBV(op token.Token, t types.Type, x, y *Term, yt types.Type, pos token.Pos) Value {
	ts := p.ts
	w, signed, _ := intInfo(t)
	switch op {
	case token.ADD:
		return ts.bvBin(OBvAdd, x, y)
	case token.SUB:
		return ts.bvBin(OBvSub, x, y)
	case token.MUL:
		return ts.bvBin(OBvMul, x, y)
	case token.QUO:
		p.divZeroCheck(y, t)
		if signed {
			return ts.bvBin(OBvSdiv, x, y)
		}
		return ts.bvBin(OBvUdiv, x, y)
	case token.REM:
		p.divZeroCheck(y, t)
		if signed {
			return ts.bvBin(OBvSrem, x, y)
		}
		return ts.bvBin(OBvUrem, x, y)
	case token.AND:
		return ts.bvBin(OBvAnd, x, y)
	case token.OR:
		return ts.bvBin(OBvOr, x, y)
	case token.XOR:
		return ts.bvBin(OBvXor, x, y)
	case token.AND_NOT:
		return ts.bvBin(OBvAnd, x, ts.BvNot(y))
	case token.SHL:
		cnt, big := p.shiftPrep(y, yt, w, t)
		return ts.Ite(big, ts.BV(0, w), ts.bvBin(OBvShl, x, cnt))
	case token.SHR:
		cnt, big := p.shiftPrep(y, yt, w, t)
		if signed {
			return ts.Ite(big, ts.bvBin(OBvAshr, x, ts.BV(uint64(w-1), w)), ts.bvBin(OBvAshr, x, cnt))
		}
		return ts.Ite(big, ts.BV(0, w), ts.bvBin(OBvLshr, x, cnt))
	case token.EQL:
		return ts.Eq(x, y)
	case token.NEQ:
		return ts.Not(ts.Eq(x, y))
	case token.LSS:
		if signed {
			return ts.bvCmp(OBvSlt, x, y)
		}
		return ts.bvCmp(OBvUlt, x, y)
	case token.LEQ:
		if signed {
			return ts.bvCmp(OBvSle, x, y)
		}
		return ts.bvCmp(OBvUle, x, y)
	case token.GTR:
		if signed {
			return ts.bvCmp(OBvSlt, y, x)
		}
		return ts.bvCmp(OBvUlt, y, x)
	case token.GEQ:
		if signed {
			return ts.bvCmp(OBvSle, y, x)
		}
		return ts.bvCmp(OBvUle, y, x)
	}
	p.abortf(abortUnsupported, "bv binop %s", op)
	return nil
}

func (p *Path) binopLIA(op token.Token, t types.Type, x, y *Term, yt types.Type, pos token.Pos) Value {
	ts := p.ts
	w, signed, _ := intInfo(t)
	switch op {
	case token.ADD:
		return p.wrapLIA(ts.IAdd(x, y), t, pos, "+")
	case token.SUB:
		return p.wrapLIA(ts.ISub(x, y), t, pos, "-")
	case token.MUL:
		if !x.IsConst() && !y.IsConst() {
			p.abortf(abortUnsupported, "non-linear multiplication in LIA mode at %s", p.posStr(pos))
		}
		return p.wrapLIA(ts.IMul(x, y), t, pos, "*")
	case token.QUO, token.REM:
		p.divZeroCheck(y, t)
		if !y.IsConst() {
			p.abortf(abortUnsupported, "division by symbolic value in LIA mode at %s", p.posStr(pos))
		}
		// truncated division via Euclidean div on |x|
		var q *Term
		if y.I.Sign() > 0 {
			if x.lo != nil && x.lo.Sign() >= 0 {
				q = ts.IDiv(x, y)
			} else {
				q = ts.Ite(ts.ILe(ts.Int64(0), x), ts.IDiv(x, y), ts.INeg(ts.IDiv(ts.INeg(x), y)))
			}
		} else {
			ny := ts.IntBig(new(big.Int).Neg(y.I))
			q = ts.Ite(ts.ILe(ts.Int64(0), x), ts.INeg(ts.IDiv(x, ny)), ts.IDiv(ts.INeg(x), ny))
		}
		if op == token.QUO {
			return p.wrapLIA(q, t, pos, "/")
		}
		return ts.ISub(x, ts.IMul(q, y))
	case token.AND:
		if y.IsConst() {
			if k, ok := isPow2Minus1(y.I); ok {
				return ts.IMod(x, ts.IntBig(new(big.Int).Lsh(big.NewInt(1), uint(k))))
			}
		}
		if x.IsConst() {
			if k, ok := isPow2Minus1(x.I); ok {
				return ts.IMod(y, ts.IntBig(new(big.Int).Lsh(big.NewInt(1), uint(k))))
			}
		}
		if x.IsConst() && y.IsConst() {
			return p.liaBitConst(op, x, y, w, signed)
		}
	case token.OR, token.XOR, token.AND_NOT:
		if x.IsConst() && y.IsConst() {
			return p.liaBitConst(op, x, y, w, signed)
		}
		if op == token.OR {
			if y.IsConst() && y.I.Sign() == 0 {
				return x
			}
			if x.IsConst() && x.I.Sign() == 0 {
				return y
			}
		}
	case token.SHL:
		if y.IsConst() {
			k := y.I.Int64()
			if k < 0 {
				p.targetPanicStr("runtime error: negative shift amount")
			}
			if k >= int64(w) {
				return ts.Int64(0)
			}
			return p.wrapLIA(ts.IMul(x, ts.IntBig(new(big.Int).Lsh(big.NewInt(1), uint(k)))), t, pos, "<<")
		}
	case token.SHR:
		if y.IsConst() {
			k := y.I.Int64()
			if k < 0 {
				p.targetPanicStr("runtime error: negative shift amount")
			}
			if k >= 64 {
				k = 64
			}
			return ts.IDiv(x, ts.IntBig(new(big.Int).Lsh(big.NewInt(1), uint(k))))
		}
	case token.EQL:
		return ts.Eq(x, y)
	case token.NEQ:
		return ts.Not(ts.Eq(x, y))
	case token.LSS:
		return ts.ILt(x, y)
	case token.LEQ:
		return ts.ILe(x, y)
	case token.GTR:
		return ts.ILt(y, x)
	case token.GEQ:
		return ts.ILe(y, x)
	}
	p.abortf(abortUnsupported, "LIA mode: operator %s on symbolic operands at %s", op, p.posStr(pos))
	return nil
}

func (p *Path) liaBitConst(op token.Token, x, y *Term, w int, signed bool) *Term {
	a, b := x.I.Uint64(), y.I.Uint64()
	if x.I.Sign() < 0 {
		a = uint64(x.I.Int64())
	}
	if y.I.Sign() < 0 {
		b = uint64(y.I.Int64())
	}
	var r uint64
	switch op {
	case token.AND:
		r = a & b
	case token.OR:
		r = a | b
	case token.XOR:
		r = a ^ b
	case token.AND_NOT:
		r = a &^ b
	}
	r &= mask(w)
	if signed {
		var sv int64
		if w < 64 && r&(1<<uint(w-1)) != 0 {
			sv = int64(r | ^mask(w))
		} else {
			sv = int64(r)
		}
		return p.ts.Int64(sv)
	}
	return p.ts.IntBig(new(big.Int).SetUint64(r))
}

func (p *Path) unop(instr *ssa.UnOp, x Value) Value {
	ts := p.ts
	switch instr.Op {
	case token.ARROW:
		return p.chanRecv(x, instr.CommaOk, instr)
	case token.MUL:
		if se, isSym := x.(*SymElem); isSym {
			return p.selectElem(se)
		}
		ptr, ok := x.(*Value)
		if !ok {
			if pz, isP := x.(Poison); isP {
				p.abortf(abortUnmodelled, "load through poisoned pointer (%s) at %s", pz.Why, p.posStr(instr.Pos()))
			}
			p.abortf(abortUnsupported, "load through %T at %s", x, p.posStr(instr.Pos()))
		}
		if ptr == nil {
			p.targetPanicStr("runtime error: invalid memory address or nil pointer dereference")
		}
		p.raceRead(ptr, instr.Pos())
		return copyVal(*ptr)
	case token.SUB:
		switch x := x.(type) {
		case *Term:
			if p.lia {
				return p.wrapLIA(ts.INeg(x), instr.Type(), instr.Pos(), "neg")
			}
			return ts.BvNeg(x)
		case FloatV:
			return FloatV{-x.F, x.Bits}
		}
	case token.NOT:
		return ts.Not(x.(*Term))
	case token.XOR:
		xt := x.(*Term)
		if p.lia {
			_, signed, _ := intInfo(instr.Type())
			if signed {
				return ts.ISub(ts.INeg(xt), ts.Int64(1))
			}
			w, _, _ := intInfo(instr.Type())
			_, hi := typeRange(w, false)
			return ts.ISub(ts.IntBig(hi), xt)
		}
		return ts.BvNot(xt)
	}
	p.abortf(abortUnsupported, "unop %s on %T", instr.Op, x)
	return nil
}

// conv implements ssa.Convert.
func (p *Path) conv(tdst, tsrc types.Type, x Value, pos token.Pos) Value {
	ts := p.ts
	ud, us := tdst.Underlying(), tsrc.Underlying()
	if pz, ok := x.(Poison); ok {
		return pz
	}
	// pointer <-> unsafe.Pointer
	switch ud.(type) {
	case *types.Pointer:
		return x
	}
	if b, ok := ud.(*types.Basic); ok && b.Kind() == types.UnsafePointer {
		return x
	}
	switch us := us.(type) {
	case *types.Slice:
		// []byte / []rune -> string
		sl := x.([]Value)
		if eb, ok := us.Elem().Underlying().(*types.Basic); ok && (eb.Kind() == types.Int32) {
			// []rune -> string, concrete only
			var rs []rune
			for _, e := range sl {
				et := e.(*Term)
				if !et.IsConst() {
					p.abortf(abortUnsupported, "[]rune->string with symbolic rune")
				}
				rs = append(rs, rune(constI(et)))
			}
			return StringV{S: string(rs)}
		}
		bs := make([]*Term, len(sl))
		for i, e := range sl {
			bs[i] = e.(*Term)
		}
		return p.mkString(bs)
	case *types.Basic:
		if us.Info()&types.IsString != 0 {
			s := x.(StringV)
			switch ud := ud.(type) {
			case *types.Slice:
				eb := ud.Elem().Underlying().(*types.Basic)
				if eb.Kind() == types.Uint8 {
					out := make([]Value, s.Len())
					for i, b := range p.strBytes(s) {
						out[i] = b
					}
					return out
				}
				// []rune
				cs, ok := s.Conc()
				if !ok {
					// ASCII assumption on symbolic bytes
					out := make([]Value, s.Len())
					for i, b := range p.strBytes(s) {
						p.assumeASCII(b)
						out[i] = p.intResize(b, tUint8, tInt32)
					}
					return out
				}
				var out []Value
				for _, r := range cs {
					out = append(out, p.intConst(int64(r), tInt32))
				}
				if out == nil {
					out = []Value{}
				}
				return out
			case *types.Basic:
				if ud.Info()&types.IsString != 0 {
					return s
				}
			}
		}
		if us.Info()&types.IsInteger != 0 {
			xt, ok := x.(*Term)
			if !ok {
				p.abortf(abortUnsupported, "conv int from %T", x)
			}
			if bd, ok := ud.(*types.Basic); ok {
				switch {
				case bd.Info()&types.IsInteger != 0:
					return p.intResize(xt, tsrc, tdst)
				case bd.Info()&types.IsFloat != 0:
					if !xt.IsConst() {
						p.abortf(abortUnsupported, "symbolic int -> float at %s", p.posStr(pos))
					}
					_, signed, _ := intInfo(tsrc)
					var f float64
					if signed {
						f = float64(constI(xt))
					} else {
						f = float64(constU(xt))
					}
					if bd.Kind() == types.Float32 {
						return FloatV{float64(float32(f)), 32}
					}
					return FloatV{f, 64}
				case bd.Info()&types.IsString != 0:
					// string(rune)
					if !xt.IsConst() {
						p.assumeASCII(xt)
						return p.mkString([]*Term{p.intResize(xt, tsrc, tUint8)})
					}
					return StringV{S: string(rune(constI(xt)))}
				}
			}
		}
		if us.Info()&types.IsFloat != 0 {
			xf := x.(FloatV)
			if bd, ok := ud.(*types.Basic); ok {
				switch {
				case bd.Info()&types.IsFloat != 0:
					if bd.Kind() == types.Float32 {
						return FloatV{float64(float32(xf.F)), 32}
					}
					return FloatV{xf.F, 64}
				case bd.Info()&types.IsInteger != 0:
					_, signed, _ := intInfo(tdst)
					if signed {
						return p.intConst(int64(xf.F), tdst)
					}
					if xf.F < 0 || math.IsNaN(xf.F) {
						return p.intConst(int64(xf.F), tdst)
					}
					return p.uintConst(uint64(xf.F), tdst)
				}
			}
		}
		if us.Info()&types.IsBoolean != 0 {
			return x
		}
	}
	_ = ts
	p.abortf(abortUnsupported, "conv %v -> %v at %s", tsrc, tdst, p.posStr(pos))
	return nil
}

func (p *Path) assumeASCII(b *Term) {
	if b.IsConst() {
		return
	}
	var c *Term
	if p.lia {
		c = p.ts.ILt(b, p.ts.Int64(0x80))
	} else {
		c = p.ts.bvCmp(OBvUlt, b, p.ts.BV(0x80, b.S.W))
	}
	if c.IsTrue() {
		return
	}
	if !p.branch(c, "ascii") {
		p.abortf(abortOutOfBound, "non-ASCII symbolic byte decoded as rune (outside stated bound)")
	}
}

// intResize converts integer term x from type tsrc to tdst.
func (p *Path) intResize(x *Term, tsrc, tdst types.Type) *Term {
	ws, ss, _ := intInfo(tsrc)
	wd, _, _ := intInfo(tdst)
	if p.lia {
		return p.wrapLIA(x, tdst, token.NoPos, "conv")
	}
	if x.S.K != SBV {
		panic(fmt.Sprintf("intResize: non-BV %v", x.S))
	}
	ws = x.S.W
	switch {
	case wd == ws:
		return x
	case wd < ws:
		return p.ts.Extract(x, wd-1, 0)
	default:
		if ss {
			return p.ts.Sext(x, wd)
		}
		return p.ts.Zext(x, wd)
	}
}

// SymElem is the address of arr[idx] for a symbolic idx into an array of
// scalars (a lookup table). Only loads are supported: the value is the if-then-else
// chain over the elements; the bounds check has been made when it was formed.
type SymElem struct {
	arr []Value
	idx *Term
	typ types.Type
}

func (p *Path) selectElem(se *SymElem) Value {
	ts := p.ts
	n := len(se.arr)
	// run-length groups of identical (interned) element terms: lookup tables are
	// mostly runs, so the select becomes a short chain of range tests
	type run struct {
		lo, hi int
		v      *Term
	}
	var runs []run
	for i := 0; i < n; i++ {
		v := se.arr[i].(*Term)
		if len(runs) > 0 && runs[len(runs)-1].v == v {
			runs[len(runs)-1].hi = i
			continue
		}
		runs = append(runs, run{i, i, v})
	}
	k := func(i int) *Term {
		if p.lia {
			return ts.Int64(int64(i))
		}
		return p.intConst(int64(i), se.typ)
	}
	res := runs[len(runs)-1].v
	for j := len(runs) - 2; j >= 0; j-- {
		r := runs[j]
		var c *Term
		if r.lo == r.hi {
			c = ts.Eq(se.idx, k(r.lo))
		} else if p.lia {
			c = ts.And(ts.ILe(k(r.lo), se.idx), ts.ILe(se.idx, k(r.hi)))
		} else {
			c = ts.And(ts.Not(p.intLtU(se.idx, k(r.lo))), ts.Not(p.intLtU(k(r.hi), se.idx)))
		}
		res = ts.Ite(c, r.v, res)
	}
	return res
}

// symElemAddr forms &arr[idx] for symbolic idx when arr holds only scalar terms;
// returns nil when that is not the case (caller falls back to concretisation).
func (p *Path) symElemAddr(arr []Value, idx *Term, t types.Type, pos token.Pos) *SymElem {
	if len(arr) == 0 || len(arr) > 1024 {
		return nil
	}
	for _, e := range arr {
		if _, ok := e.(*Term); !ok {
			return nil
		}
	}
	// bounds: fork on 0 <= idx < n
	n := int64(len(arr))
	var in *Term
	if w, signed, ok := intInfo(t); ok && !signed && w < 63 && n >= int64(1)<<uint(w) {
		in = p.ts.Bool(true) // every value of the index type is in range (e.g. table[byte])
	} else if p.lia {
		in = p.ts.And(p.ts.ILe(p.ts.Int64(0), idx), p.ts.ILt(idx, p.ts.Int64(n)))
	} else {
		in = p.intLtU(idx, p.intConst(n, t))
	}
	if !p.branch(in, "index-in-range") {
		p.targetPanicStr(fmt.Sprintf("runtime error: index out of range with length %d", n))
	}
	return &SymElem{arr: arr, idx: idx, typ: t}
}
