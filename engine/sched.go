package main

// Goroutines, channels and select. Threads are cooperative: exactly one runs at a
// time; control can move only at synchronisation points (see yield).

import (
	"fmt"
	"go/token"
	"go/types"

	"golang.org/x/tools/go/ssa"
)

// Implementation: every target goroutine runs on a host goroutine of its own, but
// a baton (the wake channels) guarantees that exactly one of them executes engine
// code at any time, so the Path needs no locking. At every synchronisation point
// the running thread may hand the baton to any other runnable thread; which one
// is a symbolic decision ("sched"), so the path explorer enumerates interleavings
// exactly as it enumerates branches. Switching away from a thread that could have
// continued counts as a preemption and is bounded by MaxSwitches; switches forced
// by blocking are free.
type scheduler struct {
	threads  []*thread
	cur      int
	switches int
	pending  interface{} // an engine unwind raised on a child thread, re-raised on thread 0
	finished bool
	race     *raceState
}

type thread struct {
	id      int
	wake    chan struct{}
	done    bool
	blocked func() bool // nil: runnable; else runnable once it reports true
	what    string
	depth   int
	killed  bool
	started bool
}

type killSignal struct{}

func (p *Path) ensureSched() *scheduler {
	if p.sched == nil {
		p.sched = &scheduler{threads: []*thread{{id: 0, wake: make(chan struct{}), started: true}}}
	}
	return p.sched
}

func (t *thread) runnable() bool {
	if t.done {
		return false
	}
	return t.blocked == nil || t.blocked()
}

// transfer hands the baton to thread `to` and parks the caller (thread `from`)
// until it is woken again. Returns on the caller's host goroutine.
func (p *Path) transfer(from, to *thread) {
	s := p.sched
	from.depth = p.depth
	s.cur = to.id
	to.wake <- struct{}{}
	<-from.wake
	p.depth = from.depth
	if from.killed {
		panic(killSignal{})
	}
	if from.id == 0 && s.pending != nil {
		r := s.pending
		s.pending = nil
		panic(r)
	}
}

func (p *Path) spawn(fr *frame, instr *ssa.Go, fn Value, args []Value) {
	if !p.h.Sched {
		p.abortf(abortUnsupported, "go statement at %s (scheduler not enabled: //verif:sched)", p.posStr(instr.Pos()))
	}
	s := p.ensureSched()
	if len(s.threads) >= 16 {
		p.abortf(abortBudget, "more than 16 goroutines")
	}
	t := &thread{id: len(s.threads), wake: make(chan struct{})}
	s.threads = append(s.threads, t)
	p.raceSpawn(t.id)
	pos := instr.Pos()
	go func() {
		<-t.wake
		t.started = true
		defer func() {
			r := recover()
			t.done = true
			if r != nil {
				if _, isKill := r.(killSignal); !isKill && s.pending == nil {
					if tp, isT := r.(targetPanic); isT {
						// an uncaught panic in a goroutine takes the whole program down
						func() {
							defer func() { s.pending = recover() }()
							p.fatal("panic in goroutine: " + p.panicString(tp))
						}()
					} else {
						s.pending = r
					}
				}
			}
			if t.killed {
				s.threads[0].wake <- struct{}{}
				return
			}
			p.handoffFromDead(t)
		}()
		if t.killed {
			return
		}
		p.depth = 0
		p.call(nil, pos, fn, args)
	}()
	p.yield("go")
}

// handoffFromDead passes the baton on when thread t has ended.
func (p *Path) handoffFromDead(t *thread) {
	s := p.sched
	if s.pending != nil {
		s.cur = 0
		s.threads[0].wake <- struct{}{}
		return
	}
	var cands []*thread
	for _, o := range s.threads {
		if o != t && o.runnable() {
			cands = append(cands, o)
		}
	}
	if len(cands) == 0 {
		// everything else is blocked: a deadlock, reported on thread 0
		func() {
			defer func() { s.pending = recover() }()
			p.fatal("all goroutines are asleep - deadlock! (" + p.blockedSummary() + ")")
		}()
		s.cur = 0
		s.threads[0].wake <- struct{}{}
		return
	}
	next := cands[0]
	if len(cands) > 1 {
		var r interface{}
		func() {
			defer func() { r = recover() }()
			next = cands[p.schedChoice(len(cands))]
		}()
		if r != nil {
			s.pending = r
			s.cur = 0
			s.threads[0].wake <- struct{}{}
			return
		}
	}
	s.cur = next.id
	next.wake <- struct{}{}
}

func (p *Path) blockedSummary() string {
	out := ""
	for _, t := range p.sched.threads {
		if !t.done && t.blocked != nil {
			if out != "" {
				out += "; "
			}
			out += fmt.Sprintf("goroutine %d: %s", t.id, t.what)
		}
	}
	return out
}

// schedChoice: a symbolic pick among n alternatives, explored like any branch.
func (p *Path) schedChoice(n int) int {
	sel := p.freshChoice("sched", n)
	conds := make([]*Term, n)
	for j := 0; j < n; j++ {
		conds[j] = p.ts.Eq(sel, p.intConst(int64(j), tInt))
	}
	// the selector is fresh and unconstrained: every alternative is feasible, so the
	// solver is not consulted (replay and concrete modes go through decide as usual)
	if p.concModel != nil || p.pos < len(p.prefix) {
		return p.decide(conds, "sched")
	}
	if len(p.decisions) >= p.h.MaxDecisions {
		p.abortf(abortBudget, "more than %d symbolic decisions on one path", p.h.MaxDecisions)
	}
	for j := 1; j < n; j++ {
		np := make([]int, len(p.decisions)+1)
		copy(np, p.decisions)
		np[len(p.decisions)] = j
		p.forks = append(p.forks, workItem{prefix: np})
	}
	p.decisions = append(p.decisions, 0)
	p.decKinds = append(p.decKinds, "sched")
	p.assertPC(conds[0])
	return 0
}

// yield is a synchronisation point at which the scheduler may preempt the
// running thread.
func (p *Path) yield(why string) {
	s := p.sched
	if s == nil || len(s.threads) < 2 || s.finished {
		return
	}
	if s.switches >= p.h.MaxSwitches {
		return
	}
	me := s.threads[s.cur]
	cands := []*thread{me}
	for _, o := range s.threads {
		if o != me && o.runnable() {
			cands = append(cands, o)
		}
	}
	if len(cands) == 1 {
		return
	}
	k := p.schedChoice(len(cands))
	if k == 0 {
		return
	}
	s.switches++
	p.tracef("sched: preempt goroutine %d at %s -> goroutine %d", me.id, why, cands[k].id)
	p.transfer(me, cands[k])
}

func (p *Path) curThread() int {
	if p.sched == nil {
		return 0
	}
	return p.sched.cur
}

// waitUntil blocks the current thread until cond holds. Without other runnable
// threads a false condition is a deadlock.
func (p *Path) waitUntil(cond func() bool, what string, pos token.Pos) {
	if cond() {
		return
	}
	s := p.sched
	if s == nil || len(s.threads) < 2 {
		if p.suspendable > 0 {
			panic(suspendSignal{what})
		}
		p.fatal("all goroutines are asleep - deadlock! (" + what + " at " + p.posStr(pos) + ")")
	}
	me := s.threads[s.cur]
	me.blocked, me.what = cond, what+" at "+p.posStr(pos)
	for !cond() {
		var cands []*thread
		for _, o := range s.threads {
			if o != me && o.runnable() {
				cands = append(cands, o)
			}
		}
		if len(cands) == 0 {
			if p.suspendable > 0 {
				me.blocked = nil
				panic(suspendSignal{what})
			}
			sum := p.blockedSummary()
			me.blocked = nil
			p.fatal("all goroutines are asleep - deadlock! (" + sum + ")")
		}
		next := cands[0]
		if len(cands) > 1 {
			next = cands[p.schedChoice(len(cands))]
		}
		p.transfer(me, next)
	}
	me.blocked = nil
}

// finish ends the path: every thread that has not ended is unwound.
func (s *scheduler) finish(p *Path) {
	s.finished = true
	main := s.threads[0]
	for _, t := range s.threads[1:] {
		if t.done {
			continue
		}
		t.killed = true
		t.wake <- struct{}{}
		<-main.wake
	}
}

// suspendSignal unwinds the interpreter (without running the target's deferred
// calls) to the enclosing verifRunUntilBlocked when the code it runs reaches a
// channel operation that cannot proceed. The suspended activation is a thread
// parked forever at that operation: every mutex it holds stays held.
type suspendSignal struct{ what string }

func (p *Path) wouldBlock(what string) {
	if p.suspendable > 0 {
		panic(suspendSignal{what})
	}
	p.abortf(abortUnsupported, "%s", what)
}

func (p *Path) multi() bool { return p.sched != nil && len(p.sched.threads) > 1 && !p.sched.finished }

func (p *Path) chanSend(cv Value, v Value) {
	ch, ok := cv.(*ChanV)
	if !ok {
		p.abortf(abortUnsupported, "send on %T", cv)
	}
	if ch == nil {
		p.abortf(abortUnsupported, "send on nil channel blocks forever")
	}
	if p.multi() {
		p.yield("chan send")
	}
	if ch.Closed {
		p.targetPanicStr("send on closed channel")
	}
	p.raceChanRelease(ch)
	if len(ch.Buf) < ch.Cap {
		ch.Buf = append(ch.Buf, copyVal(v))
		return
	}
	if !p.multi() {
		p.wouldBlock("channel send would block (no runnable receiver)")
	}
	if ch.Cap > 0 {
		p.waitUntil(func() bool { return ch.Closed || len(ch.Buf) < ch.Cap }, "chan send", token.NoPos)
		if ch.Closed {
			p.targetPanicStr("send on closed channel")
		}
		ch.Buf = append(ch.Buf, copyVal(v))
		return
	}
	// unbuffered: the value is staged and the sender waits until a receiver has taken it
	ticket := ch.Sent
	ch.Sent++
	ch.Buf = append(ch.Buf, copyVal(v))
	p.waitUntil(func() bool { return ch.Recvd > ticket }, "chan send (unbuffered)", token.NoPos)
}

func (p *Path) chanRecv(cv Value, commaOk bool, instr *ssa.UnOp) Value {
	ch, ok := cv.(*ChanV)
	if !ok {
		p.abortf(abortUnsupported, "recv on %T", cv)
	}
	if ch == nil {
		p.abortf(abortUnsupported, "receive on nil channel blocks forever")
	}
	if p.multi() {
		p.yield("chan recv")
		p.waitUntil(func() bool { return len(ch.Buf) > 0 || ch.Closed }, "chan receive", instr.Pos())
	}
	if len(ch.Buf) > 0 {
		v := ch.Buf[0]
		ch.Buf = ch.Buf[1:]
		ch.Recvd++
		p.raceChanAcquire(ch)
		if commaOk {
			return TupleV{v, p.ts.Bool(true)}
		}
		return v
	}
	if ch.Closed {
		p.raceChanAcquire(ch)
		z := p.zero(ch.ET)
		if commaOk {
			return TupleV{z, p.ts.Bool(false)}
		}
		return z
	}
	p.wouldBlock("channel receive would block (no runnable sender) at " + p.posStr(instr.Pos()))
	return nil
}

func (p *Path) chanClose(cv Value) {
	ch, ok := cv.(*ChanV)
	if !ok || ch == nil {
		p.targetPanicStr("close of nil channel")
	}
	if ch.Closed {
		p.targetPanicStr("close of closed channel")
	}
	p.raceChanRelease(ch)
	ch.Closed = true
}

func (p *Path) doSelect(fr *frame, instr *ssa.Select) Value {
	// ready cases in source order; the first ready case is taken (deterministic);
	// with no ready case: default if non-blocking, else abort.
	ts := p.ts
	mk := func(chosen int, recvOk bool, recvVal Value) Value {
		r := TupleV{p.intConst(int64(chosen), tInt), ts.Bool(recvOk)}
		for i, st := range instr.States {
			if st.Dir == types.RecvOnly {
				if i == chosen && recvVal != nil {
					r = append(r, recvVal)
				} else {
					r = append(r, p.zero(st.Chan.Type().Underlying().(*types.Chan).Elem()))
				}
			}
		}
		return r
	}
	ready := func() bool {
		for _, st := range instr.States {
			ch, _ := fr.get(st.Chan).(*ChanV)
			if ch == nil {
				continue
			}
			if st.Dir == types.RecvOnly {
				if len(ch.Buf) > 0 || ch.Closed {
					return true
				}
			} else if ch.Closed || len(ch.Buf) < ch.Cap {
				return true
			}
		}
		return false
	}
	if p.multi() {
		p.yield("select")
		if instr.Blocking {
			p.waitUntil(ready, "select", instr.Pos())
		}
	}
	for i, st := range instr.States {
		ch, _ := fr.get(st.Chan).(*ChanV)
		if ch == nil {
			continue
		}
		if st.Dir == types.RecvOnly {
			if len(ch.Buf) > 0 {
				v := ch.Buf[0]
				ch.Buf = ch.Buf[1:]
				ch.Recvd++
				p.raceChanAcquire(ch)
				return mk(i, true, v)
			}
			if ch.Closed {
				p.raceChanAcquire(ch)
				return mk(i, false, nil)
			}
		} else {
			if ch.Closed {
				p.targetPanicStr("send on closed channel")
			}
			if len(ch.Buf) < ch.Cap {
				p.raceChanRelease(ch)
				ch.Buf = append(ch.Buf, copyVal(fr.get(st.Send)))
				return mk(i, false, nil)
			}
		}
	}
	if !instr.Blocking {
		return mk(-1, false, nil)
	}
	p.wouldBlock("blocking select with no ready case at " + p.posStr(instr.Pos()))
	return nil
}
