package main

// Goroutines, channels and select. Threads are cooperative: exactly one runs at a
// time; control can move only at synchronisation points (see yield).

import (
	"go/token"
	"go/types"

	"golang.org/x/tools/go/ssa"
)

type scheduler struct {
	threads []*thread
	cur     int
}

type thread struct {
	id   int
	done bool
}

func (s *scheduler) finish(p *Path) {}

func (p *Path) spawn(fr *frame, instr *ssa.Go, fn Value, args []Value) {
	p.abortf(abortUnsupported, "go statement at %s (scheduler not enabled)", p.posStr(instr.Pos()))
}

func (p *Path) yield(why string) {}

func (p *Path) curThread() int { return 0 }

// waitUntil blocks the current thread until cond holds. Without other runnable
// threads a false condition is a deadlock.
func (p *Path) waitUntil(cond func() bool, what string, pos token.Pos) {
	if cond() {
		return
	}
	p.fatal("all goroutines are asleep - deadlock! (" + what + " at " + p.posStr(pos) + ")")
}

// suspendSignal unwinds the interpreter (without running the target's deferred
// calls) to the enclosing verifRunUntilBlocked when the code it runs reaches a
// channel operation that cannot proceed. The suspended activation is a thread
// parked forever at that operation: every mutex it holds stays held.
type suspendSignal struct{ what string }

func (p *Path) wouldBlock(what string) {
	if p.suspendable > 0 {
		panic(suspendSignal{what})
	}
	p.abortf(abortUnsupported, "%s", what)
}

func (p *Path) chanSend(cv Value, v Value) {
	ch, ok := cv.(*ChanV)
	if !ok {
		p.abortf(abortUnsupported, "send on %T", cv)
	}
	if ch == nil {
		p.abortf(abortUnsupported, "send on nil channel blocks forever")
	}
	if ch.Closed {
		p.targetPanicStr("send on closed channel")
	}
	if len(ch.Buf) < ch.Cap {
		ch.Buf = append(ch.Buf, copyVal(v))
		return
	}
	p.wouldBlock("channel send would block (no runnable receiver)")
}

func (p *Path) chanRecv(cv Value, commaOk bool, instr *ssa.UnOp) Value {
	ch, ok := cv.(*ChanV)
	if !ok {
		p.abortf(abortUnsupported, "recv on %T", cv)
	}
	if ch == nil {
		p.abortf(abortUnsupported, "receive on nil channel blocks forever")
	}
	if len(ch.Buf) > 0 {
		v := ch.Buf[0]
		ch.Buf = ch.Buf[1:]
		if commaOk {
			return TupleV{v, p.ts.Bool(true)}
		}
		return v
	}
	if ch.Closed {
		z := p.zero(ch.ET)
		if commaOk {
			return TupleV{z, p.ts.Bool(false)}
		}
		return z
	}
	p.wouldBlock("channel receive would block (no runnable sender) at " + p.posStr(instr.Pos()))
	return nil
}

func (p *Path) chanClose(cv Value) {
	ch, ok := cv.(*ChanV)
	if !ok || ch == nil {
		p.targetPanicStr("close of nil channel")
	}
	if ch.Closed {
		p.targetPanicStr("close of closed channel")
	}
	ch.Closed = true
}

func (p *Path) doSelect(fr *frame, instr *ssa.Select) Value {
	// ready cases in source order; the first ready case is taken (deterministic);
	// with no ready case: default if non-blocking, else abort.
	ts := p.ts
	mk := func(chosen int, recvOk bool, recvVal Value) Value {
		r := TupleV{p.intConst(int64(chosen), tInt), ts.Bool(recvOk)}
		for i, st := range instr.States {
			if st.Dir == types.RecvOnly {
				if i == chosen && recvVal != nil {
					r = append(r, recvVal)
				} else {
					r = append(r, p.zero(st.Chan.Type().Underlying().(*types.Chan).Elem()))
				}
			}
		}
		return r
	}
	for i, st := range instr.States {
		ch, _ := fr.get(st.Chan).(*ChanV)
		if ch == nil {
			continue
		}
		if st.Dir == types.RecvOnly {
			if len(ch.Buf) > 0 {
				v := ch.Buf[0]
				ch.Buf = ch.Buf[1:]
				return mk(i, true, v)
			}
			if ch.Closed {
				return mk(i, false, nil)
			}
		} else {
			if ch.Closed {
				p.targetPanicStr("send on closed channel")
			}
			if len(ch.Buf) < ch.Cap {
				ch.Buf = append(ch.Buf, copyVal(fr.get(st.Send)))
				return mk(i, false, nil)
			}
		}
	}
	if !instr.Blocking {
		return mk(-1, false, nil)
	}
	p.wouldBlock("blocking select with no ready case at " + p.posStr(instr.Pos()))
	return nil
}
