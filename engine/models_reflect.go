package main

// A model of package reflect over the engine's own value representation.
//
// reflect.Type is an interface; here its dynamic value is a canonical *NativeObj
// per Go type (State = the go/types type), so identity (==, map keys) works and
// method calls dispatch to the table below. reflect.Value is a struct in Go; here
// a register of that static type holds a ReflectV (or the all-zero StructV for
// the invalid Value). The model is faithful about what reflect *refuses*: Set* on
// the wrong kind, Set on an unaddressable or unexported-field value, Elem/Field
// on the wrong kind and IsNil on a non-nillable kind panic as the real package
// does, because "does a malformed input make the binding panic" is one of the
// questions asked of the code under test.

import (
	"fmt"
	"go/token"
	"go/types"
	"strings"

	"golang.org/x/tools/go/ssa"
)

type ReflectV struct {
	T   types.Type // dynamic type; nil: the invalid (zero) Value
	Ptr *Value     // storage when addressable
	Val Value      // the value otherwise
	RO  bool       // obtained through an unexported field
}

func (r ReflectV) load() Value {
	if r.Ptr != nil {
		return *r.Ptr
	}
	return r.Val
}

const (
	rkInvalid = iota
	rkBool
	rkInt
	rkInt8
	rkInt16
	rkInt32
	rkInt64
	rkUint
	rkUint8
	rkUint16
	rkUint32
	rkUint64
	rkUintptr
	rkFloat32
	rkFloat64
	rkComplex64
	rkComplex128
	rkArray
	rkChan
	rkFunc
	rkInterface
	rkMap
	rkPointer
	rkSlice
	rkString
	rkStruct
	rkUnsafePointer
)

var rkNames = []string{"invalid", "bool", "int", "int8", "int16", "int32", "int64", "uint", "uint8", "uint16", "uint32", "uint64", "uintptr",
	"float32", "float64", "complex64", "complex128", "array", "chan", "func", "interface", "map", "ptr", "slice", "string", "struct", "unsafe.Pointer"}

func reflectKind(t types.Type) int {
	if t == nil {
		return rkInvalid
	}
	switch u := t.Underlying().(type) {
	case *types.Basic:
		switch u.Kind() {
		case types.Bool, types.UntypedBool:
			return rkBool
		case types.Int, types.UntypedInt:
			return rkInt
		case types.Int8:
			return rkInt8
		case types.Int16:
			return rkInt16
		case types.Int32, types.UntypedRune:
			return rkInt32
		case types.Int64:
			return rkInt64
		case types.Uint:
			return rkUint
		case types.Uint8:
			return rkUint8
		case types.Uint16:
			return rkUint16
		case types.Uint32:
			return rkUint32
		case types.Uint64:
			return rkUint64
		case types.Uintptr:
			return rkUintptr
		case types.Float32:
			return rkFloat32
		case types.Float64, types.UntypedFloat:
			return rkFloat64
		case types.Complex64:
			return rkComplex64
		case types.Complex128:
			return rkComplex128
		case types.String, types.UntypedString:
			return rkString
		case types.UnsafePointer:
			return rkUnsafePointer
		}
	case *types.Array:
		return rkArray
	case *types.Chan:
		return rkChan
	case *types.Signature:
		return rkFunc
	case *types.Interface:
		return rkInterface
	case *types.Map:
		return rkMap
	case *types.Pointer:
		return rkPointer
	case *types.Slice:
		return rkSlice
	case *types.Struct:
		return rkStruct
	}
	return rkInvalid
}

func (p *Path) reflectPkg() *ssa.Package {
	rp := p.eng.prog.ImportedPackage("reflect")
	if rp == nil || rp.Type("rtype") == nil {
		p.abortf(abortUnsupported, "reflect model: package reflect is not part of the program")
	}
	return rp
}

// rtypeOf returns the canonical reflect.Type for t.
func (p *Path) rtypeOf(t types.Type) IfaceV {
	rp := p.reflectPkg()
	if t == nil {
		return IfaceV{}
	}
	key := types.TypeString(t, nil)
	e := p.eng
	e.rtypeMu.Lock()
	if e.rtypeObjs == nil {
		e.rtypeObjs = map[string]*NativeObj{}
	}
	obj := e.rtypeObjs[key]
	if obj == nil {
		obj = &NativeObj{Kind: "reflect.Type", State: t, Methods: reflectTypeMethods}
		e.rtypeObjs[key] = obj
	}
	e.rtypeMu.Unlock()
	return IfaceV{T: types.NewPointer(rp.Type("rtype").Type()), V: obj}
}

// typeOfRT extracts the go/types type from a reflect.Type interface value.
func (p *Path) typeOfRT(v Value, what string) types.Type {
	iv, ok := v.(IfaceV)
	if !ok || iv.T == nil {
		p.targetPanicStr("reflect: " + what + " of nil Type")
	}
	n, ok := iv.V.(*NativeObj)
	if !ok || n.Kind != "reflect.Type" {
		p.abortf(abortUnmodelled, "reflect.Type value is not modelled (%T)", iv.V)
	}
	return n.State.(types.Type)
}

func (p *Path) kindTerm(k int) *Term {
	return p.intConst(int64(k), p.reflectPkg().Type("Kind").Type())
}

func goTypeStringShort(t types.Type) string { return goTypeString(t) }

func (p *Path) structFieldValue(st *types.Struct, i int) Value {
	rp := p.reflectPkg()
	sft := rp.Type("StructField").Type()
	su := sft.Underlying().(*types.Struct)
	out := p.zero(sft).(StructV)
	f := st.Field(i)
	for k := 0; k < su.NumFields(); k++ {
		switch su.Field(k).Name() {
		case "Name":
			out[k] = StringV{S: f.Name()}
		case "PkgPath":
			if !f.Exported() && f.Pkg() != nil {
				out[k] = StringV{S: f.Pkg().Path()}
			}
		case "Type":
			out[k] = p.rtypeOf(f.Type())
		case "Tag":
			out[k] = StringV{S: st.Tag(i)}
		case "Index":
			out[k] = []Value{p.intConst(int64(i), tInt)}
		case "Anonymous":
			out[k] = p.ts.Bool(f.Embedded())
		}
	}
	return out
}

func structOf(p *Path, t types.Type, what string) *types.Struct {
	st, ok := t.Underlying().(*types.Struct)
	if !ok {
		p.targetPanicStr("reflect: " + what + " of non-struct type " + goTypeString(t))
	}
	return st
}

var reflectTypeMethods map[string]func(p *Path, self *NativeObj, args []Value) Value

func init() {
	T := func(self *NativeObj) types.Type { return self.State.(types.Type) }
	reflectTypeMethods = map[string]func(p *Path, self *NativeObj, args []Value) Value{
		"Kind": func(p *Path, self *NativeObj, a []Value) Value { return p.kindTerm(reflectKind(T(self))) },
		"Elem": func(p *Path, self *NativeObj, a []Value) Value {
			switch u := T(self).Underlying().(type) {
			case *types.Pointer:
				return p.rtypeOf(u.Elem())
			case *types.Slice:
				return p.rtypeOf(u.Elem())
			case *types.Array:
				return p.rtypeOf(u.Elem())
			case *types.Map:
				return p.rtypeOf(u.Elem())
			case *types.Chan:
				return p.rtypeOf(u.Elem())
			}
			p.targetPanicStr("reflect: Elem of invalid type " + goTypeString(T(self)))
			return nil
		},
		"Key": func(p *Path, self *NativeObj, a []Value) Value {
			if m, ok := T(self).Underlying().(*types.Map); ok {
				return p.rtypeOf(m.Key())
			}
			p.targetPanicStr("reflect: Key of non-map type " + goTypeString(T(self)))
			return nil
		},
		"Len": func(p *Path, self *NativeObj, a []Value) Value {
			if ar, ok := T(self).Underlying().(*types.Array); ok {
				return p.intConst(ar.Len(), tInt)
			}
			p.targetPanicStr("reflect: Len of non-array type " + goTypeString(T(self)))
			return nil
		},
		"NumField": func(p *Path, self *NativeObj, a []Value) Value {
			return p.intConst(int64(structOf(p, T(self), "NumField").NumFields()), tInt)
		},
		"Field": func(p *Path, self *NativeObj, a []Value) Value {
			st := structOf(p, T(self), "Field")
			i := p.mustConcInt(a[0], tInt, 1<<20, "reflect Field index", token.NoPos)
			if i < 0 || i >= st.NumFields() {
				p.targetPanicStr("reflect: Field index out of bounds")
			}
			return p.structFieldValue(st, i)
		},
		"Implements": func(p *Path, self *NativeObj, a []Value) Value {
			u := p.typeOfRT(a[0], "Implements")
			it, ok := u.Underlying().(*types.Interface)
			if !ok {
				p.targetPanicStr("reflect: non-interface type passed to Type.Implements")
			}
			return p.ts.Bool(types.Implements(T(self), it))
		},
		"AssignableTo": func(p *Path, self *NativeObj, a []Value) Value {
			return p.ts.Bool(types.AssignableTo(T(self), p.typeOfRT(a[0], "AssignableTo")))
		},
		"ConvertibleTo": func(p *Path, self *NativeObj, a []Value) Value {
			return p.ts.Bool(types.ConvertibleTo(T(self), p.typeOfRT(a[0], "ConvertibleTo")))
		},
		"Comparable": func(p *Path, self *NativeObj, a []Value) Value { return p.ts.Bool(types.Comparable(T(self))) },
		"String":     func(p *Path, self *NativeObj, a []Value) Value { return StringV{S: goTypeString(T(self))} },
		"Name": func(p *Path, self *NativeObj, a []Value) Value {
			switch n := T(self).(type) {
			case *types.Named:
				return StringV{S: n.Obj().Name()}
			case *types.Basic:
				return StringV{S: n.Name()}
			}
			return StringV{}
		},
		"PkgPath": func(p *Path, self *NativeObj, a []Value) Value {
			if n, ok := T(self).(*types.Named); ok && n.Obj().Pkg() != nil {
				return StringV{S: n.Obj().Pkg().Path()}
			}
			return StringV{}
		},
		"NumMethod": func(p *Path, self *NativeObj, a []Value) Value {
			ms := types.NewMethodSet(T(self))
			n := 0
			for i := 0; i < ms.Len(); i++ {
				if ms.At(i).Obj().Exported() || types.IsInterface(T(self)) {
					n++
				}
			}
			return p.intConst(int64(n), tInt)
		},
		"NumIn": func(p *Path, self *NativeObj, a []Value) Value {
			return p.intConst(int64(sigOf(p, T(self)).Params().Len()), tInt)
		},
		"NumOut": func(p *Path, self *NativeObj, a []Value) Value {
			return p.intConst(int64(sigOf(p, T(self)).Results().Len()), tInt)
		},
		"In": func(p *Path, self *NativeObj, a []Value) Value {
			return p.rtypeOf(sigOf(p, T(self)).Params().At(p.mustConcInt(a[0], tInt, 64, "In index", token.NoPos)).Type())
		},
		"Out": func(p *Path, self *NativeObj, a []Value) Value {
			return p.rtypeOf(sigOf(p, T(self)).Results().At(p.mustConcInt(a[0], tInt, 64, "Out index", token.NoPos)).Type())
		},
		"IsVariadic": func(p *Path, self *NativeObj, a []Value) Value { return p.ts.Bool(sigOf(p, T(self)).Variadic()) },
	}

	reflectEqHook = func(p *Path, x, y Value) (*Term, bool) {
		if xn, ok := x.(*NativeObj); ok {
			yn, _ := y.(*NativeObj)
			return p.ts.Bool(xn == yn), true
		}
		return nil, false
	}

	M := func(name string, f func(p *Path, a []Value, pos token.Pos) Value) {
		models[name] = func(p *Path, c *frame, pos token.Pos, fn *ssa.Function, a []Value) Value { return f(p, a, pos) }
	}
	rv := func(p *Path, v Value, method string) ReflectV {
		r, ok := v.(ReflectV)
		if !ok || r.T == nil {
			p.targetPanicStr("reflect: call of reflect.Value." + method + " on zero Value")
		}
		return r
	}
	kindPanic := func(p *Path, r ReflectV, method string) {
		p.targetPanicStr("reflect: call of reflect.Value." + method + " on " + rkNames[reflectKind(r.T)] + " Value")
	}
	mustSet := func(p *Path, r ReflectV, method string) {
		if r.RO {
			p.targetPanicStr("reflect: reflect.Value." + method + " using value obtained using unexported field")
		}
		if r.Ptr == nil {
			p.targetPanicStr("reflect: reflect.Value." + method + " using unaddressable value")
		}
	}
	invalid := func(p *Path) Value { return ReflectV{} }

	M("reflect.TypeOf", func(p *Path, a []Value, pos token.Pos) Value {
		iv, ok := a[0].(IfaceV)
		if !ok || iv.T == nil {
			return IfaceV{}
		}
		return p.rtypeOf(iv.T)
	})
	M("reflect.ValueOf", func(p *Path, a []Value, pos token.Pos) Value {
		iv, ok := a[0].(IfaceV)
		if !ok || iv.T == nil {
			return invalid(p)
		}
		return ReflectV{T: iv.T, Val: iv.V}
	})
	ptrTo := func(p *Path, a []Value, pos token.Pos) Value {
		return p.rtypeOf(types.NewPointer(p.typeOfRT(a[0], "PointerTo")))
	}
	M("reflect.PointerTo", ptrTo)
	M("reflect.PtrTo", ptrTo)
	M("reflect.New", func(p *Path, a []Value, pos token.Pos) Value {
		t := p.typeOfRT(a[0], "New")
		cell := new(Value)
		*cell = p.zero(t)
		return ReflectV{T: types.NewPointer(t), Val: cell}
	})
	M("reflect.Zero", func(p *Path, a []Value, pos token.Pos) Value {
		t := p.typeOfRT(a[0], "Zero")
		return ReflectV{T: t, Val: p.zero(t)}
	})
	M("reflect.Indirect", func(p *Path, a []Value, pos token.Pos) Value {
		r, ok := a[0].(ReflectV)
		if !ok || r.T == nil || reflectKind(r.T) != rkPointer {
			return a[0]
		}
		ptr, _ := r.load().(*Value)
		if ptr == nil {
			return invalid(p)
		}
		return ReflectV{T: r.T.Underlying().(*types.Pointer).Elem(), Ptr: ptr, RO: r.RO}
	})
	M("reflect.MakeSlice", func(p *Path, a []Value, pos token.Pos) Value {
		t := p.typeOfRT(a[0], "MakeSlice")
		st, ok := t.Underlying().(*types.Slice)
		if !ok {
			p.targetPanicStr("reflect.MakeSlice of non-slice type")
		}
		// a negative length or capacity is the real package's panic, not a modelling limit
		for k, what := range []string{"len", "cap"} {
			if t, isT := a[1+k].(*Term); isT && !t.IsConst() {
				var neg *Term
				if p.lia {
					neg = p.ts.ILt(t, p.ts.Int64(0))
				} else {
					neg = p.ts.bvCmp(OBvSlt, t, p.ts.BV(0, 64))
				}
				if p.branch(neg, "reflect.MakeSlice negative "+what) {
					p.targetPanicStr("reflect.MakeSlice: negative " + what)
				}
			}
		}
		n := p.mustConcInt(a[1], tInt, 1<<16, "MakeSlice len", pos)
		c := p.mustConcInt(a[2], tInt, 1<<16, "MakeSlice cap", pos)
		if n < 0 || c < n {
			p.targetPanicStr("reflect.MakeSlice: len > cap")
		}
		sl := make([]Value, c)
		for i := range sl {
			sl[i] = p.zero(st.Elem())
		}
		return ReflectV{T: t, Val: sl[:n]}
	})
	mkMap := func(p *Path, a []Value, pos token.Pos) Value {
		t := p.typeOfRT(a[0], "MakeMap")
		mt, ok := t.Underlying().(*types.Map)
		if !ok {
			p.targetPanicStr("reflect.MakeMapWithSize of non-map type")
		}
		return ReflectV{T: t, Val: newMap(mt.Key(), mt.Elem())}
	}
	M("reflect.MakeMap", mkMap)
	M("reflect.MakeMapWithSize", mkMap)
	M("reflect.DeepEqual", func(p *Path, a []Value, pos token.Pos) Value {
		return p.deepEqual(a[0], a[1], 0)
	})

	// ---- reflect.Value methods ----
	V := func(name string, f func(p *Path, r ReflectV, a []Value, pos token.Pos) Value) {
		M("(reflect.Value)."+name, func(p *Path, a []Value, pos token.Pos) Value {
			return f(p, rv(p, a[0], name), a[1:], pos)
		})
	}
	M("(reflect.Value).IsValid", func(p *Path, a []Value, pos token.Pos) Value {
		r, ok := a[0].(ReflectV)
		return p.ts.Bool(ok && r.T != nil)
	})
	M("(reflect.Value).Kind", func(p *Path, a []Value, pos token.Pos) Value {
		r, ok := a[0].(ReflectV)
		if !ok {
			return p.kindTerm(rkInvalid)
		}
		return p.kindTerm(reflectKind(r.T))
	})
	V("Type", func(p *Path, r ReflectV, a []Value, pos token.Pos) Value { return p.rtypeOf(r.T) })
	V("CanSet", func(p *Path, r ReflectV, a []Value, pos token.Pos) Value { return p.ts.Bool(r.Ptr != nil && !r.RO) })
	V("CanAddr", func(p *Path, r ReflectV, a []Value, pos token.Pos) Value { return p.ts.Bool(r.Ptr != nil) })
	V("CanInterface", func(p *Path, r ReflectV, a []Value, pos token.Pos) Value { return p.ts.Bool(!r.RO) })
	V("Addr", func(p *Path, r ReflectV, a []Value, pos token.Pos) Value {
		if r.Ptr == nil {
			p.targetPanicStr("reflect.Value.Addr of unaddressable value")
		}
		return ReflectV{T: types.NewPointer(r.T), Val: r.Ptr, RO: r.RO}
	})
	V("Elem", func(p *Path, r ReflectV, a []Value, pos token.Pos) Value {
		switch reflectKind(r.T) {
		case rkPointer:
			ptr, _ := r.load().(*Value)
			if ptr == nil {
				return invalid(p)
			}
			return ReflectV{T: r.T.Underlying().(*types.Pointer).Elem(), Ptr: ptr, RO: r.RO}
		case rkInterface:
			iv, _ := r.load().(IfaceV)
			if iv.T == nil {
				return invalid(p)
			}
			return ReflectV{T: iv.T, Val: iv.V, RO: r.RO}
		}
		kindPanic(p, r, "Elem")
		return nil
	})
	V("NumField", func(p *Path, r ReflectV, a []Value, pos token.Pos) Value {
		if reflectKind(r.T) != rkStruct {
			kindPanic(p, r, "NumField")
		}
		return p.intConst(int64(r.T.Underlying().(*types.Struct).NumFields()), tInt)
	})
	V("Field", func(p *Path, r ReflectV, a []Value, pos token.Pos) Value {
		if reflectKind(r.T) != rkStruct {
			kindPanic(p, r, "Field")
		}
		st := r.T.Underlying().(*types.Struct)
		i := p.mustConcInt(a[0], tInt, 1<<20, "reflect Field index", pos)
		if i < 0 || i >= st.NumFields() {
			p.targetPanicStr("reflect: Field index out of range")
		}
		ro := r.RO || !st.Field(i).Exported()
		if r.Ptr != nil {
			sv, ok := (*r.Ptr).(StructV)
			if !ok {
				p.abortf(abortUnsupported, "reflect Field: storage holds %T", *r.Ptr)
			}
			return ReflectV{T: st.Field(i).Type(), Ptr: &sv[i], RO: ro}
		}
		sv, ok := r.Val.(StructV)
		if !ok {
			p.abortf(abortUnsupported, "reflect Field: value is %T", r.Val)
		}
		return ReflectV{T: st.Field(i).Type(), Val: sv[i], RO: ro}
	})
	V("IsNil", func(p *Path, r ReflectV, a []Value, pos token.Pos) Value {
		switch reflectKind(r.T) {
		case rkPointer, rkUnsafePointer:
			ptr, _ := r.load().(*Value)
			return p.ts.Bool(ptr == nil)
		case rkMap:
			m, _ := r.load().(*MapV)
			return p.ts.Bool(m == nil)
		case rkSlice:
			switch s := r.load().(type) {
			case []Value:
				return p.ts.Bool(s == nil)
			case nil:
				return p.ts.Bool(true)
			}
			return p.ts.Bool(false)
		case rkFunc:
			return p.ts.Bool(isNilFunc(r.load()))
		case rkChan:
			c, _ := r.load().(*ChanV)
			return p.ts.Bool(c == nil)
		case rkInterface:
			iv, _ := r.load().(IfaceV)
			return p.ts.Bool(iv.T == nil)
		}
		kindPanic(p, r, "IsNil")
		return nil
	})
	V("Interface", func(p *Path, r ReflectV, a []Value, pos token.Pos) Value {
		if r.RO {
			p.targetPanicStr("reflect.Value.Interface: cannot return value obtained from unexported field or method")
		}
		if reflectKind(r.T) == rkInterface {
			iv, _ := r.load().(IfaceV)
			return iv
		}
		return IfaceV{T: r.T, V: copyVal(r.load())}
	})
	V("Set", func(p *Path, r ReflectV, a []Value, pos token.Pos) Value {
		mustSet(p, r, "Set")
		x := rv(p, a[0], "Set")
		if x.RO {
			p.targetPanicStr("reflect: reflect.Value.Set using value obtained using unexported field")
		}
		if !types.AssignableTo(x.T, r.T) {
			p.targetPanicStr("reflect.Set: value of type " + goTypeString(x.T) + " is not assignable to type " + goTypeString(r.T))
		}
		if reflectKind(r.T) == rkInterface && reflectKind(x.T) != rkInterface {
			*r.Ptr = IfaceV{T: x.T, V: copyVal(x.load())}
			return nil
		}
		*r.Ptr = copyVal(x.load())
		return nil
	})
	V("SetInt", func(p *Path, r ReflectV, a []Value, pos token.Pos) Value {
		mustSet(p, r, "SetInt")
		switch reflectKind(r.T) {
		case rkInt, rkInt8, rkInt16, rkInt32, rkInt64:
			*r.Ptr = p.intResize(a[0].(*Term), tInt64, r.T)
			return nil
		}
		kindPanic(p, r, "SetInt")
		return nil
	})
	V("SetUint", func(p *Path, r ReflectV, a []Value, pos token.Pos) Value {
		mustSet(p, r, "SetUint")
		switch reflectKind(r.T) {
		case rkUint, rkUint8, rkUint16, rkUint32, rkUint64, rkUintptr:
			*r.Ptr = p.intResize(a[0].(*Term), tUint64, r.T)
			return nil
		}
		kindPanic(p, r, "SetUint")
		return nil
	})
	V("SetFloat", func(p *Path, r ReflectV, a []Value, pos token.Pos) Value {
		mustSet(p, r, "SetFloat")
		f, ok := a[0].(FloatV)
		if !ok {
			p.abortf(abortUnsupported, "SetFloat of %T", a[0])
		}
		switch reflectKind(r.T) {
		case rkFloat32:
			*r.Ptr = FloatV{F: float64(float32(f.F)), Bits: 32}
			return nil
		case rkFloat64:
			*r.Ptr = FloatV{F: f.F, Bits: 64}
			return nil
		}
		kindPanic(p, r, "SetFloat")
		return nil
	})
	V("SetBool", func(p *Path, r ReflectV, a []Value, pos token.Pos) Value {
		mustSet(p, r, "SetBool")
		if reflectKind(r.T) != rkBool {
			kindPanic(p, r, "SetBool")
		}
		*r.Ptr = a[0]
		return nil
	})
	V("SetString", func(p *Path, r ReflectV, a []Value, pos token.Pos) Value {
		mustSet(p, r, "SetString")
		if reflectKind(r.T) != rkString {
			kindPanic(p, r, "SetString")
		}
		*r.Ptr = a[0]
		return nil
	})
	V("SetBytes", func(p *Path, r ReflectV, a []Value, pos token.Pos) Value {
		mustSet(p, r, "SetBytes")
		if reflectKind(r.T) != rkSlice {
			kindPanic(p, r, "SetBytes")
		}
		if reflectKind(r.T.Underlying().(*types.Slice).Elem()) != rkUint8 {
			p.targetPanicStr("reflect.Value.SetBytes of non-byte slice")
		}
		*r.Ptr = a[0]
		return nil
	})
	V("SetMapIndex", func(p *Path, r ReflectV, a []Value, pos token.Pos) Value {
		if reflectKind(r.T) != rkMap {
			kindPanic(p, r, "SetMapIndex")
		}
		m, _ := r.load().(*MapV)
		if m == nil {
			p.targetPanicStr("assignment to entry in nil map")
		}
		k, v := rv(p, a[0], "SetMapIndex"), rv(p, a[1], "SetMapIndex")
		p.mapSet(m, copyVal(k.load()), copyVal(v.load()))
		return nil
	})
	V("Int", func(p *Path, r ReflectV, a []Value, pos token.Pos) Value {
		switch reflectKind(r.T) {
		case rkInt, rkInt8, rkInt16, rkInt32, rkInt64:
			return p.intResize(r.load().(*Term), r.T, tInt64)
		}
		kindPanic(p, r, "Int")
		return nil
	})
	V("Uint", func(p *Path, r ReflectV, a []Value, pos token.Pos) Value {
		switch reflectKind(r.T) {
		case rkUint, rkUint8, rkUint16, rkUint32, rkUint64, rkUintptr:
			return p.intResize(r.load().(*Term), r.T, tUint64)
		}
		kindPanic(p, r, "Uint")
		return nil
	})
	V("Float", func(p *Path, r ReflectV, a []Value, pos token.Pos) Value {
		switch reflectKind(r.T) {
		case rkFloat32, rkFloat64:
			f := r.load().(FloatV)
			return FloatV{F: f.F, Bits: 64}
		}
		kindPanic(p, r, "Float")
		return nil
	})
	V("Bool", func(p *Path, r ReflectV, a []Value, pos token.Pos) Value {
		if reflectKind(r.T) != rkBool {
			kindPanic(p, r, "Bool")
		}
		return r.load()
	})
	V("String", func(p *Path, r ReflectV, a []Value, pos token.Pos) Value {
		if reflectKind(r.T) == rkString {
			return r.load()
		}
		return StringV{S: "<" + goTypeString(r.T) + " Value>"}
	})
	V("Bytes", func(p *Path, r ReflectV, a []Value, pos token.Pos) Value {
		if reflectKind(r.T) != rkSlice {
			kindPanic(p, r, "Bytes")
		}
		return r.load()
	})
	V("Len", func(p *Path, r ReflectV, a []Value, pos token.Pos) Value {
		switch v := r.load().(type) {
		case []Value:
			return p.intConst(int64(len(v)), tInt)
		case StringV:
			return p.intConst(int64(v.Len()), tInt)
		case ArrayV:
			return p.intConst(int64(len(v)), tInt)
		case *MapV:
			if v == nil {
				return p.intConst(0, tInt)
			}
			return p.intConst(int64(len(v.Keys)), tInt)
		case nil:
			if reflectKind(r.T) == rkSlice {
				return p.intConst(0, tInt)
			}
		}
		kindPanic(p, r, "Len")
		return nil
	})
	V("Index", func(p *Path, r ReflectV, a []Value, pos token.Pos) Value {
		i := p.mustConcInt(a[0], tInt, 1<<20, "reflect Index", pos)
		switch reflectKind(r.T) {
		case rkSlice:
			sl, _ := r.load().([]Value)
			if i < 0 || i >= len(sl) {
				p.targetPanicStr("reflect: slice index out of range")
			}
			return ReflectV{T: r.T.Underlying().(*types.Slice).Elem(), Ptr: &sl[i], RO: r.RO}
		case rkArray:
			if r.Ptr != nil {
				ar := (*r.Ptr).(ArrayV)
				if i < 0 || i >= len(ar) {
					p.targetPanicStr("reflect: array index out of range")
				}
				return ReflectV{T: r.T.Underlying().(*types.Array).Elem(), Ptr: &ar[i], RO: r.RO}
			}
			ar := r.Val.(ArrayV)
			if i < 0 || i >= len(ar) {
				p.targetPanicStr("reflect: array index out of range")
			}
			return ReflectV{T: r.T.Underlying().(*types.Array).Elem(), Val: ar[i], RO: r.RO}
		}
		kindPanic(p, r, "Index")
		return nil
	})
	V("Call", func(p *Path, r ReflectV, a []Value, pos token.Pos) Value {
		if reflectKind(r.T) != rkFunc {
			kindPanic(p, r, "Call")
		}
		sig := r.T.Underlying().(*types.Signature)
		in, _ := a[0].([]Value)
		if sig.Variadic() {
			p.abortf(abortUnsupported, "reflect Call of a variadic function")
		}
		if len(in) != sig.Params().Len() {
			p.targetPanicStr("reflect: Call with too few input arguments")
		}
		fn := r.load()
		if isNilFunc(fn) {
			p.targetPanicStr("reflect: call of nil function")
		}
		args := make([]Value, len(in))
		for i, v := range in {
			x := rv(p, v, "Call")
			pt := sig.Params().At(i).Type()
			if !types.AssignableTo(x.T, pt) {
				p.targetPanicStr("reflect: Call using " + goTypeString(x.T) + " as type " + goTypeString(pt))
			}
			if reflectKind(pt) == rkInterface && reflectKind(x.T) != rkInterface {
				args[i] = IfaceV{T: x.T, V: copyVal(x.load())}
			} else {
				args[i] = copyVal(x.load())
			}
		}
		res := p.call(nil, pos, fn, args)
		n := sig.Results().Len()
		out := make([]Value, n)
		switch n {
		case 0:
		case 1:
			out[0] = ReflectV{T: sig.Results().At(0).Type(), Val: res}
		default:
			tv, ok := res.(TupleV)
			if !ok || len(tv) != n {
				p.abortf(abortUnsupported, "reflect Call: unexpected result shape %T", res)
			}
			for i := 0; i < n; i++ {
				out[i] = ReflectV{T: sig.Results().At(i).Type(), Val: tv[i]}
			}
		}
		return out
	})
}

func sigOf(p *Path, t types.Type) *types.Signature {
	s, ok := t.Underlying().(*types.Signature)
	if !ok {
		p.targetPanicStr("reflect: function-type method on non-func type " + goTypeString(t))
	}
	return s
}

// deepEqual: reflect.DeepEqual over engine values (pointers are followed,
// slices and maps compared element-wise, scalars through equals).
func (p *Path) deepEqual(x, y Value, depth int) *Term {
	ts := p.ts
	if depth > 24 {
		p.abortf(abortBudget, "reflect.DeepEqual nesting > 24")
	}
	switch xv := x.(type) {
	case IfaceV:
		yv, ok := y.(IfaceV)
		if !ok {
			return ts.Bool(false)
		}
		if xv.T == nil || yv.T == nil {
			return ts.Bool(xv.T == nil && yv.T == nil)
		}
		if !types.Identical(xv.T, yv.T) {
			return ts.Bool(false)
		}
		return p.deepEqual(xv.V, yv.V, depth+1)
	case *Value:
		yv, ok := y.(*Value)
		if !ok {
			return ts.Bool(false)
		}
		if xv == nil || yv == nil {
			return ts.Bool(xv == nil && yv == nil)
		}
		if xv == yv {
			return ts.Bool(true)
		}
		return p.deepEqual(*xv, *yv, depth+1)
	case StructV:
		yv, ok := y.(StructV)
		if !ok || len(xv) != len(yv) {
			return ts.Bool(false)
		}
		r := ts.Bool(true)
		for i := range xv {
			r = ts.And(r, p.deepEqual(xv[i], yv[i], depth+1))
		}
		return r
	case ArrayV:
		yv, ok := y.(ArrayV)
		if !ok || len(xv) != len(yv) {
			return ts.Bool(false)
		}
		r := ts.Bool(true)
		for i := range xv {
			r = ts.And(r, p.deepEqual(xv[i], yv[i], depth+1))
		}
		return r
	case []Value:
		yv, ok := y.([]Value)
		if !ok || (xv == nil) != (yv == nil) || len(xv) != len(yv) {
			return ts.Bool(false)
		}
		r := ts.Bool(true)
		for i := range xv {
			r = ts.And(r, p.deepEqual(xv[i], yv[i], depth+1))
		}
		return r
	case *MapV:
		yv, ok := y.(*MapV)
		if !ok || (xv == nil) != (yv == nil) {
			return ts.Bool(false)
		}
		if xv == nil || xv == yv {
			return ts.Bool(true)
		}
		if len(xv.Keys) != len(yv.Keys) {
			return ts.Bool(false)
		}
		p.abortf(abortUnsupported, "reflect.DeepEqual of non-empty distinct maps")
	case *Term, StringV, FloatV, TimeV:
		if fmt.Sprintf("%T", x) != fmt.Sprintf("%T", y) {
			return ts.Bool(false)
		}
		return p.equals(nil, x, y)
	case nil:
		return ts.Bool(y == nil || isNilFunc(y))
	}
	if isNilFunc(x) && isNilFunc(y) {
		return ts.Bool(true)
	}
	p.abortf(abortUnsupported, "reflect.DeepEqual of %T", x)
	return nil
}

var _ = strings.HasPrefix
