#!/usr/bin/env python3
"""merge_evidence.py ID part... : merges /verif/evidence/ID.<part>.json into /verif/evidence/ID.json"""
import json,sys,os
i=sys.argv[1]; parts=sys.argv[2:]
out=None
for p in parts:
    f='/verif/evidence/%s.%s.json'%(i,p)
    if not os.path.exists(f): continue
    e=json.load(open(f)); os.remove(f)
    if out is None:
        out=e; out['coverage']['parts']=[p]; continue
    out['coverage']['parts'].append(p)
    c,o=e['coverage'],out['coverage']
    for k,v in c.items():
        if isinstance(v,bool): o[k]=bool(o.get(k,True)) and v
        elif isinstance(v,(int,float)): o[k]=o.get(k,0)+v
        elif isinstance(v,list): o[k]=o.get(k,[])+v
        elif isinstance(v,str) and k in o and o[k]!=v: o[k]=o[k]+' || '+v
        elif k not in o: o[k]=v
    out['assumptions']=out.get('assumptions',[])+e.get('assumptions',[])
    out['wall_s']=out.get('wall_s',0)+e.get('wall_s',0)
    out['violations']=out.get('violations',0)+e.get('violations',0)
if out is not None:
    json.dump(out,open('/verif/evidence/%s.json'%i,'w'),indent=1)
