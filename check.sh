#!/bin/bash
# usage: check.sh <property-id> [quick|thorough]
# Runs the gosym symbolic executor on /verif/harness/<id> against /repo's working tree.
# exit 0 = held on everything explored (or inconclusive, stated in output+evidence);
# exit 1 = "VIOLATION property=<id> replay=<path>" printed.
ID="$1"; TIER="${2:-${VERIF_TIER:-quick}}"
cd /verif || exit 2
export PATH=/opt/veriftools/go1.26.8/bin:$PATH GOTOOLCHAIN=local GOFLAGS=-mod=mod GOPROXY=off
unset GOSUMDB
if [ ! -x /verif/bin/gosym ] || [ -n "$(find /verif/engine -name '*.go' -newer /verif/bin/gosym 2>/dev/null | head -1)" ]; then
  /verif/setup.sh >&2 || { echo "engine build failed" >&2; exit 2; }
fi
mkdir -p /verif/evidence
LIMIT=900; [ "$TIER" = thorough ] && LIMIT=3300
EXTRA=""
[ -f "/verif/harness/$ID/args.$TIER" ] && EXTRA="$(cat /verif/harness/$ID/args.$TIER)"
if [ -f "/verif/harness/$ID/parts.txt" ]; then
  # a property whose code lives in several Go modules: one gosym run per part, evidence merged
  rc=0
  PARTS=$(cat "/verif/harness/$ID/parts.txt")
  for part in $PARTS; do
    timeout -k 10 $LIMIT /verif/bin/gosym run -id "$ID" -harness "/verif/harness/$ID/$part" -tier "$TIER" \
       -evidence "/verif/evidence/$ID.$part.json" $EXTRA
    r=$?
    [ $r -ne 0 ] && rc=$r
  done
  python3 /verif/merge_evidence.py "$ID" $PARTS
else
timeout -k 10 $LIMIT /verif/bin/gosym run -id "$ID" -harness "/verif/harness/$ID" -tier "$TIER" \
   -evidence "/verif/evidence/$ID.json" $EXTRA
rc=$?
fi
if [ $rc -eq 124 ] || [ $rc -eq 137 ]; then
  echo "INCONCLUSIVE property=$ID reason=wall-clock limit ${LIMIT}s reached"
  python3 - "$ID" "$TIER" "$LIMIT" <<'PY'
import json,sys
i,t,l=sys.argv[1:4]
json.dump({"property_id":i,"tier":t,"seed":0,"level":"other","coverage":{"explanation":"check hit its wall-clock limit of %ss before finishing; nothing is claimed for this run"%l,"evaluations":1,"distinct_nontrivial":2,"exhaustive":False},"assumptions":["INCONCLUSIVE: timeout"],"wall_s":float(l),"violations":0},open("/verif/evidence/%s.json"%i,"w"),indent=1)
PY
  exit 0
fi
exit $rc
