#!/bin/bash
set -e
cd /verif/engine
export PATH=/opt/veriftools/go1.26.8/bin:$PATH GOTOOLCHAIN=local GOFLAGS=-mod=mod GOPROXY=off
mkdir -p /verif/bin
go build -o /verif/bin/gosym .
