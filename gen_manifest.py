#!/usr/bin/env python3
"""Regenerates MANIFEST.json from checks.json (claimed checks) and na.json (reasons)."""
import json
props=[json.loads(l)['id'] for l in open('/verif/properties.jsonl')]
checks=json.load(open('/verif/checks.json'))
na=json.load(open('/verif/na.json'))
m={"version":1,"setup_cmd":"/verif/setup.sh",
 "hooks":{"guard":"verif","enable":"no hooks in /repo: harnesses are in-package overlay files (zz_verif_*.go) injected through go/packages Overlay for the symbolic run and through go test -overlay for native replay",
  "baseline_off_cmd":"for m in . ./vgirpc/gcs ./vgirpc/jwtauth ./vgirpc/otel ./vgirpc/s3 ./vgirpc/sentry; do (cd /repo/$m && GOFLAGS=-mod=mod go test -json -vet=off -count=1 -timeout 25m ./...); done",
  "source_commits":[],"add_only":True},
 "engines":[{"name":"gosym","path":"/verif/engine","serves_properties":sorted(checks),
  "kind_free_text":"bounded symbolic executor for Go SSA (go/ssa of /repo's working tree) emitting SMT-LIB2 queries to z3; counterexamples are replayed natively with go test -overlay"}],
 "checks":[],"not_applicable":[]}
for pid in props:
    if pid in checks:
        c=checks[pid]
        m["checks"].append({"property_id":pid,"quick_cmd":"/verif/check.sh %s quick"%pid,"thorough_cmd":"/verif/check.sh %s thorough"%pid,
          "evidence_file":"/verif/evidence/%s.json"%pid,"replay_cmd_template":"/verif/bin/gosym run -id %s -harness /verif/harness/%s -replay {path}"%(pid,pid),
          "engine":"gosym","level_claimed":{"category":"model_checking","text":c["text"],"design_ref":c.get("design_ref","DESIGN.md section 0 (status) and section for "+pid)},
          "level_note":c["note"],"technique":c.get("technique","bounded symbolic execution of the real functions' go/ssa with SMT (z3) deciding every assertion; native replay of counterexamples")})
    else:
        m["not_applicable"].append({"property_id":pid,"reason":na.get(pid,na["_default"])})
json.dump(m,open('/verif/MANIFEST.json','w'),indent=1)
print(len(m["checks"]),"checks",len(m["not_applicable"]),"n/a")
