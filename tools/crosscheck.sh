#!/bin/bash
# usage: tools/crosscheck.sh <solver> [ids...] — re-runs the quick tier of every check with another SMT back end
# (z3 | z3-new | cvc5) and prints the per-harness verdicts, for comparison with the registered solver's.
SOLVER=${1:-z3-new}; shift
IDS="$@"; [ -z "$IDS" ] && IDS=$(python3 -c "import json;print(' '.join(sorted(json.load(open('/verif/checks.json')))))")
export PATH=/opt/veriftools/go1.26.8/bin:$PATH GOTOOLCHAIN=local GOFLAGS=-mod=mod GOPROXY=off
for id in $IDS; do
  dirs="/verif/harness/$id"
  [ -f /verif/harness/$id/parts.txt ] && dirs=$(for p in $(cat /verif/harness/$id/parts.txt); do echo /verif/harness/$id/$p; done)
  for d in $dirs; do
    timeout 1200 /verif/bin/gosym run -id X$id -harness $d -tier quick -evidence /tmp/xc_$id.json -solver $SOLVER -noreplay 2>&1 | grep "^harness" | awk -v id=$id '{print id, $2, $3, $4, $5}'
  done
  rm -rf /tmp/xc_$id.json /verif/replays/X$id
done
