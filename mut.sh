#!/bin/bash
# usage: mut.sh ID file 'python-regex-old' 'new'  — applies a one-off textual mutation to /repo, runs check quick, reverts.
if [ -n "$(git -C /repo status --porcelain)" ]; then echo "REFUSING: /repo has uncommitted changes (this script reverts the working tree)"; exit 9; fi
ID=$1; F=$2; OLD=$3; NEW=$4
cd /repo || exit 2
python3 - "$F" "$OLD" "$NEW" <<'PY' || exit 3
import sys,re
f,old,new=sys.argv[1:4]
s=open(f).read()
if old not in s: print("MUT: pattern not found"); sys.exit(1)
s=s.replace(old,new,1)
open(f,'w').write(s)
PY
GOFLAGS=-mod=mod go build ./vgirpc/ 2>&1 | head -3
/verif/check.sh $ID quick 2>&1 | grep -E "^(VIOLATION|OK|INCONCLUSIVE|KNOWN|harness)" | cut -c1-200
git -C /repo checkout -- .
