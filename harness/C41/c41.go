package vgirpc

import (
	"context"
	"errors"
	"net/http"
	"net/url"
	"time"

	"github.com/apache/arrow-go/v18/arrow"
)

//verif:quote approx
//verif:ints lia
//verif:unwind 64
//verif:maxconcretize 16
//verif:maxdecisions 8000
//verif:maxpaths quick=80000 thorough=600000

// The ledger: every record batch object made during a call — by the framework
// (NewRecordBatch[WithMetadata], emptyBatch, result serialisation, slices) or by
// a handler that hands it over (Emit) — must have been released exactly once when
// the call is over; reader-owned input batches must be back at the reader's own
// reference; nothing is released below zero.
func verifC41Check(what string) {
	leaked, unbalanced := verifLedger()
	verifAssert(verifOverRelease == 0, what+": no batch is released more often than it was retained")
	verifAssert(leaked == 0, what+": every batch the call created or was handed has been released")
	verifAssert(unbalanced == 0, what+": every retain of a reader-owned input batch is matched by a release")
}

// Pipe: unary calls.
//
//verif:use ipc pipe handler
//verif:bound one unary call through serveOne (valued or void method): request well-formed, of a wrong row count, or for an unknown method; handler returns a value / error / RpcError / panics, emits 0..2 client logs; parameter binding or result serialisation may fail; with or without a dispatch hook. Ownership is tracked per record-batch object in the abstract IPC model (column buffers and arrow-go's allocator are below this model)
func verifH_C41_pipe_unary() {
	verifResetIPC()
	verifResetHandler()
	s := verifPipeServer()
	if verifNondetBool("hook") {
		s.dispatchHook = &verifXHook{}
	}
	method := []string{"u", "v", "zz"}[verifChoice("method", 3)]
	rows := []int64{1, 0, 2}[verifChoice("rows", 3)]
	out := verifChoice("outcome", 6)
	verifParamsFail, verifResultFail = out == 4, out == 5
	logs := verifChoice("logs", 3)
	verifHFn = func(ctx context.Context, cc *CallContext) (interface{}, error) {
		for i := 0; i < logs; i++ {
			cc.ClientLog(LogInfo, "log")
		}
		switch out {
		case 1:
			return nil, errors.New("handler failed")
		case 2:
			return nil, &RpcError{Type: "ValueError", Message: "bad"}
		case 3:
			panic("handler panicked")
		}
		return 5, nil
	}
	verifQueueRequest(rows, 0, []string{MetaMethod, MetaRequestVersion}, []string{method, ProtocolVersion})
	err := s.serveOne(context.Background(), &verifConn{}, &verifSink{}, &shmConnState{})
	verifReach("pipe-unary-served")
	verifAssert(err == nil, "the call is answered")
	verifParamsFail, verifResultFail = false, false
	verifC41Check("pipe unary")
}

// Pipe: streams.
//
//verif:use ipc pipe handler
//verif:bound one stream call through serveOne: producer, producer with header, exchange or dynamic method; init succeeds, fails, panics, returns nil or a non-state, parameters fail to bind, or the header fails to serialise; the state plays 0..2 turns each ANY of 12 outcomes (emit, log+emit, no emit, two emits, finish, error, panic, emit+finish, log without emit, log+error, emit+error, emit+panic); the client sends 0..3 inputs and may cancel at any of them (zero-row or data-shaped cancel)
func verifH_C41_pipe_stream() {
	verifResetIPC()
	verifResetHandler()
	s := verifPipeServer()
	method := []string{"p", "x", "ph", "d"}[verifChoice("method", 4)]
	init := verifChoice("init", 7)
	verifParamsFail, verifHeaderFail = init == 5, init == 6
	maxTurns := 2
	var turns []int
	for i, n := 0, verifChoice("turns", maxTurns+1); i < n; i++ {
		turns = append(turns, verifChoice("turn", verifNTurnKindsExt))
	}
	var state interface{}
	if method == "x" {
		state = &verifPipeExchange{verifPipeState: verifPipeState{turns: turns}}
	} else {
		state = &verifPipeProducer{verifPipeState{producer: true, turns: turns}}
	}
	verifHFn = func(ctx context.Context, cc *CallContext) (interface{}, error) {
		switch init {
		case 1:
			return nil, errors.New("init failed")
		case 2:
			panic("init panicked")
		case 3:
			return (*StreamResult)(nil), nil
		case 4:
			return &StreamResult{OutputSchema: verifDataSchema, State: &struct{}{}}, nil
		}
		res := &StreamResult{OutputSchema: verifDataSchema, State: state}
		if method == "ph" {
			res.Header = verifHeader{}
		}
		return res, nil
	}
	verifHeaderStream = &verifInStream{batches: []*verifBatch{verifNewBatch(verifDataSchema, 1, 999, nil, nil)}, schema: verifDataSchema, failAt: -1}
	verifQueueRequest(1, 0, []string{MetaMethod, MetaRequestVersion}, []string{method, ProtocolVersion})
	n := verifChoice("inputs", 4)
	verifCancelWithRows = verifNondetBool("cancel_has_rows")
	verifQueueTicks(n, verifChoice("cancel_at", n+1)-1)
	err := s.serveOne(context.Background(), &verifConn{}, &verifSink{}, &shmConnState{})
	verifReach("pipe-stream-served")
	verifAssert(err == nil, "the call is answered")
	verifParamsFail, verifHeaderFail, verifCancelWithRows = false, false, false
	verifC41Check("pipe stream")
}

func verifC41Request(method, suffix string) *http.Request {
	r := &http.Request{Method: "POST", Header: http.Header{}, URL: &url.URL{Path: "/" + method + suffix}, RemoteAddr: "1.2.3.4:5"}
	r.Header.Set("Content-Type", arrowContentType)
	r.SetPathValue("method", method)
	return r.WithContext(context.Background())
}

// HTTP: unary, stream init and continuations.
//
//verif:use ipc pipe handler httpx tokens
//verif:bound unary call (6 handler/binding/serialisation outcomes, 0..1 logs), or a stream (producer / producer with header / exchange; init outcomes as on the pipe; 0..2 turns of ANY of those 12 outcomes; producer batch limit 0..2; response-byte cap none or 1 byte; up to 3 continuations / inputs, the last one optionally a cancel) through handleUnary, handleStreamInit and handleStreamExchange; ideal token algebra with the state carried by reference
func verifH_C41_http() {
	verifResetIPC()
	verifResetHandler()
	verifToks = nil
	verifRandCtr = 0
	h := &HttpServer{server: verifPipeServer(), tokenKey: verifXKey, tokenTTL: time.Hour}
	h.callStates = newCallStateCache(defaultCallStateCacheEntries, time.Hour)
	if verifNondetBool("unary") {
		method := []string{"u", "v"}[verifChoice("method", 2)]
		out := verifChoice("outcome", 6)
		verifParamsFail, verifResultFail = out == 4, out == 5
		logs := verifChoice("logs", 2)
		verifHFn = func(ctx context.Context, cc *CallContext) (interface{}, error) {
			for i := 0; i < logs; i++ {
				cc.ClientLog(LogInfo, "log")
			}
			switch out {
			case 1:
				return nil, errors.New("handler failed")
			case 2:
				return nil, &RpcError{Type: "ValueError", Message: "bad"}
			case 3:
				panic("handler panicked")
			}
			return 5, nil
		}
		verifQueueRequest(1, 0, []string{MetaMethod, MetaRequestVersion}, []string{method, ProtocolVersion})
		h.handleUnary(verifNewRecorder(), verifC41Request(method, ""))
		verifReach("http-unary-served")
		verifParamsFail, verifResultFail = false, false
		verifC41Check("http unary")
		return
	}
	method := []string{"p", "ph", "x"}[verifChoice("method", 3)]
	init := verifChoice("init", 7)
	verifParamsFail, verifHeaderFail = init == 5, init == 6
	var turns []int
	for i, n := 0, verifChoice("turns", 3); i < n; i++ {
		turns = append(turns, verifChoice("turn", verifNTurnKindsExt))
	}
	var state interface{}
	if method == "x" {
		state = &verifPipeExchange{verifPipeState: verifPipeState{turns: turns}}
	} else {
		state = &verifPipeProducer{verifPipeState{producer: true, turns: turns}}
	}
	verifHFn = func(ctx context.Context, cc *CallContext) (interface{}, error) {
		switch init {
		case 1:
			return nil, errors.New("init failed")
		case 2:
			panic("init panicked")
		case 3:
			return (*StreamResult)(nil), nil
		case 4:
			return &StreamResult{OutputSchema: verifDataSchema, State: &struct{}{}}, nil
		}
		res := &StreamResult{OutputSchema: verifDataSchema, State: state}
		if method == "ph" {
			res.Header = verifHeader{}
		}
		return res, nil
	}
	verifHeaderStream = &verifInStream{batches: []*verifBatch{verifNewBatch(verifDataSchema, 1, 999, nil, nil)}, schema: verifDataSchema, failAt: -1}
	h.producerBatchLimit = verifChoice("batch_limit", 3)
	if verifNondetBool("response_cap") {
		h.maxResponseBytes = 1
	}
	verifQueueRequest(1, 0, []string{MetaMethod, MetaRequestVersion}, []string{method, ProtocolVersion})
	h.handleStreamInit(verifNewRecorder(), verifC41Request(method, "/init"))
	verifParamsFail, verifHeaderFail = false, false
	verifReach("http-init-served")
	verifC41Check("http stream init")
	seen := 0
	for step := 0; step < 3; step++ {
		cursor, callTok := "", ""
		for _, st := range verifOutStreams[seen:] {
			for _, b := range st.batches {
				if v, ok := verifMetaGet(b, MetaStreamState); ok && v != "" {
					cursor = v
				}
				if v, ok := verifMetaGet(b, MetaCallState); ok && v != "" {
					callTok = v
				}
			}
		}
		if step > 0 && callTok == "" {
			callTok = "keep"
		}
		seen = len(verifOutStreams)
		if cursor == "" {
			break
		}
		keys, vals := []string{MetaStreamState}, []string{cursor}
		if callTok != "" && callTok != "keep" {
			verifC41CallTok = callTok
		}
		keys, vals = append(keys, MetaCallState), append(vals, verifC41CallTok)
		cancel := step == 2 && verifNondetBool("cancel")
		if cancel {
			keys, vals = append(keys, MetaCancel), append(vals, "1")
		}
		var in *verifBatch
		if method == "x" && !cancel {
			in = verifNewBatch(verifDataSchema, 1, 10+step, keys, vals)
		} else {
			in = verifNewBatch(verifEmptySchema, 0, 0, keys, vals)
		}
		verifInQueue = append(verifInQueue, &verifInStream{batches: []*verifBatch{in}, schema: in.schema, failAt: -1})
		h.handleStreamExchange(verifNewRecorder(), verifC41Request(method, "/exchange"))
		verifReach("http-continuation-served")
		verifC41Check("http continuation")
	}
}

var verifC41CallTok string
var _ arrow.Schema
