package vgirpc

import (
	"context"
	"errors"

	"github.com/apache/arrow-go/v18/arrow"
	"github.com/apache/arrow-go/v18/arrow/compute"
	"github.com/apache/arrow-go/v18/arrow/memory"
)

// ---- a column-level ledger for the input cast ----
//
// castRecordBatch works on columns: it retains the ones whose type already
// matches, asks arrow's compute kernel for the others, hands them to a new
// record batch and releases its own references. Here columns are counted
// objects, a record batch retains its columns when it is made and releases them
// when its own count reaches zero, and the kernel is its contract (a fresh
// column, or an error).

type verifC41Col struct {
	dt   arrow.DataType
	refs int
	over int
}

func (c *verifC41Col) MarshalJSON() ([]byte, error)       { return []byte("null"), nil }
func (c *verifC41Col) String() string                     { return "col" }
func (c *verifC41Col) DataType() arrow.DataType           { return c.dt }
func (c *verifC41Col) NullN() int                         { return 0 }
func (c *verifC41Col) NullBitmapBytes() []byte            { return nil }
func (c *verifC41Col) IsNull(i int) bool                  { return false }
func (c *verifC41Col) IsValid(i int) bool                 { return true }
func (c *verifC41Col) ValueStr(i int) string              { return "" }
func (c *verifC41Col) GetOneForMarshal(i int) interface{} { return nil }
func (c *verifC41Col) Data() arrow.ArrayData              { return nil }
func (c *verifC41Col) Len() int                           { return 1 }
func (c *verifC41Col) Retain()                            { c.refs++ }
func (c *verifC41Col) Release() {
	if c.refs <= 0 {
		c.over++
	}
	c.refs--
}

type verifC41ColBatch struct {
	schema *arrow.Schema
	cols   []arrow.Array
	meta   arrow.Metadata
	refs   int
}

func (b *verifC41ColBatch) MarshalJSON() ([]byte, error) { return []byte("null"), nil }
func (b *verifC41ColBatch) Retain()                      { b.refs++ }
func (b *verifC41ColBatch) Release() {
	b.refs--
	if b.refs == 0 {
		for _, c := range b.cols {
			c.Release()
		}
	}
}
func (b *verifC41ColBatch) Schema() *arrow.Schema    { return b.schema }
func (b *verifC41ColBatch) NumRows() int64           { return 1 }
func (b *verifC41ColBatch) NumCols() int64           { return int64(len(b.cols)) }
func (b *verifC41ColBatch) Columns() []arrow.Array   { return b.cols }
func (b *verifC41ColBatch) Column(i int) arrow.Array { return b.cols[i] }
func (b *verifC41ColBatch) ColumnName(i int) string  { return b.schema.Field(i).Name }
func (b *verifC41ColBatch) SetColumn(i int, col arrow.Array) (arrow.RecordBatch, error) {
	return nil, errors.New("not modelled")
}
func (b *verifC41ColBatch) NewSlice(i, j int64) arrow.RecordBatch { return nil }
func (b *verifC41ColBatch) Metadata() arrow.Metadata             { return b.meta }

func verifC41MakeBatch(schema *arrow.Schema, cols []arrow.Array) *verifC41ColBatch {
	for _, c := range cols {
		c.Retain()
	}
	return &verifC41ColBatch{schema: schema, cols: cols, refs: 1}
}

func verifC41NewRecordBatch(schema *arrow.Schema, cols []arrow.Array, nrows int64) arrow.RecordBatch {
	return verifC41MakeBatch(schema, append([]arrow.Array(nil), cols...))
}
func verifC41NewRecordBatchWithMetadata(schema *arrow.Schema, cols []arrow.Array, nrows int64, meta arrow.Metadata) arrow.RecordBatchWithMetadata {
	b := verifC41MakeBatch(schema, append([]arrow.Array(nil), cols...))
	b.meta = meta
	return b
}

// the cast kernel's contract for a column whose type differs: it refuses
func verifC41CastDatum(ctx context.Context, val compute.Datum, opts *compute.CastOptions) (compute.Datum, error) {
	return nil, errors.New("unsupported cast")
}
func verifC41NewDatum(value interface{}) compute.Datum { return nil }
func verifC41SafeCastOptions(dt arrow.DataType) *compute.CastOptions { return nil }
func verifC41WithAllocator(ctx context.Context, mem memory.Allocator) context.Context { return ctx }
func verifC41Allocator() memory.Allocator { return nil }

// A refused or successful input cast leaves no column reference behind.
//
//verif:stub github.com/apache/arrow-go/v18/arrow/array.NewRecordBatch = verifC41NewRecordBatch
//verif:stub github.com/apache/arrow-go/v18/arrow/array.NewRecordBatchWithMetadata = verifC41NewRecordBatchWithMetadata
//verif:stub github.com/apache/arrow-go/v18/arrow/compute.CastDatum = verifC41CastDatum
//verif:stub github.com/apache/arrow-go/v18/arrow/compute.NewDatum = verifC41NewDatum
//verif:stub github.com/apache/arrow-go/v18/arrow/compute.SafeCastOptions = verifC41SafeCastOptions
//verif:noinit github.com/apache/arrow-go/v18/arrow/compute
//verif:stub github.com/Query-farm/vgi-rpc-go/vgirpc.defaultAllocator = verifC41Allocator
//verif:bound an exchange input of 1..3 columns against a declared input schema of 1..3 fields; every input column has, independently, the declared name and type / another name / another type (the cast kernel refuses it) / another nullability; columns are reference-counted objects, a record batch retains its columns and releases them with its last reference; only the refusing arm of the cast kernel is modelled (a successful cast of a differently-typed column needs arrow-go's compute kernels)
func verifH_C41_cast_columns() {
	// compute.WithAllocator is a package variable; the package's own initialiser (its kernel
	// registry) is not run, so the harness supplies the one function value the cast reads
	compute.WithAllocator = verifC41WithAllocator
	nt := 1 + verifChoice("declared.fields", 3)
	nb := 1 + verifChoice("input.columns", 3)
	names := []string{"a", "b", "c"}
	var tf, bf []arrow.Field
	for i := 0; i < nt; i++ {
		tf = append(tf, arrow.Field{Name: names[i], Type: arrow.PrimitiveTypes.Int64})
	}
	cols := make([]arrow.Array, nb)
	var all []*verifC41Col
	allSame := nb == nt
	for i := 0; i < nb; i++ {
		f := arrow.Field{Name: names[i], Type: arrow.PrimitiveTypes.Int64}
		switch verifChoice("column", 4) {
		case 1:
			f.Name = "zz"
			allSame = false
		case 2:
			f.Type = arrow.BinaryTypes.String
			allSame = false
		case 3:
			f.Nullable = true
			allSame = false
		}
		bf = append(bf, f)
		c := &verifC41Col{dt: f.Type}
		cols[i] = c
		all = append(all, c)
	}
	target := arrow.NewSchema(tf, nil)
	in := verifC41MakeBatch(arrow.NewSchema(bf, nil), cols) // the reader owns this batch and, through it, one reference on every column
	out, err := castRecordBatch(in, target)
	verifReach("cast-done")
	if err == nil {
		verifReach("cast-accepted")
		verifAssert(out != nil, "an accepted cast returns a batch")
		if out != arrow.RecordBatch(in) {
			out.Release() // what the dispatch loop does with the cast input after the turn
		} else {
			verifAssert(allSame, "the input itself is passed through only when the schemas are equal")
		}
	} else {
		verifReach("cast-refused")
		rpcErr, isRpc := err.(*RpcError)
		verifAssert(isRpc && rpcErr.Type == "TypeError" && out == nil, "a refused cast is a TypeError and returns no batch")
	}
	for _, c := range all {
		verifAssert(c.refs == 1 && c.over == 0, "every column is back at the reader's own reference: nothing the cast retained or created is left behind, nothing is released twice")
	}
	in.Release()
	for _, c := range all {
		verifAssert(c.refs == 0, "and the reader's release frees them")
	}
}
