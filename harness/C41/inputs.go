package vgirpc

import (
	"context"
	"errors"

	"github.com/apache/arrow-go/v18/arrow"
)

//verif:quote approx
//verif:ints lia
//verif:unwind 64
//verif:maxconcretize 16
//verif:maxdecisions 8000
//verif:maxpaths quick=80000 thorough=600000

// ---- the chain an exchange input may go through before the handler sees it ----
// wire batch -> [shm pointer resolved] -> [external pointer resolved] -> [cast to the
// declared input schema]; every stage that makes a new record hands the iteration a
// record it now owns, and must let go of the one it replaces.

var (
	verifC41ExtOutcome  int // 0 resolves to a new record, 1 fails
	verifC41CastOutcome int // 0 new record, 1 the same record (nothing to do), 2 the kernel refuses
	verifC41InputSchema = arrow.NewSchema([]arrow.Field{{Name: "v", Type: arrow.PrimitiveTypes.Int64}, {Name: "tag", Type: arrow.BinaryTypes.String}}, nil)
)

func verifC41ChainTurns() int {
	if verifTier() == 1 {
		return 2
	}
	return 1
}

func verifC41ResolveExternal(batch arrow.RecordBatch, meta arrow.Metadata, config *ExternalLocationConfig) (arrow.RecordBatch, arrow.Metadata, error) {
	if config == nil {
		return batch, meta, nil
	}
	if _, ok := meta.GetValue(MetaLocation); !ok || batch.NumRows() != 0 {
		return batch, meta, nil
	}
	if verifC41ExtOutcome == 1 {
		return batch, meta, errors.New("fetch failed")
	}
	b := batch.(*verifBatch)
	// the fetched record: made with the default allocator, owned by the caller
	return verifNewBatch(b.schema, 1, b.tag+100, nil, nil), arrow.Metadata{}, nil
}

func verifC41Cast(rec arrow.RecordBatch, target *arrow.Schema) (arrow.RecordBatch, error) {
	switch verifC41CastOutcome {
	case 1:
		return rec, nil
	case 2:
		return nil, errors.New("cannot cast column")
	}
	b := rec.(*verifBatch)
	return verifNewBatch(target, b.rows, b.tag, nil, nil), nil
}

// Pipe exchange inputs that are resolved and/or cast on their way to the handler.
//
//verif:use ipc pipe handler
//verif:stub github.com/Query-farm/vgi-rpc-go/vgirpc.ResolveExternalLocation = verifC41ResolveExternal
//verif:stub github.com/Query-farm/vgi-rpc-go/vgirpc.castRecordBatch = verifC41Cast
//verif:bound one exchange call through serveOne with a declared input schema; external storage configured or not; 1..2 inputs, each a plain data batch or a zero-row external-location pointer (resolved to a new record, or the fetch fails), each of the declared schema or of another one (the cast makes a new record, finds nothing to do, or is refused); the state's first turn (thorough: first 2 turns) ANY of the 12 outcomes. Resolution and the cast kernel are their ownership contracts (a new record belongs to the caller); shm pointers are C36's subject
func verifH_C41_pipe_input_chain() {
	verifResetIPC()
	verifResetHandler()
	s := verifPipeServer()
	s.methods["x"].InputSchema = verifC41InputSchema
	if verifNondetBool("external_storage") {
		s.externalConfig = &ExternalLocationConfig{}
	}
	verifC41ExtOutcome = verifChoice("fetch", 2)
	verifC41CastOutcome = verifChoice("cast", 3)
	var turns []int
	for i, n := 0, verifChoice("turns", 1+verifC41ChainTurns()); i < n; i++ {
		turns = append(turns, verifChoice("turn", verifNTurnKindsExt))
	}
	state := &verifPipeExchange{verifPipeState: verifPipeState{turns: turns}}
	verifHFn = func(ctx context.Context, cc *CallContext) (interface{}, error) {
		return &StreamResult{OutputSchema: verifDataSchema, State: state}, nil
	}
	verifQueueRequest(1, 0, []string{MetaMethod, MetaRequestVersion}, []string{"x", ProtocolVersion})
	n := 1 + verifChoice("inputs", 2)
	var bs []*verifBatch
	pointers, foreign := 0, 0
	for i := 0; i < n; i++ {
		sc := verifC41InputSchema
		if verifNondetBool("other_schema") {
			sc = verifDataSchema
			foreign++
		}
		if verifNondetBool("pointer") {
			bs = append(bs, verifNewBatch(sc, 0, 10+i, []string{MetaLocation}, []string{"https://store/obj"}))
			pointers++
		} else {
			bs = append(bs, verifNewBatch(sc, 1, 10+i, nil, nil))
		}
	}
	verifInQueue = append(verifInQueue, &verifInStream{batches: bs, schema: verifC41InputSchema, failAt: -1})
	err := s.serveOne(context.Background(), &verifConn{}, &verifSink{}, &shmConnState{})
	verifReach("input-chain-served")
	verifAssert(err == nil, "the call is answered")
	verifC41Check("pipe exchange input chain")
	if pointers > 0 && foreign > 0 && s.externalConfig != nil && verifC41ExtOutcome == 0 && verifC41CastOutcome == 0 {
		verifReach("resolved-then-cast")
	}
}
