package vgirpc

import (
	"context"
	"errors"
	"net"
	"os"
	"sync"
	"time"
)

//verif:quote approx
//verif:ints lia
//verif:unwind 64
//verif:maxconcretize 16
//verif:maxdecisions 8000
//verif:maxpaths quick=120000 thorough=900000

// ---- the operating system: sockets, the file system and the clock ----

type verifC42Conn struct {
	id     int
	queue  []*verifInStream
	next   int
	closed int
	opened bool // handed out by Accept
	touched bool          // the server has read from it (it is being served)
	linger  chan struct{} // when set: the client keeps the connection open after its last request until this is closed
}

func (c *verifC42Conn) Read(p []byte) (int, error) {
	panic("read through the abstract IPC reader only")
}
func (c *verifC42Conn) Write(p []byte) (int, error)        { return len(p), nil }
func (c *verifC42Conn) Close() error {
	c.closed++
	verifC42ClosedConns++
	if verifC42ClosedConns == verifC42LateAfter && verifC42Late != nil {
		close(verifC42Late)
	}
	return nil
}
func (c *verifC42Conn) LocalAddr() net.Addr                { return nil }
func (c *verifC42Conn) RemoteAddr() net.Addr               { return nil }
func (c *verifC42Conn) SetDeadline(t time.Time) error      { return nil }
func (c *verifC42Conn) SetReadDeadline(t time.Time) error  { return nil }
func (c *verifC42Conn) SetWriteDeadline(t time.Time) error { return nil }
func (c *verifC42Conn) verifNextStream() (*verifInStream, bool) {
	c.touched = true
	if c.next >= len(c.queue) {
		if c.linger != nil {
			<-c.linger // an idle but open connection: the client is in no hurry
		}
		return nil, false // the client has closed its side
	}
	c.next++
	return c.queue[c.next-1], true
}

type verifC42Timer struct {
	obj     *time.Timer
	d       time.Duration
	f       func()
	stopped bool
	fired   bool
}

var (
	verifC42Pending     chan *verifC42Conn // connections waiting in the accept queue
	verifC42ClosedCh    chan struct{}
	verifC42ListenerUp  bool
	verifC42Closes      int
	verifC42IdleClose   bool // the listener was closed from inside a timer callback
	verifC42InTimer     bool
	verifC42OpenAtIdle  int // connections handed out by Accept and not yet closed when the idle close happened
	verifC42ServedAtIdle int // ... of which the server had already read from (counted and being served)
	verifC42ClosedConns int
	verifC42LateAfter   int           // once this many connections were closed ...
	verifC42Late        chan struct{} // ... this is closed (the lingering client then hangs up)
	verifC42Conns       []*verifC42Conn
	verifC42Timers      []*verifC42Timer
	verifC42FS          []string // file-system events, in order
	verifC42Mode        os.FileMode
	verifC42BoundAt     int // len(FS) when onBound ran
	verifC42AcceptsAt   int // len(FS) at the first Accept
	verifC42FirstAccept bool
	verifC42Armed       chan *verifC42Timer // every AfterFunc is announced to the clock
	verifC42Expect      int                 // connections the clients will offer
	verifC42Accepted    int
	verifC42AllAccepted chan struct{}
	verifC42Listening   chan struct{}
)

func verifC42Reset() {
	verifResetIPC()
	verifResetHandler()
	verifC42Pending = make(chan *verifC42Conn, 4)
	verifC42ClosedCh = make(chan struct{})
	verifC42ListenerUp, verifC42Closes, verifC42IdleClose, verifC42InTimer, verifC42OpenAtIdle = false, 0, false, false, 0
	verifC42ServedAtIdle, verifC42ClosedConns, verifC42LateAfter, verifC42Late = 0, 0, 0, nil
	verifC42Conns, verifC42Timers, verifC42FS = nil, nil, nil
	verifC42Mode, verifC42BoundAt, verifC42AcceptsAt, verifC42FirstAccept = 0, -1, -1, false
	verifC42Armed = make(chan *verifC42Timer, 16)
	verifC42Expect, verifC42Accepted = 0, 0
	verifC42AllAccepted = make(chan struct{})
	verifC42Listening = make(chan struct{})
}

func verifC42SignalIgnore(sig ...os.Signal) {}
func verifC42Remove(name string) error {
	verifC42FS = append(verifC42FS, "remove")
	return nil
}
func verifC42Chmod(name string, mode os.FileMode) error {
	verifC42FS = append(verifC42FS, "chmod")
	verifC42Mode = mode
	return nil
}
func verifC42Listen(network, address string) (net.Listener, error) {
	verifC42FS = append(verifC42FS, "listen")
	verifC42ListenerUp = true
	close(verifC42Listening)
	if network == "tcp" {
		return new(net.TCPListener), nil
	}
	return new(net.UnixListener), nil
}

func verifC42AcceptTCP(l *net.TCPListener) (net.Conn, error) { return verifC42Accept(nil) }
func verifC42CloseTCP(l *net.TCPListener) error              { return verifC42Close(nil) }
func verifC42AddrTCP(l *net.TCPListener) net.Addr            { return &net.TCPAddr{Port: 4242} }

func verifC42OpenConns() int {
	n := 0
	for _, c := range verifC42Conns {
		if c.opened && c.closed == 0 {
			n++
		}
	}
	return n
}

func verifC42Accept(l *net.UnixListener) (net.Conn, error) {
	if !verifC42FirstAccept {
		verifC42FirstAccept, verifC42AcceptsAt = true, len(verifC42FS)
	}
	select {
	case c := <-verifC42Pending:
		c.opened = true
		verifC42Accepted++
		if verifC42Accepted == verifC42Expect {
			close(verifC42AllAccepted)
		}
		return c, nil
	case <-verifC42ClosedCh:
		return nil, net.ErrClosed
	}
}

func verifC42Close(l *net.UnixListener) error {
	verifC42Closes++
	if verifC42ListenerUp {
		verifC42ListenerUp = false
		if verifC42InTimer {
			verifC42IdleClose = true
			verifC42OpenAtIdle = verifC42OpenConns()
			for _, c := range verifC42Conns {
				if c.opened && c.closed == 0 && c.touched {
					verifC42ServedAtIdle++
				}
			}
		}
		close(verifC42ClosedCh)
	}
	return nil
}

func verifC42AfterFunc(d time.Duration, f func()) *time.Timer {
	t := &verifC42Timer{obj: new(time.Timer), d: d, f: f}
	verifC42Timers = append(verifC42Timers, t)
	verifC42Armed <- t
	return t.obj
}

func verifC42TimerStop(t *time.Timer) bool {
	for _, x := range verifC42Timers {
		if x.obj == t {
			was := !x.stopped && !x.fired
			x.stopped = true
			return was
		}
	}
	return false
}

// verifC42Fire: time passes — an armed timer goes off (on the clock's goroutine).
func verifC42Fire(x *verifC42Timer) {
	if x.stopped || x.fired {
		return
	}
	x.fired = true
	verifC42InTimer = true
	x.f()
	verifC42InTimer = false
}

func verifC42NewConn(id, requests int) *verifC42Conn {
	c := &verifC42Conn{id: id}
	for k := 0; k < requests; k++ {
		b := verifNewBatch(verifDataSchema, 1, 1, []string{MetaMethod, MetaRequestVersion, MetaRequestID}, []string{"u", ProtocolVersion, string(rune('a'+id)) + string(rune('0'+k))})
		c.queue = append(c.queue, &verifInStream{batches: []*verifBatch{b}, schema: verifDataSchema, failAt: -1})
	}
	verifC42Conns = append(verifC42Conns, c)
	return c
}

// A Unix listener serves every connection with its own framing, stops by itself
// only when idle, and leaves no socket file behind.
//
//verif:use ipc pipe handler
//verif:sched quick=1 thorough=2
//verif:race
//verif:stub os/signal.Ignore = verifC42SignalIgnore
//verif:stub os.Remove = verifC42Remove
//verif:stub os.Chmod = verifC42Chmod
//verif:stub net.Listen = verifC42Listen
//verif:stub (*net.UnixListener).Accept = verifC42Accept
//verif:stub (*net.UnixListener).Close = verifC42Close
//verif:stub (*net.TCPListener).Accept = verifC42AcceptTCP
//verif:stub (*net.TCPListener).Close = verifC42CloseTCP
//verif:stub (*net.TCPListener).Addr = verifC42AddrTCP
//verif:stub time.AfterFunc = verifC42AfterFunc
//verif:stub (*time.Timer).Stop = verifC42TimerStop
//verif:bound RunUnix or RunTcp with an idle timeout of 0, 5 s or 90 s; 0..2 client connections, each sending 1 (thorough: 1..2) unary calls and then closing its side, offered to the accept queue by a client goroutine; a clock goroutine on which every armed timer goes off unless it was stopped first — at any point relative to everything else (ALL interleavings at synchronisation points with at most 1 (2) preemptions, unbounded switches at blocking points); without an idle timeout an operator closes the listener once every client has been accepted. Sockets, the file system and timers are the models in this file; per-connection IPC is the abstract codec; the handler is a ghost returning the connection's own value
func verifH_C42_unix_listener() {
	verifC42Reset()
	s := verifPipeServer()
	idle := []time.Duration{0, 5 * time.Second, 90 * time.Second}[verifChoice("idle_timeout", 3)]
	nconn := verifChoice("connections", 3)
	verifHFn = func(ctx context.Context, cc *CallContext) (interface{}, error) {
		// the answer names the request it answers
		return int(cc.RequestID[0])*100 + int(cc.RequestID[1]), nil
	}
	var conns []*verifC42Conn
	for i := 0; i < nconn; i++ {
		nreq := 1
		if verifTier() == 1 {
			nreq = 1 + verifChoice("requests", 2)
		}
		conns = append(conns, verifC42NewConn(i, nreq))
	}
	verifC42Expect = nconn
	if nconn == 0 {
		close(verifC42AllAccepted)
	}
	var env sync.WaitGroup
	env.Add(2)
	go func() { // the clients: connect, in order
		defer env.Done()
		for _, c := range conns {
			verifC42Pending <- c
		}
	}()
	go func() { // the clock: every armed timer eventually goes off unless it was stopped first
		defer env.Done()
		if idle == 0 {
			// no timers: an operator stops the listener once every client has been picked up
			<-verifC42Listening
			<-verifC42AllAccepted
			verifC42Close(nil)
			return
		}
		for t := range verifC42Armed {
			verifC42Fire(t)
		}
	}()
	bound := ""
	var err error
	tcp := verifNondetBool("tcp")
	if tcp {
		err = s.RunTcp("", 0, idle, func(h string, port int) { bound = h + ":" + string(rune('0'+port%10)) })
	} else {
		err = s.RunUnix("/tmp/sock", idle, func(p string) { bound = p; verifC42BoundAt = len(verifC42FS) })
	}
	verifReach("returned")
	close(verifC42Armed)
	env.Wait()
	if tcp {
		verifAssert(err == nil && bound == "127.0.0.1:2", "the TCP listener binds loopback by default, announces the port the OS chose and returns without error")
		verifAssert(verifC42Closes >= 1, "on return the listener is closed")
	} else {
		verifC42CheckSocketFile(err, bound)
	}
	verifC42CheckConnections(conns, idle)
}

func verifC42CheckSocketFile(err error, bound string) {
	verifAssert(err == nil && bound == "/tmp/sock", "the listener binds, announces its path and returns without error")
	// socket file
	verifAssert(len(verifC42FS) >= 4 && verifC42FS[0] == "remove" && verifC42FS[1] == "listen" && verifC42FS[2] == "chmod", "a stale socket file is removed, then the socket is bound and its mode tightened")
	verifAssert(verifC42Mode == 0o600, "the socket file is owner-only")
	verifAssert(verifC42BoundAt >= 3 && verifC42AcceptsAt >= 3, "the mode is tightened before the path is announced and before any connection is accepted")
	verifAssert(verifC42FS[len(verifC42FS)-1] == "remove" && verifC42Closes >= 1, "on return the listener is closed and the socket file removed")
}

func verifC42CheckConnections(conns []*verifC42Conn, idle time.Duration) {
	nconn := len(conns)
	// connections
	for _, c := range conns {
		if !c.opened {
			verifAssert(idle > 0, "a connection can only be left unaccepted by an idle shutdown")
			continue
		}
		verifAssert(c.closed == 1, "every accepted connection is closed exactly once before the listener returns")
		verifAssert(c.next == len(c.queue), "and was served to the end of its input")
		var mine []*verifOutStream
		for _, st := range verifOutStreams {
			if cc, ok := st.sink.(*verifC42Conn); ok && cc == c {
				mine = append(mine, st)
			}
		}
		verifAssert(len(mine) == len(c.queue), "a connection receives exactly one response per request it sent")
		for k, st := range mine {
			want := int('a'+c.id)*100 + int('0'+k)
			ok := st.closed && len(st.batches) == 1 && st.batches[0].tag == want
			verifAssert(ok, "and each is the answer to its own k-th request — never another connection's")
		}
	}
	// idle behaviour
	if idle == 0 {
		verifAssert(len(verifC42Timers) == 0 && !verifC42IdleClose, "without an idle timeout no timer is armed and the listener never stops by itself")
	} else {
		verifAssert(len(verifC42Timers) >= 1 && verifC42Timers[0].d >= 60*time.Second && verifC42Timers[0].d >= idle, "the start-up grace is at least the idle timeout and at least 60 s")
		for _, t := range verifC42Timers[1:] {
			verifAssert(t.d == idle, "later timers run for the idle timeout")
		}
		if verifC42IdleClose {
			verifReach("idle-shutdown")
			verifAssert(verifC42ServedAtIdle == 0, "the idle timer never stops the listener while a connection that is being served is open")
			verifAssert(verifC42OpenAtIdle == verifC42ServedAtIdle, "the idle timer stops the listener only when no connection is open")
		}
	}
	if nconn > 0 && conns[0].opened {
		verifReach("served-a-connection")
	}
}

var _ = errors.New


// A serve-start hook that fails for the first connection must not unbalance the
// count of open connections the idle timer relies on.
//
//verif:use ipc pipe handler
//verif:sched quick=0 thorough=1
//verif:stub os/signal.Ignore = verifC42SignalIgnore
//verif:stub os.Remove = verifC42Remove
//verif:stub os.Chmod = verifC42Chmod
//verif:stub net.Listen = verifC42Listen
//verif:stub (*net.UnixListener).Accept = verifC42Accept
//verif:stub (*net.UnixListener).Close = verifC42Close
//verif:stub (*net.TCPListener).Accept = verifC42AcceptTCP
//verif:stub (*net.TCPListener).Close = verifC42CloseTCP
//verif:stub (*net.TCPListener).Addr = verifC42AddrTCP
//verif:stub time.AfterFunc = verifC42AfterFunc
//verif:stub (*time.Timer).Stop = verifC42TimerStop
//verif:bound RunUnix or RunTcp with an idle timeout of 5 s and a serve-start hook that fails its first invocation (and succeeds afterwards); three client connections of one unary call each, the second of which stays open after its call until the other two are closed (an idle but open connection); the clock fires every armed timer unless it was stopped first; ALL interleavings at blocking points (thorough: plus 1 preemption). Models as in verifH_C42_unix_listener
func verifH_C42_idle_with_hook_failure() {
	verifC42Reset()
	s := verifPipeServer()
	hookCalls := 0
	s.serveStartHook = func(kind TransportKind, caps map[string]bool) error {
		hookCalls++
		if hookCalls == 1 {
			return errors.New("startup hook failed")
		}
		return nil
	}
	idle := 5 * time.Second
	verifHFn = func(ctx context.Context, cc *CallContext) (interface{}, error) {
		return int(cc.RequestID[0])*100 + int(cc.RequestID[1]), nil
	}
	conns := []*verifC42Conn{verifC42NewConn(0, 1), verifC42NewConn(1, 1), verifC42NewConn(2, 1)}
	conns[1].linger = make(chan struct{})
	verifC42Late, verifC42LateAfter = make(chan struct{}), 2
	verifC42Expect = 3
	var env sync.WaitGroup
	env.Add(3)
	go func() {
		defer env.Done()
		for _, c := range conns {
			verifC42Pending <- c
		}
	}()
	go func() { // the lingering client hangs up once the other two are done — or when the server is gone
		defer env.Done()
		select {
		case <-verifC42Late:
		case <-verifC42ClosedCh:
		}
		close(conns[1].linger)
	}()
	go func() {
		defer env.Done()
		for t := range verifC42Armed {
			verifC42Fire(t)
		}
	}()
	var err error
	tcp := verifNondetBool("tcp")
	if tcp {
		err = s.RunTcp("", 0, idle, nil)
	} else {
		err = s.RunUnix("/tmp/sock", idle, nil)
	}
	verifReach("returned-after-hook-failure")
	close(verifC42Armed)
	env.Wait()
	verifAssert(err == nil, "the listener returns without error")
	refused, served := 0, 0
	for _, c := range conns {
		if !c.opened {
			continue
		}
		verifAssert(c.closed == 1, "every accepted connection is closed exactly once before the listener returns")
		n := 0
		for _, st := range verifOutStreams {
			if cc, ok := st.sink.(*verifC42Conn); ok && cc == c {
				n++
				verifAssert(st.closed && len(st.batches) == 1 && st.batches[0].tag == int('a'+c.id)*100+int('0'), "an answer is the answer to the connection's own request")
			}
		}
		if n == 0 {
			refused++
		} else {
			served++
		}
	}
	verifAssert(refused <= 1 && (hookCalls == 0 || refused == 1), "exactly the connection whose hook run failed is dropped unserved")
	if verifC42IdleClose {
		verifReach("idle-shutdown-after-hook-failure")
		verifAssert(verifC42ServedAtIdle == 0, "the idle timer never stops the listener while a connection that is being served is open")
	}
	if served >= 2 {
		verifReach("two-served-after-refusal")
	}
}
