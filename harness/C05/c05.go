package vgirpc

import (
	"errors"
	"fmt"
)

//verif:ints lia
//verif:unwind 32
//verif:maxconcretize 16
//verif:maxdecisions 4000

// verifC05UserErr is an application-defined error type (what a handler may return).
type verifC05UserErr struct{ code int }

func (e *verifC05UserErr) Error() string { return "user error" }

type verifC05ValErr struct{ msg string } // value-receiver error type

func (e verifC05ValErr) Error() string { return e.msg }

const (
	verifC05Rpc = iota
	verifC05NotImpl
	verifC05ProtoVer
	verifC05SessionLost
	verifC05Draining
	verifC05ExtCap
	verifC05Plain
	verifC05User
	verifC05UserVal
	verifC05PanicDerived
	verifC05NKinds
)

func verifC05HasGoTypeSyntax(s string) bool {
	for i := 0; i < len(s); i++ {
		if s[i] == '*' || s[i] == '.' {
			return true
		}
	}
	return false
}

// Every error value maps to a stable cross-language type name.
//
//verif:stub encoding/json.Marshal = verifJSONMarshal
//verif:bound base error: *RpcError with Type any string of 0..3 bytes and Kind any string of 0..2 bytes, with or without a Traceback/RequestID of its own (a relayed upstream error); each typed framework error (method-not-implemented, protocol-version, session-lost, draining, external-cap refusal); errors.New; two application-defined error types; the RuntimeError the dispatchers build from a recovered panic; each under 0..2 fmt.Errorf("%w") wrappers; debug on/off. The JSON rendering itself (json.Marshal) is replaced by a recorder of the errorExtra struct.
func verifH_C05_exception_type() {
	kind := verifChoice("kind", verifC05NKinds)
	var base error
	wire := "" // the documented wire name when the base error is returned directly
	switch kind {
	case verifC05Rpc:
		tn := verifChoice("type.len", 4)
		kn := verifChoice("kind.len", 3)
		e := &RpcError{Type: verifNondetString("type", tn), Message: "m", Kind: verifNondetString("ekind", kn)}
		if verifNondetBool("carries_traceback") {
			// e.g. an error decoded from an upstream server that had debug errors on and is being relayed
			e.Traceback = "upstream stack"
			e.RequestID = "upstream-rid"
		}
		base, wire = e, e.Type
	case verifC05NotImpl:
		base, wire = &MethodNotImplementedError{Method: "f"}, "AttributeError"
	case verifC05ProtoVer:
		base, wire = &ProtocolVersionError{Message: "too old"}, "ProtocolVersionError"
	case verifC05SessionLost:
		base, wire = &SessionLostError{Reason: sessionLostNotFound}, "SessionLostError"
	case verifC05Draining:
		base, wire = &ServerDrainingError{}, "ServerDrainingError"
	case verifC05ExtCap:
		base, wire = newExternalCapError("f", 10, 5), "RuntimeError"
	case verifC05Plain:
		base, wire = errors.New("boom"), "RuntimeError"
	case verifC05User:
		base, wire = &verifC05UserErr{code: 1}, "RuntimeError"
	case verifC05UserVal:
		base, wire = verifC05ValErr{msg: "v"}, "RuntimeError"
	default:
		// what serveUnary / handleUnary build from a recovered panic value
		base, wire = &RpcError{Type: "RuntimeError", Message: fmt.Sprintf("%v", "panic value")}, "RuntimeError"
	}
	depth := verifChoice("wrap", 3)
	err := base
	for i := 0; i < depth; i++ {
		err = fmt.Errorf("ctx: %w", err)
	}
	debug := verifNondetBool("debug")
	verifJSONLast = nil
	_ = buildErrorExtra(err, debug)
	extra, ok := verifJSONLast.(errorExtra)
	verifReach("built")
	verifAssert(ok, "the envelope is an errorExtra")
	if !ok {
		return
	}
	got := extra.ExceptionType
	if depth == 0 {
		verifReach("direct")
		verifAssert(got == wire, "a directly returned error is named by its documented wire type (RpcError.Type, the typed error's wire name, RuntimeError otherwise)")
	} else {
		verifReach("wrapped")
		// a wrapped error is "any other error": RuntimeError, or (if the implementation unwraps) the inner wire name
		verifAssert(got == "RuntimeError" || got == wire, "a wrapped error is RuntimeError (or the wrapped error's wire name), never a Go type name")
	}
	if kind != verifC05Rpc {
		verifAssert(!verifC05HasGoTypeSyntax(got), "no Go type syntax (* or .) in exception_type")
	}
	verifAssert(extra.ExceptionMessage == err.Error(), "the message is the error's text")
	if !debug {
		verifReach("nodebug")
		verifAssert(extra.Traceback == "" && len(extra.Frames) == 0, "traceback and frames only with debug errors enabled")
	}
}
