package vgirpc

import (
	"bytes"
	"net/http"
	"time"

	"github.com/apache/arrow-go/v18/arrow/ipc"
)

type verifC05State struct{ N int }

// The framework's own refusals reach the wire under their documented names: what
// the sticky-session gate returns for a lost session, and what a draining server
// returns for a new one, written through writeErrorBatch exactly as the HTTP
// dispatchers do.
//
//verif:use ipc tokens
//verif:stub time.Now = verifFixedNow
//verif:stub encoding/json.Marshal = verifJSONMarshal
//verif:stub (*github.com/Query-farm/vgi-rpc-go/vgirpc.sessionRegistry).ensureReaper = verifNoReaper
//verif:bound one session opened on worker w1 by an authenticated caller, then a request bearing: a garbage VGI-Session value (ANY 3 bytes that are not a minted token), the genuine token presented by another identity, the genuine token after the session was deleted, the genuine token on another worker (w2, same key), or the genuine token by its owner (resumes); and OpenSession on a draining registry. The error each site returns is written with writeErrorBatch (debug off/on). Ideal token algebra, abstract IPC, JSON rendering recorded
func verifH_C05_framework_sites() {
	verifResetIPC()
	verifToks = nil
	verifRandCtr = 0
	verifJSONLast = nil
	owner := &AuthContext{Authenticated: true, Domain: "jwt", Principal: "alice"}
	other := &AuthContext{Authenticated: true, Domain: "jwt", Principal: "bob"}
	key := []byte("0123456789abcdef0123456789abcdef")
	h := &HttpServer{tokenKey: key, tokenTTL: time.Hour, server: &Server{serverID: "w1"}, stickyRegistry: newSessionRegistry(0)}
	sink := &stickySink{registry: h.stickyRegistry, tokenKey: key, serverID: "w1", auth: owner, acceptOpens: true, transport: TransportKindHTTP}
	octx := &CallContext{stickySink: sink}
	verifAssert(octx.OpenSession(&verifC05State{N: 1}, 0) == nil && sink.mintedToken != "", "a session is opened")
	tok := sink.mintedToken
	r := &http.Request{Header: http.Header{}}
	var err error
	wantType, wantKind := "SessionLostError", "session_lost"
	site := verifChoice("site", 6)
	switch site {
	case 0: // garbage
		g := verifNondetString("garbage", 3)
		_, minted := verifTokLookup([]byte(g))
		verifAssume(!minted && verifAllInSet(g, "!~"))
		r.Header.Set(stickySessionHeader, g)
		_, err = h.installStickyOnRequestNoCtx(r, owner)
		verifReach("malformed")
	case 1: // another identity
		r.Header.Set(stickySessionHeader, tok)
		_, err = h.installStickyOnRequestNoCtx(r, other)
		verifReach("cross-principal")
	case 2: // deleted
		verifAssert(octx.CloseSession(), "close")
		r.Header.Set(stickySessionHeader, tok)
		_, err = h.installStickyOnRequestNoCtx(r, owner)
		verifReach("closed-session")
	case 3: // another worker
		h2 := &HttpServer{tokenKey: key, tokenTTL: time.Hour, server: &Server{serverID: "w2"}, stickyRegistry: newSessionRegistry(0)}
		r.Header.Set(stickySessionHeader, tok)
		_, err = h2.installStickyOnRequestNoCtx(r, owner)
		verifReach("wrong-worker")
	case 4: // the owner resumes
		r.Header.Set(stickySessionHeader, tok)
		c, e := h.installStickyOnRequestNoCtx(r, owner)
		verifAssert(e == nil && c.entry != nil, "the owner resumes the session")
		c.ReleaseLock()
		verifReach("resumed")
		return
	default: // draining
		h.stickyRegistry.SetDraining(true)
		s2 := &stickySink{registry: h.stickyRegistry, tokenKey: key, serverID: "w1", auth: owner, acceptOpens: true, transport: TransportKindHTTP}
		err = (&CallContext{stickySink: s2}).OpenSession(&verifC05State{N: 2}, 0)
		wantType, wantKind = "ServerDrainingError", "server_draining"
		verifReach("draining")
	}
	verifAssert(err != nil, "the site refuses")
	if err == nil {
		return
	}
	// what writeHttpError / the stream handlers do with it
	var buf bytes.Buffer
	w := ipc.NewWriter(&buf, ipc.WithSchema(verifDataSchema))
	debug := verifNondetBool("debug")
	verifAssert(writeErrorBatch(w, verifDataSchema, err, "w1", "rid", debug) == nil, "the refusal is written")
	out := verifOutStreams[len(verifOutStreams)-1]
	verifAssert(len(out.batches) == 1 && verifIsException(out.batches[0]), "one exception batch")
	extra, ok := verifJSONLast.(errorExtra)
	verifAssert(ok && extra.ExceptionType == wantType, "the framework's refusal is named by its wire name (SessionLostError / ServerDrainingError), whichever branch produced it")
	kind, hasKind := verifMetaGet(out.batches[0], MetaErrorKind)
	verifAssert(hasKind && kind == wantKind, "and carries its error_kind")
}
