package vgirpc

import (
	"context"
	"errors"
	"fmt"
	"net/http"
	"net/url"
	"time"

	"github.com/apache/arrow-go/v18/arrow"
)

// A state whose turn panics with a chosen value.
type verifC05PanicState struct{ v interface{} }

func (s *verifC05PanicState) Produce(ctx context.Context, out *OutputCollector, callCtx *CallContext) error {
	panic(s.v)
}
func (s *verifC05PanicState) Exchange(ctx context.Context, input arrow.RecordBatch, out *OutputCollector, callCtx *CallContext) error {
	panic(s.v)
}

// A panic is a RuntimeError on the wire, whatever value it carries and wherever
// the dispatcher recovers it.
//
//verif:use ipc pipe handler httpx tokens
//verif:bound a handler, init handler or stream turn that panics with: a string, a plain error, an *RpcError of type ValueError with a kind, a typed framework error (SessionLostError), or a wrapped error; recovered at each dispatch site: serveOne->serveUnary, serveOne->serveStream (init and turn; producer and exchange), handleUnary, handleStreamInit (init and first producer turn), handleStreamExchange (exchange turn and producer continuation with genuine tokens). Abstract IPC, ideal token algebra, JSON rendering recorded
func verifH_C05_panic_values() {
	verifResetIPC()
	verifResetHandler()
	verifToks = nil
	verifRandCtr = 0
	verifJSONAll, verifJSONLast = nil, nil
	var v interface{}
	switch verifChoice("panic_value", 5) {
	case 0:
		v = "boom"
	case 1:
		v = errors.New("plain failure")
	case 2:
		v = &RpcError{Type: "ValueError", Message: "bad input", Kind: "k1"}
	case 3:
		v = &SessionLostError{Reason: sessionLostNotFound}
	default:
		v = fmt.Errorf("ctx: %w", &RpcError{Type: "KeyError", Message: "missing"})
	}
	s := verifPipeServer()
	site := verifChoice("site", 9)
	state := &verifC05PanicState{v: v}
	method := "u"
	switch site {
	case 1, 2, 5, 7:
		method = "p"
	case 3, 6, 8:
		method = "x"
	}
	initPanics := site == 0 || site == 1 || site == 4 || site == 5
	verifHFn = func(ctx context.Context, cc *CallContext) (interface{}, error) {
		if initPanics {
			panic(v)
		}
		return &StreamResult{OutputSchema: verifDataSchema, State: state}, nil
	}
	var final *verifOutStream
	req := func(suffix string) *http.Request {
		r := &http.Request{Method: "POST", Header: http.Header{}, URL: &url.URL{Path: "/" + method + suffix}, RemoteAddr: "1.2.3.4:5"}
		r.Header.Set("Content-Type", arrowContentType)
		r.SetPathValue("method", method)
		return r.WithContext(context.Background())
	}
	h := &HttpServer{server: s, tokenKey: verifXKey, tokenTTL: time.Hour, callStates: newCallStateCache(4, time.Hour)}
	switch site {
	case 0, 1, 2, 3: // pipe: unary handler / stream init / producer turn / exchange turn
		verifQueueRequest(1, 0, []string{MetaMethod, MetaRequestVersion}, []string{method, ProtocolVersion})
		if method != "u" {
			verifQueueTicks(1, -1)
		}
		sink := &verifSink{}
		err := s.serveOne(context.Background(), &verifConn{}, sink, &shmConnState{})
		verifAssert(err == nil, "the pipe call is answered")
		out := verifSinkStreams(sink)
		verifAssert(len(out) >= 1, "a response stream is written")
		if len(out) >= 1 {
			final = out[len(out)-1]
		}
	case 4, 5, 6: // HTTP: unary handler / stream init handler / (6: init ok for an exchange, the panic comes at the turn below)
		verifQueueRequest(1, 0, []string{MetaMethod, MetaRequestVersion}, []string{method, ProtocolVersion})
		if site == 4 {
			h.handleUnary(verifNewRecorder(), req(""))
		} else {
			h.handleStreamInit(verifNewRecorder(), req("/init"))
		}
		if site == 6 {
			// the exchange turn with the tokens /init has just minted
			var cur, call string
			for _, st := range verifOutStreams {
				for _, b := range st.batches {
					if x, ok := verifMetaGet(b, MetaStreamState); ok && x != "" {
						cur = x
					}
					if x, ok := verifMetaGet(b, MetaCallState); ok && x != "" {
						call = x
					}
				}
			}
			verifAssert(cur != "", "init hands out a cursor")
			in := verifNewBatch(verifDataSchema, 1, 9, []string{MetaStreamState, MetaCallState}, []string{cur, call})
			verifInQueue = append(verifInQueue, &verifInStream{batches: []*verifBatch{in}, schema: verifDataSchema, failAt: -1})
			verifJSONAll, verifJSONLast = nil, nil
			h.handleStreamExchange(verifNewRecorder(), req("/exchange"))
		}
		final = verifOutStreams[len(verifOutStreams)-1]
	default: // 7, 8: HTTP continuation of a producer / exchange stream with genuine tokens
		cur, e1 := h.packCursorToken("c1", state, Anonymous())
		call, e2 := h.packCallTokenFor(method, "c1", nil, Anonymous(), "sid")
		verifAssert(e1 == nil && e2 == nil, "mint")
		in := verifNewBatch(verifDataSchema, 1, 9, []string{MetaStreamState, MetaCallState}, []string{string(cur), string(call)})
		verifInQueue = append(verifInQueue, &verifInStream{batches: []*verifBatch{in}, schema: verifDataSchema, failAt: -1})
		h.handleStreamExchange(verifNewRecorder(), req("/exchange"))
		final = verifOutStreams[len(verifOutStreams)-1]
	}
	verifReach("panic-recovered")
	if final == nil {
		return
	}
	var exc *verifBatch
	for _, b := range final.batches {
		if verifIsException(b) {
			exc = b
		}
	}
	verifAssert(exc != nil, "the panic is answered with an exception batch")
	if exc == nil {
		return
	}
	var extra errorExtra
	found := false
	for _, j := range verifJSONAll {
		if e, ok := j.(errorExtra); ok {
			extra, found = e, true
		}
	}
	verifAssert(found && extra.ExceptionType == "RuntimeError", "a panic is named RuntimeError on the wire, whatever value it carried")
	_, hasKind := verifMetaGet(exc, MetaErrorKind)
	verifAssert(!hasKind, "and carries no error_kind of the value it panicked with")
}
