package vgirpc

import "encoding/binary"

//verif:ints lia
//verif:unwind 24
//verif:maxconcretize 16

// verifC34Table is the ghost view of the allocation table.
type verifC34Table struct {
	n   int
	off [9]uint64
	ln  [9]uint64
}

// verifC34Segment builds a segment whose header is arbitrary: bytes 0..16 and
// 20..24 symbolic, the entry count n concrete (forked by the caller over 0..N),
// every entry an arbitrary (offset,length) pair.
func verifC34Segment(n int) (*ShmSegment, verifC34Table, []byte) {
	data := make([]byte, ShmHeaderSize)
	pre := verifNondetBytes("hdr", 24)
	copy(data[0:24], pre)
	binary.LittleEndian.PutUint32(data[16:20], uint32(n))
	var t verifC34Table
	t.n = n
	for i := 0; i < n; i++ {
		e := verifNondetBytes("entry", 16)
		base := shmHeaderFixedSize + i*shmAllocEntrySize
		copy(data[base:base+16], e)
		t.off[i] = binary.LittleEndian.Uint64(e[0:8])
		t.ln[i] = binary.LittleEndian.Uint64(e[8:16])
	}
	size := verifNondetInt("segsize")
	verifAssume(size >= ShmHeaderSize)
	s := &ShmSegment{size: size, data: data}
	return s, t, pre
}

// verifC34Inv is the representation invariant of the table.
func verifC34Inv(t verifC34Table, size uint64) bool {
	prevEnd := uint64(ShmHeaderSize)
	for i := 0; i < t.n; i++ {
		if t.off[i] < prevEnd {
			return false
		}
		if t.ln[i] == 0 {
			return false
		}
		if t.ln[i] > size || t.off[i] > size-t.ln[i] {
			return false
		}
		prevEnd = t.off[i] + t.ln[i]
	}
	return t.n <= ShmMaxAllocs
}

func verifC34Read(s *ShmSegment) verifC34Table {
	var t verifC34Table
	al := s.readAllocs()
	t.n = len(al)
	for i := 0; i < len(al) && i < 9; i++ {
		t.off[i] = al[i][0]
		t.ln[i] = al[i][1]
	}
	return t
}

func verifC34HeaderUntouched(s *ShmSegment, pre []byte) bool {
	for i := 0; i < 16; i++ {
		if s.data[i] != pre[i] {
			return false
		}
	}
	for i := 20; i < 24; i++ {
		if s.data[i] != pre[i] {
			return false
		}
	}
	return true
}

func verifC34MaxN() int {
	if verifTier() == 1 {
		return 6
	}
	return 4
}

// Inductive step for allocate: from ANY table satisfying Inv, one allocateLocked
// with ANY size preserves Inv, is first-fit, and fails only when no gap fits.
//
//verif:bound table entries n<=4 (quick) / n<=6 (thorough), every offset/length/segment size/request size arbitrary 64-bit; the table-full arm (n=4094) is covered by verifH_C34_table_full
func verifH_C34_allocate_step() {
	n := verifChoice("n", verifC34MaxN()+1)
	s, t, pre := verifC34Segment(n)
	verifAssume(verifC34Inv(t, uint64(s.size)))
	req := verifNondetInt("req")

	// reference first-fit scan, written independently of the implementation
	refOK := false
	refOff := uint64(0)
	refIdx := 0
	if req > 0 {
		prevEnd := uint64(ShmHeaderSize)
		for i := 0; i <= t.n; i++ {
			var gapEnd uint64
			if i < t.n {
				gapEnd = t.off[i]
			} else {
				gapEnd = uint64(s.size)
			}
			if gapEnd-prevEnd >= uint64(req) {
				refOK, refOff, refIdx = true, prevEnd, i
				break
			}
			if i < t.n {
				prevEnd = t.off[i] + t.ln[i]
			}
		}
	}

	fits := s.canFitLocked(req)
	off, ok := s.allocateLocked(req)
	verifReach("allocate-returned")
	verifAssert(ok == refOK, "allocate succeeds exactly when some gap fits (first fit)")
	verifAssert(fits == refOK, "canFit agrees with allocate")
	verifAssert(verifC34HeaderUntouched(s, pre), "header bytes 0..16 and 20..24 untouched by allocate")
	after := verifC34Read(s)
	if ok {
		verifReach("allocate-ok")
		verifAssert(off == refOff, "allocate returns the first gap that fits")
		verifAssert(after.n == t.n+1, "allocate adds exactly one entry")
		good := true
		for i := 0; i < after.n; i++ {
			var wo, wl uint64
			switch {
			case i < refIdx:
				wo, wl = t.off[i], t.ln[i]
			case i == refIdx:
				wo, wl = refOff, uint64(req)
			default:
				wo, wl = t.off[i-1], t.ln[i-1]
			}
			if after.off[i] != wo || after.ln[i] != wl {
				good = false
			}
		}
		verifAssert(good, "new table is the old one with the new region inserted in offset order")
		verifAssert(verifC34Inv(after, uint64(s.size)), "invariant preserved by allocate")
	} else {
		verifReach("allocate-fail")
		verifAssert(off == 0, "failed allocate returns offset 0")
		same := after.n == t.n
		for i := 0; i < t.n; i++ {
			if after.off[i] != t.off[i] || after.ln[i] != t.ln[i] {
				same = false
			}
		}
		verifAssert(same, "failed allocate leaves the table unchanged")
	}
}

// Inductive step for free.
//
//verif:bound as verifH_C34_allocate_step
func verifH_C34_free_step() {
	n := verifChoice("n", verifC34MaxN()+1)
	s, t, pre := verifC34Segment(n)
	verifAssume(verifC34Inv(t, uint64(s.size)))
	target := verifNondetUint64("target")
	idx := -1
	for i := 0; i < t.n; i++ {
		if t.off[i] == target {
			idx = i
			break
		}
	}
	err := s.freeAtLocked(target)
	verifReach("free-returned")
	after := verifC34Read(s)
	verifAssert(verifC34HeaderUntouched(s, pre), "header bytes 0..16 and 20..24 untouched by free")
	if idx >= 0 {
		verifReach("free-hit")
		verifAssert(err == nil, "free of an allocated offset succeeds")
		verifAssert(after.n == t.n-1, "free removes exactly one entry")
		good := true
		for i := 0; i < after.n; i++ {
			j := i
			if i >= idx {
				j = i + 1
			}
			if after.off[i] != t.off[j] || after.ln[i] != t.ln[j] {
				good = false
			}
		}
		verifAssert(good, "free removes exactly the region starting at the offset")
		verifAssert(verifC34Inv(after, uint64(s.size)), "invariant preserved by free")
	} else {
		verifReach("free-miss")
		verifAssert(err != nil, "free of an unknown offset is an error")
		same := after.n == t.n
		for i := 0; i < t.n; i++ {
			if after.off[i] != t.off[i] || after.ln[i] != t.ln[i] {
				same = false
			}
		}
		verifAssert(same, "failed free leaves the table unchanged")
	}
}

// Header initialisation and validation agree with the documented layout.
//
//verif:bound segment size arbitrary
//verif:ints bv
func verifH_C34_header_layout() {
	size := verifNondetInt("segsize")
	verifAssume(size >= ShmHeaderSize)
	data := make([]byte, ShmHeaderSize)
	junk := verifNondetBytes("junk", 24)
	copy(data, junk)
	s := &ShmSegment{size: size, data: data}
	err := s.initializeHeader()
	verifReach("init")
	verifAssert(err == nil, "initializeHeader succeeds on a header-sized segment")
	verifAssert(data[0] == 'V' && data[1] == 'G' && data[2] == 'I' && data[3] == 'S', "magic VGIS")
	verifAssert(binary.LittleEndian.Uint32(data[4:8]) == 1, "version 1")
	verifAssert(binary.LittleEndian.Uint64(data[8:16]) == uint64(size-ShmHeaderSize), "data_size = size - header")
	verifAssert(s.numAllocs() == 0, "zero allocations after init")
	verifAssert(binary.LittleEndian.Uint32(data[20:24]) == 0, "reserved word zero")
	verifAssert(s.validateHeader() == nil, "validateHeader accepts an initialised header")
	// corrupt one byte of magic/version/data_size: validateHeader must refuse
	k := verifChoice("corrupt", 16)
	b := verifNondetByte("newbyte")
	verifAssume(b != data[k])
	data[k] = b
	verifAssert(s.validateHeader() != nil, "validateHeader rejects any corruption of bytes 0..16")
	// Reset only clears the count
	data[k] = junk[k]
	s.Reset()
	verifAssert(s.numAllocs() == 0, "Reset clears the table")
}

// Table-full arm: with 4094 entries allocate must fail even if space remains;
// with 4093 it may still succeed. Entries are concrete, sizes symbolic.
//
//verif:bound concrete packed table of 4093/4094 entries of 16 bytes; segment size and request symbolic
//verif:maxsteps 80000000
//verif:unwind 4200
//verif:maxdecisions 20000
func verifH_C34_table_full() {
	full := verifNondetBool("full")
	n := ShmMaxAllocs - 1
	if full {
		n = ShmMaxAllocs
	}
	data := make([]byte, ShmHeaderSize)
	binary.LittleEndian.PutUint32(data[16:20], uint32(n))
	for i := 0; i < n; i++ {
		base := shmHeaderFixedSize + i*shmAllocEntrySize
		binary.LittleEndian.PutUint64(data[base:base+8], uint64(ShmHeaderSize+16*i))
		binary.LittleEndian.PutUint64(data[base+8:base+16], 16)
	}
	size := verifNondetInt("segsize")
	verifAssume(size >= ShmHeaderSize+16*ShmMaxAllocs+1024)
	s := &ShmSegment{size: size, data: data}
	req := verifNondetInt("req")
	verifAssume(req > 0 && req <= 1024)
	fits := s.canFitLocked(req)
	_, ok := s.allocateLocked(req)
	verifReach("full-returned")
	verifAssert(ok == !full, "allocation fails exactly when the table already holds ShmMaxAllocs entries")
	verifAssert(fits == !full, "canFit agrees on the table-full arm")
	if ok {
		verifAssert(s.numAllocs() == ShmMaxAllocs, "count after filling the last slot")
	}
}
