package vgirpc

import (
	"sync"

	"github.com/apache/arrow-go/v18/arrow"
)

func verifC34Estimate(batch arrow.RecordBatch) int { return 8 }

// Two writers share one segment: a block stays intact from its allocation to
// its release, and the table is empty when both have released.
//
//verif:use ipc
//verif:sched quick=2 thorough=2
//verif:race
//verif:maxpaths quick=120000 thorough=600000
//verif:stub github.com/Query-farm/vgi-rpc-go/vgirpc.estimateSerializedSize = verifC34Estimate
//verif:bound a freshly initialised segment with a data area of 48 bytes; two goroutines (the HTTP transport's per-connection workers sharing one attached segment) each write one block of 16 or 32 bytes through allocateAndWriteSerialized, look at it again, and release it through FreeOffset — optionally a second block each; ALL interleavings at the segment's mutex with at most 2 preemptions; happens-before race detection on the segment
func verifH_C34_concurrent_writers() {
	size := ShmHeaderSize + 48
	s := &ShmSegment{name: "/seg", size: size, data: make([]byte, size)}
	verifAssert(s.initializeHeader() == nil, "header initialised")
	rounds := 1 + verifChoice("rounds", 2)
	var wg sync.WaitGroup
	intact := [2]bool{true, true}
	fitted := [2]int{}
	for g := 0; g < 2; g++ {
		wg.Add(1)
		g := g
		n := 16 * (1 + verifChoice("block", 2))
		go func() {
			defer wg.Done()
			for r := 0; r < rounds; r++ {
				mark := byte(0x10*(g+1) + r)
				payload := make([]byte, n)
				for i := range payload {
					payload[i] = mark
				}
				off, ln, ok, err := s.allocateAndWriteSerialized(verifNewBatch(verifDataSchema, 1, 1, nil, nil), func(arrow.RecordBatch) ([]byte, error) { return payload, nil })
				if err != nil || !ok {
					continue // the segment is full right now: the caller falls back to the pipe
				}
				fitted[g]++
				verifYield()
				if ln != n || off < uint64(ShmHeaderSize) || off+uint64(ln) > uint64(size) {
					intact[g] = false
				}
				for i := 0; i < ln && intact[g]; i++ {
					if s.data[off+uint64(i)] != mark {
						intact[g] = false
					}
				}
				if s.FreeOffset(off) != nil {
					intact[g] = false
				}
			}
		}()
	}
	wg.Wait()
	verifReach("both-done")
	verifAssert(intact[0] && intact[1], "a block lies inside the data area and holds exactly what its writer put there until that writer releases it")
	verifAssert(s.numAllocs() == 0, "when every writer has released its blocks the allocation table is empty")
	if fitted[0] > 0 && fitted[1] > 0 {
		verifReach("both-fitted")
	}
}
