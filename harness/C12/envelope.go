package vgirpc

import (
	"bytes"
	"crypto/cipher"
	"encoding/gob"
	"errors"
	"io"

	"github.com/klauspost/compress/zstd"
)

// ---- the real envelope (base64, version byte, nonce, tag, codec byte) around an ideal AEAD ----

// An ideal AEAD: Seal appends a tag that is a fresh handle into a table of what
// was sealed; Open succeeds only for a byte-identical (key, nonce, ciphertext,
// AAD) that Seal produced (INT-CTXT). Plaintext rides in the clear: secrecy is
// not the subject here, integrity is.
type verifC12Sealed struct{ key, nonce, ct, aad []byte }

var (
	verifC12Table  []verifC12Sealed
	verifC12Opens  int // Open calls that authenticated
	verifC12Decode int // gob decodes that ran (plaintext reached the decoder)
)

type verifC12AEAD struct{ key []byte }

func (verifC12AEAD) NonceSize() int { return 24 }
func (verifC12AEAD) Overhead() int  { return 16 }
func (a verifC12AEAD) Seal(dst, nonce, plaintext, additionalData []byte) []byte {
	ct := append([]byte(nil), plaintext...)
	tag := make([]byte, 16)
	tag[0], tag[1] = 0xA5, byte(len(verifC12Table)+1)
	ct = append(ct, tag...)
	verifC12Table = append(verifC12Table, verifC12Sealed{key: a.key, nonce: append([]byte(nil), nonce...), ct: ct, aad: append([]byte(nil), additionalData...)})
	return append(dst, ct...)
}
func (a verifC12AEAD) Open(dst, nonce, ciphertext, additionalData []byte) ([]byte, error) {
	if len(ciphertext) < 16 {
		return nil, errors.New("chacha20poly1305: message authentication failed")
	}
	for _, s := range verifC12Table {
		if bytes.Equal(s.key, a.key) && bytes.Equal(s.nonce, nonce) && bytes.Equal(s.ct, ciphertext) && bytes.Equal(s.aad, additionalData) {
			verifC12Opens++
			return append(dst, ciphertext[:len(ciphertext)-16]...), nil
		}
	}
	return nil, errors.New("chacha20poly1305: message authentication failed")
}

func verifC12NewX(key []byte) (cipher.AEAD, error) {
	if len(key) != 32 {
		return nil, errors.New("chacha20poly1305: bad key length")
	}
	return verifC12AEAD{key: append([]byte(nil), key...)}, nil
}

// gob: the payload is a call id; encoded as 'G' + id
var (
	verifC12EncW io.Writer
	verifC12DecR io.Reader
)

func verifC12NewEncoder(w io.Writer) *gob.Encoder { verifC12EncW = w; return &gob.Encoder{} }
func verifC12NewDecoder(r io.Reader) *gob.Decoder { verifC12DecR = r; return &gob.Decoder{} }
func verifC12GobEncode(e *gob.Encoder, v interface{}) error {
	c := v.(*cursorTokenData)
	_, err := verifC12EncW.Write(append([]byte{'G'}, c.CallID...))
	return err
}
func verifC12GobDecode(d *gob.Decoder, v interface{}) error {
	verifC12Decode++
	buf := make([]byte, 64)
	n, _ := verifC12DecR.Read(buf)
	if n < 1 || buf[0] != 'G' {
		return errors.New("gob: bad data")
	}
	v.(*cursorTokenData).CallID = string(buf[1:n])
	return nil
}

// zstd inside the seal: an ideal codec that never shrinks these short payloads
// (so the raw codec byte is used) — the compressed branch is C13/C15's ideal algebra
func verifC12TokenZstd() (*zstd.Encoder, *zstd.Decoder, error) {
	return &zstd.Encoder{}, &zstd.Decoder{}, nil
}
func verifC12EncodeAll(e *zstd.Encoder, src, dst []byte) []byte {
	return append(append(dst, 'Z', 'Z'), src...)
}
func verifC12DecodeAll(d *zstd.Decoder, in, dst []byte) ([]byte, error) {
	if len(in) < 2 || in[0] != 'Z' || in[1] != 'Z' {
		return nil, errors.New("zstd: invalid input")
	}
	return append(dst, in[2:]...), nil
}

func verifC12Nonce(b []byte) (int, error) {
	for i := range b {
		b[i] = byte(0x30 + i)
	}
	return len(b), nil
}

// An altered token — one byte replaced, inserted or removed anywhere in its
// base64 text, cut short, or extended — never authenticates.
//
//verif:ints bv
//verif:unwind 256
//verif:maxconcretize 16
//verif:maxdecisions 20000
//verif:stub golang.org/x/crypto/chacha20poly1305.NewX = verifC12NewX
//verif:stub crypto/rand.Read = verifC12Nonce
//verif:stub encoding/gob.NewEncoder = verifC12NewEncoder
//verif:stub encoding/gob.NewDecoder = verifC12NewDecoder
//verif:stub (*encoding/gob.Encoder).Encode = verifC12GobEncode
//verif:stub (*encoding/gob.Decoder).Decode = verifC12GobDecode
//verif:stub github.com/Query-farm/vgi-rpc-go/vgirpc.tokenZstd = verifC12TokenZstd
//verif:stub (*github.com/klauspost/compress/zstd.Encoder).EncodeAll = verifC12EncodeAll
//verif:stub (*github.com/klauspost/compress/zstd.Decoder).DecodeAll = verifC12DecodeAll
//verif:bound one genuine cursor token minted by the real sealToken (gob payload of 2, 3 or 4 bytes, so the raw envelope is 44, 45 or 46 bytes = every base64 padding class) and presented to the real openToken after ONE edit of its base64 text: any position replaced by ANY other byte, ANY byte inserted at any position, one byte deleted at any position, the text cut to any shorter length, or ANY one byte appended (thorough: also any two adjacent positions replaced by ANY two bytes); the real encoding/base64 decoder is executed symbolically; the AEAD is ideal (opens only byte-identical nonce, ciphertext and AAD under the same key), gob and the in-seal zstd are ideal codecs; bit-level XChaCha20-Poly1305 is outside the claim
func verifH_C12_envelope_altered() {
	// a position in [0,n): two small choices, so that table lookups by a symbolic
	// byte (base64's decode and encode maps) stay solver terms instead of forks
	at := func(n int) int {
		i := verifChoice("at.hi", 8)*8 + verifChoice("at.lo", 8)
		verifAssume(i < n)
		return i
	}
	verifC12Table, verifC12Opens, verifC12Decode = nil, 0, 0
	h := &HttpServer{tokenKey: []byte("0123456789abcdef0123456789abcdef")}
	id := []string{"a", "ab", "abc"}[verifChoice("payload", 3)]
	aad := []byte("vgi_rpc.state.v4\x00\x00anonymous")
	tok, err := h.sealToken(cursorTokenVersion, &cursorTokenData{CallID: id}, aad)
	verifAssert(err == nil && len(tok) > 0, "a token is minted")
	var back cursorTokenData
	verifAssert(h.openToken(cursorTokenVersion, tok, aad, &back) == nil && back.CallID == id, "the genuine token opens to what was sealed")
	verifC12Opens, verifC12Decode = 0, 0
	var m []byte
	edits := 5
	if verifTier() == 1 {
		edits = 6
	}
	switch verifChoice("edit", edits) {
	case 5: // thorough: two adjacent bytes replaced (covers transpositions)
		i := at(len(tok) - 1)
		b0, b1 := verifNondetByte("byte"), verifNondetByte("byte2")
		verifAssume(b0 != tok[i] || b1 != tok[i+1])
		m = append([]byte(nil), tok...)
		m[i], m[i+1] = b0, b1
	case 0: // replace
		i := at(len(tok))
		b := verifNondetByte("byte")
		verifAssume(b != tok[i])
		m = append([]byte(nil), tok...)
		m[i] = b
		verifReach("replaced")
	case 1: // insert
		i := at(len(tok) + 1)
		b := verifNondetByte("byte")
		m = append(append(append([]byte(nil), tok[:i]...), b), tok[i:]...)
		verifReach("inserted")
	case 2: // delete one
		i := at(len(tok))
		m = append(append([]byte(nil), tok[:i]...), tok[i+1:]...)
		verifReach("deleted")
	case 3: // truncate
		n := at(len(tok))
		m = append([]byte(nil), tok[:n]...)
		verifReach("truncated")
	default: // extend
		m = append(append([]byte(nil), tok...), verifNondetByte("byte"))
		verifReach("extended")
	}
	var out cursorTokenData
	oerr := h.openToken(cursorTokenVersion, m, aad, &out)
	verifReach("presented")
	verifAssert(oerr != nil, "an altered token is refused")
	verifAssert(verifC12Opens == 0 && verifC12Decode == 0 && out.CallID == "", "nothing of an altered token authenticates or reaches the payload decoder")
	if oerr != nil {
		var rpcErr *RpcError
		verifAssert(errors.As(oerr, &rpcErr), "the refusal is a client-facing RpcError")
	}
}
