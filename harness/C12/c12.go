package vgirpc

//verif:ints lia
//verif:unwind 32
//verif:maxconcretize 32
//verif:maxdecisions 4000

const verifC12SigFail = "RuntimeError: State token signature verification failed"

func verifC12Message() string {
	msg := ""
	for _, st := range verifOutStreams {
		for _, b := range st.batches {
			if v, ok := verifMetaGet(b, MetaLogMessage); ok {
				msg = v
			}
		}
	}
	return msg
}

// Forged or altered tokens never reach stream state.
//
//verif:use ipc tokens httpx handler
//verif:bound one continuation at the exchange method's route. Token pool minted beforehand: the genuine (cursor, call token) of this caller's stream, a pair minted under a different token key, a pair minted for a different identity, and the genuine pair of a second stream of the same caller (valid only together). The presented cursor is ANY 3-byte wire string and the presented call token ANY 3-byte wire string or absent — which covers garbage, every version byte, and every other minted token substituted in either slot; the instance is warm (minted the stream) or cold (shares the key, empty cache). AEAD/gob/base64 are the ideal token algebra (bit-level mutations of the ciphertext are represented by "any other byte string is not a minted token").
func verifH_C12_forged_tokens() {
	verifResetIPC()
	verifResetHandler()
	verifXReset()
	verifToks = nil
	me := &AuthContext{Authenticated: true, Domain: "bearer", Principal: "alice"}
	other := &AuthContext{Authenticated: true, Domain: "bearer", Principal: "bob"}
	hA := verifXServer(me)
	hA.server.dispatchHook = &verifXHook{}
	state := &verifXExchangeB{}
	// genuine pair: handles 0 (call... order as minted below)
	cur, e1 := hA.packCursorToken("c1", state, me) // handle a
	call, e2 := hA.packCallTokenFor("xchg", "c1", nil, me, "sid") // handle b
	// foreign-key pair
	hF := verifXServer(me)
	hF.tokenKey = []byte("ffffffffffffffffffffffffffffffff")
	_, e3 := hF.packCursorToken("c1", state, me) // handle c
	_, e4 := hF.packCallTokenFor("xchg", "c1", nil, me, "sid") // handle d
	// other-identity pair (same key)
	_, e5 := hA.packCursorToken("c1", state, other) // handle e
	_, e6 := hA.packCallTokenFor("xchg", "c1", nil, other, "sid") // handle f
	// a second genuine stream of the same caller (same method): its tokens are valid only as a pair
	state2 := &verifXExchangeB{N: 100}
	cur2, e7 := hA.packCursorToken("c2", state2, me) // handle g
	call2, e8 := hA.packCallTokenFor("xchg", "c2", nil, me, "sid2") // handle h
	verifAssert(e1 == nil && e2 == nil && e3 == nil && e4 == nil && e5 == nil && e6 == nil && e7 == nil && e8 == nil, "mint")
	h := hA
	cold := verifNondetBool("cold_instance")
	if cold {
		h = verifXServer(me)
		h.server.dispatchHook = &verifXHook{}
	}
	pc := verifNondetString("cursor", 3)
	keys := []string{MetaStreamState}
	vals := []string{pc}
	callPresent := verifNondetBool("call.present")
	pcall := ""
	if callPresent {
		pcall = verifNondetString("call", 3)
		keys = append(keys, MetaCallState)
		vals = append(vals, pcall)
	}
	r := verifXExchangeRequest("xchg", keys, vals)
	rw := verifNewRecorder()
	h.handleStreamExchange(rw, r)
	verifReach("answered")
	verifAssert(rw.status != 0, "every continuation is answered")
	genuineCursor := pc == string(cur)
	genuineCall := callPresent && pcall == string(call)
	accepted := (genuineCursor && (!cold || genuineCall)) || (pc == string(cur2) && (!cold || (callPresent && pcall == string(call2))))
	if accepted {
		verifReach("accepted")
		verifAssert(rw.status == 200 && verifXExchange == 1 && verifXHookStart == 1 && verifXHookEnd == 1, "the genuine tokens resume the stream")
		if genuineCursor {
			verifAssert(verifXLastState == interface{}(state), "with the state sealed in the presented cursor")
		} else {
			verifAssert(verifXLastState == interface{}(state2), "with the state sealed in the presented cursor")
		}
	} else {
		verifReach("refused")
		verifAssert(rw.status == 400, "any other token set is refused with a client error")
		verifAssert(verifXExchange == 0 && verifXProduce == 0 && verifXCancel == 0 && verifXRehydrate == 0, "no state method or rehydrate callback runs")
		verifAssert(verifXHookStart == 0 && verifXHookEnd == 0, "no dispatch hook runs")
		// uniform answer for authenticity failures of a well-formed, right-version cursor
		if pc[0] == 'T' && pc[1] == cursorTokenVersion && (pc[2] == 'c' || pc[2] == 'e') {
			verifReach("bad-signature")
			verifAssert(verifC12Message() == verifC12SigFail, "a foreign-key cursor and a foreign-identity cursor get the same answer")
		}
		if genuineCursor && cold && callPresent && pcall[0] == 'T' && pcall[1] == callTokenVersion && (pcall[2] == 'd' || pcall[2] == 'f') {
			verifReach("bad-call-signature")
			verifAssert(verifC12Message() == verifC12SigFail, "a foreign-key call token and a foreign-identity call token get the same answer")
		}
	}
}
