package vgirpc

import "bytes"

// SHA-256 as an ideal hash: equal inputs give equal digests, distinct inputs give
// distinct digests, and no digest coincides with a raw key an operator chose
// (digests start with 0xFF here and the harness's raw keys do not).
var verifC12Hashed [][]byte

func verifC12Sum256(data []byte) [32]byte {
	var out [32]byte
	out[0] = 0xFF
	for i, prev := range verifC12Hashed {
		if bytes.Equal(prev, data) {
			out[1] = byte(i + 1)
			return out
		}
	}
	verifC12Hashed = append(verifC12Hashed, append([]byte(nil), data...))
	out[1] = byte(len(verifC12Hashed))
	return out
}

// Two operator keys seal under the same AEAD key only if they are the same key.
//
//verif:ints lia
//verif:stub crypto/sha256.Sum256 = verifC12Sum256
//verif:bound two operator keys of 16, 31, 32, 33 or 40 bytes each, with ARBITRARY first byte (not 0xFF, the ideal digests' marker), ARBITRARY 32nd byte and ARBITRARY last byte, the bytes in between equal in both; SHA-256 is an ideal (injective, fresh) hash
func verifH_C12_key_derivation() {
	verifC12Hashed = nil
	mk := func(name string) []byte {
		n := []int{16, 31, 32, 33, 40}[verifChoice(name+".len", 5)]
		k := make([]byte, n)
		for i := range k {
			k[i] = byte('a' + i%7)
		}
		k[0] = verifNondetByte(name + ".first")
		verifAssume(k[0] != 0xFF)
		if n >= 32 {
			k[31] = verifNondetByte(name + ".b32")
		}
		k[n-1] = verifNondetByte(name + ".last")
		return k
	}
	k1, k2 := mk("k1"), mk("k2")
	d1, d2 := normalizeTokenKey(k1), normalizeTokenKey(k2)
	verifReach("derived")
	verifAssert(len(d1) == 32 && len(d2) == 32, "the derived key has the AEAD's key size")
	if bytes.Equal(d1, d2) {
		verifReach("same-derived-key")
		verifAssert(bytes.Equal(k1, k2), "two operator keys derive the same AEAD key only if they are the same key: a token sealed under one never opens under another")
	}
}
