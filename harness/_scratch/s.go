package vgirpc

import "encoding/base64"

//verif:ints bv
//verif:unwind 128
//verif:maxconcretize 64
//verif:maxdecisions 4000

// scratch: real base64 through the engine
//
//verif:bound scratch
func verifH_S_b64() {
	raw := []byte("0123456789abcdefghij")
	enc := make([]byte, base64.StdEncoding.EncodedLen(len(raw)))
	base64.StdEncoding.Encode(enc, raw)
	i := verifChoice("pos", len(enc))
	b := verifNondetByte("b")
	verifAssume(b != enc[i])
	enc[i] = b
	out, err := base64.StdEncoding.DecodeString(string(enc))
	verifReach("decoded")
	if err == nil {
		verifReach("ok")
		same := len(out) == len(raw)
		if same {
			for k := range raw {
				if out[k] != raw[k] {
					same = false
				}
			}
		}
		verifAssert(!same, "a mutated encoding never decodes to the same bytes")
	}
}
