package vgirpc

import "time"

//verif:ints lia
//verif:unwind 16

var (
	verifC15Sec     int64
	verifC15Nsec    int64
	verifC15Created int64
	verifC15Opens   int
)

// verifC15Now replaces the wall clock: the harness sets one instant per request.
func verifC15Now() time.Time { return time.Unix(verifC15Sec, verifC15Nsec) }

// verifC15OpenToken stands in for AEAD open + gob decode of an authentic call
// token: it yields the call id "c1" and the (symbolic) mint time.
func verifC15OpenToken(h *HttpServer, version byte, token []byte, aad []byte, out interface{}) error {
	verifC15Opens++
	d := out.(*callTokenData)
	d.CreatedAt = verifC15Created
	d.CallID = "c1"
	d.StreamID = "s1"
	return nil
}

// checkTokenAge refuses exactly the tokens older than the TTL.
//
//verif:stub time.Now = verifC15Now
//verif:bound TTL any whole number of seconds in [1,10^7]; mint time and clock any instant in [0,2*10^10] s with arbitrary nanoseconds
func verifH_C15_age() {
	ttlS := verifNondetInt64("ttl_s")
	verifAssume(ttlS >= 1 && ttlS <= 10000000)
	created := verifNondetInt64("created")
	verifAssume(created >= 0 && created <= 20000000000)
	s := verifNondetInt64("now.sec")
	n := verifNondetInt64("now.nsec")
	verifAssume(s >= 0 && s <= 20000000000 && n >= 0 && n < 1000000000)
	verifC15Sec, verifC15Nsec = s, n
	h := &HttpServer{tokenTTL: time.Duration(ttlS) * time.Second}
	err := h.checkTokenAge(created)
	verifReach("age-checked")
	expired := s-created > ttlS || (s-created == ttlS && n > 0)
	verifAssert((err != nil) == expired, "refused exactly when now - mint time exceeds the TTL")
}

// The call cache is transparent: at any instant, a continuation resolved
// through a warm cache has the same outcome as one resolved by an instance
// whose cache is cold or disabled.
//
//verif:stub time.Now = verifC15Now
//verif:stub (*github.com/Query-farm/vgi-rpc-go/vgirpc.HttpServer).openToken = verifC15OpenToken
//verif:bound two instances sharing the key (A: cache size 1 or default, B: cache disabled), built directly or configured through SetTokenTTL / SetCallStateCacheEntries in either order; history = [continuation on A at t1 (cold: opens the call token), continuation on A and on B at t2>=t1]; TTL in [1,10^7] s; mint time, t1, t2 arbitrary instants; the two presented cursors carry arbitrary (later) mint times of their own; AEAD open + gob decode replaced by a stub returning an authentic token's fields
func verifH_C15_cache_transparent() {
	ttlS := verifNondetInt64("ttl_s")
	verifAssume(ttlS >= 1 && ttlS <= 10000000)
	ttl := time.Duration(ttlS) * time.Second
	created := verifNondetInt64("created")
	verifAssume(created >= 0 && created <= 20000000000)
	verifC15Created = created
	s1 := verifNondetInt64("t1.sec")
	n1 := verifNondetInt64("t1.nsec")
	s2 := verifNondetInt64("t2.sec")
	n2 := verifNondetInt64("t2.nsec")
	verifAssume(s1 >= created && s1 <= 20000000000 && n1 >= 0 && n1 < 1000000000)
	verifAssume(s2 >= 0 && s2 <= 20000000000 && n2 >= 0 && n2 < 1000000000)
	verifAssume(s2 > s1 || (s2 == s1 && n2 >= n1))
	size := 1
	if verifNondetBool("default_size") {
		size = defaultCallStateCacheEntries
	}
	hA := &HttpServer{tokenTTL: ttl, callStates: newCallStateCache(size, ttl)}
	hB := &HttpServer{tokenTTL: ttl, callStates: newCallStateCache(0, ttl)}
	// ... or configured the way an operator does it, through the setters, in either order
	switch verifChoice("configured_by", 3) {
	case 1:
		hA, hB = &HttpServer{}, &HttpServer{}
		hA.SetTokenTTL(ttl)
		hA.SetCallStateCacheEntries(size)
		hB.SetTokenTTL(ttl)
		hB.SetCallStateCacheEntries(0)
		verifReach("ttl-then-size")
	case 2:
		hA, hB = &HttpServer{}, &HttpServer{}
		hA.SetCallStateCacheEntries(size)
		hA.SetTokenTTL(ttl)
		hB.SetTokenTTL(ttl)
		hB.SetCallStateCacheEntries(0)
		verifReach("size-then-ttl")
	}
	// cursors are re-minted every turn: each presented cursor carries its own
	// (later) mint time, anywhere between the call's mint time and the request
	cc1 := verifNondetInt64("cursor1.created")
	cc2 := verifNondetInt64("cursor2.created")
	verifAssume(cc1 >= created && cc1 <= s1 && cc2 >= cc1 && cc2 <= s2)
	cursor := &cursorTokenData{CallID: "c1", CreatedAt: cc1}
	tok := []byte("calltoken")

	verifC15Sec, verifC15Nsec = s1, n1
	_, e1 := hA.resolveCall(cursor, tok, nil)
	verifC15Sec, verifC15Nsec = s2, n2
	cursor = &cursorTokenData{CallID: "c1", CreatedAt: cc2}
	opens := verifC15Opens
	_, eA := hA.resolveCall(cursor, tok, nil)
	hit := verifC15Opens == opens
	_, eB := hB.resolveCall(cursor, tok, nil)
	verifReach("resolved")
	if e1 == nil && hit {
		verifReach("cache-hit")
	}
	verifAssert((eA == nil) == (eB == nil), "a continuation has the same outcome on a warm-cache instance and on a cold/disabled-cache instance")
	expired := s2-created > ttlS || (s2-created == ttlS && n2 > 0)
	verifAssert((eB != nil) == expired, "the cold instance refuses exactly the expired call tokens")
}

// The cache warmed by /init (packCallToken's put) also never outlives the token.
//
//verif:stub time.Now = verifC15Now
//verif:stub (*github.com/Query-farm/vgi-rpc-go/vgirpc.HttpServer).openToken = verifC15OpenToken
//verif:bound as verifH_C15_cache_transparent, with the cache entry written the way packCallToken writes it at mint time (mint instant has arbitrary nanoseconds; the token records whole seconds)
func verifH_C15_cache_warm_at_init() {
	ttlS := verifNondetInt64("ttl_s")
	verifAssume(ttlS >= 1 && ttlS <= 10000000)
	ttl := time.Duration(ttlS) * time.Second
	s1 := verifNondetInt64("mint.sec")
	n1 := verifNondetInt64("mint.nsec")
	s2 := verifNondetInt64("t2.sec")
	n2 := verifNondetInt64("t2.nsec")
	verifAssume(s1 >= 0 && s1 <= 20000000000 && n1 >= 0 && n1 < 1000000000)
	verifAssume(s2 >= 0 && s2 <= 20000000000 && n2 >= 0 && n2 < 1000000000)
	verifAssume(s2 > s1 || (s2 == s1 && n2 >= n1))
	hA := &HttpServer{tokenTTL: ttl, callStates: newCallStateCache(4, ttl)}
	hB := &HttpServer{tokenTTL: ttl, callStates: newCallStateCache(0, ttl)}
	verifC15Sec, verifC15Nsec = s1, n1
	verifC15Created = verifC15Now().Unix()
	verifC15WarmLikeInit(hA, "c1", verifC15Created)
	cursor := &cursorTokenData{CallID: "c1"}
	tok := []byte("calltoken")
	verifC15Sec, verifC15Nsec = s2, n2
	_, eA := hA.resolveCall(cursor, tok, nil)
	_, eB := hB.resolveCall(cursor, tok, nil)
	verifReach("resolved-after-init")
	verifAssert((eA == nil) == (eB == nil), "a cache entry written at mint time never outlives the call token")
}
