package vgirpc

import (
	"sync"
	"time"
)

// The call-state cache under concurrent use.
//
//verif:sched quick=2 thorough=3
//verif:race
//verif:maxpaths quick=120000 thorough=600000
//verif:stub time.Now = verifC15Now
//verif:bound a cache of capacity 1 or 2; three goroutines: put(call A under key k1), put(call B under k1 or k2), get(k1) then get(k2); a fixed clock inside every entry's lifetime; ALL interleavings at the cache's mutex operations with at most 2 (3) preemptions; the happens-before race detector watches the map, the list and the entries
func verifH_C15_cache_concurrent() {
	verifC15Sec, verifC15Nsec = 1000, 0
	c := newCallStateCache(1+verifChoice("capacity", 2), time.Hour)
	a, b := &resolvedCall{StreamID: "A", Method: "m"}, &resolvedCall{StreamID: "B", Method: "m"}
	k2 := "k1"
	if verifNondetBool("second_key_differs") {
		k2 = "k2"
	}
	var g1, g2 *resolvedCall
	var wg sync.WaitGroup
	wg.Add(3)
	go func() { defer wg.Done(); c.put("k1", nil, a, 900) }()
	go func() { defer wg.Done(); c.put(k2, nil, b, 950) }()
	go func() { defer wg.Done(); g1 = c.get("k1", nil); g2 = c.get("k2", nil) }()
	wg.Wait()
	verifReach("joined")
	verifAssert(g1 == nil || g1 == a || (k2 == "k1" && g1 == b), "a lookup returns nothing or a call that was stored under that very key")
	verifAssert(g2 == nil || (k2 == "k2" && g2 == b), "and never another key's call")
	verifAssert(len(c.entries) == c.order.Len() && c.order.Len() <= c.max && c.order.Len() >= 1, "the index and the recency list stay in step and within capacity")
	for key, el := range c.entries {
		verifAssert(el.Value.(*callStateEntry).key == key, "every index entry points at its own list element")
	}
}
