package vgirpc

// verifC15WarmLikeInit writes the cache entry exactly as packCallToken does after
// sealing a token minted at createdAt. Kept in its own file: it is the only
// harness line that depends on callStateCache.put's signature.
func verifC15WarmLikeInit(h *HttpServer, callID string, createdAt int64) {
	h.callStates.put(callID, nil, &resolvedCall{StreamID: "s1"}, createdAt)
}
