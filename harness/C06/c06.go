package vgirpc

import (
	"context"
	"errors"
)

//verif:ints lia
//verif:unwind 32
//verif:maxconcretize 16
//verif:maxdecisions 4000
//verif:maxpaths quick=30000 thorough=600000

func verifC06Turns() int {
	if verifTier() == 1 {
		return 3
	}
	return 2
}

// reference: what one turn writes ('L' log, 'D' data, 'E' exception) and whether the stream goes on
func verifC06Ref(kind int, producer bool) (string, bool) {
	switch kind {
	case verifTurnEmit:
		return "D", true
	case verifTurnLogEmit:
		return "LD", true
	case verifTurnNoEmit:
		return "E", false
	case verifTurnDoubleEmit:
		return "E", false
	case verifTurnFinish:
		if producer {
			return "", false
		}
		return "E", false
	case verifTurnError, verifTurnPanic:
		return "E", false
	case verifTurnLogNoEmit, verifTurnLogError, verifTurnEmitError, verifTurnEmitPanic:
		// whatever the failed turn had collected (a log, a data batch) is dropped
		return "E", false
	default: // emit then finish
		if producer {
			return "D", false
		}
		return "E", false
	}
}

// The lockstep contract on a pipe.
//
//verif:use ipc pipe handler
//verif:bound one stream call through serveOne/serveStream: producer, exchange or producer-with-header method; init handler returns a state (logging 0..1 message) ; 0..3 input batches with a cancel batch (zero-row, or a data-shaped batch tagged vgi_rpc.cancel) at any position or none; the first 2 (quick) / 3 (thorough) turns each have ANY of 12 outcomes (emit, log+emit, no emit, double emit, Finish, error, panic, emit+Finish, log without a data batch, log then error, emit then error, emit then panic), later turns emit (exchange) or finish (producer); header present or nil. Abstract IPC, ghost handler.
func verifH_C06_lockstep() {
	verifResetIPC()
	verifResetHandler()
	method := []string{"p", "x", "ph"}[verifChoice("method", 3)]
	producer := method != "x"
	nt := verifC06Turns()
	turns := make([]int, nt)
	for i := range turns {
		turns[i] = verifChoice("turn", verifNTurnKindsExt)
	}
	var ps *verifPipeState
	var state interface{}
	var xs *verifPipeExchange
	if producer {
		p := &verifPipeProducer{verifPipeState{producer: true, turns: turns}}
		ps, state = &p.verifPipeState, p
	} else {
		xs = &verifPipeExchange{verifPipeState: verifPipeState{turns: turns}}
		ps, state = &xs.verifPipeState, xs
	}
	initLog := verifNondetBool("init_log")
	withHeader := method == "ph" && verifNondetBool("header")
	verifHFn = func(ctx context.Context, cc *CallContext) (interface{}, error) {
		if initLog {
			cc.ClientLog(LogInfo, "init log")
		}
		res := &StreamResult{OutputSchema: verifDataSchema, State: state}
		if withHeader {
			res.Header = verifHeader{}
		}
		return res, nil
	}
	verifHeaderStream = &verifInStream{batches: []*verifBatch{verifNewBatch(verifDataSchema, 1, 999, nil, nil)}, schema: verifDataSchema, failAt: -1}
	nTicks := verifChoice("ticks", 4)
	cancelAt := verifChoice("cancel_at", nTicks+1) - 1 // -1: none
	verifCancelWithRows = cancelAt >= 0 && verifNondetBool("cancel_batch_has_rows")
	verifQueueRequest(1, 0, []string{MetaMethod, MetaRequestVersion, MetaRequestID}, []string{method, ProtocolVersion, "rid"})
	verifQueueTicks(nTicks, cancelAt)
	s := verifPipeServer()
	sink := &verifSink{}
	err := s.serveOne(context.Background(), &verifConn{}, sink, &shmConnState{})
	verifReach("served")
	verifAssert(err == nil, "the session continues")
	verifAssert(verifInQueue[1].opened && verifInQueue[1].atEOS, "the client's input stream is drained on every exit")
	out := verifSinkStreams(sink)
	wantStreams := 1
	if withHeader {
		wantStreams = 2
	}
	verifAssert(len(out) == wantStreams, "an optional header stream, then exactly one data stream")
	if len(out) != wantStreams {
		return
	}
	data := out[0]
	if withHeader {
		verifReach("header")
		hs := out[0]
		data = out[1]
		verifAssert(hs.closed && len(hs.batches) >= 1 && hs.batches[len(hs.batches)-1].tag == 999, "the header arrives as its own complete stream before any data")
		if initLog {
			verifAssert(len(hs.batches) == 2 && verifIsLog(hs.batches[0]), "init logs ride the header stream")
		}
	}
	verifAssert(data.closed && data.closes == 1, "the data stream is closed exactly once")
	// reference walk
	want := ""
	if initLog && !withHeader {
		want += "L"
	}
	wantCalls, wantCancels := 0, 0
	var wantInputs []int
	for i := 0; i < nTicks; i++ {
		if i == cancelAt {
			wantCancels = 1
			break
		}
		k := verifTurnEmit
		if i < nt {
			k = turns[i]
		} else if producer {
			k = verifTurnFinish
		}
		w, goOn := verifC06Ref(k, producer)
		want += w
		wantCalls++
		wantInputs = append(wantInputs, 10+i)
		if !goOn {
			break
		}
	}
	got := ""
	dataSeen := 0
	for _, b := range data.batches {
		switch {
		case verifIsException(b):
			got += "E"
			rid, _ := verifMetaGet(b, MetaRequestID)
			verifAssert(rid == "rid", "the exception batch echoes the request id")
		case verifIsLog(b):
			got += "L"
		default:
			got += "D"
			dataSeen++
			verifAssert(b.rows == 1 && b.tag > 0, "a data batch is the state's emitted batch")
		}
	}
	verifAssert(got == want, "per input batch: that turn's logs, then exactly one data batch; a failed turn ends the stream with exactly one exception batch; nothing follows the end")
	verifAssert(ps.calls == wantCalls, "no turn runs after the stream ended or was cancelled")
	verifAssert(ps.cancels == wantCancels, "a cancel batch invokes the cancel hook exactly once")
	if xs != nil {
		verifAssert(len(xs.inputs) == len(wantInputs), "the exchange state sees one input per turn")
		for i := range wantInputs {
			if i < len(xs.inputs) {
				verifAssert(xs.inputs[i] == wantInputs[i], "inputs arrive in order")
			}
		}
		if ps.finishErr != nil {
			verifReach("finish-refused")
		}
		for i := 0; i < wantCalls && i < nt; i++ {
			if turns[i] == verifTurnFinish || turns[i] == verifTurnEmitThenFinish {
				verifAssert(ps.finishErr != nil, "Finish is refused on an exchange")
			}
		}
	}
	if wantCancels == 1 {
		verifReach("cancelled")
	}
	if len(want) > 0 && want[len(want)-1] == 'E' {
		verifReach("failed-turn")
	}
	_ = errors.New
}
