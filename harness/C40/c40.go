package vgirpc

import (
	"errors"
	"sync"

	"github.com/apache/arrow-go/v18/arrow"
)

//verif:quote approx
//verif:ints lia
//verif:unwind 64
//verif:maxconcretize 16
//verif:maxdecisions 6000
//verif:maxpaths quick=80000 thorough=600000

var (
	verifC40Pages     int
	verifC40Describes int
)

func verifC40InitPages(h *HttpServer) { verifC40Pages++; verifYield() }

// the describe batch behind ProtocolHash: counted, and slow enough to be preempted
func verifC40BuildDescribe(s *Server) (arrow.RecordBatch, arrow.Metadata) {
	verifC40Describes++
	verifYield()
	return verifNewBatch(verifEmptySchema, 0, 0, nil, nil), arrow.NewMetadata([]string{MetaProtocolHash}, []string{"hash-1"})
}

// The request-path prologue of ServeHTTP / dispatch — bind the transport, render
// the pages, read the protocol hash — from concurrent first requests.
//
//verif:sched quick=3 thorough=4
//verif:race
//verif:stub (*github.com/Query-farm/vgi-rpc-go/vgirpc.HttpServer).initPages = verifC40InitPages
//verif:stub (*github.com/Query-farm/vgi-rpc-go/vgirpc.Server).buildDescribeBatch = verifC40BuildDescribe
//verif:bound 2 concurrent first requests, each running notifyTransport(HTTP) -> InitPages -> ProtocolHash -> TransportKind as ServeHTTP and the dispatchers do, plus optionally a /health render; the serve-start hook is absent, succeeds, or fails its first 1..2 invocations and then succeeds, and may itself read TransportKind(); ALL interleavings at synchronisation points with at most 3 (4) preemptions. Page rendering and the describe batch are counters with a preemption point inside; a happens-before race detector watches every heap load and store of repository code on every explored schedule
func verifH_C40_lazy_setup_once() {
	verifC40Pages, verifC40Describes = 0, 0
	s := &Server{serverID: "srv", methods: map[string]*methodInfo{}}
	h := &HttpServer{server: s}
	hookCalls, hookOK := 0, 0
	failFirst := 0
	hookMode := verifChoice("hook", 4) // 0 none, 1 succeeds, 2 fails once, 3 fails twice
	if hookMode >= 2 {
		failFirst = hookMode - 1
	}
	hookReadsKind := verifNondetBool("hook_reads_kind")
	seenInHook := TransportKind("")
	if hookMode > 0 {
		s.serveStartHook = func(kind TransportKind, caps map[string]bool) error {
			hookCalls++
			n := hookCalls
			if hookReadsKind {
				seenInHook = s.TransportKind()
			}
			verifYield()
			if n <= failFirst {
				return errors.New("startup hook failed")
			}
			hookOK++
			return nil
		}
	}
	n := 2
	withHealth := verifNondetBool("health_probe")
	errs := make([]error, n)
	kinds := make([]TransportKind, n)
	hashes := make([]string, n)
	var wg sync.WaitGroup
	for i := 0; i < n; i++ {
		wg.Add(1)
		i := i
		go func() {
			defer wg.Done()
			// ServeHTTP: a failing hook refuses the request
			if errs[i] = s.notifyTransport(TransportKindHTTP, nil); errs[i] != nil {
				return
			}
			h.InitPages()
			hashes[i] = s.ProtocolHash()
			kinds[i] = s.TransportKind()
			if withHealth && i == 0 {
				h.handleHealth(verifNewRecorder(), nil)
			}
		}()
	}
	wg.Wait()
	verifReach("joined")
	served, refused := 0, 0
	for i := 0; i < n; i++ {
		if errs[i] != nil {
			refused++
			continue
		}
		served++
		verifAssert(kinds[i] == TransportKindHTTP, "every served request observes the bound transport kind")
		verifAssert(hashes[i] == "hash-1", "every served request observes the same protocol hash")
	}
	if hookMode > 0 {
		verifAssert(hookOK <= 1, "the serve-start hook commits at most once, however many first requests race")
		verifAssert(refused <= failFirst, "only invocations that failed refuse a request")
		if served > 0 {
			verifAssert(hookOK == 1, "a request is served only after the hook has succeeded once")
			verifAssert(hookCalls == refused+1, "a failed hook is re-run by the next request rather than skipped, and never run again after it succeeded")
		} else {
			verifAssert(hookCalls == n && refused == n, "while the hook keeps failing every request re-runs it")
			verifAssert(s.TransportKind() == "", "and nothing is committed")
		}
		if hookReadsKind {
			verifAssert(seenInHook == "", "the hook can read the (still unbound) transport kind without deadlocking")
		}
	}
	if served > 0 {
		verifAssert(verifC40Pages == 1, "pages are rendered once")
		verifAssert(verifC40Describes == 1, "the protocol hash is computed once")
		verifReach("served")
	} else {
		verifAssert(verifC40Pages == 0 && verifC40Describes == 0, "a refused request does no lazy setup")
	}
	// a later request on the settled server does no more setup work
	before := hookCalls
	err := s.notifyTransport(TransportKindHTTP, nil)
	if served > 0 {
		verifAssert(err == nil && hookCalls == before, "once bound, later requests do not fire the hook")
	}
}

// An observer that never passes the gate — a metrics scrape, a handler on another
// transport — reads the binding while a first request is establishing it.
//
//verif:sched quick=3 thorough=4
//verif:race
//verif:bound one first request running notifyTransport(HTTP) (hook absent, succeeding or failing once) and TransportKind, and one observer goroutine reading TransportKind and TransportCapabilities without ever calling notifyTransport; ALL interleavings with at most 3 (4) preemptions; happens-before race detection on the binding fields
func verifH_C40_observer() {
	s := &Server{serverID: "srv", methods: map[string]*methodInfo{}}
	hookMode := verifChoice("hook", 3)
	calls := 0
	if hookMode > 0 {
		s.serveStartHook = func(kind TransportKind, caps map[string]bool) error {
			calls++
			verifYield()
			if hookMode == 2 && calls == 1 {
				return errors.New("startup hook failed")
			}
			return nil
		}
	}
	observed := TransportKind("?")
	var observedCaps map[string]bool
	var err error
	var wg sync.WaitGroup
	wg.Add(2)
	go func() {
		defer wg.Done()
		err = s.notifyTransport(TransportKindHTTP, map[string]bool{"shm": false})
		_ = s.TransportKind()
	}()
	go func() {
		defer wg.Done()
		observed = s.TransportKind()
		observedCaps = s.TransportCapabilities()
	}()
	wg.Wait()
	verifReach("observed")
	verifAssert(observed == "" || observed == TransportKindHTTP, "an observer sees the server unbound or bound to HTTP, nothing in between")
	if len(observedCaps) > 0 {
		verifAssert(s.TransportKind() == TransportKindHTTP, "capabilities are visible only once the binding is committed")
	}
	verifAssert((err != nil) == (hookMode == 2), "the request fails exactly when its hook run failed")
}
