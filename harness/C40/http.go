package vgirpc

import (
	"errors"
	"net/http"
	"net/url"
	"sync"
)

type verifC40RW struct {
	hdr    http.Header
	status int
}

func (w *verifC40RW) Header() http.Header { return w.hdr }
func (w *verifC40RW) WriteHeader(code int) {
	if w.status == 0 {
		w.status = code
	}
}
func (w *verifC40RW) Write(b []byte) (int, error) {
	if w.status == 0 {
		w.status = 200
	}
	return len(b), nil
}

var verifC40Routed int

func verifC40Mux(m *http.ServeMux, w http.ResponseWriter, r *http.Request) {
	verifC40Routed++
	w.WriteHeader(200)
}

// The same lazy setup seen from where it is actually used: the front door of the
// HTTP transport.  A failed serve-start hook refuses its request and is re-run by
// the next one; nothing is routed before the hook has succeeded once.
//
//verif:sched quick=2 thorough=3
//verif:race
//verif:stub crypto/rand.Read = verifRandRead
//verif:stub (*net/http.ServeMux).ServeHTTP = verifC40Mux
//verif:stub (*github.com/Query-farm/vgi-rpc-go/vgirpc.HttpServer).initPages = verifC40InitPages
//verif:stub (*github.com/Query-farm/vgi-rpc-go/vgirpc.Server).buildDescribeBatch = verifC40BuildDescribe
//verif:bound three requests through the real HttpServer.ServeHTTP — the first two concurrently (ALL interleavings with at most 2 (3) preemptions), the third after both returned; the serve-start hook is absent, succeeds, or fails its first 1..3 invocations; each request is a POST (routed to a counting mux stub) or an OPTIONS preflight; page rendering and the describe batch are counters; happens-before race detection on repository code
func verifH_C40_http_front_door() {
	verifC40Pages, verifC40Describes, verifC40Routed = 0, 0, 0
	s := &Server{serverID: "srv", methods: map[string]*methodInfo{}}
	h := &HttpServer{server: s, mux: http.NewServeMux()}
	h.applyCompressionLevel(1)
	hookCalls, hookOK := 0, 0
	hookMode := verifChoice("hook", 5) // 0 none, 1 succeeds, 2..4 fails its first 1..3 runs
	failFirst := 0
	if hookMode >= 2 {
		failFirst = hookMode - 1
	}
	if hookMode > 0 {
		s.serveStartHook = func(kind TransportKind, caps map[string]bool) error {
			hookCalls++
			n := hookCalls
			verifYield()
			if n <= failFirst {
				return errors.New("startup hook failed")
			}
			hookOK++
			return nil
		}
	}
	method := "POST"
	if verifNondetBool("preflight") {
		method = "OPTIONS"
	}
	serve := func() int {
		rw := &verifC40RW{hdr: http.Header{}}
		h.ServeHTTP(rw, &http.Request{Method: method, Header: http.Header{}, URL: &url.URL{Path: "/m"}})
		return rw.status
	}
	st := make([]int, 3)
	var wg sync.WaitGroup
	for i := 0; i < 2; i++ {
		wg.Add(1)
		i := i
		go func() {
			defer wg.Done()
			st[i] = serve()
		}()
	}
	wg.Wait()
	routedAfterTwo := verifC40Routed
	st[2] = serve()
	verifReach("three-served")
	refused, served := 0, 0
	for _, c := range st {
		verifAssert(c != 0, "every request is answered")
		if c == 500 {
			refused++
		} else {
			served++
		}
	}
	want := failFirst
	if want > 3 {
		want = 3
	}
	verifAssert(refused == want, "exactly the requests whose own hook run failed are refused — a failure is never remembered as success, nor a success forgotten")
	if hookMode > 0 {
		verifAssert(hookCalls == refused+min(1, served), "every refused request ran the hook, the first served one ran it successfully, and nobody ran it after that")
		verifAssert(hookOK <= 1, "the hook commits at most once")
	}
	if served > 0 {
		verifAssert(s.TransportKind() == TransportKindHTTP, "a served request leaves the transport bound")
		verifAssert(verifC40Pages == 1, "pages are rendered once, by a served request")
	} else {
		verifAssert(s.TransportKind() == "" && verifC40Pages == 0, "while the hook keeps failing nothing is bound and nothing is set up")
	}
	if method == "POST" {
		verifAssert(verifC40Routed == served, "a request is routed exactly when its hook gate was passed")
		verifAssert(routedAfterTwo <= 2-min(2, failFirst), "no request is routed past a failing hook")
	}
	if refused > 0 && served > 0 {
		verifReach("recovered-after-failure")
	}
}
