package vgirpc

import (
	"bytes"
	"encoding/base64"
	"errors"
	"hash"
	"net/http"
	"net/url"
	"strings"
	"time"
)

//verif:quote approx
//verif:ints bv
//verif:unwind 200
//verif:maxconcretize 128
//verif:maxdecisions 4000
//verif:maxpaths quick=30000 thorough=200000

// ---- ideal MAC: a tag verifies only for a (key, message) pair that was MACed while minting ----

type verifC27Entry struct {
	key, msg []byte
	tag      []byte
}

var (
	verifC27Minting bool
	verifC27Table   []verifC27Entry
	verifC27Forged  bool
)

type verifC27Mac struct {
	key []byte
	buf []byte
}

func (m *verifC27Mac) Write(p []byte) (int, error) { m.buf = append(m.buf, p...); return len(p), nil }
func (m *verifC27Mac) Reset()                      { m.buf = nil }
func (m *verifC27Mac) Size() int                   { return 32 }
func (m *verifC27Mac) BlockSize() int              { return 64 }
func (m *verifC27Mac) Sum(b []byte) []byte {
	if verifC27Minting {
		tag := make([]byte, 32)
		tag[0] = byte(len(verifC27Table) + 1)
		tag[1] = 0xA5
		verifC27Table = append(verifC27Table, verifC27Entry{key: m.key, msg: append([]byte(nil), m.buf...), tag: tag})
		return append(b, tag...)
	}
	for _, e := range verifC27Table {
		if bytes.Equal(e.key, m.key) && bytes.Equal(e.msg, m.buf) {
			return append(b, e.tag...)
		}
	}
	verifC27Forged = true // no tag exists for this (key, message): nothing the attacker sends can equal it
	return append(b, make([]byte, 32)...)
}

func verifC27HmacNew(h func() hash.Hash, key []byte) hash.Hash { return &verifC27Mac{key: key} }

func verifC27CTCompare(x, y []byte) int {
	if verifC27Forged {
		verifC27Forged = false
		return 0
	}
	if bytes.Equal(x, y) {
		return 1
	}
	return 0
}

// base64 as an injective encoding: "B" + bytes; anything else is malformed
func verifC27B64Encode(e *base64.Encoding, src []byte) string { return "B" + string(src) }
func verifC27B64Decode(e *base64.Encoding, s string) ([]byte, error) {
	if len(s) == 0 || s[0] != 'B' {
		return nil, errors.New("illegal base64 data")
	}
	return []byte(s[1:]), nil
}

var (
	verifC27Sec int64
)

func verifC27Now() time.Time { return time.Unix(verifC27Sec, 0) }

func verifC27Field(name string, max int) string {
	return verifNondetString(name, verifChoice(name+".len", max+1))
}

// The PKCE session cookie round-trips what was packed, inside its age window,
// and every altered, truncated, extended, foreign-key or expired cookie is refused.
//
//verif:stub crypto/hmac.New = verifC27HmacNew
//verif:stub crypto/subtle.ConstantTimeCompare = verifC27CTCompare
//verif:stub (*encoding/base64.Encoding).EncodeToString = verifC27B64Encode
//verif:stub (*encoding/base64.Encoding).DecodeString = verifC27B64Decode
//verif:stub time.Now = verifC27Now
//verif:bound four fields of 0..2 ARBITRARY bytes each; creation time and clock ANY second count in [0,2^40]; presented cookie = the packed one, or the packed bytes with ONE byte at any position replaced by ANY other value, or truncated by 1..3 bytes, or extended by one arbitrary byte, or verified under another key. HMAC-SHA256 is an ideal MAC (a tag verifies only for a (key, message) pair that was MACed at pack time); base64 is an injective encoding.
func verifH_C27_cookie() {
	verifC27Table, verifC27Forged = nil, false
	cv := verifC27Field("verifier", 2)
	st := verifC27Field("state", 2)
	ou := verifC27Field("original_url", 2)
	rt := verifC27Field("return_to", 2)
	created := verifNondetInt64("created")
	now := verifNondetInt64("now")
	verifAssume(created >= 0 && created <= 1<<40 && now >= 0 && now <= 1<<40)
	keyA := []byte("session-key-A")
	keyB := []byte("session-key-B")
	verifC27Minting = true
	cookie := packOAuthCookie(cv, st, ou, rt, keyA, created)
	verifC27Minting = false
	verifC27Sec = now
	raw := []byte(cookie[1:])
	mode := verifChoice("presentation", 5)
	key := keyA
	presented := cookie
	switch mode {
	case 1: // one byte altered
		pos := verifChoice("alter.pos", len(raw))
		nb := verifNondetByte("alter.byte")
		verifAssume(nb != raw[pos])
		m := append([]byte(nil), raw...)
		m[pos] = nb
		presented = "B" + string(m)
	case 2: // truncated
		k := 1 + verifChoice("truncate", 3)
		presented = "B" + string(raw[:len(raw)-k])
	case 3: // extended
		presented = cookie + string([]byte{verifNondetByte("extra")})
	case 4: // foreign key
		key = keyB
	}
	v2, s2, u2, r2, err := unpackOAuthCookie(presented, key, sessionMaxAge)
	verifReach("unpacked")
	age := now - created
	fresh := age >= 0 && age <= sessionMaxAge
	if mode == 0 && fresh {
		verifReach("roundtrip")
		verifAssert(err == nil && v2 == cv && s2 == st && u2 == ou && r2 == rt, "an unaltered cookie inside its age window returns exactly what was packed")
	} else {
		verifReach("refused")
		verifAssert(err != nil, "an altered, truncated, extended, foreign-key or expired cookie is refused")
		verifAssert(v2 == "" && s2 == "" && u2 == "" && r2 == "", "a refused cookie yields no fields")
	}
}

const verifC27URLAlphabet = "aa..@@::\\\\//??##%%11"

// reference authority split in the browser's (WHATWG) reading, for URLs of the
// form scheme "://" rest: the authority ends at the first of / \ ? #, user info
// ends at the last @, the port starts at the last colon of what remains
func verifC27RefHost(rest string) (host, port string) {
	end := len(rest)
	for i := 0; i < len(rest); i++ {
		if c := rest[i]; c == '/' || c == '\\' || c == '?' || c == '#' {
			end = i
			break
		}
	}
	auth := rest[:end]
	for i := len(auth) - 1; i >= 0; i-- {
		if auth[i] == '@' {
			auth = auth[i+1:]
			break
		}
	}
	for i := len(auth) - 1; i >= 0; i-- {
		if auth[i] == ':' {
			return auth[:i], auth[i+1:]
		}
	}
	return auth, ""
}

// A return URL is accepted only if the host a browser would navigate to is an
// allow-listed origin (scheme + host, and port when the entry names one) or
// http localhost; an accepted URL is returned unchanged.
//
//verif:bound _vgi_return_to = scheme "://" P H S with scheme in {https, http, javascript, HTTPS}, H in {ok.example, port.example:8443, port.example, localhost, evil.com, ok.example.evil.com, 127.0.0.1, 127.0.0.1.evil.com, localhost.evil.com} (IPv6 literals go through net/netip, which the engine does not model, and are outside the claim), P 0..2 and S 0..1 ARBITRARY characters from {a . @ : \ / ? # % 1} (userinfo, port, backslash and fragment tricks); allow-list {https://ok.example (no port: any port matches), https://port.example:8443 (port named: only that port), http://localhost:3000 (the default)}
func verifH_C27_return_to() {
	scheme := []string{"https", "http", "javascript", "HTTPS"}[verifChoice("scheme", 4)]
	host := []string{"ok.example", "port.example:8443", "port.example", "localhost", "evil.com", "ok.example.evil.com",
		"127.0.0.1", "127.0.0.1.evil.com", "localhost.evil.com"}[verifChoice("host", 9)]
	pre := verifNondetString("prefix", verifChoice("prefix.len", 3))
	suf := verifNondetString("suffix", verifChoice("suffix.len", 2))
	verifAssume(verifAllInSet(pre, verifC27URLAlphabet) && verifAllInSet(suf, verifC27URLAlphabet))
	rest := pre + host + suf + "/cb"
	u := scheme + "://" + rest
	// one entry without a port (any port of that host matches) and one that names its port
	allow := map[string]bool{defaultAllowedReturnOrigin: true, "https://ok.example": true, "https://port.example:8443": true}
	got := validateReturnTo(u, allow)
	verifReach("validated")
	if got == "" {
		return
	}
	verifReach("return-accepted")
	verifAssert(got == u, "an accepted return URL is returned unchanged")
	h, p := verifC27RefHost(rest)
	lower := scheme
	if scheme == "HTTPS" {
		lower = "https" // URL schemes are case-insensitive (browsers and net/url both lower-case them)
	}
	okScheme := lower == "https" || lower == "http"
	verifAssert(okScheme, "only http and https return URLs are accepted")
	allowed := (lower == "https" && h == "ok.example") ||
		(lower == "https" && h == "port.example" && p == "8443") ||
		(lower == "http" && (h == "localhost" || h == "127.0.0.1" || h == "[::1]"))
	verifAssert(allowed, "the host a browser navigates to is an allow-listed origin or http localhost")
}

// The same-origin redirect target is always a single-slash path under the prefix.
//
//verif:bound original URL = the path of a page route ("/", the prefix, prefix + "/describe" — the only routes the login redirect wraps) followed by "?" and 1..2 (thorough: 1..3) ARBITRARY ASCII bytes of query, or no query; prefix "" or "/vgi". Free-form path values cannot reach validateOriginalURL (the cookie that carries the value back is MAC-protected) and are outside the claim.
func verifH_C27_original_url() {
	prefix := ""
	if verifNondetBool("prefix") {
		prefix = "/vgi"
	}
	// the login redirect is only installed on the HTML pages, so the path part is one
	// of the page routes; the query string is whatever the caller sent
	base := []string{"/", prefix, prefix + "/describe"}[verifChoice("page", 3)]
	if base == "" {
		base = "/"
	}
	qmax := 2
	if verifTier() == 1 {
		qmax = 3
	}
	q := verifNondetString("query", verifChoice("query.len", qmax+1))
	verifAssume(verifAllInSet(q, "\x00\x7f"))
	u := base
	if len(q) > 0 {
		u = base + "?" + q
	}
	got := validateOriginalURL(u, prefix)
	verifReach("original-validated")
	verifAssert(len(got) > 0 && got[0] == '/', "the redirect target is a path")
	if len(got) > 1 {
		verifAssert(got[1] != '/' && got[1] != '\\', "the redirect target is not scheme-relative (no leading // or /\\)")
	}
	if prefix != "" {
		verifAssert(len(got) >= len(prefix) && got[:len(prefix)] == prefix, "the redirect target stays under the server prefix")
	}
}

// ---- callback ordering ----

var (
	verifC27Exchanges    int
	verifC27ExchangeCode string
	verifC27ExchangeCV   string
)

func verifC27Exchange(tokenEndpoint, code, redirectURI, codeVerifier, clientID, clientSecret string, useIDToken bool) (string, int, string, string, error) {
	verifC27Exchanges++
	verifC27ExchangeCode, verifC27ExchangeCV = code, codeVerifier
	return "BEARER", 3600, "", "", nil
}
// the Cookie header codec is not the subject (and the stand-in base64 is not cookie-safe):
// the request's session cookie is handed over directly
var verifC27CookieValue *string

func verifC27RequestCookie(r *http.Request, name string) (*http.Cookie, error) {
	if verifC27CookieValue == nil || name != sessionCookieName {
		return nil, http.ErrNoCookie
	}
	return &http.Cookie{Name: name, Value: *verifC27CookieValue}, nil
}
func verifC27ErrorPage(message, detail, retryURL string) []byte { return []byte("err") }
func verifC27WritePage(w http.ResponseWriter, body []byte)      { w.Write(body) }
func verifC27Identity(idToken string) string                    { return "" }

// The callback exchanges the code only after the cookie verified and the state
// matched; the bearer token only ever rides a redirect to the packed return URL.
//
//verif:stub crypto/hmac.New = verifC27HmacNew
//verif:stub crypto/subtle.ConstantTimeCompare = verifC27CTCompare
//verif:stub (*encoding/base64.Encoding).EncodeToString = verifC27B64Encode
//verif:stub (*encoding/base64.Encoding).DecodeString = verifC27B64Decode
//verif:stub time.Now = verifC27Now
//verif:stub (*net/http.Request).Cookie = verifC27RequestCookie
//verif:stub github.com/Query-farm/vgi-rpc-go/vgirpc.exchangeCodeForToken = verifC27Exchange
//verif:stub github.com/Query-farm/vgi-rpc-go/vgirpc.oauthErrorPage = verifC27ErrorPage
//verif:stub github.com/Query-farm/vgi-rpc-go/vgirpc.writePkcePage = verifC27WritePage
//verif:stub github.com/Query-farm/vgi-rpc-go/vgirpc.identityCookieValue = verifC27Identity
//verif:bound one callback request: cookie genuine / one byte altered / under another key / absent; returned state a 2-byte ARBITRARY string against the packed 2-byte state; code present or empty; error parameter present or not; packed return URL empty or an (already validated) external URL; prefix "" or "/vgi"; token exchange replaced by a counter returning the bearer "BEARER"; ideal MAC and injective base64
func verifH_C27_callback() {
	verifC27Table, verifC27Forged, verifC27Exchanges = nil, false, 0
	prefix := ""
	if verifNondetBool("prefix") {
		prefix = "/vgi"
	}
	keyA := []byte("session-key-A")
	h := &HttpServer{server: &Server{}, prefix: prefix, pkce: &oauthPkceState{sessionKey: keyA, prefix: prefix, clientID: "cid",
		redirectURI: "https://srv/_oauth/callback", oidcDiscovery: func() (string, string, bool) { return "https://idp/auth", "https://idp/token", true }}}
	packedState := "s1"
	returnTo := ""
	if verifNondetBool("external_return") {
		returnTo = "https://ok.example/app"
	}
	orig := prefix + "/describe"
	verifC27Minting = true
	cookie := packOAuthCookie("verifier", packedState, orig, returnTo, keyA, 1000)
	verifC27Minting = false
	verifC27Sec = 1100
	cmode := verifChoice("cookie", 4)
	switch cmode {
	case 1:
		raw := []byte(cookie[1:])
		pos := verifChoice("alter.pos", len(raw))
		nb := verifNondetByte("alter.byte")
		verifAssume(nb != raw[pos])
		raw[pos] = nb
		cookie = "B" + string(raw)
	case 2:
		h.pkce.sessionKey = []byte("session-key-B")
	}
	state := verifNondetString("state", 2)
	verifAssume(verifAllInSet(state, "az09"))
	code := ""
	if verifNondetBool("code") {
		code = "c0de"
	}
	q := "state=" + state
	if code != "" {
		q += "&code=" + code
	}
	if verifNondetBool("error_param") {
		q += "&error=denied"
	}
	r := &http.Request{Method: "GET", Header: http.Header{}, URL: &url.URL{Path: prefix + "/_oauth/callback", RawQuery: q}}
	verifC27CookieValue = nil
	if cmode != 3 {
		verifC27CookieValue = &cookie
	}
	rw := verifNewRecorder()
	h.handleOAuthCallback(rw, r)
	verifReach("callback-answered")
	hasErr := len(q) > len("state=xx") && q[len(q)-len("&error=denied"):] == "&error=denied"
	ok := !hasErr && code != "" && cmode == 0 && state == packedState
	loc := rw.hdr.Get("Location")
	if ok {
		verifReach("callback-ok")
		verifAssert(verifC27Exchanges == 1 && verifC27ExchangeCode == code && verifC27ExchangeCV == "verifier", "the code is exchanged once, with the verifier from the cookie")
		verifAssert(rw.status == 302, "success redirects")
		if returnTo != "" {
			verifAssert(len(loc) > len(returnTo) && loc[:len(returnTo)] == returnTo, "with a packed return URL the redirect goes to that URL")
		} else {
			verifAssert(loc == orig, "otherwise the redirect goes to the validated original page under the prefix")
			verifAssert(!strings.Contains(loc, "BEARER"), "the bearer token is never put in a same-origin redirect URL")
		}
	} else {
		verifReach("callback-refused")
		verifAssert(verifC27Exchanges == 0, "no code is exchanged unless the cookie verifies and the returned state equals the packed state")
		verifAssert(rw.status == 400 && loc == "", "a refused callback is a 400 without a redirect")
	}
}
