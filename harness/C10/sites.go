package vgirpc

import (
	"context"
	"net/http"
	"net/url"
	"time"

	"github.com/apache/arrow-go/v18/arrow"
)

// the describe batch itself is C09's subject
func verifC10BuildDescribe(s *Server) (arrow.RecordBatch, arrow.Metadata) {
	return verifNewBatch(verifEmptySchema, 0, 0, nil, nil), arrow.NewMetadata([]string{MetaProtocolHash}, []string{"hash-1"})
}

// The gate where requests actually pass it: every request of a connection, on
// every route.
//
//verif:use ipc pipe handler httpx tokens
//verif:stub (*github.com/Query-farm/vgi-rpc-go/vgirpc.Server).buildDescribeBatch = verifC10BuildDescribe
//verif:bound server declaring 2.3.0 or declaring nothing; a history of 1..3 requests, each over ONE shared pipe connection (successive serveOne calls with the connection's state), or through handleUnary, or through handleStreamInit; each request's declared version is matching (2.3.7), mismatched (3.0.0), malformed (2.03.0), or absent; methods unary / producer / __describe__. Abstract IPC, ghost handlers; the version grammar itself is verifH_C10_gate's subject
func verifH_C10_gate_sites() {
	verifResetIPC()
	verifResetHandler()
	verifToks = nil
	s := verifPipeServer()
	declared := verifNondetBool("server_declares")
	if declared {
		s.SetProtocolVersion("2.3.0")
	}
	h := &HttpServer{server: s, tokenKey: verifXKey, tokenTTL: time.Hour, callStates: newCallStateCache(4, time.Hour)}
	calls := 0
	verifHFn = func(ctx context.Context, cc *CallContext) (interface{}, error) {
		calls++
		if cc.Method == "p" {
			return &StreamResult{OutputSchema: verifDataSchema, State: &verifPipeProducer{verifPipeState{producer: true}}}, nil
		}
		return 5, nil
	}
	conn := &shmConnState{} // one pipe connection for the whole history
	n := 1 + verifChoice("requests", 3)
	for i := 0; i < n; i++ {
		ver := []string{"2.3.7", "3.0.0", "2.03.0", ""}[verifChoice("version", 4)]
		keys, vals := []string{MetaMethod, MetaRequestVersion}, []string{"", ProtocolVersion}
		if ver != "" {
			keys, vals = append(keys, MetaProtocolVersion), append(vals, ver)
		}
		route := verifChoice("route", 3)
		method := "u"
		if route == 2 || (route == 0 && verifNondetBool("stream")) {
			method = "p"
		}
		describe := route == 0 && method == "u" && verifNondetBool("describe")
		if describe {
			method = "__describe__"
		}
		vals[0] = method
		before := calls
		refused := false
		verifJSONAll = nil
		switch route {
		case 0:
			verifQueueRequest(1, 0, keys, vals)
			if method == "p" {
				verifQueueTicks(1, -1)
			}
			sink := &verifSink{}
			err := s.serveOne(context.Background(), &verifConn{}, sink, conn)
			verifAssert(err == nil, "the pipe request is answered")
			for _, st := range verifSinkStreams(sink) {
				for _, b := range st.batches {
					if k, ok := verifMetaGet(b, MetaErrorKind); ok && k == "protocol_version_mismatch" {
						refused = true
					}
				}
			}
		default:
			verifQueueRequest(1, 0, keys, vals)
			r := &http.Request{Method: "POST", Header: http.Header{}, URL: &url.URL{Path: "/" + method}, RemoteAddr: "1.2.3.4:5"}
			r.Header.Set("Content-Type", arrowContentType)
			r.SetPathValue("method", method)
			seen := len(verifOutStreams)
			if route == 1 {
				h.handleUnary(verifNewRecorder(), r.WithContext(context.Background()))
			} else {
				h.handleStreamInit(verifNewRecorder(), r.WithContext(context.Background()))
			}
			for _, st := range verifOutStreams[seen:] {
				for _, b := range st.batches {
					if k, ok := verifMetaGet(b, MetaErrorKind); ok && k == "protocol_version_mismatch" {
						refused = true
					}
				}
			}
		}
		dispatched := calls > before
		if describe {
			verifAssert(!refused, "__describe__ is never refused")
			continue
		}
		admit := !declared || ver == "2.3.7"
		verifAssert(dispatched == admit, "a call is dispatched exactly when the server declares nothing or the request declares the same major.minor — whatever earlier requests on the connection declared")
		verifAssert(refused == !admit, "and is otherwise refused with protocol_version_mismatch")
		if i > 0 && !admit {
			verifReach("later-request-refused")
		}
	}
	verifReach("history-served")
}
