package vgirpc

//verif:quote approx
//verif:ints lia
//verif:unwind 16
//verif:maxconcretize 16

// verifC10RefParse is an independent reference parser for canonical semver
// MAJOR.MINOR.PATCH (digits only, no leading zeros except "0", nothing else).
func verifC10RefParse(s string) (ok bool, parts [3]int) {
	i := 0
	for f := 0; f < 3; f++ {
		if f > 0 {
			if i >= len(s) || s[i] != '.' {
				return false, parts
			}
			i++
		}
		start := i
		v := 0
		for i < len(s) && s[i] >= '0' && s[i] <= '9' {
			v = v*10 + int(s[i]-'0')
			i++
		}
		if i == start {
			return false, parts
		}
		if s[start] == '0' && i-start > 1 {
			return false, parts
		}
		parts[f] = v
	}
	if i != len(s) {
		return false, parts
	}
	return true, parts
}

func verifC10MaxLen() int {
	if verifTier() == 1 {
		return 8
	}
	return 6
}

// The gate admits exactly canonical same-major.minor versions; the direction
// text names the side that must upgrade.
//
//verif:bound client version string: every byte string of length 0..6 (quick) / 0..8 (thorough), all 256 byte values per position; server major/minor arbitrary in [0,10^6]; longer strings and the metadata plumbing around the gate are outside the claim
func verifH_C10_gate() {
	sMaj := verifNondetInt("smaj")
	sMin := verifNondetInt("smin")
	verifAssume(sMaj >= 0 && sMaj <= 1000000 && sMin >= 0 && sMin <= 1000000)
	s := &Server{protocolVersion: "S.S.S", protocolVersionSet: true, protocolVersionParts: [3]int{sMaj, sMin, 0}}
	n := verifChoice("len", verifC10MaxLen()+1)
	cv := verifNondetString("cv", n)
	pverr := s.checkProtocolVersion(cv, true)
	verifReach("gate-returned")
	ok, parts := verifC10RefParse(cv)
	admit := ok && parts[0] == sMaj && parts[1] == sMin
	verifAssert((pverr == nil) == admit, "admitted iff canonical semver with the server's major and minor")
	if pverr != nil {
		verifReach("gate-refused")
		old := ok && (parts[0] < sMaj || (parts[0] == sMaj && parts[1] < sMin))
		newer := ok && !old
		tooOld := verifC10Contains(pverr.Message, "client is too old")
		srvOld := verifC10Contains(pverr.Message, "server is too old")
		malformed := verifC10Contains(pverr.Message, "malformed protocol_version")
		verifAssert(tooOld == old, "an older client is told to upgrade the client")
		verifAssert(srvOld == newer, "a newer client is told the server must upgrade")
		verifAssert(malformed == !ok, "a non-canonical version is reported as malformed")
	} else {
		verifReach("gate-admitted")
	}
}

// Absent version is always refused when the server declares one.
//
//verif:bound server parts arbitrary
func verifH_C10_absent() {
	sMaj := verifNondetInt("smaj")
	sMin := verifNondetInt("smin")
	verifAssume(sMaj >= 0 && sMin >= 0)
	s := &Server{protocolVersion: "S.S.S", protocolVersionSet: true, protocolVersionParts: [3]int{sMaj, sMin, 0}}
	pverr := s.checkProtocolVersion("", false)
	verifReach("absent")
	verifAssert(pverr != nil, "absent version refused")
}

// parseSemver agrees with the reference on the numeric values too.
//
//verif:bound as verifH_C10_gate
func verifH_C10_parse() {
	n := verifChoice("len", verifC10MaxLen()+1)
	cv := verifNondetString("cv", n)
	maj, min, pat, err := parseSemver(cv)
	verifReach("parsed")
	ok, parts := verifC10RefParse(cv)
	verifAssert((err == nil) == ok, "parseSemver accepts exactly canonical semver")
	if err == nil {
		verifReach("parse-ok")
		verifAssert(maj == parts[0] && min == parts[1] && pat == parts[2], "parsed numbers equal the decimal values")
	}
}

// verifC10Contains: concrete needle, message prefix/suffix concrete around symbolic client text.
func verifC10Contains(h, needle string) bool {
	for i := 0; i+len(needle) <= len(h); i++ {
		if h[i:i+len(needle)] == needle {
			return true
		}
	}
	return false
}
