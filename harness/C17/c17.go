package vgirpc

import (
	"errors"
	"io"
	"net/http"
	"strings"

	"github.com/klauspost/compress/zstd"
)

//verif:ints lia
//verif:unwind 64
//verif:maxconcretize 16
//verif:maxdecisions 4000
//verif:maxpaths quick=20000 thorough=600000

func verifC17Space(c byte) bool {
	return c == ' ' || c == '\t' || c == '\n' || c == '\v' || c == '\f' || c == '\r'
}

// verifC17RefTokens is an independent reference for the accept-header
// tokeniser: comma-separated elements, parameters after ';' dropped, ASCII
// white space trimmed, lower-cased, empty elements skipped, first occurrence wins.
func verifC17RefTokens(h string) []string {
	var out []string
	i := 0
	for i <= len(h) {
		j := i
		for j < len(h) && h[j] != ',' {
			j++
		}
		e := j
		for k := i; k < j; k++ {
			if h[k] == ';' {
				e = k
				break
			}
		}
		a, b := i, e
		for a < b && verifC17Space(h[a]) {
			a++
		}
		for b > a && verifC17Space(h[b-1]) {
			b--
		}
		if b > a {
			buf := make([]byte, b-a)
			for k := a; k < b; k++ {
				c := h[k]
				if c >= 'A' && c <= 'Z' {
					c += 'a' - 'A'
				}
				buf[k-a] = c
			}
			tok := string(buf)
			dup := false
			for _, t := range out {
				if t == tok {
					dup = true
				}
			}
			if !dup {
				out = append(out, tok)
			}
		}
		i = j + 1
	}
	return out
}

func verifC17HdrLen() int {
	if verifTier() == 1 {
		return 5
	}
	return 4
}

// The tokeniser equals the reference on every ASCII header in the bound.
//
//verif:bound header: every ASCII (byte < 0x80) string of length 0..4 (quick) / 0..5 (thorough); non-ASCII bytes and longer headers are outside the claim
func verifH_C17_tokenise() {
	n := verifChoice("len", verifC17HdrLen()+1)
	h := verifNondetString("hdr", n)
	verifAssume(verifAllInSet(h, "\x00\x7f"))
	got := parseAcceptEncoding(h)
	want := verifC17RefTokens(h)
	verifReach("tokenised")
	verifAssert(len(got) == len(want), "same number of tokens as the reference scanner")
	if len(got) == len(want) {
		for i := range got {
			verifAssert(got[i] == want[i], "token equals the reference scanner's token at the same position")
		}
	}
	if len(got) > 1 {
		verifReach("two-tokens")
	}
}

func verifC17Token(name string) string {
	// a codec token: 4 or 8 lower-case letters (zstd, gzip, identity and every
	// other word of those lengths as "unknown codec")
	n := 4
	if verifNondetBool(name + ".long") {
		n = 8
	}
	s := verifNondetString(name, n)
	verifAssume(verifAllInSet(s, "az"))
	return s
}

func verifC17List(name string, max int) []string {
	k := verifChoice(name+".n", max+1)
	out := make([]string, 0, k)
	for i := 0; i < k; i++ {
		out = append(out, verifC17Token(name))
	}
	return out
}

func verifC17In(list []string, t string) bool {
	for _, x := range list {
		if x == t {
			return true
		}
	}
	return false
}

// verifC17RefChoose: walk the custom list, then the standard list; the first
// identity ends the walk with no codec; the first producible codec wins and is
// "custom only" iff it is on the custom list and not on the standard list.
func verifC17RefChoose(custom, standard []string, producible bool) (string, bool) {
	for pass := 0; pass < 2; pass++ {
		list := custom
		if pass == 1 {
			list = standard
		}
		for _, t := range list {
			if t == "identity" {
				return "", false
			}
			if producible && (t == "zstd" || t == "gzip") {
				return t, verifC17In(custom, t) && !verifC17In(standard, t)
			}
		}
	}
	return "", false
}

func verifC17ListLen() int {
	if verifTier() == 1 {
		return 3
	}
	return 2
}

// Negotiation picks the first producible codec in client order.
//
//verif:bound custom and standard lists of 0..2 (quick) / 0..3 (thorough) tokens each; every token any word of 4 or 8 lower-case letters (so zstd, gzip, identity and all other words of those lengths as unknown codecs, duplicates included); headers rendered as the tokens joined by ", "; producible set {zstd,gzip} or empty (the two values producibleResponseEncodings can return)
func verifH_C17_negotiate() {
	m := verifC17ListLen()
	custom := verifC17List("custom", m)
	standard := verifC17List("standard", m)
	prod := verifNondetBool("producible")
	h := &HttpServer{}
	if prod {
		h.zstdEncoderLevel = 1
	}
	enc, useCustom := chooseResponseEncoding(strings.Join(custom, ", "), strings.Join(standard, ", "), h.producibleResponseEncodings())
	wantEnc, wantCustom := verifC17RefChoose(custom, standard, prod)
	verifReach("negotiated")
	verifAssert(enc == wantEnc, "codec is the first producible one in client order (custom list first), none after an earlier identity")
	verifAssert(useCustom == wantCustom, "custom-header stamping exactly when the winner was offered on the custom header only")
	if enc != "" {
		verifReach("codec-chosen")
		if useCustom {
			verifReach("custom-only")
		}
	}
}

type verifC17RW struct {
	hdr    http.Header
	status int
	body   []byte
}

func (w *verifC17RW) Header() http.Header         { return w.hdr }
func (w *verifC17RW) WriteHeader(code int)        { w.status = code }
func (w *verifC17RW) Write(b []byte) (int, error) { w.body = append(w.body, b...); return len(b), nil }

type verifC17Codec struct{ w io.Writer }

func (c *verifC17Codec) Write(b []byte) (int, error) {
	// the codec is opaque: it emits a marker and the payload
	c.w.Write([]byte{'Z'})
	return c.w.Write(b)
}
func (c *verifC17Codec) Close() error { return nil }

var verifC17CodecCalls int

func verifC17NewCompressWriter(encoding string, w io.Writer, level int) (io.WriteCloser, error) {
	verifC17CodecCalls++
	return &verifC17Codec{w: w}, nil
}

// finish stamps the negotiated codec in the right header, and only for
// non-empty Arrow bodies.
//
//verif:stub github.com/Query-farm/vgi-rpc-go/vgirpc.newCompressWriter = verifC17NewCompressWriter
//verif:bound encoding in {zstd, gzip}; custom flag arbitrary; content type Arrow / text / absent; body empty or 3 bytes; status unset or 200/400; the codec writer itself (zstd/gzip byte-level losslessness) is replaced by an opaque writer and is outside the claim
func verifH_C17_finish() {
	rw := &verifC17RW{hdr: http.Header{}}
	enc := "zstd"
	if verifNondetBool("gzip") {
		enc = "gzip"
	}
	useCustom := verifNondetBool("custom")
	ct := verifChoice("ctype", 3)
	switch ct {
	case 0:
		rw.hdr.Set("Content-Type", arrowContentType)
	case 1:
		rw.hdr.Set("Content-Type", "text/html")
	}
	cw := &compressResponseWriter{ResponseWriter: rw, encoderLevel: 1, encoding: enc, useCustomHeader: useCustom}
	st := verifChoice("status", 3)
	switch st {
	case 1:
		cw.WriteHeader(200)
	case 2:
		cw.WriteHeader(400)
	}
	hasBody := verifNondetBool("body")
	if hasBody {
		cw.Write([]byte("abc"))
	}
	verifC17CodecCalls = 0
	cw.finish()
	verifReach("finished")
	compress := ct == 0 && hasBody
	stdHdr := rw.hdr.Get("Content-Encoding")
	cusHdr := rw.hdr.Get("X-VGI-Content-Encoding")
	if compress {
		verifReach("compressed")
		verifAssert(verifC17CodecCalls == 1, "an Arrow body is compressed once")
		if useCustom {
			verifAssert(cusHdr == enc && stdHdr == "", "custom-only codec is stamped in X-VGI-Content-Encoding and not in Content-Encoding")
		} else {
			verifAssert(stdHdr == enc && cusHdr == "", "codec is stamped in Content-Encoding")
		}
		verifAssert(len(rw.body) == 4 && rw.body[0] == 'Z', "the body written is the codec's output")
	} else {
		verifAssert(verifC17CodecCalls == 0 && stdHdr == "" && cusHdr == "", "non-Arrow or empty bodies are never compressed or stamped")
		verifAssert(hasBody == (len(rw.body) == 3), "uncompressed body passes through unchanged")
	}
	wantStatus := 200
	if st == 2 {
		wantStatus = 400
	}
	verifAssert(rw.status == wantStatus, "status code passes through (200 when unset)")
}

// The advertised capability equals the producible set for every level.
//
//verif:bound compression level any int
func verifH_C17_advert() {
	lvl := verifNondetInt("level")
	h := &HttpServer{server: &Server{}}
	h.applyCompressionLevel(lvl)
	verifReach("applied")
	p := h.producibleResponseEncodings()
	verifAssert(h.supportedEncodingsValue == strings.Join(p, ", "), "advertised value equals the producible set")
	if lvl > 0 {
		verifReach("enabled")
		verifAssert(len(p) == 2 && p[0] == "zstd" && p[1] == "gzip" && h.supportedEncodingsValue == "zstd, gzip", "positive level: zstd and gzip are producible and advertised")
	} else {
		verifAssert(len(p) == 0 && h.supportedEncodingsValue == "", "level <= 0: nothing producible, nothing advertised")
	}
	rw := &verifC17RW{hdr: http.Header{}}
	h.addCapabilityHeaders(rw, false)
	verifAssert(rw.hdr.Get("VGI-Supported-Encodings") == strings.Join(p, ", "), "the capability header carries the producible set")
}

// ---- SetCompressionLevel: a level the encoder refuses must not be kept ----

var verifC17ProbeLevel int

func verifC17WithLevel(l zstd.EncoderLevel) zstd.EOption { verifC17ProbeLevel = int(l); return nil }

// the encoder library's contract: levels SpeedFastest(1)..SpeedBestCompression(4) are accepted
func verifC17ZstdAccepts(l int) bool { return l >= 1 && l <= 4 }
func verifC17ZNewWriter(w io.Writer, opts ...zstd.EOption) (*zstd.Encoder, error) {
	if !verifC17ZstdAccepts(verifC17ProbeLevel) {
		return nil, errors.New("unknown encoder level")
	}
	return &zstd.Encoder{}, nil
}
func verifC17ZClose(e *zstd.Encoder) error { return nil }

// Whatever levels an operator tries, the server ends up advertising only what it
// can produce at the level it kept.
//
//verif:stub github.com/klauspost/compress/zstd.NewWriter = verifC17ZNewWriter
//verif:stub github.com/klauspost/compress/zstd.WithEncoderLevel = verifC17WithLevel
//verif:stub (*github.com/klauspost/compress/zstd.Encoder).Close = verifC17ZClose
//verif:bound a server at the default level, then two SetCompressionLevel calls with ANY int each; the zstd library is its contract (NewWriter accepts exactly the encoder levels 1..4 and fails otherwise); request-time encoders are outside this harness (verifH_C17_finish)
func verifH_C17_level_setter() {
	h := &HttpServer{server: &Server{}}
	h.applyCompressionLevel(DefaultCompressionLevel)
	verifAssert(verifC17ZstdAccepts(h.zstdEncoderLevel), "the default level is one the encoder accepts")
	for i := 0; i < 2; i++ {
		lvl := verifNondetInt("level")
		before, beforeAdv := h.zstdEncoderLevel, h.supportedEncodingsValue
		err := h.SetCompressionLevel(lvl)
		verifReach("set")
		if err != nil {
			verifReach("refused")
			verifAssert(h.zstdEncoderLevel == before && h.supportedEncodingsValue == beforeAdv, "a refused level leaves the working configuration untouched")
		} else if lvl > 0 {
			verifAssert(h.zstdEncoderLevel == lvl, "an accepted level is kept")
		} else {
			verifAssert(h.zstdEncoderLevel == 0, "a non-positive level turns compression off")
		}
		verifAssert(h.zstdEncoderLevel == 0 || verifC17ZstdAccepts(h.zstdEncoderLevel), "the level kept is off or one the encoder can be built with: every advertised codec can really be produced")
		verifAssert(h.supportedEncodingsValue == strings.Join(h.producibleResponseEncodings(), ", "), "the advertisement equals the producible set")
	}
}
