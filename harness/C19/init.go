package vgirpc

import (
	"context"
	"net/http"
	"net/url"
	"time"
)

// The first producer turn rides the /init response, whose body already holds the
// stream header (its own IPC stream) and the init handler's logs before the
// produce loop writes anything: max_response_bytes is judged on that whole body.
//
//verif:use ipc pipe handler httpx tokens
//verif:stub time.Now = verifFixedNow
//verif:bound one POST /<method>/init through handleStreamInit for a producer with or without a stream header; the header batch is 8, 64 or 200 bytes on the wire and the init handler logs 0 or 1 message (a log batch is 16 bytes); max_response_bytes ANY positive int64 or off; the producer has 0..3 data batches, each of wire size 8, 64 or 200 bytes; batch limit off or 2; abstract IPC (body length = sum of the written batches' sizes, framing not modelled), ideal token algebra; the first data batch of a turn is always produced (the progress guarantee: a header heavier than the cap cannot stall the stream), the cap is asserted from the second data batch on
func verifH_C19_producer_init_wire_cap() {
	verifResetIPC()
	verifResetHandler()
	verifToks = nil
	verifRandCtr = 0
	verifSinkBytes, verifWireSize = true, 16
	capv := int64(0)
	if verifNondetBool("cap.set") {
		capv = verifNondetInt64("cap")
		verifAssume(capv >= 1)
	}
	withHeader := verifNondetBool("header")
	logs := verifChoice("init_logs", 2)
	n := verifChoice("left", 4)
	st := &verifC19Producer{n: n, sizes: verifC19Sizes(n)}
	method := "p"
	if withHeader {
		method = "ph"
	}
	verifHFn = func(ctx context.Context, cc *CallContext) (interface{}, error) {
		for i := 0; i < logs; i++ {
			cc.ClientLog(LogInfo, "init log")
		}
		res := &StreamResult{OutputSchema: verifDataSchema, State: st}
		if withHeader {
			res.Header = verifHeader{}
		}
		return res, nil
	}
	hb := verifNewBatch(verifDataSchema, 1, 999, nil, nil)
	hb.size = []int64{8, 64, 200}[verifChoice("header_size", 3)]
	verifHeaderStream = &verifInStream{batches: []*verifBatch{hb}, schema: verifDataSchema, failAt: -1}
	h := &HttpServer{server: verifPipeServer(), tokenKey: verifXKey, tokenTTL: time.Hour, maxResponseBytes: capv}
	h.callStates = newCallStateCache(0, time.Hour)
	if verifNondetBool("batch_limit") {
		h.producerBatchLimit = 2
	}
	params := verifNewBatch(verifDataSchema, 1, 1, []string{MetaMethod, MetaRequestVersion}, []string{method, ProtocolVersion})
	params.size = 1
	verifInQueue = append(verifInQueue, &verifInStream{batches: []*verifBatch{params}, schema: verifDataSchema, failAt: -1})
	rw := verifNewRecorder()
	req := &http.Request{Method: "POST", Header: http.Header{}, URL: &url.URL{Path: "/" + method + "/init"}, RemoteAddr: "1.2.3.4:5"}
	req.Header.Set("Content-Type", arrowContentType)
	req.SetPathValue("method", method)
	h.handleStreamInit(rw, req.WithContext(context.Background()))
	verifSinkBytes = false
	verifReach("init-done")
	verifAssert(rw.status == 200, "the init turn succeeds")
	// the response body: [header stream] + data stream, in writing order
	var run int64 // body length so far
	late := false
	k, tokens, hdr := 0, 0, 0
	for _, os := range verifOutStreams {
		verifAssert(os.closed || len(os.batches) == 0, "every response stream is closed")
		for _, b := range os.batches {
			if _, isTok := verifMetaGet(b, MetaStreamState); isTok {
				tokens++
				continue
			}
			sz := b.size
			if sz <= 0 {
				sz = 16
			}
			if b.tag == 999 {
				hdr++
				verifAssert(k == 0, "the header precedes every data batch")
			} else if b.tag > 0 && b.rows > 0 && !verifIsLog(b) {
				k++
				verifAssert(b.tag == k, "data batches are written in production order")
				if k >= 2 {
					// the first data batch of a turn is the progress guarantee, whatever the header weighs
					verifAssert(run <= capv || capv == 0, "after a turn's first data batch, no data batch is produced once the /init body (header and logs included) already exceeds max_response_bytes")
					late = true
				}
			}
			run += sz
		}
	}
	verifAssert((hdr == 1) == withHeader, "the header is delivered exactly when the method has one")
	verifAssert(k == st.produced, "every produced batch is in the response")
	if withHeader && capv > 0 && late {
		verifReach("capped-with-header")
	}
	if st.finished {
		verifReach("finished")
		verifAssert(tokens == 0, "a finished stream carries no continuation token")
	} else {
		verifReach("continues")
		verifAssert(tokens == 1 && k >= 1, "an unfinished /init turn ends with exactly one continuation token and made progress")
	}
}
