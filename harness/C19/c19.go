package vgirpc

import (
	"context"
	"errors"
	"time"

	"github.com/apache/arrow-go/v18/arrow"
)

//verif:ints lia
//verif:unwind 32
//verif:maxconcretize 16
//verif:maxdecisions 4000

// enforceResponseBudgets refuses exactly the over-cap totals.
//
//verif:bound all five integers arbitrary int64
func verifH_C19_budgets() {
	wire := verifNondetInt64("wire")
	ext := verifNondetInt64("ext")
	wireCap := verifNondetInt64("wire_cap")
	extCap := verifNondetInt64("ext_cap")
	err := enforceResponseBudgets("m", wire, ext, wireCap, extCap)
	verifReach("checked")
	overWire := wireCap > 0 && wire > wireCap
	overExt := extCap > 0 && ext > extCap
	verifAssert((err != nil) == (overWire || overExt), "an error exactly when a configured cap is exceeded")
	if err != nil {
		var capErr *externalCapError
		isExt := errors.As(err, &capErr)
		verifAssert(isExt == (!overWire && overExt), "the external-cap refusal is typed; the wire cap is checked first")
	}
}

type verifC19Storage struct{}

func (verifC19Storage) Upload(data []byte, schema *arrow.Schema, contentEncoding string) (string, error) {
	return "https://s/x", nil
}

// checkExternalBudget refuses exactly the uploads that would pass the cap.
//
//verif:use ipc
//verif:bound data-batch buffer size, threshold, running total and cap arbitrary non-negative int64 below 2^60; rows 0 or 1; external storage configured or not; data batch present or not
func verifH_C19_external_preflight() {
	size := verifNondetInt64("size")
	thr := verifNondetInt64("threshold")
	already := verifNondetInt64("already")
	capv := verifNondetInt64("cap")
	lim := int64(1) << 60
	verifAssume(size >= 0 && size < lim && thr >= 0 && thr < lim && already >= 0 && already < lim && capv >= 0 && capv < lim)
	rows := int64(1)
	if verifNondetBool("zero_rows") {
		rows = 0
	}
	h := &HttpServer{server: &Server{}, maxExternalizedResponseBytes: capv}
	storage := verifNondetBool("storage")
	if verifNondetBool("config") {
		h.server.externalConfig = &ExternalLocationConfig{ExternalizeThresholdBytes: thr}
		if storage {
			h.server.externalConfig.Storage = verifC19Storage{}
		}
	}
	out := newOutputCollector(verifDataSchema, "s", true)
	hasData := verifNondetBool("has_data")
	if hasData {
		b := verifNewBatch(verifDataSchema, rows, 1, nil, nil)
		b.size = size
		verifAssert(out.Emit(b) == nil, "emit")
	}
	err := h.checkExternalBudget(out, "m", already)
	verifReach("preflight")
	effThr := thr
	if thr <= 0 {
		effThr = 1048576
	}
	wouldUpload := h.server.externalConfig != nil && storage && hasData && rows > 0 && size >= effThr
	refuse := capv > 0 && wouldUpload && already+size > capv
	verifAssert((err != nil) == refuse, "refused exactly when the upload would push the running total past the cap")
	if refuse {
		verifReach("refused")
	}
}

// ---- producer loop ----

type verifC19Producer struct {
	n        int // data batches before Finish
	sizes    []int64
	produced int
	finished bool
}

func (p *verifC19Producer) Produce(ctx context.Context, out *OutputCollector, callCtx *CallContext) error {
	if p.produced >= p.n {
		p.finished = true
		return out.Finish()
	}
	b := verifNewBatch(verifDataSchema, 1, p.produced+1, nil, nil)
	b.size = p.sizes[p.produced]
	p.produced++
	return out.Emit(b)
}

var verifC19Uploaded int64 // sum of the Arrow sizes of the uploads of this turn

func verifC19Externalize(h *HttpServer, ctx context.Context, batch arrow.RecordBatch) (arrow.RecordBatch, int64, bool) {
	cfg := h.server.externalConfig
	if cfg == nil || batch.NumRows() == 0 {
		return batch, 0, false
	}
	b := batch.(*verifBatch)
	if b.size < cfg.threshold() {
		return batch, 0, false
	}
	verifC19Uploaded += b.size
	ptr := verifNewBatch(b.schema, 0, b.tag, []string{MetaLocation}, []string{"https://s/x"})
	ptr.size = 4 // a pointer batch is tiny on the wire
	return ptr, b.size + 16, true // raw IPC bytes = buffers + framing
}

func verifC19Sizes(n int) []int64 {
	opts := []int64{8, 64, 200}
	out := make([]int64, n)
	for i := range out {
		out[i] = opts[verifChoice("size", len(opts))]
	}
	return out
}

// A producer turn exceeds max_response_bytes by at most one data batch and then
// ends with a continuation token; the stream makes progress every turn.
//
//verif:use ipc tokens
//verif:stub time.Now = verifFixedNow
//verif:bound one producer continuation turn through handleProducerContinuation / runProduceLoop; max_response_bytes ANY positive int64 or off; the producer has 0..4 data batches left, each of wire size 8, 64 or 200 bytes; producer batch limit off or 2; IPC writer = abstract stream whose body length is the sum of the written batches' sizes (framing bytes of real Arrow IPC are not modelled); cursor seal = ideal token algebra
func verifH_C19_producer_wire_cap() {
	verifResetIPC()
	verifToks = nil
	verifSinkBytes, verifWireSize = true, 0
	capv := int64(0)
	if verifNondetBool("cap.set") {
		capv = verifNondetInt64("cap")
		verifAssume(capv >= 1)
	}
	n := verifChoice("left", 5)
	st := &verifC19Producer{n: n, sizes: verifC19Sizes(n)}
	h := &HttpServer{server: &Server{serverID: "srv"}, tokenKey: []byte("0123456789abcdef0123456789abcdef"), tokenTTL: time.Hour, maxResponseBytes: capv}
	if verifNondetBool("batch_limit") {
		h.producerBatchLimit = 2
	}
	info := &methodInfo{Name: "gen", Type: MethodProducer, OutputSchema: verifDataSchema}
	rw := verifNewRecorder()
	err := h.handleProducerContinuation(context.Background(), rw, verifDataSchema, st, info, &CallStatistics{}, nil, nil, nil, "sid", "c1", nil, arrow.Metadata{})
	verifSinkBytes = false
	verifReach("turn-done")
	verifAssert(err == nil && rw.status == 200, "a producer turn within its rules succeeds")
	verifAssert(len(verifOutStreams) == 1 && verifOutStreams[0].closed, "one closed response stream")
	if len(verifOutStreams) != 1 {
		return
	}
	k := 0
	var before int64 // body length before the last data batch was written
	var run int64
	tokens := 0
	for _, b := range verifOutStreams[0].batches {
		if _, isTok := verifMetaGet(b, MetaStreamState); isTok {
			tokens++
			continue
		}
		if b.tag > 0 {
			k++
			verifAssert(b.tag == k, "data batches are written in production order")
			before = run
			run += b.size
		}
	}
	verifAssert(k == st.produced, "every produced batch is in the response")
	if capv > 0 && k > 0 {
		verifReach("capped")
		verifAssert(before <= capv, "no data batch is produced once the body already exceeds max_response_bytes (overshoot is at most one data batch)")
	}
	if h.producerBatchLimit > 0 {
		verifAssert(k <= 2, "the batch limit bounds the turn")
	}
	if st.finished {
		verifReach("finished")
		verifAssert(tokens == 0, "a finished stream carries no continuation token")
	} else {
		verifReach("continues")
		verifAssert(tokens == 1 && k >= 1, "an unfinished turn ends with exactly one continuation token and made progress")
	}
}

// A producer turn never uploads past max_externalized_response_bytes.
//
//verif:use ipc tokens
//verif:stub time.Now = verifFixedNow
//verif:stub (*github.com/Query-farm/vgi-rpc-go/vgirpc.HttpServer).externalizeStreamDataBatch = verifC19Externalize
//verif:stub encoding/json.Marshal = verifJSONMarshal
//verif:bound one producer turn; max_externalized_response_bytes ANY positive int64; 0..4 data batches of Arrow size 8, 64 or 200; externalization threshold 50 (so 64 and 200 upload, 8 stays inline); the upload helper is replaced by a model charging buffers+16 raw bytes per upload
func verifH_C19_producer_external_cap() {
	verifResetIPC()
	verifToks = nil
	verifSinkBytes, verifWireSize = true, 0
	verifC19Uploaded = 0
	capv := verifNondetInt64("ext_cap")
	verifAssume(capv >= 1)
	n := verifChoice("left", 5)
	st := &verifC19Producer{n: n, sizes: verifC19Sizes(n)}
	h := &HttpServer{server: &Server{serverID: "srv", externalConfig: &ExternalLocationConfig{Storage: verifC19Storage{}, ExternalizeThresholdBytes: 50}},
		tokenKey: []byte("0123456789abcdef0123456789abcdef"), tokenTTL: time.Hour, maxExternalizedResponseBytes: capv}
	info := &methodInfo{Name: "gen", Type: MethodProducer, OutputSchema: verifDataSchema}
	rw := verifNewRecorder()
	err := h.handleProducerContinuation(context.Background(), rw, verifDataSchema, st, info, &CallStatistics{}, nil, nil, nil, "sid", "c1", nil, arrow.Metadata{})
	verifSinkBytes = false
	verifReach("ext-turn-done")
	verifAssert(verifC19Uploaded <= capv, "the Arrow size of the turn's uploads never exceeds max_externalized_response_bytes")
	if err != nil {
		verifReach("ext-refused")
		var capErr *externalCapError
		verifAssert(errors.As(err, &capErr), "the turn stops with the external-cap refusal")
		verifAssert(rw.hdr.Get(rpcErrorHeader) == "true", "a cap refusal is signalled in the response headers")
	}
}
