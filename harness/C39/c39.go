package vgirpc

//verif:ints bv
//verif:unwind 64
//verif:maxconcretize 16
//verif:maxdecisions 4000

func verifC39Record(name string, withStream bool) (map[string]any, string, string) {
	rec := map[string]any{"status": "ok"}
	sid, rid := "", ""
	if withStream {
		sid = verifNondetString(name+".stream_id", 1+verifChoice(name+".stream_id.len", 2))
		rec["stream_id"] = sid
	}
	if verifNondetBool(name + ".has_request_id") {
		rid = verifNondetString(name+".request_id", 1+verifChoice(name+".request_id.len", 2))
		rec["request_id"] = rid
	}
	return rec, sid, rid
}

// Sampling: errors are always kept, a stream (or, absent one, a request) is kept
// or dropped as a whole, and kept non-error records carry the rate.
//
//verif:bound sampler with rate 0.25 and ANY 32-bit threshold (FNV-1a over the key is executed in 32-bit bit-vector arithmetic); two records with stream ids of 1..2 ARBITRARY bytes (or none) and request ids of 1..2 arbitrary bytes (or none); status error or ok. Records carrying neither id fall back to a counter key and are outside the "same decision" clause.
func verifH_C39_sampler() {
	thr := verifNondetUint32("threshold")
	s := &accessLogSampler{rate: 0.25, threshold: thr}
	withStream := verifNondetBool("with_stream_id")
	r1, sid1, rid1 := verifC39Record("r1", withStream)
	r2, sid2, rid2 := verifC39Record("r2", withStream)
	e1 := verifNondetBool("r1.error")
	if e1 {
		r1["status"] = "error"
	}
	k1 := s.keep(r1)
	k2 := s.keep(r2)
	verifReach("sampled")
	if e1 {
		verifReach("error-record")
		verifAssert(k1, "an error record is always kept")
	} else if k1 {
		rate, ok := r1["sample_rate"].(float64)
		verifAssert(ok && rate == 0.25, "a kept non-error record carries the sample rate")
	} else {
		_, stamped := r1["sample_rate"]
		verifAssert(!stamped, "a dropped record is not stamped")
	}
	if !e1 {
		if withStream && sid1 == sid2 {
			verifReach("same-stream")
			verifAssert(k1 == k2, "records sharing a stream id are all kept or all dropped (whatever their request ids)")
		}
		if !withStream && rid1 != "" && rid1 == rid2 {
			verifReach("same-request")
			verifAssert(k1 == k2, "without a stream id, records sharing a request id are all kept or all dropped")
		}
	}
}

// Rate 1.0 keeps everything; the constructor refuses rates outside [0,1].
//
//verif:bound rates 1.0 and three out-of-range values; any threshold
func verifH_C39_rate_edges() {
	s := &accessLogSampler{rate: 1.0, threshold: verifNondetUint32("threshold")}
	rec := map[string]any{"status": "ok", "request_id": verifNondetString("rid", 2)}
	verifReach("edges")
	verifAssert(s.keep(rec), "rate 1.0 keeps every record")
	_, e1 := newAccessLogSampler(1.5)
	_, e2 := newAccessLogSampler(-0.1)
	_, e3 := newAccessLogSampler(0.5)
	verifAssert(e1 != nil && e2 != nil && e3 == nil, "out-of-range rates are refused at configuration")
}

// Async emission: one enqueue from an arbitrary queue fill and pending-drop
// count either queues the record (carrying every pending drop) or counts it as
// dropped; it never blocks and never loses count.
//
//verif:bound inductive step from an ARBITRARY emitter state: queue capacity 1 or 2, 0..capacity records already queued, pending dropped count ANY non-negative 63-bit value, closed or open; one enqueue
func verifH_C39_enqueue_step() {
	capacity := 1 + verifChoice("capacity", 2)
	fill := verifChoice("fill", capacity+1)
	a := &asyncEmitter{ch: make(chan map[string]any, capacity), done: make(chan struct{})}
	for i := 0; i < fill; i++ {
		a.ch <- map[string]any{"n": i}
	}
	d := verifNondetInt64("pending_dropped")
	verifAssume(d >= 0 && d < 1<<62)
	a.dropped = d
	a.closed = verifNondetBool("closed")
	rec := map[string]any{"status": "ok"}
	a.enqueue(rec) // a blocking operation here would be reported by the engine as a deadlock
	verifReach("enqueued")
	queued := len(a.ch)
	stamp, stamped := rec["dropped_records"]
	switch {
	case a.closed:
		verifReach("closed")
		verifAssert(queued == fill && a.dropped == d && !stamped, "after close nothing changes")
	case fill < capacity:
		verifReach("queued")
		verifAssert(queued == fill+1 && a.dropped == 0, "a record that fits is queued and the pending count is cleared")
		if d > 0 {
			v, ok := stamp.(int64)
			verifAssert(stamped && ok && v == d, "the queued record carries every pending drop")
		} else {
			verifAssert(!stamped, "no drop, no stamp")
		}
	default:
		verifReach("dropped")
		verifAssert(queued == fill && a.dropped == d+1 && !stamped, "a record that does not fit is counted as dropped, not stamped and not queued")
	}
}

// Enqueue does not block while close() is waiting for a stalled writer.
//
//verif:bound an emitter with 0..1 queued records whose writer goroutine never finishes draining (the done channel stays open): close() runs as its own goroutine until it parks on the writer, then another goroutine enqueues. A lock acquisition that can never succeed is reported by the engine as a deadlock.
func verifH_C39_enqueue_during_close() {
	a := &asyncEmitter{ch: make(chan map[string]any, 2), done: make(chan struct{})}
	if verifNondetBool("one_queued") {
		a.ch <- map[string]any{"n": 0}
	}
	parked := verifRunUntilBlocked(func() { a.close() })
	verifReach("close-started")
	verifAssert(parked, "close waits for the writer")
	rec := map[string]any{"status": "ok"}
	a.enqueue(rec) // must return: enqueueing never blocks
	verifReach("enqueue-returned")
	_, stamped := rec["dropped_records"]
	verifAssert(!stamped, "a record enqueued after close is ignored")
}
