package vgirpc

import "sync"

// The real emitter with its real writer goroutine, producers and a closer,
// under every interleaving.
//
//verif:ints lia
//verif:sched quick=1 thorough=1
//verif:maxpaths quick=150000 thorough=900000
//verif:race
//verif:bound newAsyncEmitter with queue capacity 1 or 2 and a writer that takes a scheduling point per record; two producer goroutines enqueueing 1..2 records each; close() either after the producers have finished (conservation is then exact) or concurrently with them, and optionally a second close(); ALL interleavings at synchronisation points (mutex, channel, explicit yields in the writer) with at most 1 preemption and unbounded switches at blocking points; the happens-before race detector watches the emitter's own fields
func verifH_C39_async_schedules() {
	capacity := 1 + verifChoice("capacity", 2)
	var written []map[string]any
	a, err := newAsyncEmitter(capacity, func(r map[string]any) {
		verifYield() // a slow writer
		written = append(written, r)
	})
	verifAssert(err == nil && a != nil, "an emitter with a positive queue size starts")
	if a == nil {
		return
	}
	per := 1 + verifChoice("records_per_producer", 2)
	concurrentClose := verifNondetBool("close_concurrently")
	doubleClose := verifNondetBool("close_twice")
	var producers, closer sync.WaitGroup
	for g := 0; g < 2; g++ {
		producers.Add(1)
		g := g
		go func() {
			defer producers.Done()
			for k := 0; k < per; k++ {
				a.enqueue(map[string]any{"id": g*10 + k})
			}
		}()
	}
	if concurrentClose {
		closer.Add(1)
		go func() { defer closer.Done(); a.close() }()
	}
	producers.Wait()
	closer.Wait()
	a.close() // idempotent; drains what is queued and waits for the writer
	if doubleClose {
		a.close()
	}
	verifReach("closed")
	// every written record was enqueued, at most once, and each producer's records keep their order
	total := 2 * per
	var droppedStamps int64
	last := []int{-1, -1}
	seen := map[int]bool{}
	for _, r := range written {
		id, ok := r["id"].(int)
		verifAssert(ok && id >= 0 && id%10 < per && id/10 < 2, "only enqueued records are written")
		if !ok {
			continue
		}
		verifAssert(!seen[id], "no record is written twice")
		seen[id] = true
		verifAssert(id%10 > last[id/10], "a producer's records are written in the order it enqueued them")
		last[id/10] = id % 10
		if d, has := r["dropped_records"]; has {
			n, isInt := d.(int64)
			verifAssert(isInt && n > 0, "a dropped_records stamp is a positive count")
			droppedStamps += n
		}
	}
	a.mu.Lock()
	pending := a.dropped
	a.mu.Unlock()
	if !concurrentClose {
		verifReach("conserved")
		verifAssert(int64(len(written))+droppedStamps+pending == int64(total), "every record enqueued before close is either written or counted as dropped — the stamps on written records plus the count still pending add up")
	} else {
		verifAssert(int64(len(written))+droppedStamps+pending <= int64(total), "records are never invented, and never counted twice, when close races the producers")
	}
	// after close nothing more is accepted
	before := len(written)
	a.enqueue(map[string]any{"id": 99})
	verifAssert(len(written) == before, "a record enqueued after close is discarded")
}
