package vgirpc

//verif:ints lia
//verif:unwind 64
//verif:maxconcretize 16
//verif:maxdecisions 4000

// byte ranges (lo,hi pairs) of the two alphabets, for the non-forking verifAllInSet
const verifC28IDSet = "AZaz09--..__~~"
// every byte except the double quote: the parsers take the bytes between the quotes verbatim, so the
// round trip must hold for anything url.URL.String() can carry in a query (backslashes, non-printable runes, ...)
const verifC28URLSet = "\x00\x21\x23\xff"

// verifC28IDChar: the alphabet Validate() admits for the four credential fields
// (clientIDPattern `^[A-Za-z0-9\-._~]+$`), written independently.
func verifC28IDChar(c byte) bool {
	return (c >= 'A' && c <= 'Z') || (c >= 'a' && c <= 'z') || (c >= '0' && c <= '9') || c == '-' || c == '.' || c == '_' || c == '~'
}

// verifC28URLChar: RFC 3986 characters (unreserved / reserved / '%'); a raw
// double quote or space is not a URL character.
func verifC28URLChar(c byte) bool {
	if verifC28IDChar(c) {
		return true
	}
	switch c {
	case ':', '/', '?', '#', '[', ']', '@', '!', '$', '&', '\'', '(', ')', '*', '+', ',', ';', '=', '%':
		return true
	}
	return false
}

func verifC28Field(name string, max int) string {
	n := verifChoice(name+".len", max+1)
	s := verifNondetString(name, n)
	verifAssume(verifAllInSet(s, verifC28IDSet))
	return s
}

func verifC28MaxField() int {
	if verifTier() == 1 {
		return 3
	}
	return 2
}

// Every parser recovers exactly the advertised value ("" when absent) for every
// metadata value Validate() admits.
//
//verif:bound the four optional credential fields: every string of length 0..2 (quick) / 0..3 (thorough) over the validated alphabet; flag arbitrary; metadata URL = "https://h/" followed by 0..2 (quick) / 0..3 (thorough) ARBITRARY bytes other than the double quote. Longer values are outside the claim.
func verifH_C28_roundtrip() {
	mf := verifC28MaxField()
	m := &OAuthResourceMetadata{Resource: "https://h/", AuthorizationServers: []string{"https://as/"}}
	m.ClientID = verifC28Field("client_id", mf)
	m.ClientSecret = verifC28Field("client_secret", mf)
	m.DeviceCodeClientID = verifC28Field("dc_id", mf)
	m.DeviceCodeClientSecret = verifC28Field("dc_secret", mf)
	m.UseIDTokenAsBearer = verifNondetBool("use_id_token")
	verifAssert(m.Validate() == nil, "the generated metadata passes Validate")
	un := verifChoice("url.len", mf+1)
	tail := verifNondetString("url", un)
	verifAssume(verifAllInSet(tail, verifC28URLSet))
	u := "https://h/" + tail
	h := buildWWWAuthenticate(u, m)
	verifReach("built")
	verifAssert(ParseResourceMetadataURL(h) == u, "resource_metadata URL recovered exactly")
	verifAssert(ParseClientID(h) == m.ClientID, "client_id recovered exactly (empty when absent)")
	verifAssert(ParseClientSecret(h) == m.ClientSecret, "client_secret recovered exactly (empty when absent)")
	verifAssert(ParseDeviceCodeClientID(h) == m.DeviceCodeClientID, "device_code_client_id recovered exactly (empty when absent)")
	verifAssert(ParseDeviceCodeClientSecret(h) == m.DeviceCodeClientSecret, "device_code_client_secret recovered exactly (empty when absent)")
	verifAssert(ParseUseIDTokenAsBearer(h) == m.UseIDTokenAsBearer, "use_id_token_as_bearer flag recovered")
}

// A metadata URL whose own text ends in a parameter name followed by '=' must
// not confuse the parameter scanner.
//
//verif:bound metadata URL = "https://h/?" + P + "=" for P any of the five parameter names, optionally followed by 0..1 arbitrary bytes other than the double quote; credential fields of length 0..1
func verifH_C28_url_embeds_param() {
	names := []string{"client_id", "client_secret", "device_code_client_id", "device_code_client_secret", "use_id_token_as_bearer"}
	k := verifChoice("which", len(names))
	m := &OAuthResourceMetadata{Resource: "https://h/", AuthorizationServers: []string{"https://as/"}}
	m.ClientID = verifC28Field("client_id", 1)
	m.ClientSecret = verifC28Field("client_secret", 1)
	m.DeviceCodeClientID = verifC28Field("dc_id", 1)
	m.DeviceCodeClientSecret = verifC28Field("dc_secret", 1)
	m.UseIDTokenAsBearer = verifNondetBool("use_id_token")
	un := verifChoice("url.len", 2)
	tail := verifNondetString("url", un)
	verifAssume(verifAllInSet(tail, verifC28URLSet))
	u := "https://h/?" + names[k] + "=" + tail
	h := buildWWWAuthenticate(u, m)
	verifReach("built")
	verifAssert(ParseResourceMetadataURL(h) == u, "resource_metadata URL recovered exactly")
	verifAssert(ParseClientID(h) == m.ClientID, "client_id recovered exactly (empty when absent)")
	verifAssert(ParseClientSecret(h) == m.ClientSecret, "client_secret recovered exactly (empty when absent)")
	verifAssert(ParseDeviceCodeClientID(h) == m.DeviceCodeClientID, "device_code_client_id recovered exactly (empty when absent)")
	verifAssert(ParseDeviceCodeClientSecret(h) == m.DeviceCodeClientSecret, "device_code_client_secret recovered exactly (empty when absent)")
	verifAssert(ParseUseIDTokenAsBearer(h) == m.UseIDTokenAsBearer, "use_id_token_as_bearer flag recovered")
}

// The same round trip with the admitted values decided by Validate() itself rather
// than by the harness's copy of its alphabet: whatever the validator lets through
// must come back from the header unchanged.
//
//verif:bound one of the four credential fields is ANY string of 1..2 (thorough 1..3) printable ASCII bytes (0x20..0x7e: quotes, backslashes, commas, spaces, '=' included) that the real Validate() accepts, the other three are fixed valid values or absent; fixed metadata URL
func verifH_C28_validated_values_roundtrip() {
	m := &OAuthResourceMetadata{Resource: "https://h/", AuthorizationServers: []string{"https://as/"}}
	n := 1 + verifChoice("value.len", verifC28MaxField())
	v := verifNondetString("value", n)
	verifAssume(verifAllInSet(v, "\x20\x7e"))
	others := verifNondetBool("others_present")
	fill := func(p *string) {
		if others {
			*p = "x1"
		}
	}
	fill(&m.ClientID)
	fill(&m.ClientSecret)
	fill(&m.DeviceCodeClientID)
	fill(&m.DeviceCodeClientSecret)
	which := verifChoice("field", 4)
	switch which {
	case 0:
		m.ClientID = v
	case 1:
		m.ClientSecret = v
	case 2:
		m.DeviceCodeClientID = v
	default:
		m.DeviceCodeClientSecret = v
	}
	verifAssume(m.Validate() == nil)
	verifReach("validated")
	h := buildWWWAuthenticate("https://h/meta", m)
	verifAssert(ParseResourceMetadataURL(h) == "https://h/meta", "resource_metadata URL recovered exactly")
	verifAssert(ParseClientID(h) == m.ClientID, "client_id recovered exactly, for every value the validator admits")
	verifAssert(ParseClientSecret(h) == m.ClientSecret, "client_secret recovered exactly, for every value the validator admits")
	verifAssert(ParseDeviceCodeClientID(h) == m.DeviceCodeClientID, "device_code_client_id recovered exactly, for every value the validator admits")
	verifAssert(ParseDeviceCodeClientSecret(h) == m.DeviceCodeClientSecret, "device_code_client_secret recovered exactly, for every value the validator admits")
}
