package vgirpc

import (
	"context"
	"net/http"
	"net/url"
	"time"

	"github.com/apache/arrow-go/v18/arrow"
)

//verif:quote approx
//verif:ints lia
//verif:unwind 64
//verif:maxconcretize 16
//verif:maxdecisions 8000
//verif:maxpaths quick=80000 thorough=600000

// What a client sees of a stream, transport-neutral: the header (if any) and the
// sequence of logs, data batches and the terminating error. Framework metadata
// (cursors, call tokens, request ids, server ids) is not part of it.
type verifC11Item struct {
	kind  int // 0 data, 1 log, 2 exception
	tag   int
	rows  int64
	level string
	msg   string
	etype string
}

type verifC11View struct {
	header   []verifC11Item
	items    []verifC11Item
	hasHdr   bool
	complete bool // every response stream was closed
}

func verifC11Classify(b *verifBatch, excTypes *[]string) (verifC11Item, bool) {
	if verifIsException(b) {
		it := verifC11Item{kind: 2}
		it.msg, _ = verifMetaGet(b, MetaLogMessage)
		if len(*excTypes) > 0 {
			it.etype = (*excTypes)[0]
			*excTypes = (*excTypes)[1:]
		}
		return it, true
	}
	if verifIsLog(b) {
		it := verifC11Item{kind: 1}
		it.level, _ = verifMetaGet(b, MetaLogLevel)
		it.msg, _ = verifMetaGet(b, MetaLogMessage)
		return it, true
	}
	if b.rows == 0 {
		// zero-row framework batch (cursor carrier): not client data
		if _, isTok := verifMetaGet(b, MetaStreamState); isTok {
			return verifC11Item{}, false
		}
	}
	return verifC11Item{kind: 0, tag: b.tag, rows: b.rows}, true
}

func verifC11ExcTypes(from int) []string {
	var out []string
	for _, v := range verifJSONAll[from:] {
		if ex, ok := v.(errorExtra); ok {
			out = append(out, ex.ExceptionType)
		}
	}
	return out
}

type verifC11Scenario struct {
	method string // p, ph, x
	turns  []int
	inputs int // exchange: inputs the client sends; producers: drained to the end
}

func (sc *verifC11Scenario) state() interface{} {
	st := verifPipeState{producer: sc.method != "x", turns: append([]int(nil), sc.turns...)}
	if sc.method == "x" {
		return &verifPipeExchange{verifPipeState: st}
	}
	return &verifPipeProducer{st}
}

func (sc *verifC11Scenario) install(state interface{}) {
	verifHFn = func(ctx context.Context, cc *CallContext) (interface{}, error) {
		cc.ClientLog(LogInfo, "init log")
		res := &StreamResult{OutputSchema: verifDataSchema, State: state}
		if sc.method == "ph" {
			res.Header = verifHeader{}
		}
		return res, nil
	}
	verifHeaderStream = &verifInStream{batches: []*verifBatch{verifNewBatch(verifDataSchema, 1, 999, nil, nil)}, schema: verifDataSchema, failAt: -1}
}

// over a pipe: one serveOne call; the client writes its whole input stream behind the request
func (sc *verifC11Scenario) pipe() verifC11View {
	verifResetIPC()
	verifResetHandler()
	verifJSONAll = nil
	state := sc.state()
	sc.install(state)
	s := verifPipeServer()
	verifQueueRequest(1, 0, []string{MetaMethod, MetaRequestVersion}, []string{sc.method, ProtocolVersion})
	n := sc.inputs
	if sc.method != "x" {
		n = len(sc.turns) + 2 // more ticks than the producer has turns: the stream is drained
	}
	var bs []*verifBatch
	for i := 0; i < n; i++ {
		if sc.method == "x" {
			bs = append(bs, verifNewBatch(verifDataSchema, 1, 10+i, nil, nil))
		} else {
			bs = append(bs, verifNewBatch(verifEmptySchema, 0, 0, nil, nil))
		}
	}
	verifInQueue = append(verifInQueue, &verifInStream{batches: bs, schema: verifDataSchema, failAt: -1})
	sink := &verifSink{}
	err := s.serveOne(context.Background(), &verifConn{}, sink, &shmConnState{})
	verifAssert(err == nil, "the pipe call is answered")
	view := verifC11View{complete: true}
	exc := verifC11ExcTypes(0)
	out := verifSinkStreams(sink)
	for k, st := range out {
		if !st.closed {
			view.complete = false
		}
		isHeader := sc.method == "ph" && k == 0 && len(out) > 1
		for _, b := range st.batches {
			it, ok := verifC11Classify(b, &exc)
			if !ok {
				continue
			}
			if isHeader {
				view.header, view.hasHdr = append(view.header, it), true
			} else {
				view.items = append(view.items, it)
			}
		}
	}
	return view
}

func verifC11Request(method, suffix string) *http.Request {
	r := &http.Request{Method: "POST", Header: http.Header{}, URL: &url.URL{Path: "/" + method + suffix}, RemoteAddr: "1.2.3.4:5"}
	r.Header.Set("Content-Type", arrowContentType)
	r.SetPathValue("method", method)
	return r.WithContext(context.Background())
}

// over HTTP: /init, then one continuation per response that carried a cursor
// (producers) or one POST per input (exchanges); every request may be served
// by another instance sharing the token key.
func (sc *verifC11Scenario) http(limit int, cache bool, instances int) verifC11View {
	verifResetIPC()
	verifResetHandler()
	verifToks = nil
	verifRandCtr = 0
	verifJSONAll = nil
	state := sc.state()
	sc.install(state)
	hs := make([]*HttpServer, instances)
	for i := range hs {
		h := &HttpServer{server: verifPipeServer(), tokenKey: verifXKey, tokenTTL: time.Hour}
		h.server.serverID = "srv"
		n := 0
		if cache {
			n = defaultCallStateCacheEntries
		}
		h.callStates = newCallStateCache(n, time.Hour)
		h.producerBatchLimit = limit
		hs[i] = h
	}
	view := verifC11View{complete: true}
	seen := 0
	excFrom := 0
	cursor, callTok := "", ""
	collect := func(first bool) {
		exc := verifC11ExcTypes(excFrom)
		excFrom = len(verifJSONAll)
		out := verifOutStreams[seen:]
		seen = len(verifOutStreams)
		cursor = ""
		// the response body: [header stream] + data stream (an error answer is a single stream)
		for k, st := range out {
			if st.schema == nil && len(st.batches) == 0 {
				continue
			}
			if !st.closed {
				view.complete = false
			}
			isHeader := first && sc.method == "ph" && k == 0 && len(out) > 1
			for _, b := range st.batches {
				if v, ok := verifMetaGet(b, MetaStreamState); ok && v != "" {
					cursor = v
				}
				if v, ok := verifMetaGet(b, MetaCallState); ok && v != "" {
					callTok = v
				}
				it, ok := verifC11Classify(b, &exc)
				if !ok {
					continue
				}
				if isHeader {
					view.header, view.hasHdr = append(view.header, it), true
				} else {
					view.items = append(view.items, it)
				}
			}
		}
	}
	// init
	params := verifNewBatch(verifDataSchema, 1, 1, []string{MetaMethod, MetaRequestVersion}, []string{sc.method, ProtocolVersion})
	verifInQueue = append(verifInQueue, &verifInStream{batches: []*verifBatch{params}, schema: verifDataSchema, failAt: -1})
	hs[0].handleStreamInit(verifNewRecorder(), verifC11Request(sc.method, "/init"))
	collect(true)
	turn := 0
	post := func(in *verifBatch) {
		turn++
		in.meta, in.hasMeta = arrow.NewMetadata([]string{MetaStreamState, MetaCallState}, []string{cursor, callTok}), true
		verifInQueue = append(verifInQueue, &verifInStream{batches: []*verifBatch{in}, schema: in.schema, failAt: -1})
		hs[turn%instances].handleStreamExchange(verifNewRecorder(), verifC11Request(sc.method, "/exchange"))
		collect(false)
	}
	if sc.method == "x" {
		for i := 0; i < sc.inputs && cursor != ""; i++ {
			post(verifNewBatch(verifDataSchema, 1, 10+i, nil, nil))
		}
	} else {
		for steps := 0; cursor != "" && steps < len(sc.turns)+3; steps++ {
			post(verifNewBatch(verifEmptySchema, 0, 0, nil, nil))
		}
		verifAssert(cursor == "", "a producer stream over HTTP ends (no cursor) within as many continuations as it has turns")
	}
	return view
}

func verifC11Same(a, b []verifC11Item, what string) {
	verifAssert(len(a) == len(b), "the same number of "+what+" over both transports")
	for i := 0; i < len(a) && i < len(b); i++ {
		verifAssert(a[i].kind == b[i].kind, what+": the same kind of batch at every position (log / data / error)")
		if a[i].kind != b[i].kind {
			continue
		}
		switch a[i].kind {
		case 0:
			verifAssert(a[i].tag == b[i].tag && a[i].rows == b[i].rows, what+": the same data batch at every position")
		case 1:
			verifAssert(a[i].level == b[i].level && a[i].msg == b[i].msg, what+": the same log message at every position")
		case 2:
			verifAssert(a[i].etype == b[i].etype && a[i].msg == b[i].msg, what+": the same terminating error (type and message)")
		}
	}
}

// A stream looks the same over HTTP as over a pipe.
//
//verif:use ipc pipe handler httpx tokens
//verif:bound producer, producer-with-header, exchange and dynamic (registered without an output schema; the stream result supplies it and the call token carries it across requests) methods whose deterministic ghost state plays 1..2 (thorough: 1..3) turns, each ANY of: emit | log+emit | no emit | two emits | finish | error | panic | emit+finish (producers finish after their last turn, exchanges keep emitting); the init handler logs once; exchanges receive 1..2 (3) inputs, producers are drained; over HTTP the producer batch limit is 0 (unlimited), 1 or 2, the call-state cache is on or off (0 entries) and every request is served by 1 or 2 instances sharing the token key in rotation; compared: header batch, the sequence of log / data / error batches (payload identity, rows, level, message, exception type). Abstract IPC (batch contents are payload tags), ideal token algebra with the state carried by reference (a linear client never re-presents a cursor), ghost handler, no response compression (it wraps the body after the handlers and is C17's subject)
func verifH_C11_same_stream_over_both_transports() {
	sc := &verifC11Scenario{method: []string{"p", "ph", "x", "d"}[verifChoice("method", 4)]}
	maxTurns := 2
	if verifTier() == 1 {
		maxTurns = 3
	}
	nt := 1 + verifChoice("turns", maxTurns)
	for i := 0; i < nt; i++ {
		sc.turns = append(sc.turns, verifChoice("turn", verifNTurnKinds))
	}
	if sc.method == "x" {
		sc.inputs = 1 + verifChoice("inputs", maxTurns)
	}
	limit := verifChoice("batch_limit", 3)
	cache := verifNondetBool("call_cache")
	instances := 1 + verifChoice("instances", 2)
	pv := sc.pipe()
	hv := sc.http(limit, cache, instances)
	verifReach("both-run")
	verifAssert(pv.complete && hv.complete, "every response stream is complete on both transports")
	verifAssert(pv.hasHdr == hv.hasHdr, "a header is delivered over both transports or neither")
	verifC11Same(pv.header, hv.header, "header")
	verifC11Same(pv.items, hv.items, "stream")
	if len(pv.items) > 0 && pv.items[len(pv.items)-1].kind == 2 {
		verifReach("ends-in-error")
	}
}
