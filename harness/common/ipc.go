package vgirpc

// Abstract Arrow IPC (DESIGN 2.7). arrow-go's readers, writers, builders and
// arrays (flatbuffers, unsafe casts, allocators) are out of the engine's reach;
// where the repository's own logic consumes or produces IPC streams the
// harnesses replace them with this model:
//
//   - a batch is {schema identity, row count, custom metadata (real
//     arrow.Metadata), a tag naming the logical payload, a buffer size};
//   - an input is a queue of streams; the k-th ipc.NewReader call reads the k-th
//     stream (sequential framing on a shared connection: a reader that did not
//     drain its stream before the next NewReader is recorded as a desync);
//   - ipc.NewWriter opens a new output stream on a sink; Write appends the
//     batch as written (schema, rows, metadata, tag), Close ends the stream.
//
// Contract encoded (arrow-go v18.6 documented behaviour): the reader yields
// exactly what was written, custom metadata rides the batch (not the schema),
// reads fail only by returning an error, Writer.Write refuses a batch whose
// schema differs from the writer's.

import (
	"bytes"
	"errors"
	"io"
	"net/http"

	"github.com/apache/arrow-go/v18/arrow"
	"github.com/apache/arrow-go/v18/arrow/ipc"
)

type verifBatch struct {
	schema  *arrow.Schema
	rows    int64
	meta    arrow.Metadata
	hasMeta bool
	tag     int   // logical payload identity (0 = no payload / zero-row framework batch)
	size    int64 // what batchBufferSize reports
	refs    int
	cols    []arrow.Array // real column objects, when a harness needs cell values (C07); nil: abstract columns
}

type verifCol struct{ src *verifBatch }

func (c *verifCol) MarshalJSON() ([]byte, error)       { return []byte("null"), nil }
func (c *verifCol) String() string                     { return "col" }
func (c *verifCol) DataType() arrow.DataType           { return nil }
func (c *verifCol) NullN() int                         { return 0 }
func (c *verifCol) NullBitmapBytes() []byte            { return nil }
func (c *verifCol) IsNull(i int) bool                  { return false }
func (c *verifCol) IsValid(i int) bool                 { return true }
func (c *verifCol) ValueStr(i int) string              { return "" }
func (c *verifCol) GetOneForMarshal(i int) interface{} { return nil }
func (c *verifCol) Data() arrow.ArrayData              { return nil }
func (c *verifCol) Len() int                           { return int(c.src.rows) }
func (c *verifCol) Retain()                            {}
func (c *verifCol) Release()                           {}

func (b *verifBatch) MarshalJSON() ([]byte, error) { return []byte("null"), nil }
func (b *verifBatch) Release() {
	if b.refs <= 0 {
		verifOverRelease++
	}
	b.refs--
}
func (b *verifBatch) Retain() { b.refs++ }
func (b *verifBatch) Schema() *arrow.Schema        { return b.schema }
func (b *verifBatch) NumRows() int64               { return b.rows }
func (b *verifBatch) NumCols() int64               { return int64(b.schema.NumFields()) }
func (b *verifBatch) Columns() []arrow.Array {
	if b.cols != nil {
		return b.cols
	}
	return []arrow.Array{&verifCol{src: b}}
}
func (b *verifBatch) Column(i int) arrow.Array {
	if b.cols != nil {
		return b.cols[i]
	}
	return &verifCol{src: b}
}
func (b *verifBatch) ColumnName(i int) string      { return b.schema.Field(i).Name }
func (b *verifBatch) SetColumn(i int, col arrow.Array) (arrow.RecordBatch, error) {
	return nil, errors.New("verifBatch: SetColumn not modelled")
}
// Ownership ledger (C41): every batch object made through the constructors below
// is registered; Release below zero is counted.
var (
	verifAllBatches  []*verifBatch
	verifOverRelease int
)

func verifRegister(b *verifBatch) *verifBatch {
	verifAllBatches = append(verifAllBatches, b)
	return b
}

func (b *verifBatch) NewSlice(i, j int64) arrow.RecordBatch {
	return verifRegister(&verifBatch{schema: b.schema, rows: j - i, meta: b.meta, hasMeta: b.hasMeta, tag: b.tag, size: b.size, refs: 1})
}

// verifLedger reports what the ledger shows after a call: batches made during the
// call (by the framework or handed to it by a handler) still holding a reference,
// and reader-owned input batches whose count is not back at the reader's own 1.
func verifLedger() (leaked, inputsUnbalanced int) {
	isInput := func(b *verifBatch) bool {
		for _, q := range [][]*verifInStream{verifInQueue, verifMemQueue, {verifHeaderStream, verifFetchedStream}} {
			for _, st := range q {
				if st == nil {
					continue
				}
				for _, x := range st.batches {
					if x == b {
						return true
					}
				}
			}
		}
		return false
	}
	for _, b := range verifAllBatches {
		if isInput(b) {
			if b.refs != 1 {
				inputsUnbalanced++
			}
		} else if b.refs != 0 {
			leaked++
		}
	}
	return
}
func (b *verifBatch) Metadata() arrow.Metadata { return b.meta }

// verifEmptySchema / verifDataSchema: two distinct schema identities.
var (
	verifEmptySchema = arrow.NewSchema(nil, nil)
	verifDataSchema  = arrow.NewSchema([]arrow.Field{{Name: "x", Type: &arrow.Int64Type{}}}, nil)
)

func verifNewBatch(schema *arrow.Schema, rows int64, tag int, keys, vals []string) *verifBatch {
	b := &verifBatch{schema: schema, rows: rows, tag: tag, refs: 1}
	if keys != nil {
		b.meta = arrow.NewMetadata(keys, vals)
		b.hasMeta = true
	}
	return verifRegister(b)
}

func verifSrcOf(cols []arrow.Array) *verifBatch {
	if len(cols) > 0 {
		if c, ok := cols[0].(*verifCol); ok {
			return c.src
		}
	}
	return nil
}

// ---- stubs for arrow/array constructors used by the repository ----

func verifNewRecordBatchWithMetadata(schema *arrow.Schema, cols []arrow.Array, nrows int64, meta arrow.Metadata) arrow.RecordBatchWithMetadata {
	nb := &verifBatch{schema: schema, rows: nrows, meta: meta, hasMeta: true, refs: 1}
	if src := verifSrcOf(cols); src != nil {
		nb.tag, nb.size = src.tag, src.size
	}
	return verifRegister(nb)
}

func verifNewRecordBatch(schema *arrow.Schema, cols []arrow.Array, nrows int64) arrow.RecordBatch {
	nb := &verifBatch{schema: schema, rows: nrows, refs: 1}
	if src := verifSrcOf(cols); src != nil {
		nb.tag, nb.size = src.tag, src.size
	}
	return verifRegister(nb)
}

func verifEmptyBatch(schema *arrow.Schema) arrow.RecordBatch {
	return verifRegister(&verifBatch{schema: schema, rows: 0, refs: 1})
}

func verifBatchBufferSize(batch arrow.RecordBatch) int64 {
	if b, ok := batch.(*verifBatch); ok {
		return b.size
	}
	return 0
}

// ---- input side ----

type verifInStream struct {
	batches []*verifBatch
	schema  *arrow.Schema
	failAt  int   // index at which Next fails with an error (-1: never)
	bad     bool  // the bytes are not an IPC stream: NewReader fails
	pos     int   // batches consumed
	atEOS   bool  // Next returned false
	cur     *verifBatch
	err     error
	opened  bool
	overread bool // read through a read-ahead wrapper created for this stream only
}

var (
	verifInQueue   []*verifInStream
	verifInNext    int
	verifInDesync  int // NewReader calls made while the previous stream was not drained to EOS
	verifInLost    int // streams swallowed by a read-ahead wrapper that was dropped
	verifReaders   []*ipc.Reader
	verifReaderSt  []*verifInStream
	verifLastRdSrc io.Reader
)

func verifResetIPC() {
	verifInQueue, verifInNext, verifInDesync, verifInLost = nil, 0, 0, 0
	verifReaders, verifReaderSt = nil, nil
	verifOutStreams, verifWriters, verifWriterSt = nil, nil, nil
	verifOptSchema = nil
	verifMemQueue, verifMemNext = nil, 0
	verifAllBatches, verifOverRelease = nil, 0
}

func verifStreamOf(r *ipc.Reader) *verifInStream {
	for i, x := range verifReaders {
		if x == r {
			return verifReaderSt[i]
		}
	}
	panic("verif ipc: unknown reader")
}

// verifConn is the connection's byte stream (pipe / socket). Reads of IPC
// streams from it are served from the input queue in order.
type verifConn struct{ reads int }

func (c *verifConn) Read(p []byte) (int, error) { panic("verifConn is read through the abstract IPC reader only") }

// verifQueuedConn: a connection with an input queue of its own.
type verifQueuedConn interface {
	verifNextStream() (*verifInStream, bool)
}

// verifSink is the connection's write side.
type verifSink struct{ n int }

func (s *verifSink) Write(p []byte) (int, error) { s.n += len(p); return len(p), nil }

var verifHeaderStream *verifInStream // what an in-memory header IPC blob ('H'...) decodes to
var verifFetchedStream *verifInStream // what an in-memory fetched external payload ('F'...) decodes to

// In-memory concatenations: a byte slice of k 'S' bytes stands for k IPC streams
// back to back; each NewReader over it consumes one byte (so the caller's
// bytes.Reader advances exactly past one stream) and serves the next entry of verifMemQueue.
var (
	verifMemQueue []*verifInStream
	verifMemNext  int
)

func verifIpcNewReader(r io.Reader, opts ...ipc.Option) (*ipc.Reader, error) {
	verifLastRdSrc = r
	// in-memory blobs produced by stubbed serialisers are recognised by their first byte
	if br, ok := r.(*bytes.Reader); ok && br.Len() > 0 {
		b, _ := br.ReadByte()
		if b == 'S' {
			if verifMemNext >= len(verifMemQueue) {
				return nil, io.EOF
			}
			src := verifMemQueue[verifMemNext]
			verifMemNext++
			if src.bad {
				return nil, errors.New("arrow/ipc: could not read message schema")
			}
			cp := *src
			cp.opened = true
			rd := &ipc.Reader{}
			verifReaders = append(verifReaders, rd)
			verifReaderSt = append(verifReaderSt, &cp)
			return rd, nil
		}
		_ = br.UnreadByte()
		if b == 'H' || b == 'F' {
			st := &verifInStream{failAt: -1, opened: true}
			src := verifHeaderStream
			if b == 'F' {
				src = verifFetchedStream
			}
			if src != nil {
				if src.bad {
					return nil, errors.New("arrow/ipc: could not read message schema")
				}
				cp := *src
				st = &cp
				st.opened = true
			}
			rd := &ipc.Reader{}
			verifReaders = append(verifReaders, rd)
			verifReaderSt = append(verifReaderSt, st)
			return rd, nil
		}
	}
	// a connection that carries its own input (several connections served side by side, C42)
	if qc, ok := r.(verifQueuedConn); ok {
		st, more := qc.verifNextStream()
		if !more {
			return nil, io.EOF
		}
		st.opened = true
		if st.bad {
			st.atEOS = true
			return nil, errors.New("arrow/ipc: could not read message schema")
		}
		rd := &ipc.Reader{}
		verifReaders = append(verifReaders, rd)
		verifReaderSt = append(verifReaderSt, st)
		return rd, nil
	}
	if verifInNext > 0 {
		prev := verifInQueue[verifInNext-1]
		if prev.opened && !prev.atEOS && !prev.bad {
			verifInDesync++
		}
	}
	if verifInNext >= len(verifInQueue) {
		return nil, io.EOF
	}
	st := verifInQueue[verifInNext]
	verifInNext++
	st.opened = true
	// A reader that is neither the connection itself nor an in-memory blob is a
	// wrapper created around the connection for this one stream (bufio and the
	// like). Such a wrapper reads ahead: when it is dropped at the end of its
	// stream, whatever it buffered beyond the frame — the next stream on the
	// connection — is lost with it.
	if _, isConn := r.(*verifConn); !isConn {
		if _, isMem := r.(*bytes.Reader); !isMem {
			st.overread = true
		}
	}
	if st.bad {
		st.atEOS = true // garbage consumes the connection's framing; recorded by the harness separately
		return nil, errors.New("arrow/ipc: could not read message schema")
	}
	rd := &ipc.Reader{}
	verifReaders = append(verifReaders, rd)
	verifReaderSt = append(verifReaderSt, st)
	return rd, nil
}

func verifReaderNext(r *ipc.Reader) bool {
	st := verifStreamOf(r)
	if st.atEOS || st.err != nil {
		return false
	}
	if st.failAt >= 0 && st.pos == st.failAt {
		st.err = errors.New("arrow/ipc: truncated message")
		st.cur = nil
		return false
	}
	if st.pos >= len(st.batches) {
		if !st.atEOS && st.overread && verifInNext < len(verifInQueue) {
			verifInQueue[verifInNext].opened = true
			verifInQueue[verifInNext].atEOS = true
			verifInNext++
			verifInLost++
		}
		st.atEOS = true
		st.cur = nil
		return false
	}
	st.cur = st.batches[st.pos]
	st.pos++
	return true
}

func verifReaderRecordBatch(r *ipc.Reader) arrow.RecordBatch {
	st := verifStreamOf(r)
	if st.cur == nil {
		return nil
	}
	return st.cur
}
func verifReaderErr(r *ipc.Reader) error { return verifStreamOf(r).err }
func verifReaderRelease(r *ipc.Reader)   {}
func verifReaderRetain(r *ipc.Reader)    {}
func verifReaderSchema(r *ipc.Reader) *arrow.Schema {
	return verifStreamOf(r).schema
}

// ---- output side ----

type verifOutStream struct {
	sink    io.Writer
	schema  *arrow.Schema
	batches []*verifBatch
	closed  bool
	closes  int
	bytes   int64 // ghost wire size of this stream
}

var (
	verifOutStreams []*verifOutStream
	verifWriters    []*ipc.Writer
	verifWriterSt   []*verifOutStream
	verifOptSchema  *arrow.Schema
	verifWriteFail  bool  // when set, Writer.Write fails (schema/batch mismatch class of errors)
	verifWireSize   int64 // ghost wire size charged per written batch when its own size is 0
	verifSinkBytes  bool  // also write that many (zero) bytes into the sink; sizes must then be concrete
)

func verifIpcWithSchema(s *arrow.Schema) ipc.Option { verifOptSchema = s; return nil }

func verifIpcNewWriter(w io.Writer, opts ...ipc.Option) *ipc.Writer {
	wr := &ipc.Writer{}
	st := &verifOutStream{sink: w, schema: verifOptSchema}
	verifOptSchema = nil
	verifOutStreams = append(verifOutStreams, st)
	verifWriters = append(verifWriters, wr)
	verifWriterSt = append(verifWriterSt, st)
	return wr
}

func verifOutOf(w *ipc.Writer) *verifOutStream {
	for i, x := range verifWriters {
		if x == w {
			return verifWriterSt[i]
		}
	}
	panic("verif ipc: unknown writer")
}

func verifWriterWrite(w *ipc.Writer, rec arrow.RecordBatch) error {
	st := verifOutOf(w)
	if st.closed {
		return errors.New("arrow/ipc: write on closed writer")
	}
	if verifWriteFail {
		return errors.New("arrow/ipc: write failed")
	}
	b, ok := rec.(*verifBatch)
	if !ok {
		return errors.New("verif ipc: foreign batch type")
	}
	if st.schema != nil && b.schema != st.schema && !b.schema.Equal(st.schema) {
		return errors.New("arrow/ipc: tried to write record batch with different schema")
	}
	cp := *b
	st.batches = append(st.batches, &cp)
	n := b.size
	if n <= 0 {
		n = verifWireSize
	}
	st.bytes += n
	if verifSinkBytes && st.sink != nil && n > 0 {
		// make the body length visible to code that measures the sink (bytes.Buffer.Len)
		st.sink.Write(make([]byte, int(n)))
	}
	return nil
}

func verifWriterClose(w *ipc.Writer) error {
	st := verifOutOf(w)
	st.closes++
	st.closed = true
	return nil
}

// verifMetaGet reads a key from a written/received batch's custom metadata.
func verifMetaGet(b *verifBatch, key string) (string, bool) {
	if !b.hasMeta {
		return "", false
	}
	return b.meta.GetValue(key)
}

// verifRecorder is an http.ResponseWriter that records what it is given.
type verifRecorder struct {
	hdr     http.Header
	status  int
	bodyLen int
	writes  int
}

func verifNewRecorder() *verifRecorder { return &verifRecorder{hdr: http.Header{}} }
func (w *verifRecorder) Header() http.Header { return w.hdr }
func (w *verifRecorder) WriteHeader(code int) {
	if w.status == 0 {
		w.status = code
	}
}
func (w *verifRecorder) Write(b []byte) (int, error) {
	if w.status == 0 {
		w.status = 200
	}
	w.writes++
	w.bodyLen += len(b)
	return len(b), nil
}

// ---- schema (de)serialisation: an injective opaque encoding ----

var verifSchemas []*arrow.Schema

// verifSameSchema: what an IPC schema message carries — fields (order, names, types,
// nullability, field metadata) and schema-level metadata. Two schema objects with the
// same content serialise to the same bytes.
func verifSameSchema(a, b *arrow.Schema) bool {
	if a == b {
		return true
	}
	if a == nil || b == nil {
		return false
	}
	return a.Equal(b) && a.Metadata().Equal(b.Metadata())
}

func verifSerializeSchema(s *arrow.Schema) []byte {
	for i, x := range verifSchemas {
		if verifSameSchema(x, s) {
			return []byte{'S', byte('a' + i)}
		}
	}
	verifSchemas = append(verifSchemas, s)
	return []byte{'S', byte('a' + len(verifSchemas) - 1)}
}

func verifDeserializeSchema(data []byte) (*arrow.Schema, error) {
	if len(data) != 2 || data[0] != 'S' || int(data[1]-'a') >= len(verifSchemas) {
		return nil, errors.New("schema deserialization: invalid bytes")
	}
	return verifSchemas[int(data[1]-'a')], nil
}
