package vgirpc

// Verification intrinsics. The symbolic engine intercepts every verif* function
// by name (the bodies below never run symbolically); compiled natively, the same
// functions read the solver's model from $VERIF_MODEL so that a counterexample is
// replayed against the real build.

import (
	"encoding/hex"
	"reflect"
	"unsafe"
	"encoding/json"
	"fmt"
	"os"
	"strconv"
	"strings"
	"time"
)

type verifAssumeFailed struct{}

var (
	verifModel      map[string]string
	verifModelLabel string
	verifNameCount  = map[string]int{}
	verifFailures   []string
)

func verifLoadModel() {
	if verifModel != nil {
		return
	}
	verifModel = map[string]string{}
	p := os.Getenv("VERIF_MODEL")
	if p == "" {
		return
	}
	b, err := os.ReadFile(p)
	if err != nil {
		panic(err)
	}
	var f struct {
		Model map[string]string `json:"model"`
		Label string            `json:"label"`
	}
	if err := json.Unmarshal(b, &f); err != nil {
		panic(err)
	}
	verifModel = f.Model
	verifModelLabel = f.Label
}

func verifLookup(name string) (string, bool) {
	verifLoadModel()
	k := verifNameCount[name]
	verifNameCount[name] = k + 1
	v, ok := verifModel[fmt.Sprintf("%s#%d", name, k)]
	return v, ok
}

func verifNondetInt64(name string) int64 {
	v, ok := verifLookup(name)
	if !ok {
		return 0
	}
	i, err := strconv.ParseInt(v, 10, 64)
	if err != nil {
		u, _ := strconv.ParseUint(v, 10, 64)
		return int64(u)
	}
	return i
}
func verifNondetUint64(name string) uint64 {
	v, ok := verifLookup(name)
	if !ok {
		return 0
	}
	u, err := strconv.ParseUint(v, 10, 64)
	if err != nil {
		i, _ := strconv.ParseInt(v, 10, 64)
		return uint64(i)
	}
	return u
}
func verifNondetInt(name string) int       { return int(verifNondetInt64(name)) }
func verifNondetInt32(name string) int32   { return int32(verifNondetInt64(name)) }
func verifNondetUint32(name string) uint32 { return uint32(verifNondetUint64(name)) }
func verifNondetUint16(name string) uint16 { return uint16(verifNondetUint64(name)) }
func verifNondetByte(name string) byte     { return byte(verifNondetUint64(name)) }
func verifNondetBool(name string) bool {
	v, _ := verifLookup(name)
	return v == "true"
}
func verifNondetBytes(name string, n int) []byte {
	v, ok := verifLookup(name)
	out := make([]byte, n)
	if ok && strings.HasPrefix(v, "hex:") {
		b, _ := hex.DecodeString(v[4:])
		copy(out, b)
	}
	return out
}
func verifNondetString(name string, n int) string { return string(verifNondetBytes(name, n)) }
func verifChoice(name string, n int) int {
	i := verifNondetInt(name)
	if i < 0 || i >= n {
		panic(verifAssumeFailed{})
	}
	return i
}
func verifAssume(c bool) {
	if !c {
		panic(verifAssumeFailed{})
	}
}
func verifAssert(c bool, label string) {
	if !c {
		verifFailures = append(verifFailures, label)
		fmt.Println("VERIF-ASSERT-FAIL " + label)
	}
}
func verifReach(label string) {}
func verifTrace(msg string)   {}

// verifUnmodelled: the environment model cannot answer; natively there is nothing to fall back on.
func verifUnmodelled(msg string) { panic("verif environment model: " + msg) }
func verifYield()             {}
func verifTier() int {
	if os.Getenv("VERIF_TIER") == "thorough" {
		return 1
	}
	return 0
}
func verifSymbolic() bool   { return false }
func verifOverflowed() bool { return false }
func verifConcretize(v int, n int) int {
	if v < 0 || v >= n {
		panic(verifAssumeFailed{})
	}
	return v
}
func verifTaintString(s string) string { return s }
func verifStringTainted(s string) bool { return false }

func verifInSet(c byte, ranges string) bool {
	for i := 0; i+1 < len(ranges); i += 2 {
		if c >= ranges[i] && c <= ranges[i+1] {
			return true
		}
	}
	return false
}
func verifAllInSet(s string, ranges string) bool {
	for i := 0; i < len(s); i++ {
		if !verifInSet(s[i], ranges) {
			return false
		}
	}
	return true
}

func verifOpaqueBytes(n int) []byte {
	if n < 0 {
		panic(verifAssumeFailed{})
	}
	if n > 1<<24 {
		n = 1 << 24 // native replay cannot allocate arbitrary sizes; lengths beyond 16 MiB are clamped (replay then reports unconfirmed)
	}
	return make([]byte, n)
}

// verifRunUntilBlocked: natively the function is simply run on its own goroutine
// and reported as parked when it has not returned after a short while.
func verifRunUntilBlocked(f func()) bool {
	done := make(chan struct{})
	go func() { defer close(done); f() }()
	select {
	case <-done:
		return false
	case <-time.After(300 * time.Millisecond):
		return true
	}
}

// verifSetField stores v into the field of *ptr reached by the dotted path, even
// when it is unexported or belongs to another package. Natively this goes through
// reflect + unsafe.
func verifSetField(ptr interface{}, path string, v interface{}) {
	cur := reflect.ValueOf(ptr).Elem()
	for _, name := range strings.Split(path, ".") {
		cur = cur.FieldByName(name)
	}
	cur = reflect.NewAt(cur.Type(), unsafe.Pointer(cur.UnsafeAddr())).Elem()
	cur.Set(reflect.ValueOf(v))
}
