package vgirpc

// Pipe-session scaffolding shared by C02, C03, C04, C06, C37: a server with one
// method of every kind whose handlers and stream states are ghost-driven, and a
// builder for abstract request / tick streams.

import (
	"context"
	"errors"
	"reflect"

	"github.com/apache/arrow-go/v18/arrow"
)

var verifInt64Type = reflect.TypeOf(int64(0))

// outcomes of a unary handler / stream init handler
const (
	verifOutValue = iota
	verifOutError
	verifOutRpcError
	verifOutPanic
	verifOutNilResult // stream init returns (nil, nil)
)

// per-turn outcomes of a stream state
const (
	verifTurnEmit = iota
	verifTurnLogEmit
	verifTurnNoEmit
	verifTurnDoubleEmit
	verifTurnFinish // producer: Finish; exchange: Finish refused, error returned
	verifTurnError
	verifTurnPanic
	verifTurnEmitThenFinish
	verifNTurnKinds
)

// further outcomes that leave batches in the collector when the turn fails (used by
// the ownership check; numbered after verifNTurnKinds so that older harnesses keep their space)
const (
	verifTurnLogNoEmit = verifNTurnKinds + iota // a log, no data batch: validate() fails with a batch held
	verifTurnLogError                           // a log, then the turn returns an error
	verifTurnEmitError                          // a data batch, then an error
	verifTurnEmitPanic                          // a data batch, then a panic
	verifNTurnKindsExt
)

type verifPipeState struct {
	producer  bool
	turns     []int // outcome per turn; past the end: producer finishes, exchange emits
	turn      int
	cancels   int
	calls     int
	emitted   int
	finishErr error
}

func (s *verifPipeState) step(out *OutputCollector) error {
	s.calls++
	k := verifTurnEmit
	if s.turn < len(s.turns) {
		k = s.turns[s.turn]
	} else if s.producer {
		k = verifTurnFinish
	}
	s.turn++
	mk := func() *verifBatch {
		s.emitted++
		b := verifNewBatch(verifDataSchema, 1, 100*s.turn+s.emitted, nil, nil)
		b.size = 16
		if verifPipeBatchSize != nil {
			b.size = verifPipeBatchSize(b.tag)
		}
		return b
	}
	// Emit takes ownership only when it accepts the batch; a refused batch stays the caller's
	emit := func() error {
		b := mk()
		err := out.Emit(b)
		if err != nil {
			b.Release()
		}
		return err
	}
	switch k {
	case verifTurnEmit:
		return emit()
	case verifTurnLogEmit:
		out.ClientLog(LogInfo, "turn log")
		return emit()
	case verifTurnNoEmit:
		return nil
	case verifTurnDoubleEmit:
		_ = emit()
		return emit()
	case verifTurnFinish:
		s.finishErr = out.Finish()
		return s.finishErr
	case verifTurnError:
		return errors.New("turn failed")
	case verifTurnPanic:
		panic("turn panicked")
	case verifTurnLogNoEmit:
		out.ClientLog(LogInfo, "turn log")
		return nil
	case verifTurnLogError:
		out.ClientLog(LogInfo, "turn log")
		return errors.New("turn failed")
	case verifTurnEmitError:
		_ = emit()
		return errors.New("turn failed")
	case verifTurnEmitPanic:
		_ = emit()
		panic("turn panicked")
	default:
		_ = emit()
		s.finishErr = out.Finish()
		return s.finishErr
	}
}

type verifPipeProducer struct{ verifPipeState }

func (s *verifPipeProducer) Produce(ctx context.Context, out *OutputCollector, callCtx *CallContext) error {
	return s.step(out)
}
func (s *verifPipeProducer) OnCancel(ctx context.Context, callCtx *CallContext) error {
	s.cancels++
	return nil
}

type verifPipeExchange struct {
	verifPipeState
	inputs []int // tags of the inputs seen
}

func (s *verifPipeExchange) Exchange(ctx context.Context, input arrow.RecordBatch, out *OutputCollector, callCtx *CallContext) error {
	if b, ok := input.(*verifBatch); ok {
		s.inputs = append(s.inputs, b.tag)
	}
	return s.step(out)
}
func (s *verifPipeExchange) OnCancel(ctx context.Context, callCtx *CallContext) error {
	s.cancels++
	return nil
}

type verifHeader struct{ fail bool }

func (verifHeader) ArrowSchema() *arrow.Schema { return verifDataSchema }

var verifHeaderFail bool

func verifSerializeArrowSerializable(as ArrowSerializable) ([]byte, error) {
	if verifHeaderFail {
		return nil, errors.New("header value does not fit its Arrow type")
	}
	return []byte("H"), nil
}

var verifResultFail bool

// verifPipeBatchSize, when set, decides the buffer size of every batch the ghost
// handlers and states produce (by payload tag); default 8 (results) / 16 (stream batches).
var verifPipeBatchSize func(tag int) int64

func verifSerializeResult(schema *arrow.Schema, value interface{}) (arrow.RecordBatch, error) {
	if verifResultFail {
		return nil, errors.New("result does not fit the declared schema")
	}
	tag, _ := value.(int)
	b := verifNewBatch(schema, 1, tag, nil, nil)
	b.size = 8
	if verifPipeBatchSize != nil {
		b.size = verifPipeBatchSize(tag)
	}
	return b, nil
}

func verifSerializeRequestBatch(batch arrow.RecordBatch) ([]byte, error) { return []byte("R"), nil }

// verifPipeServer: "u" unary valued, "v" unary void, "p" producer, "x"
// exchange, "ph" producer with a header, "d" dynamic.
func verifPipeServer() *Server {
	return &Server{serverID: "srv", methods: map[string]*methodInfo{
		"u":  {Name: "u", Type: MethodUnary, ResultType: verifInt64Type, ResultSchema: verifDataSchema},
		"v":  {Name: "v", Type: MethodUnary, ResultSchema: verifEmptySchema},
		"p":  {Name: "p", Type: MethodProducer, OutputSchema: verifDataSchema},
		"x":  {Name: "x", Type: MethodExchange, OutputSchema: verifDataSchema},
		"ph": {Name: "ph", Type: MethodProducer, OutputSchema: verifDataSchema, HasHeader: true},
		"d":  {Name: "d", Type: MethodDynamic},
	}}
}

// verifQueueRequest appends a request stream (one batch carrying keys/vals and
// rows rows, then `extra` further batches the reader must drain).
func verifQueueRequest(rows int64, extra int, keys, vals []string) {
	bs := []*verifBatch{verifNewBatch(verifDataSchema, rows, 1, keys, vals)}
	for i := 0; i < extra; i++ {
		bs = append(bs, verifNewBatch(verifDataSchema, 1, 2+i, nil, nil))
	}
	verifInQueue = append(verifInQueue, &verifInStream{batches: bs, schema: verifDataSchema, failAt: -1})
}

// verifQueueTicks appends a tick/input stream of n batches (tags 10+i); the
// batch at cancelAt (if in range) carries vgi_rpc.cancel.
var verifCancelWithRows bool // the cancel batch is a data-shaped batch (rows > 0) tagged with vgi_rpc.cancel

func verifQueueTicks(n int, cancelAt int) {
	var bs []*verifBatch
	for i := 0; i < n; i++ {
		if i == cancelAt {
			if verifCancelWithRows {
				bs = append(bs, verifNewBatch(verifDataSchema, 1, 10+i, []string{MetaCancel}, []string{"1"}))
				continue
			}
			bs = append(bs, verifNewBatch(verifEmptySchema, 0, 10+i, []string{MetaCancel}, []string{"1"}))
		} else {
			bs = append(bs, verifNewBatch(verifDataSchema, 1, 10+i, nil, nil))
		}
	}
	verifInQueue = append(verifInQueue, &verifInStream{batches: bs, schema: verifDataSchema, failAt: -1})
}

// verifSinkStreams: the response streams written to the connection, in order.
func verifSinkStreams(sink *verifSink) []*verifOutStream {
	var out []*verifOutStream
	for _, st := range verifOutStreams {
		if s, ok := st.sink.(*verifSink); ok && s == sink {
			out = append(out, st)
		}
	}
	return out
}

func verifIsException(b *verifBatch) bool {
	v, ok := verifMetaGet(b, MetaLogLevel)
	return ok && v == string(LogException)
}

func verifIsLog(b *verifBatch) bool {
	v, ok := verifMetaGet(b, MetaLogLevel)
	return ok && v != string(LogException)
}
