package vgirpc

// Ghost handlers. The dispatchers call registered handlers through
// reflect.Value.Call; reflection is outside the engine, so the four reflect
// operations the dispatchers use are redirected here and the "handler" is a
// harness closure. Contract: Call runs the handler once with the (ctx, callCtx)
// the dispatcher passed to reflect.ValueOf; the error slot's IsNil/Interface
// and the result slot's Interface report what the handler returned.

import (
	"context"
	"errors"
	"reflect"

	"github.com/apache/arrow-go/v18/arrow"
)

var (
	verifHFn        func(ctx context.Context, callCtx *CallContext) (interface{}, error)
	verifHRes       interface{}
	verifHErr       error
	verifHCalls     int
	verifHArgs      []interface{}
	verifParamsFail bool // deserializeParams rejects the batch (schema mismatch)
	verifParamsSeen int
	verifParamsTags []int // payload tag of every batch handed to deserializeParams
)

func verifResetHandler() {
	verifHFn, verifHRes, verifHErr, verifHCalls, verifHArgs = nil, nil, nil, 0, nil
	verifParamsFail, verifParamsSeen, verifParamsTags = false, 0, nil
}

func verifReflectValueOf(i interface{}) reflect.Value {
	verifHArgs = append(verifHArgs, i)
	return reflect.Value{}
}

func verifReflectCall(v reflect.Value, in []reflect.Value) []reflect.Value {
	verifHCalls++
	var ctx context.Context
	var cc *CallContext
	if n := len(verifHArgs); n >= 2 {
		ctx, _ = verifHArgs[n-2].(context.Context)
		cc, _ = verifHArgs[n-1].(*CallContext)
	}
	verifHRes, verifHErr = nil, nil
	verifHRes, verifHErr = verifHFn(ctx, cc)
	return []reflect.Value{{}, {}}
}

func verifReflectIsNil(v reflect.Value) bool { return verifHErr == nil }

func verifReflectInterface(v reflect.Value) interface{} {
	if verifHErr != nil {
		return verifHErr
	}
	return verifHRes
}

func verifDeserializeParams(batch arrow.RecordBatch, t reflect.Type) (reflect.Value, error) {
	verifParamsSeen++
	if vb, ok := batch.(*verifBatch); ok {
		verifParamsTags = append(verifParamsTags, vb.tag)
	}
	if verifParamsFail {
		return reflect.Value{}, errors.New("parameter schema mismatch")
	}
	if batch.NumRows() == 0 && batch.NumCols() > 0 {
		// the real function indexes row 0 of every column (a batch without columns binds nothing)
		panic("runtime error: index out of range [0] with length 0")
	}
	return reflect.Value{}, nil
}
