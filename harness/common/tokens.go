package vgirpc

// Ideal-cryptography token algebra (Dolev-Yao) shared by the harnesses that
// need sealed tokens. A sealed token is an opaque handle remembering the key,
// the AAD bytes, the kind of plaintext and the payload; it opens only under
// the same key and byte-equal AAD (a solver question when identities are
// symbolic). The wire form is 3 bytes: 'T', the (unauthenticated, attacker
// mutable) version byte, and the handle index. Any other byte string is
// garbage. What this abstraction cannot see: bit-level malleability of
// XChaCha20-Poly1305, gob decoding of foreign plaintexts (assumed to fail),
// base64 variants.

import (
	"bytes"
	"fmt"
	"time"
)

const (
	verifKindCall   = 1
	verifKindCursor = 2
	verifKindSticky = 3
)

type verifTok struct {
	key       []byte
	kind      int
	aad       []byte
	call      callTokenData
	cursor    cursorTokenData
	serverID  string
	sid       [sessionIDLen]byte
	expiresAt int64
}

var (
	verifToks      []verifTok
	verifOpenCalls int
	verifSealFail  bool // when set, the next cursor seal fails (gob cannot encode the state)
)

func verifTokWire(version byte, idx int) []byte { return []byte{'T', version, byte('a' + idx)} }

func verifTokLookup(token []byte) (int, bool) {
	if len(token) != 3 || token[0] != 'T' {
		return 0, false
	}
	idx := int(token[2]) - 'a'
	if idx < 0 || idx >= len(verifToks) {
		return 0, false
	}
	return idx, true
}

func verifSealToken(h *HttpServer, version byte, payload interface{}, aad []byte) ([]byte, error) {
	t := verifTok{key: h.tokenKey, aad: append([]byte(nil), aad...)}
	switch p := payload.(type) {
	case *callTokenData:
		t.kind = verifKindCall
		t.call = *p
	case *cursorTokenData:
		if verifSealFail {
			return nil, fmt.Errorf("state token encode: gob: type not registered")
		}
		t.kind = verifKindCursor
		t.cursor = *p
	default:
		panic("verifSealToken: unexpected payload type")
	}
	verifToks = append(verifToks, t)
	return verifTokWire(version, len(verifToks)-1), nil
}

func verifOpenToken(h *HttpServer, version byte, token []byte, aad []byte, out interface{}) error {
	verifOpenCalls++
	idx, ok := verifTokLookup(token)
	if !ok {
		return &RpcError{Type: "RuntimeError", Message: "Malformed state token"}
	}
	if token[1] != version {
		return &RpcError{Type: "RuntimeError", Message: fmt.Sprintf("Unsupported state token version %d (expected %d)", token[1], version)}
	}
	t := &verifToks[idx]
	if !bytes.Equal(t.key, h.tokenKey) || !bytes.Equal(t.aad, aad) {
		return &RpcError{Type: "RuntimeError", Message: "State token signature verification failed"}
	}
	switch o := out.(type) {
	case *callTokenData:
		if t.kind != verifKindCall {
			return fmt.Errorf("state token decode: foreign plaintext")
		}
		*o = t.call
	case *cursorTokenData:
		if t.kind != verifKindCursor {
			return fmt.Errorf("state token decode: foreign plaintext")
		}
		*o = t.cursor
	default:
		panic("verifOpenToken: unexpected out type")
	}
	return nil
}

func verifSealSessionToken(tokenKey []byte, serverID string, sessionID [sessionIDLen]byte, expiresAt int64, aad []byte, now int64) (string, error) {
	if len(serverID) > 255 {
		return "", fmt.Errorf("server_id too long")
	}
	verifToks = append(verifToks, verifTok{key: tokenKey, kind: verifKindSticky, aad: append([]byte(nil), aad...), serverID: serverID, sid: sessionID, expiresAt: expiresAt})
	return string(verifTokWire(sessionTokenVersion, len(verifToks)-1)), nil
}

func verifOpenSessionToken(token string, tokenKey []byte, aad []byte) (string, [sessionIDLen]byte, int64, error) {
	var zero [sessionIDLen]byte
	idx, ok := verifTokLookup([]byte(token))
	if !ok || token[1] != sessionTokenVersion {
		return "", zero, 0, &SessionLostError{Reason: sessionLostMalformed}
	}
	t := &verifToks[idx]
	if !bytes.Equal(t.key, tokenKey) || !bytes.Equal(t.aad, aad) {
		return "", zero, 0, &SessionLostError{Reason: sessionLostVerification}
	}
	if t.kind != verifKindSticky {
		return "", zero, 0, &SessionLostError{Reason: sessionLostMalformed}
	}
	return t.serverID, t.sid, t.expiresAt, nil
}

// verifRandRead: fresh, pairwise distinct "random" bytes (a counter).
var verifRandCtr int

func verifRandRead(b []byte) (int, error) {
	verifRandCtr++
	for i := range b {
		b[i] = 0
	}
	if len(b) > 0 {
		b[0] = byte(verifRandCtr)
	}
	if len(b) > 1 {
		b[1] = byte(verifRandCtr >> 8)
	}
	return len(b), nil
}

// verifFixedNow: a fixed wall clock for harnesses where time is not the subject.
func verifFixedNow() time.Time { return time.Unix(1700000000, 0) }

func verifNoReaper(r *sessionRegistry) {}

// verifJSONMarshal stands in for encoding/json.Marshal where the rendered
// bytes are not the subject: it records the value and returns a fixed body.
var (
	verifJSONLast interface{}
	verifJSONAll  []interface{} // every marshalled value, in order
)

func verifJSONMarshal(v interface{}) ([]byte, error) {
	verifJSONLast = v
	verifJSONAll = append(verifJSONAll, v)
	return []byte("{}"), nil
}
