package vgirpc

// Scaffolding shared by the HTTP stream-handler harnesses (C12, C14, C37):
// a server with two registered stream methods whose states count every call,
// a ghost dispatch hook, and a request builder for the continuation route.

import (
	"context"
	"errors"
	"net/http"
	"net/url"
	"time"

	"github.com/apache/arrow-go/v18/arrow"
)

var verifXKey = []byte("0123456789abcdef0123456789abcdef")

// ghost counters: any "work" a continuation may cause
var (
	verifXProduce   int
	verifXExchange  int
	verifXCancel    int
	verifXRehydrate int
	verifXHookStart int
	verifXHookEnd   int
	verifXHookErr   error
	verifXLastState interface{}
	verifXTurnFail  bool // the state's turn returns an error
	verifXTurnPanic bool
)

func verifXReset() {
	verifXProduce, verifXExchange, verifXCancel, verifXRehydrate, verifXHookStart, verifXHookEnd = 0, 0, 0, 0, 0, 0
	verifXHookErr, verifXLastState = nil, nil
	verifXTurnFail, verifXTurnPanic = false, false
}

// verifXProducerA / verifXExchangeB / verifXBoth: the states of the registered methods.
type verifXProducerA struct{ N int }

func (s *verifXProducerA) Produce(ctx context.Context, out *OutputCollector, callCtx *CallContext) error {
	verifXProduce++
	verifXLastState = s
	if verifXTurnPanic {
		panic("turn panicked")
	}
	if verifXTurnFail {
		return errors.New("turn failed")
	}
	if s.N >= 1 {
		return out.Finish()
	}
	s.N++
	b := verifNewBatch(verifDataSchema, 1, s.N, nil, nil)
	b.size = 16
	return out.Emit(b)
}

type verifXExchangeB struct{ N int }

func (s *verifXExchangeB) Exchange(ctx context.Context, input arrow.RecordBatch, out *OutputCollector, callCtx *CallContext) error {
	verifXExchange++
	verifXLastState = s
	if verifXTurnPanic {
		panic("turn panicked")
	}
	if verifXTurnFail {
		return errors.New("turn failed")
	}
	s.N++
	b := verifNewBatch(verifDataSchema, 1, s.N, nil, nil)
	b.size = 16
	return out.Emit(b)
}
func (s *verifXExchangeB) OnCancel(ctx context.Context, callCtx *CallContext) error {
	verifXCancel++
	return nil
}

// verifXBoth implements both interfaces (a dynamic method may return either).
type verifXBoth struct{ N int }

func (s *verifXBoth) Produce(ctx context.Context, out *OutputCollector, callCtx *CallContext) error {
	verifXProduce++
	verifXLastState = s
	return out.Finish()
}
func (s *verifXBoth) Exchange(ctx context.Context, input arrow.RecordBatch, out *OutputCollector, callCtx *CallContext) error {
	verifXExchange++
	verifXLastState = s
	b := verifNewBatch(verifDataSchema, 1, 1, nil, nil)
	b.size = 16
	return out.Emit(b)
}

type verifXHook struct{ startPanics, endPanics bool }

func (k *verifXHook) OnDispatchStart(ctx context.Context, info DispatchInfo) (context.Context, HookToken) {
	verifXHookStart++
	if k.startPanics {
		panic("hook start panicked")
	}
	return ctx, "tok"
}
func (k *verifXHook) OnDispatchEnd(ctx context.Context, token HookToken, info DispatchInfo, stats *CallStatistics, err error) {
	verifXHookEnd++
	verifXHookErr = err
	if k.endPanics {
		panic("hook end panicked")
	}
}

func verifXProtocolHash(s *Server) string                      { return "hash" }
func verifXReadBody(h *HttpServer, r *http.Request) ([]byte, error) { return []byte("body"), nil }
func verifXCookies(r *http.Request) map[string]string          { return nil }

// verifXServer: methods "prod" (producer), "xchg" (exchange), "dyn" (dynamic).
func verifXServer(auth *AuthContext) *HttpServer {
	s := &Server{serverID: "srv", methods: map[string]*methodInfo{
		"prod": {Name: "prod", Type: MethodProducer, OutputSchema: verifDataSchema},
		"xchg": {Name: "xchg", Type: MethodExchange, OutputSchema: verifDataSchema},
		"dyn":  {Name: "dyn", Type: MethodDynamic},
	}}
	h := &HttpServer{server: s, tokenKey: verifXKey, tokenTTL: time.Hour, callStates: newCallStateCache(defaultCallStateCacheEntries, time.Hour)}
	h.authenticateFunc = func(r *http.Request) (*AuthContext, error) { return auth, nil }
	h.rehydrateFunc = func(state interface{}, method string) error { verifXRehydrate++; return nil }
	return h
}

// verifXExchangeRequest queues one input stream holding a single tick batch
// with the given custom metadata and returns the request for {method}/exchange.
func verifXExchangeRequest(method string, keys, vals []string) *http.Request {
	b := verifNewBatch(verifEmptySchema, 0, 0, keys, vals)
	verifInQueue = append(verifInQueue, &verifInStream{batches: []*verifBatch{b}, schema: verifEmptySchema, failAt: -1})
	r := &http.Request{Method: "POST", Header: http.Header{}, URL: &url.URL{Path: "/" + method + "/exchange"}, RemoteAddr: "1.2.3.4:5"}
	r.Header.Set("Content-Type", arrowContentType)
	r.SetPathValue("method", method)
	return r.WithContext(context.Background())
}
