package vgirpc

import (
	"context"
	"errors"
	"net/http"
)

//verif:quote approx
//verif:ints lia
//verif:unwind 64
//verif:maxconcretize 16
//verif:maxdecisions 4000

func verifC38RefLowerHex(s string, n int) bool {
	if len(s) != n {
		return false
	}
	return verifAllInSet(s, "09af")
}

// verifC38ID: an id of length n-1, n or n+1 whose first and last bytes are arbitrary
// and whose interior is lower-case hex
func verifC38ID(name string, n int) string {
	l := n - 1 + verifChoice(name+".len", 3)
	head := verifNondetString(name+".head", 1)
	tail := verifNondetString(name+".tail", 1)
	mid := make([]byte, l-2)
	for i := range mid {
		mid[i] = "0123456789abcdef"[i%16]
	}
	return head + string(mid) + tail
}

// Trace and span ids are both present and well-formed, or both absent.
//
//verif:bound provider absent, panicking, or returning a trace id of 31/32/33 bytes and a span id of 15/16/17 bytes whose first and last bytes are ARBITRARY (interior lower-case hex)
func verifH_C38_trace_context() {
	mode := verifChoice("provider", 3)
	var tid, sid string
	switch mode {
	case 0:
		SetTraceContextProvider(nil)
	case 1:
		SetTraceContextProvider(func(ctx context.Context) (string, string) { panic("provider panicked") })
	default:
		tid, sid = verifC38ID("trace", 32), verifC38ID("span", 16)
		SetTraceContextProvider(func(ctx context.Context) (string, string) { return tid, sid })
	}
	gt, gs := currentTraceContext(context.Background())
	verifReach("trace-resolved")
	verifAssert((gt == "") == (gs == ""), "trace id and span id are both present or both absent")
	if mode == 2 && verifC38RefLowerHex(tid, 32) && verifC38RefLowerHex(sid, 16) {
		verifReach("trace-valid")
		verifAssert(gt == tid && gs == sid, "well-formed ids are passed through")
	} else {
		verifAssert(gt == "" && gs == "", "a missing, malformed or panicking provider yields no ids")
	}
}

// ---- record assembly ----

var verifC38Lines []map[string]any

func verifC38Marshal(v interface{}) ([]byte, error) {
	if m, ok := v.(map[string]any); ok {
		verifC38Lines = append(verifC38Lines, m)
	}
	return []byte("{}"), nil
}

type verifC38Sink struct{ writes int }

func (s *verifC38Sink) Write(p []byte) (int, error) { s.writes++; return len(p), nil }

func verifC38Format(t interface{}, layout string) string { return "2024-01-01T00:00:00.000Z" }

// the request context's value plumbing (context.WithValue uses reflection) is replaced by a ghost slot
var verifC38Rec *egressRecorder

func verifC38WithRec(ctx context.Context, rec *egressRecorder) context.Context { verifC38Rec = rec; return ctx }
func verifC38RecFrom(ctx context.Context) *egressRecorder                      { return verifC38Rec }

var verifC38Sensitive = []string{"password", "token", "email", "key"}

// verifC38ClaimKey: a claim key that embeds a sensitive word in ANY letter case
// with an optional arbitrary letter before and after, or a harmless key
func verifC38ClaimKey(name string) (string, bool) {
	if !verifNondetBool(name + ".sensitive") {
		return []string{"sub", "roles"}[verifChoice(name+".plain", 2)], false
	}
	w := verifC38Sensitive[verifChoice(name+".word", len(verifC38Sensitive))]
	k := verifNondetString(name+".word_bytes", len(w))
	for i := 0; i < len(w); i++ {
		verifAssume(verifInSet(k[i], string([]byte{w[i], w[i], w[i] - 32, w[i] - 32}))) // either case of the same letter
	}
	pre := verifNondetString(name+".pre", verifChoice(name+".pre.len", 2))
	post := verifNondetString(name+".post", verifChoice(name+".post.len", 2))
	verifAssume(verifAllInSet(pre, "az__") && verifAllInSet(post, "az__"))
	return pre + k + post, true
}

// Every access-log record carries the required fields with the right types and
// describes the call.
//
//verif:stub encoding/json.Marshal = verifC38Marshal
//verif:stub time.Now = verifFixedNow
//verif:stub (time.Time).Format = verifC38Format
//verif:stub crypto/rand.Read = verifRandRead
//verif:stub github.com/Query-farm/vgi-rpc-go/vgirpc.withEgressRecorder = verifC38WithRec
//verif:stub github.com/Query-farm/vgi-rpc-go/vgirpc.egressRecorderFrom = verifC38RecFrom
//verif:bound one OnDispatchEnd: unary or stream record; stream id set or empty; request id from the call, from the transport only, or absent; request payload present or absent with debug on/off; outcome nil / RpcError / plain error; cancelled or not; HTTP status set or not; trace provider valid or absent; 0..2 claims whose keys embed a sensitive word in ANY letter case with optional arbitrary affix letters, or are harmless; redactor default / custom / panicking; with or without the HTTP egress recorder (then 0..2 response writes before the flush). JSON rendering, timestamp formatting and randomness are stubbed.
func verifH_C38_record() {
	verifC38Record(false)
	verifReach("record-checked")
}

// The claims of a record are redacted by key name, fail-closed.
//
//verif:stub encoding/json.Marshal = verifC38Marshal
//verif:stub time.Now = verifFixedNow
//verif:stub (time.Time).Format = verifC38Format
//verif:stub crypto/rand.Read = verifRandRead
//verif:stub github.com/Query-farm/vgi-rpc-go/vgirpc.withEgressRecorder = verifC38WithRec
//verif:stub github.com/Query-farm/vgi-rpc-go/vgirpc.egressRecorderFrom = verifC38RecFrom
//verif:bound a unary record with 0..2 claims whose keys embed one of four sensitive words in ANY letter case with optional arbitrary affix letters, or are harmless; redactor default / custom / panicking
func verifH_C38_claims() {
	verifC38Record(true)
	verifReach("claims-checked")
}

func verifC38Record(claimsOnly bool) {
	tag := "record:"
	if claimsOnly {
		tag = "claims:"
	}
	verifC38Lines, verifC38Rec = nil, nil
	SetTraceContextProvider(nil)
	SetClaimRedactor(nil)
	sink := &verifC38Sink{}
	hook := NewAccessLogHook(sink, "1.2.3")
	debug := !claimsOnly && verifNondetBool("debug")
	hook.SetDebug(debug)
	info := DispatchInfo{Method: "m", MethodType: DispatchMethodUnary, ServerID: "srv", Protocol: "p", ProtocolHash: "h", RemoteAddr: "1.2.3.4:5"}
	pick := func(name string) bool { return !claimsOnly && verifNondetBool(name) }
	stream := pick("stream")
	if stream {
		info.MethodType = DispatchMethodStream
		if verifNondetBool("stream_id_set") {
			info.StreamID = "0123456789abcdef0123456789abcdef"
		}
	}
	ridMode := 2
	if !claimsOnly {
		ridMode = verifChoice("request_id", 3)
	}
	if ridMode == 0 {
		info.RequestID = "call-rid"
	}
	hasPayload := pick("payload")
	if hasPayload {
		info.RequestData = []byte("Rdata")
	}
	var callErr error
	outcome := 0
	if !claimsOnly {
		outcome = verifChoice("outcome", 3)
	}
	switch outcome {
	case 1:
		callErr = &RpcError{Type: "ValueError", Message: "bad"}
	case 2:
		callErr = errors.New("boom")
	}
	info.Cancelled = pick("cancelled")
	if pick("http_status") {
		info.HTTPStatus = 200
	}
	traced := pick("traced")
	if traced {
		SetTraceContextProvider(func(ctx context.Context) (string, string) {
			return "0123456789abcdef0123456789abcdef", "0123456789abcdef"
		})
	}
	nClaims := 0
	if claimsOnly {
		nClaims = verifChoice("claims", 3)
	}
	claims := map[string]any{}
	var keys []string
	var sens []bool
	for i := 0; i < nClaims; i++ {
		k, s := verifC38ClaimKey("claim")
		if _, dup := claims[k]; dup {
			verifAssume(false)
		}
		claims[k] = "value"
		keys, sens = append(keys, k), append(sens, s)
	}
	info.Auth = &AuthContext{Authenticated: true, Domain: "bearer", Principal: "alice", Claims: claims}
	redactor := 0
	if claimsOnly {
		redactor = verifChoice("redactor", 3)
	}
	switch redactor {
	case 1:
		SetClaimRedactor(func(c map[string]any) map[string]any { return map[string]any{"custom": "x"} })
	case 2:
		SetClaimRedactor(func(c map[string]any) map[string]any { panic("redactor panicked") })
	}
	ctx := context.Background()
	var rec *egressRecorder
	var total int64
	if pick("http_transport") {
		rec = &egressRecorder{requestBytes: 77}
		if ridMode == 1 {
			rec.requestID = "transport-rid"
		}
		ctx = withEgressRecorder(ctx, rec)
	}
	tok := &accessLogToken{start: verifFixedNow()}
	hook.OnDispatchEnd(ctx, tok, info, &CallStatistics{InputRows: 1, InputBatches: 1}, callErr)
	if rec != nil {
		verifAssert(len(verifC38Lines) == 0, "over HTTP the record waits for the response byte count")
		cw := &countingResponseWriter{ResponseWriter: verifNewRecorder(), rec: rec}
		nw := verifChoice("writes", 3)
		for i := 0; i < nw; i++ {
			n := 3 + 2*i
			cw.Write(make([]byte, n))
			total += int64(n)
		}
		rec.flush()
	}
	SetTraceContextProvider(nil)
	SetClaimRedactor(nil)
	verifReach(tag + "emitted")
	verifAssert(len(verifC38Lines) == 1 && sink.writes == 1, "exactly one JSON line per call")
	if len(verifC38Lines) != 1 {
		return
	}
	r := verifC38Lines[0]
	for _, k := range []string{"timestamp", "level", "logger", "message", "server_id", "protocol", "protocol_hash", "method", "method_type", "principal", "auth_domain", "remote_addr", "status", "error_type"} {
		_, isStr := r[k].(string)
		verifAssert(isStr, "required string field present with a string value")
	}
	_, authBool := r["authenticated"].(bool)
	_, durFloat := r["duration_ms"].(float64)
	verifAssert(authBool && durFloat, "authenticated is a bool and duration_ms a number")
	verifAssert((r["status"] == "error") == (callErr != nil), "status reflects the outcome")
	sid, hasSid := r["stream_id"].(string)
	verifAssert(hasSid == stream, "stream_id on every stream record and only there")
	if stream {
		verifReach(tag + "stream-record")
		verifAssert(verifC38RefLowerHex(sid, 32), "stream_id is 32 lower-case hex characters")
		if info.StreamID != "" {
			verifAssert(sid == info.StreamID, "the stream id minted at init is the one logged on every record of the stream")
		}
	}
	_, hasTrace := r["trace_id"]
	_, hasSpan := r["span_id"]
	verifAssert(hasTrace == traced && hasSpan == traced, "trace_id and span_id both present or both absent")
	_, hasData := r["request_data"]
	_, hasMarker := r["truncated"]
	if hasPayload {
		verifReach(tag + "payload")
		verifAssert(hasData != hasMarker && hasData == debug, "a record with a request payload carries either the payload (debug) or the omitted marker, never both or neither")
	} else {
		verifAssert(!hasData && !hasMarker, "no payload, no marker")
	}
	rid, hasRid := r["request_id"].(string)
	switch {
	case ridMode == 0:
		verifAssert(hasRid && rid == "call-rid", "the call's request id is logged")
	case ridMode == 1 && rec != nil:
		verifAssert(hasRid && rid == "transport-rid", "the transport's request id is the fallback")
	default:
		verifAssert(!hasRid, "no request id, no field")
	}
	out, hasClaims := r["claims"].(map[string]any)
	switch {
	case nClaims == 0 || redactor == 2:
		verifAssert(!hasClaims, "no claims, or a panicking redactor: the record carries no claims")
	case redactor == 1:
		verifAssert(hasClaims && len(out) == 1, "a custom redactor's output is used")
	default:
		verifReach(tag + "claims-redacted")
		verifAssert(hasClaims && len(out) == nClaims, "every claim key is kept")
		for i, k := range keys {
			if sens[i] {
				verifAssert(out[k] == RedactedClaim, "a key containing a sensitive word, in any letter case, is redacted")
			} else {
				verifAssert(out[k] == "value", "a harmless claim keeps its value")
			}
		}
	}
	if rec != nil {
		verifReach(tag + "http-record")
		rb, ok1 := r["response_bytes"].(int64)
		qb, ok2 := r["request_bytes"].(int64)
		verifAssert(ok1 && rb == total && ok2 && qb == 77, "request/response byte counts equal what crossed the wire")
	}
	_ = http.StatusOK
}
