package vgirpc

import (
	"context"
	"net/http"
	"net/url"
	"sync"
	"time"
)

//verif:quote approx
//verif:ints lia
//verif:unwind 64
//verif:maxconcretize 16
//verif:maxdecisions 6000
//verif:maxpaths quick=80000 thorough=600000

// ---- scaffolding ----

type verifC29State struct {
	closes   int
	inRegion int
	uses     int
}

func (s *verifC29State) Close() error { s.closes++; return nil }

type verifC29Plan struct {
	open, close, panics bool
	openTTL             time.Duration
	// observations
	ran         bool
	sawState    *verifC29State
	sawClosed   bool // the session's state had already been closed when the handler was entered
	overlap     bool // another call bearing the same session was inside its handler
	openErr     error
	opened      *verifC29State
	closeResult bool
}

var (
	verifC29Clock time.Time
	verifC29Plans map[string]*verifC29Plan // by remote address = request identity
)

func verifC29Now() time.Time { return verifC29Clock }

func verifC29Setup() *HttpServer {
	verifResetIPC()
	verifResetHandler()
	verifToks = nil
	verifRandCtr = 0
	verifC29Clock = time.Unix(1700000000, 0)
	verifC29Plans = map[string]*verifC29Plan{}
	h := &HttpServer{server: verifPipeServer(), tokenKey: verifXKey, tokenTTL: time.Hour, stickyRegistry: newSessionRegistry(time.Hour)}
	h.server.serverID = "w1"
	h.authenticateFunc = func(r *http.Request) (*AuthContext, error) {
		who := r.Header.Get("X-Caller")
		if who == "" {
			return Anonymous(), nil
		}
		return &AuthContext{Domain: "d", Authenticated: true, Principal: who}, nil
	}
	verifHFn = func(ctx context.Context, cc *CallContext) (interface{}, error) {
		pl := verifC29Plans[cc.TransportMetadata["remote_addr"]]
		pl.ran = true
		if st, _ := cc.Session().(*verifC29State); st != nil {
			pl.sawState = st
			pl.sawClosed = st.closes > 0
			if st.inRegion > 0 {
				pl.overlap = true
			}
			st.inRegion++
			verifYield()
			st.uses++
			verifYield()
			st.inRegion--
		}
		if pl.open {
			pl.opened = &verifC29State{}
			pl.openErr = cc.OpenSession(pl.opened, pl.openTTL)
		}
		if pl.close {
			pl.closeResult = cc.CloseSession()
		}
		if pl.panics {
			panic("handler panicked")
		}
		return 7, nil
	}
	return h
}

// verifC29Request queues the IPC body of one unary call and returns its HTTP request.
func verifC29Request(id, caller, token string, accept bool, plan *verifC29Plan) *http.Request {
	verifC29Plans[id] = plan
	verifQueueRequest(1, 0, []string{MetaMethod, MetaRequestVersion}, []string{"u", ProtocolVersion})
	r := &http.Request{Method: "POST", Header: http.Header{}, URL: &url.URL{Path: "/u"}, RemoteAddr: id}
	r.Header.Set("Content-Type", arrowContentType)
	if caller != "" {
		r.Header.Set("X-Caller", caller)
	}
	if token != "" {
		r.Header.Set(stickySessionHeader, token)
	}
	if accept {
		r.Header.Set(stickySessionAcceptHeader, "true")
	}
	r.SetPathValue("method", "u")
	return r.WithContext(context.Background())
}

func verifC29Lost(rec *verifRecorder) bool {
	// a session_lost answer: error header set and the handler did not run
	return rec.hdr.Get(rpcErrorHeader) == "true"
}

func verifC29EntryOf(h *HttpServer) *sessionEntry {
	for _, e := range h.stickyRegistry.entries {
		return e
	}
	return nil
}

// ---- sequential lifecycle ----

// A session is resolvable by its opener on its worker until it ends — by
// close, delete, expiry or shutdown — after which it is lost; its state's
// Close runs exactly once; no request leaves it locked.
//
//verif:use ipc pipe handler httpx tokens
//verif:stub time.Now = verifC29Now
//verif:stub (*github.com/Query-farm/vgi-rpc-go/vgirpc.sessionRegistry).ensureReaper = verifNoReaper
//verif:bound one session opened through handleUnary by caller a (handler panics after opening or not; Accept header present or not; server draining or not; TTL default or 10 s), then ONE of: resumed and used | resumed and closed by the handler | DELETE by the owner | DELETE by another caller | clock advanced past / just short of the expiry then reaper tick | shutdown | resumed on another worker | resumed with a garbage token | resumed by another caller; then one more resume by the owner. Ideal token algebra, abstract IPC, ghost handler, no reaper goroutine (its tick is called directly)
func verifH_C29_lifecycle() {
	h := verifC29Setup()
	accept := verifNondetBool("accept_header")
	draining := verifNondetBool("draining")
	h.stickyRegistry.SetDraining(draining)
	open := &verifC29Plan{open: true, panics: verifNondetBool("panic_after_open")}
	if verifNondetBool("short_ttl") {
		open.openTTL = 10 * time.Second
	}
	rec0 := verifNewRecorder()
	h.handleUnary(rec0, verifC29Request("r0", "a", "", accept, open))
	verifReach("open-attempted")
	verifAssert(open.ran, "the opening call runs")
	tok := rec0.hdr.Get(stickySessionHeader)
	if !accept || draining {
		verifAssert(open.openErr != nil && tok == "" && len(h.stickyRegistry.entries) == 0, "no session is opened without VGI-Session-Accept or while draining")
		if accept && draining {
			_, isDraining := open.openErr.(*ServerDrainingError)
			verifAssert(isDraining, "draining refuses new sessions with ServerDrainingError")
		}
		return
	}
	verifAssert(open.openErr == nil && tok != "" && len(h.stickyRegistry.entries) == 1, "the session is registered and its token returned, even when the handler panics afterwards")
	if tok == "" || len(h.stickyRegistry.entries) != 1 {
		return
	}
	st := open.opened
	entry := verifC29EntryOf(h)
	verifAssert(entry.lock.TryLock(), "the opening request leaves the session unlocked")
	entry.lock.Unlock()
	ttl := time.Hour
	if open.openTTL != 0 {
		ttl = open.openTTL
	}

	ended := false
	use := &verifC29Plan{}
	switch verifChoice("event", 10) {
	case 0: // resumed and used
		rec := verifNewRecorder()
		h.handleUnary(rec, verifC29Request("r1", "a", tok, false, use))
		verifAssert(use.ran && use.sawState == st && !verifC29Lost(rec), "the owner resumes the same state object")
		verifReach("resumed")
	case 1: // resumed and closed by the handler
		use.close = true
		use.panics = verifNondetBool("panic_after_close")
		rec := verifNewRecorder()
		h.handleUnary(rec, verifC29Request("r1", "a", tok, false, use))
		verifAssert(use.ran && use.sawState == st && use.closeResult, "CloseSession hits")
		verifAssert(rec.hdr.Get(stickySessionCloseHeader) == "true", "the response announces the close")
		ended = true
	case 2: // DELETE by the owner
		rec := verifNewRecorder()
		r := &http.Request{Method: "DELETE", Header: http.Header{}, URL: &url.URL{Path: "/__session__"}}
		r.Header.Set("X-Caller", "a")
		r.Header.Set(stickySessionHeader, tok)
		h.handleStickyDelete(rec, r)
		verifAssert(rec.status == http.StatusNoContent, "the owner's DELETE hits")
		ended = true
	case 3: // DELETE by someone else: no effect, same answer as a miss
		rec := verifNewRecorder()
		r := &http.Request{Method: "DELETE", Header: http.Header{}, URL: &url.URL{Path: "/__session__"}}
		r.Header.Set("X-Caller", "b")
		r.Header.Set(stickySessionHeader, tok)
		h.handleStickyDelete(rec, r)
		verifAssert(rec.status == http.StatusOK && st.closes == 0, "another caller's DELETE does nothing and reveals nothing")
	case 4: // expiry
		verifC29Clock = verifC29Clock.Add(ttl + time.Second)
		n := h.stickyRegistry.drainExpired(verifC29Clock)
		verifAssert(n == 1, "the reaper evicts the expired session")
		ended = true
	case 5: // not yet expired
		verifC29Clock = verifC29Clock.Add(ttl - time.Second)
		n := h.stickyRegistry.drainExpired(verifC29Clock)
		verifAssert(n == 0 && st.closes == 0, "a live session survives the reaper")
	case 6: // shutdown
		h.stickyRegistry.shutdown()
		ended = true
	case 7: // another worker
		h2 := &HttpServer{server: verifPipeServer(), tokenKey: verifXKey, tokenTTL: time.Hour, stickyRegistry: newSessionRegistry(time.Hour)}
		h2.server.serverID = "w2"
		h2.authenticateFunc = h.authenticateFunc
		rec := verifNewRecorder()
		h2.handleUnary(rec, verifC29Request("r1", "a", tok, false, use))
		verifAssert(!use.ran && verifC29Lost(rec), "another worker answers session_lost without running the handler")
		verifReach("wrong-worker")
	case 8: // garbage token
		rec := verifNewRecorder()
		h.handleUnary(rec, verifC29Request("r1", "a", "Tzz", false, use))
		verifAssert(!use.ran && verifC29Lost(rec), "a token the server never minted is session_lost")
	case 9: // another caller presents the token
		rec := verifNewRecorder()
		h.handleUnary(rec, verifC29Request("r1", "b", tok, false, use))
		verifAssert(!use.ran && verifC29Lost(rec) && use.sawState == nil, "another identity is session_lost and never sees the state")
	}
	if e := verifC29EntryOf(h); e != nil {
		verifAssert(e.lock.TryLock(), "no request leaves the session locked")
		e.lock.Unlock()
	}
	// expiry observed lazily by get() as well
	if !ended && verifNondetBool("then_expires_lazily") {
		verifC29Clock = verifC29Clock.Add(ttl + time.Hour)
		ended = true
	}
	// one more resume by the owner
	last := &verifC29Plan{}
	recL := verifNewRecorder()
	h.handleUnary(recL, verifC29Request("r2", "a", tok, false, last))
	if ended {
		verifReach("lost-after-end")
		verifAssert(!last.ran && verifC29Lost(recL), "after the session has ended its token is session_lost")
		verifAssert(st.closes == 1, "the state's Close ran exactly once, however the session ended")
		verifAssert(len(h.stickyRegistry.entries) == 0, "and the registry holds nothing")
	} else {
		verifReach("still-live")
		verifAssert(last.ran && last.sawState == st && !last.sawClosed && st.closes == 0, "a live session keeps resolving to the same, unclosed state")
	}
	h.stickyRegistry.shutdown()
	verifAssert(st.closes == 1, "shutdown closes what is still live, once")
}

// ---- concurrent schedules ----

// Two requests bearing the same session, or one request against a concurrent
// DELETE / reaper tick / shutdown, under every interleaving.
//
//verif:use ipc pipe handler httpx tokens
//verif:sched quick=3 thorough=4
//verif:race
//verif:stub time.Now = verifC29Now
//verif:stub (*github.com/Query-farm/vgi-rpc-go/vgirpc.sessionRegistry).ensureReaper = verifNoReaper
//verif:bound one session opened sequentially by caller a; then two goroutines: G1 = handleUnary bearing the token (its handler uses the state across two yields and optionally closes the session), G2 = one of: a second handleUnary bearing the token (uses, optionally closes) | DELETE by the owner | clock past expiry + reaper tick | shutdown; ALL interleavings at synchronisation points (mutex, Once, atomics, explicit yields in the ghost handler) with at most 3 (thorough: 4) preemptive context switches; a happens-before race detector watches every heap load and store of repository code on every explored schedule
func verifH_C29_concurrent() {
	h := verifC29Setup()
	open := &verifC29Plan{open: true}
	rec0 := verifNewRecorder()
	h.handleUnary(rec0, verifC29Request("r0", "a", "", true, open))
	tok := rec0.hdr.Get(stickySessionHeader)
	verifAssert(open.openErr == nil && tok != "", "session opened")
	if tok == "" {
		return
	}
	st := open.opened
	entry := verifC29EntryOf(h)

	p1 := &verifC29Plan{close: verifNondetBool("g1_closes")}
	p2 := &verifC29Plan{}
	kind := verifChoice("g2", 4)
	if kind == 0 {
		p2.close = verifNondetBool("g2_closes")
	}
	r1 := verifC29Request("r1", "a", tok, false, p1)
	var r2 *http.Request
	if kind == 0 {
		r2 = verifC29Request("r2", "a", tok, false, p2)
	}
	rec1, rec2 := verifNewRecorder(), verifNewRecorder()
	var wg sync.WaitGroup
	wg.Add(2)
	go func() {
		defer wg.Done()
		h.handleUnary(rec1, r1)
	}()
	go func() {
		defer wg.Done()
		switch kind {
		case 0:
			h.handleUnary(rec2, r2)
		case 1:
			r := &http.Request{Method: "DELETE", Header: http.Header{}, URL: &url.URL{Path: "/__session__"}}
			r.Header.Set("X-Caller", "a")
			r.Header.Set(stickySessionHeader, tok)
			h.handleStickyDelete(rec2, r)
		case 2:
			verifC29Clock = verifC29Clock.Add(2 * time.Hour)
			h.stickyRegistry.drainExpired(verifC29Clock)
		case 3:
			h.stickyRegistry.shutdown()
		}
	}()
	wg.Wait()
	verifReach("joined")
	verifAssert(!p1.overlap && !p2.overlap, "calls bearing the same session never run concurrently")
	verifAssert(st.closes <= 1, "the state's Close never runs twice")
	ended := p1.closeResult || p2.closeResult || kind != 0
	if kind == 1 {
		ended = rec2.status == http.StatusNoContent || p1.closeResult
	}
	if ended {
		verifAssert(st.closes == 1, "a session that ended was closed exactly once")
	}
	verifAssert(entry.lock.TryLock(), "no request leaves the session locked after it completes")
	entry.lock.Unlock()
	// a call that runs bearing the session was handed a live session: if another
	// request (close by a handler, DELETE) ended it first, the call must be lost instead
	if kind == 0 || kind == 1 {
		verifAssert(!p1.sawClosed && !p2.sawClosed, "a call never enters its handler with a session that a completed close or DELETE already ended")
	}
	for _, pl := range []*verifC29Plan{p1, p2} {
		if pl.ran && pl.sawState != nil {
			verifAssert(pl.sawState == st, "a resumed call sees the session's own state")
		}
	}
	if kind == 0 {
		verifAssert(p1.ran || verifC29Lost(rec1), "request 1 either runs or is lost")
		verifAssert(p2.ran || verifC29Lost(rec2), "request 2 either runs or is lost")
	}
}
