package vgirpc

import (
	"unicode/utf8"

	"github.com/apache/arrow-go/v18/arrow"
	"github.com/apache/arrow-go/v18/arrow/array"
)

//verif:quote approx
//verif:ints lia
//verif:unwind 64
//verif:maxconcretize 16
//verif:maxdecisions 4000
//verif:maxpaths quick=30000 thorough=400000

// Framing a request and reading it back returns the method, the parameter
// batch and the protocol version that went in.
//
//verif:use ipc
//verif:bound method name ANY byte string of 0..3 bytes (so empty, multi-byte UTF-8 and invalid UTF-8), protocol version ANY string of 0..2 bytes, parameter batch abstract (1 row, or 0/2 rows with the one-column or the empty schema); the IPC byte codec is the abstract reader/writer pair (what is written is what is read back, custom metadata on the batch)
func verifH_C01_request_roundtrip() {
	verifResetIPC()
	m := verifNondetString("method", verifChoice("method.len", 4))
	v := verifNondetString("version", verifChoice("version.len", 3))
	rows := int64(1)
	switch verifChoice("rows", 3) {
	case 1:
		rows = 0
	case 2:
		rows = 2
	}
	schema := verifDataSchema
	if verifNondetBool("empty_schema") {
		schema = verifEmptySchema
	}
	params := verifNewBatch(schema, rows, 55, nil, nil)
	sink := &verifSink{}
	werr := WriteRequest(sink, m, params, v)
	verifAssert(werr == nil, "framing succeeds")
	out := verifSinkStreams(sink)
	verifAssert(len(out) == 1 && out[0].closed && len(out[0].batches) == 1, "a request is one complete stream with one batch")
	if len(out) != 1 || len(out[0].batches) != 1 {
		return
	}
	// read back what was written
	verifInQueue = append(verifInQueue, &verifInStream{batches: out[0].batches, schema: out[0].schema, failAt: -1})
	verifMemQueue = append(verifMemQueue, &verifInStream{batches: out[0].batches, schema: out[0].schema, failAt: -1})
	req, err := ReadRequest(&verifConn{})
	verifReach("read-back")
	pv := FindProtocolVersion([]byte("S"))
	verifAssert(pv == v, "FindProtocolVersion recovers exactly the stamped protocol version ('' when none)")
	badRows := schema.NumFields() > 0 && rows != 1
	switch {
	case !utf8.ValidString(m):
		verifReach("invalid-utf8")
		rpcErr, ok := err.(*RpcError)
		verifAssert(req == nil && ok && rpcErr.Type == "ProtocolError", "an invalid UTF-8 method name is rejected with a typed ProtocolError")
	case badRows:
		verifReach("bad-rows")
		rpcErr, ok := err.(*RpcError)
		verifAssert(req == nil && ok && rpcErr.Type == "ProtocolError", "a wrong row count is rejected with a typed ProtocolError")
	default:
		verifReach("accepted")
		verifAssert(err == nil && req != nil, "a well-formed request reads back")
		if err == nil && req != nil {
			b, ok := req.Batch.(*verifBatch)
			verifAssert(req.Method == m, "the method name reads back exactly (any UTF-8, including empty)")
			verifAssert(ok && b.tag == 55 && b.rows == rows && b.schema == schema, "the parameter batch reads back")
			got, has := req.Metadata[MetaProtocolVersion]
			verifAssert(has == (v != "") && got == v, "the protocol version is stamped iff non-empty and reads back exactly")
			verifAssert(req.Version == ProtocolVersion, "the request version is the framework's")
		}
	}
}

// The token finders recover the first cursor in stream order and the call token of the same walk.
//
//verif:use ipc
//verif:bound concatenations of 0..2 (thorough: 0..3) streams of 0..2 batches each; every batch carries any subset of {stream_state, call_state}, each with an empty or a distinct 1-byte value (batches the walk cannot reach carry a decoy cursor); a stream may also be unreadable
func verifH_C01_find_tokens() {
	verifResetIPC()
	maxStreams := 2
	if verifTier() == 1 {
		maxStreams = 3
	}
	ns := verifChoice("streams", maxStreams+1)
	data := ""
	var wantState, wantCall string
	found, walkEnded := false, false
	for i := 0; i < ns; i++ {
		st := &verifInStream{schema: verifDataSchema, failAt: -1}
		bad := verifNondetBool("unreadable")
		st.bad = bad
		nb := verifChoice("batches", 3)
		for j := 0; j < nb; j++ {
			var keys, vals []string
			cs, ss := "", ""
			// batches behind the point where the walk ends cannot influence the result: only the
			// ones the walk can still reach are varied (the rest carry a decoy cursor)
			reachable := !found && !walkEnded && !bad
			hasCall := reachable && verifNondetBool("has_call")
			if hasCall {
				if verifNondetBool("call.nonempty") {
					cs = string(rune('a' + 2*i + j))
				}
				keys, vals = append(keys, MetaCallState), append(vals, cs)
			}
			hasState := !reachable || verifNondetBool("has_state")
			if hasState {
				if !reachable || verifNondetBool("state.nonempty") {
					ss = string(rune('p' + 2*i + j))
				}
				keys, vals = append(keys, MetaStreamState), append(vals, ss)
			}
			st.batches = append(st.batches, verifNewBatch(verifDataSchema, 0, 0, keys, vals))
			if !found && !walkEnded && !bad {
				if wantCall == "" && cs != "" {
					wantCall = cs
				}
				if ss != "" {
					wantState, found = ss, true
				}
			}
		}
		if bad && !found {
			walkEnded = true // an unreadable stream ends the walk
		}
		verifMemQueue = append(verifMemQueue, st)
		data += "S"
	}
	state, call := FindStreamTokens([]byte(data))
	verifReach("walked")
	verifAssert(string(state) == wantState && (state != nil) == found, "the first non-empty cursor in stream order is returned (nil when there is none)")
	verifAssert(string(call) == wantCall, "together with the first call token met on the same walk")
	verifAssert(string(FindStateToken([]byte(""))) == "", "no bytes, no token")
	if found {
		verifReach("token-found")
	}
}

// A response that is an error, log-only or empty is never reported as a result.
//
//verif:use ipc
//verif:bound response stream unreadable or of 0..3 zero-row batches each a log (any of 5 non-exception levels), an exception, or a metadata-free batch. The positive direction is verifH_C01_unary_result_typed.
func verifH_C01_unary_result_negative() {
	verifResetIPC()
	st := &verifInStream{schema: verifDataSchema, failAt: -1}
	st.bad = verifNondetBool("unreadable")
	n := verifChoice("batches", 4)
	for i := 0; i < n; i++ {
		switch verifChoice("kind", 3) {
		case 0:
			lvl := []string{"TRACE", "DEBUG", "INFO", "WARN", "ERROR"}[verifChoice("level", 5)]
			st.batches = append(st.batches, verifNewBatch(verifDataSchema, 0, 0, []string{MetaLogLevel, MetaLogMessage}, []string{lvl, "m"}))
		case 1:
			st.batches = append(st.batches, verifNewBatch(verifDataSchema, 0, 0, []string{MetaLogLevel, MetaLogMessage}, []string{"EXCEPTION", "boom"}))
		default:
			st.batches = append(st.batches, verifNewBatch(verifDataSchema, 0, 0, nil, nil))
		}
	}
	verifMemQueue = append(verifMemQueue, st)
	schema, res, ok := ReadUnaryResult([]byte("S"))
	verifReach("unwrapped")
	verifAssert(!ok && schema == nil && res == nil, "an error, log-only, empty or unreadable response is not a result")
}

// ---- the result column as a real arrow array object ----

type verifC01Cell struct {
	obj interface{}
	bin []byte
	n   int
}

var verifC01Cells []verifC01Cell

func verifC01Find(obj interface{}) *verifC01Cell {
	for i := range verifC01Cells {
		if verifC01Cells[i].obj == obj {
			return &verifC01Cells[i]
		}
	}
	panic("verifC01: unknown column object")
}

func verifC01BinLen(a *array.Binary) int                   { return verifC01Find(a).n }
func verifC01BinValue(a *array.Binary, i int) []byte       { return verifC01Find(a).bin }
func verifC01StrLen(a *array.String) int                   { return verifC01Find(a).n }
func verifC01StrValueLen(a *array.String, i int) int       { return len(verifC01Find(a).bin) }
func verifC01StrValueBytes(a *array.String) []byte         { return verifC01Find(a).bin }
func verifC01LStrLen(a *array.LargeString) int             { return verifC01Find(a).n }
func verifC01LStrValueLen(a *array.LargeString, i int) int { return len(verifC01Find(a).bin) }
func verifC01LStrValueBytes(a *array.LargeString) []byte   { return verifC01Find(a).bin }
func verifC01BinValueLen(a *array.Binary, i int) int       { return len(verifC01Find(a).bin) }
func verifC01BinValueBytes(a *array.Binary) []byte         { return verifC01Find(a).bin }

// A response whose first data batch has a binary "result" column unwraps to
// exactly those bytes; a result column of any other type (a scalar-returning
// method: utf8, large_utf8, int64) is not a result envelope.
//
//verif:use ipc
//verif:stub (*github.com/apache/arrow-go/v18/arrow/array.String).Len = verifC01StrLen
//verif:stub (*github.com/apache/arrow-go/v18/arrow/array.String).ValueLen = verifC01StrValueLen
//verif:stub (*github.com/apache/arrow-go/v18/arrow/array.String).ValueBytes = verifC01StrValueBytes
//verif:stub (*github.com/apache/arrow-go/v18/arrow/array.LargeString).Len = verifC01LStrLen
//verif:stub (*github.com/apache/arrow-go/v18/arrow/array.LargeString).ValueLen = verifC01LStrValueLen
//verif:stub (*github.com/apache/arrow-go/v18/arrow/array.LargeString).ValueBytes = verifC01LStrValueBytes
//verif:bound 0..2 leading log batches, then one data batch of 1..2 rows whose schema has a column named "result" (alone, or after another column) or no such column; the result column object is a real *array.Binary holding ANY 0..3 bytes, or a *array.String / *array.LargeString / *array.Int64 (what a scalar-returning method answers with); the Binary array's own fields (data.length, valueOffsets, valueBytes) are filled in and arrow-go's accessors run as written; String arrays answer through identity-keyed cells
func verifH_C01_unary_result_typed() {
	verifResetIPC()
	verifC01Cells = nil
	st := &verifInStream{failAt: -1}
	for i, n := 0, verifChoice("logs", 3); i < n; i++ {
		st.batches = append(st.batches, verifNewBatch(verifDataSchema, 0, 0, []string{MetaLogLevel, MetaLogMessage}, []string{"INFO", "m"}))
	}
	payload := verifNondetBytes("payload", verifChoice("payload.len", 4))
	rows := 1 + verifChoice("rows", 2)
	kind := verifChoice("result.column", 5) // 0 binary, 1 utf8, 2 large_utf8, 3 int64, 4 no result column
	var col arrow.Array
	var typ arrow.DataType
	switch kind {
	case 0:
		// a real Binary array: its own fields are filled in, arrow-go's accessors run as written
		x := new(array.Binary)
		d := new(array.Data)
		verifSetField(d, "length", rows)
		verifSetField(x, "array.data", d)
		offs := []int32{0, int32(len(payload))}
		for len(offs) < rows+1 {
			offs = append(offs, int32(len(payload)))
		}
		verifSetField(x, "valueOffsets", offs)
		verifSetField(x, "valueBytes", payload)
		col, typ = x, arrow.BinaryTypes.Binary
	case 1:
		x := new(array.String)
		verifC01Cells = append(verifC01Cells, verifC01Cell{obj: x, bin: payload, n: rows})
		col, typ = x, arrow.BinaryTypes.String
	case 2:
		x := new(array.LargeString)
		verifC01Cells = append(verifC01Cells, verifC01Cell{obj: x, bin: payload, n: rows})
		col, typ = x, arrow.BinaryTypes.LargeString
	default:
		x := new(array.Int64)
		col, typ = x, arrow.PrimitiveTypes.Int64
	}
	name := "result"
	if kind == 4 {
		name = "value"
	}
	fields := []arrow.Field{{Name: name, Type: typ}}
	cols := []arrow.Array{col}
	if verifNondetBool("leading_column") {
		fields = append([]arrow.Field{{Name: "other", Type: arrow.PrimitiveTypes.Int64}}, fields...)
		cols = append([]arrow.Array{new(array.Int64)}, cols...)
	}
	schema := arrow.NewSchema(fields, nil)
	st.schema = schema
	st.batches = append(st.batches, &verifBatch{schema: schema, rows: int64(rows), refs: 1, cols: cols, tag: 9})
	verifMemQueue = append(verifMemQueue, st)
	gotSchema, res, ok := ReadUnaryResult([]byte("S"))
	verifReach("typed-unwrapped")
	if kind == 0 {
		verifReach("binary-result")
		verifAssert(ok && gotSchema == schema && string(res) == string(payload), "a binary result column unwraps to exactly its bytes, with the envelope schema")
	} else {
		verifReach("not-an-envelope")
		verifAssert(!ok && res == nil, "a result column that is not binary (a scalar-returning method), or no result column, is not a result envelope")
	}
}
