package vgirpc

import (
	"context"
	"errors"
	"time"

	"github.com/apache/arrow-go/v18/arrow"
)

//verif:ints lia
//verif:unwind 32
//verif:maxconcretize 16
//verif:maxdecisions 4000

var verifC16FrameworkKeys = []string{MetaStreamState, MetaCallState, MetaCancel}

func verifC16IsFramework(k string) bool {
	return k == MetaStreamState || k == MetaCallState || k == MetaCancel
}

// verifC16Key: a metadata key that is a framework key, a user key, or ANY
// string of the same length as a framework key (near misses).
func verifC16Key(name string) string {
	switch verifChoice(name+".kind", 5) {
	case 0:
		return MetaStreamState
	case 1:
		return MetaCallState
	case 2:
		return MetaCancel
	case 3:
		return "vgi_pushdown_filters"
	}
	n := len(verifC16FrameworkKeys[verifChoice(name+".len", 3)])
	return verifNondetString(name, n)
}

func verifC16Meta(name string, max int) ([]string, []string) {
	n := verifChoice(name+".n", max+1)
	keys := make([]string, n)
	vals := make([]string, n)
	for i := 0; i < n; i++ {
		keys[i] = verifC16Key(name + ".key")
		vals[i] = string(rune('a' + i))
	}
	return keys, vals
}

// stripFrameworkTickMetadata removes exactly the framework keys and keeps the rest in order.
//
//verif:bound metadata of 0..3 pairs; each key a framework key, a user key or ANY byte string of a framework key's length
func verifH_C16_strip() {
	keys, vals := verifC16Meta("in", 3)
	var meta arrow.Metadata
	if len(keys) > 0 {
		meta = arrow.NewMetadata(keys, vals)
	}
	got := stripFrameworkTickMetadata(meta)
	verifReach("stripped")
	var wk, wv []string
	for i, k := range keys {
		if !verifC16IsFramework(k) {
			wk = append(wk, k)
			wv = append(wv, vals[i])
		}
	}
	gk, gv := got.Keys(), got.Values()
	verifAssert(len(gk) == len(wk), "exactly the framework keys are removed")
	if len(gk) == len(wk) {
		for i := range gk {
			verifAssert(gk[i] == wk[i] && gv[i] == wv[i], "the remaining pairs keep their order and values")
		}
	}
	if len(wk) > 0 && len(wk) < len(keys) {
		verifReach("partly-stripped")
	}
}

// ---- one exchange turn ----

const (
	verifC16Emit = iota
	verifC16EmitMeta
	verifC16LogEmit
	verifC16NoEmit
	verifC16DoubleEmitIgnored
	verifC16DoubleEmitReturned
	verifC16Error
	verifC16Panic
	verifC16FinishIgnored
	verifC16EmitThenError
	verifC16LogNoEmit
	verifC16NOutcomes
)

type verifC16State struct {
	outcome   int
	emitKeys  []string
	emitVals  []string
	seenMeta  arrow.Metadata
	calls     int
	cancels   int
	sawToken  bool
	cancelErr bool
}

func (s *verifC16State) Exchange(ctx context.Context, input arrow.RecordBatch, out *OutputCollector, callCtx *CallContext) error {
	s.calls++
	s.seenMeta = callCtx.InputMetadata
	mk := func(tag int) *verifBatch {
		b := verifNewBatch(verifDataSchema, 1, tag, nil, nil)
		b.size = 64
		return b
	}
	switch s.outcome {
	case verifC16Emit:
		return out.Emit(mk(1))
	case verifC16EmitMeta:
		m := map[string]string{}
		for i, k := range s.emitKeys {
			m[k] = s.emitVals[i]
		}
		return out.EmitWithMetadata(mk(1), m)
	case verifC16LogEmit:
		out.ClientLog(LogInfo, "hello")
		return out.Emit(mk(1))
	case verifC16NoEmit:
		return nil
	case verifC16LogNoEmit:
		out.ClientLog(LogInfo, "hello")
		return nil
	case verifC16DoubleEmitIgnored:
		_ = out.Emit(mk(1))
		_ = out.Emit(mk(2))
		return nil
	case verifC16DoubleEmitReturned:
		_ = out.Emit(mk(1))
		return out.Emit(mk(2))
	case verifC16Error:
		return errors.New("turn failed")
	case verifC16Panic:
		panic("turn panicked")
	case verifC16FinishIgnored:
		_ = out.Finish()
		return out.Emit(mk(1))
	default:
		_ = out.Emit(mk(1))
		return &RpcError{Type: "ValueError", Message: "late failure"}
	}
}

func (s *verifC16State) OnCancel(ctx context.Context, callCtx *CallContext) error {
	s.cancels++
	if s.cancelErr {
		return errors.New("cancel hook failed")
	}
	return nil
}

func verifC16CountCursors() (n int, onData int, last string) {
	for _, st := range verifOutStreams {
		for _, b := range st.batches {
			if !b.hasMeta {
				continue
			}
			ks, vs := b.meta.Keys(), b.meta.Values()
			has := false
			for i, k := range ks {
				if k == MetaStreamState {
					has = true
					last = vs[i]
				}
			}
			if has {
				n++
				if b.tag > 0 {
					onData++
				}
			}
		}
	}
	return
}

// One accepted exchange continuation: exactly one data batch with a fresh
// cursor on success; an error batch and no cursor on failure; the handler sees
// the request's metadata without the framework keys.
//
//verif:use ipc tokens
//verif:stub time.Now = verifFixedNow
//verif:stub encoding/json.Marshal = verifJSONMarshal
//verif:bound one turn through handleExchangeCall; handler outcome one of: emit, emit with 1..2 metadata pairs (keys as in verifH_C16_strip but not framework keys — a handler overwriting vgi_rpc.stream_state is a handler bug outside the claim), log+emit, no emit, a log but no data batch, second emit (error ignored / returned), error, panic, Finish on an exchange then emit, emit then error; request metadata 0..2 pairs with framework keys allowed; max_response_bytes off or ANY positive value against a 64-byte data batch; abstract IPC; ideal token algebra
func verifH_C16_exchange_turn() {
	verifResetIPC()
	verifToks = nil
	verifSinkBytes, verifWireSize = true, 0
	st := &verifC16State{outcome: verifChoice("outcome", verifC16NOutcomes)}
	if st.outcome == verifC16EmitMeta {
		n := 1 + verifChoice("emit.n", 2)
		for i := 0; i < n; i++ {
			k := "vgi_batch_index"
			if i == 1 {
				k = "vgi_partition_values#b64"
			}
			if verifNondetBool("emit.symbolic") {
				k = verifNondetString("emit.key", len(MetaStreamState))
				verifAssume(!verifC16IsFramework(k))
			}
			if i == 1 {
				verifAssume(k != st.emitKeys[0])
			}
			st.emitKeys = append(st.emitKeys, k)
			st.emitVals = append(st.emitVals, string(rune('p'+i)))
		}
	}
	inKeys, inVals := verifC16Meta("req", 2)
	var inMeta arrow.Metadata
	if len(inKeys) > 0 {
		inMeta = arrow.NewMetadata(inKeys, inVals)
	}
	capv := int64(0)
	if verifNondetBool("cap.set") {
		capv = verifNondetInt64("cap")
		verifAssume(capv >= 1)
	}
	h := &HttpServer{server: &Server{serverID: "srv"}, tokenKey: []byte("0123456789abcdef0123456789abcdef"), tokenTTL: time.Hour, maxResponseBytes: capv}
	info := &methodInfo{Name: "xchg", Type: MethodExchange, OutputSchema: verifDataSchema}
	in := verifNewBatch(verifDataSchema, 1, 9, nil, nil)
	rw := verifNewRecorder()
	err := h.handleExchangeCall(context.Background(), rw, in, inMeta, verifDataSchema, st, info, &CallStatistics{}, nil, nil, nil, "sid", "c1", nil)
	verifSinkBytes = false
	verifReach("turn-done")
	verifAssert(st.calls == 1, "the turn runs the handler exactly once")
	// what the handler saw
	sk := st.seenMeta.Keys()
	sv := st.seenMeta.Values()
	j := 0
	for i, k := range inKeys {
		if verifC16IsFramework(k) {
			continue
		}
		verifAssert(j < len(sk) && sk[j] == k && sv[j] == inVals[i], "the handler sees the request's own metadata in order")
		j++
	}
	verifAssert(j == len(sk), "the handler sees none of the framework's token/cancel keys")

	good := st.outcome == verifC16Emit || st.outcome == verifC16EmitMeta || st.outcome == verifC16LogEmit || st.outcome == verifC16DoubleEmitIgnored || st.outcome == verifC16FinishIgnored
	cursors, onData, last := verifC16CountCursors()
	final := verifOutStreams[len(verifOutStreams)-1]
	verifAssert(final.closed && rw.status == 200, "a complete response is written")
	data, excs := 0, 0
	for _, b := range final.batches {
		if b.tag > 0 {
			data++
		}
		if lvl, ok := verifMetaGet(b, MetaLogLevel); ok && lvl == string(LogException) {
			excs++
		}
	}
	overCap := capv > 0 && good && 64 > capv
	if good && !overCap {
		verifReach("turn-ok")
		verifAssert(err == nil, "a successful turn reports no error")
		verifAssert(data == 1 && excs == 0, "exactly one data batch and no exception")
		verifAssert(cursors == 1 && onData == 1, "exactly one batch carries a cursor and it is the data batch")
		verifAssert(len(verifToks) == 1 && last == string(verifTokWire(cursorTokenVersion, 0)), "the cursor is the one freshly sealed for this turn")
		if len(verifToks) == 1 {
			verifAssert(verifToks[0].cursor.CallID == "c1" && verifToks[0].cursor.State == interface{}(st), "the fresh cursor binds the same call and the advanced state")
		}
		for _, b := range final.batches {
			if b.tag > 0 {
				v, _ := verifMetaGet(b, MetaStreamState)
				verifAssert(v == last, "the client's metadata lookup on the data batch returns the fresh cursor")
				for i, k := range st.emitKeys {
					ev, ok := verifMetaGet(b, k)
					verifAssert(ok && ev == st.emitVals[i], "per-emit metadata stays on the data batch under the cursor")
				}
			}
		}
		if st.outcome == verifC16LogEmit {
			verifAssert(len(final.batches) == 2 && final.batches[0].tag == 0 && final.batches[1].tag > 0, "the turn's log precedes its data batch")
		}
		verifAssert(rw.hdr.Get(rpcErrorHeader) == "", "a successful turn is not flagged as an error")
	} else {
		verifReach("turn-failed")
		verifAssert(err != nil, "a failed turn reports its error")
		verifAssert(data == 0 && excs == 1 && len(final.batches) == 1, "the response is exactly one exception batch")
		verifAssert(cursors == 0 || (overCap && final == verifOutStreams[len(verifOutStreams)-1] && verifC16NoCursorIn(final)), "no batch of the response carries a cursor, so the stream ends")
		verifAssert(rw.hdr.Get(rpcErrorHeader) == "true", "the failure is signalled in the response headers")
		if overCap {
			verifReach("turn-over-cap")
		}
	}
}

func verifC16NoCursorIn(st *verifOutStream) bool {
	for _, b := range st.batches {
		if _, ok := verifMetaGet(b, MetaStreamState); ok {
			return false
		}
	}
	return true
}

// A cancel continuation runs the cancel hook once and returns an empty stream
// with no cursor.
//
//verif:use ipc tokens
//verif:stub time.Now = verifFixedNow
//verif:bound state with or without a cancel hook; hook succeeds, fails or panics
func verifH_C16_cancel() {
	verifResetIPC()
	verifToks = nil
	h := &HttpServer{server: &Server{serverID: "srv"}, tokenKey: []byte("0123456789abcdef0123456789abcdef"), tokenTTL: time.Hour}
	info := &methodInfo{Name: "xchg", Type: MethodExchange, OutputSchema: verifDataSchema}
	rw := verifNewRecorder()
	var state interface{}
	var cs *verifC16State
	var ps *verifC16PanicCanceller
	switch verifChoice("hook", 4) {
	case 0:
		state = &verifC16NoHook{}
	case 1:
		cs = &verifC16State{}
		state = cs
	case 2:
		cs = &verifC16State{cancelErr: true}
		state = cs
	default:
		ps = &verifC16PanicCanceller{}
		state = ps
	}
	err := h.handleStreamCancel(context.Background(), rw, verifDataSchema, state, info, nil, nil, nil, nil)
	verifReach("cancelled")
	verifAssert(err == nil && rw.status == 200, "a cancel is answered 200")
	verifAssert(len(verifOutStreams) == 1 && verifOutStreams[0].closed && len(verifOutStreams[0].batches) == 0, "the response is an empty, closed stream")
	verifAssert(len(verifToks) == 0, "no cursor is minted on cancel")
	if cs != nil {
		verifReach("hook-ran")
		verifAssert(cs.cancels == 1 && cs.calls == 0, "the cancel hook runs exactly once and no turn runs")
	}
	if ps != nil {
		verifAssert(ps.cancels == 1, "a panicking cancel hook is contained")
	}
}

type verifC16NoHook struct{}

func (verifC16NoHook) Exchange(ctx context.Context, input arrow.RecordBatch, out *OutputCollector, callCtx *CallContext) error {
	return nil
}

type verifC16PanicCanceller struct{ cancels int }

func (p *verifC16PanicCanceller) OnCancel(ctx context.Context, callCtx *CallContext) error {
	p.cancels++
	panic("cancel hook panicked")
}
