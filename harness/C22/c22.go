package vgirpc

import (
	"context"
	"errors"
	"io"
	"net/http"
	"net/url"
	"strings"
	"time"

	"github.com/apache/arrow-go/v18/arrow"
)

//verif:ints lia
//verif:unwind 64
//verif:maxconcretize 32
//verif:maxdecisions 4000

type verifC22Route struct {
	pattern string
	handler func(http.ResponseWriter, *http.Request)
}

var (
	verifC22Routes    []verifC22Route
	verifC22BodyReads int
	verifC22Provider  int
	verifC22Resolver  int
)

func verifC22HandleFunc(m *http.ServeMux, pattern string, handler func(http.ResponseWriter, *http.Request)) {
	verifC22Routes = append(verifC22Routes, verifC22Route{pattern, handler})
}

func verifC22ReadBody(h *HttpServer, r *http.Request) ([]byte, error) {
	verifC22BodyReads++
	return []byte("body"), nil
}
func verifC22ReadAll(r io.Reader) ([]byte, error) {
	verifC22BodyReads++
	return []byte(`{"token":"abc"}`), nil
}

type verifC22UploadProvider struct{}

func (verifC22UploadProvider) GenerateUploadURL(schema *arrow.Schema) (UploadURL, error) {
	verifC22Provider++
	return UploadURL{UploadURL: "https://s/u", DownloadURL: "https://s/d", ExpiresAt: time.Unix(0, 0)}, nil
}

func verifC22HTML1(prefix, protocolName string) []byte                                   { return []byte("html") }
func verifC22HTML2(prefix, protocolName, serverID, describePath, repoURL string) []byte  { return []byte("html") }
func verifC22HTML3(s *Server, prefix, protocolName, repoURL string) []byte               { return []byte("html") }

// verifC22Exempt: the routes the property allows to be reachable without authentication.
func verifC22Exempt(pattern, prefix string) bool {
	verb, path := "", pattern
	if i := strings.IndexByte(pattern, ' '); i >= 0 {
		verb, path = pattern[:i], pattern[i+1:]
	}
	switch {
	case verb == "OPTIONS":
		return true // CORS preflight
	case path == "/health" || path == prefix+"/health":
		return true // health probes
	case strings.HasPrefix(path, "/.well-known/"):
		return true // OAuth metadata document
	case strings.HasPrefix(path, prefix+"/_oauth/"):
		return true // login routes
	case verb == "GET" && (path == prefix+"/describe" || path == prefix || path == "/{$}"):
		return true // HTML pages
	case verb == "" && path == "/":
		return true // not-found page
	case verb == "DELETE" && path == prefix+"/__session__":
		return true // idempotent session delete
	}
	return false
}

// Every RPC and control route performs no work under a rejecting authenticator.
//
//verif:use ipc pipe handler tokens
//verif:stub (*net/http.ServeMux).HandleFunc = verifC22HandleFunc
//verif:stub (*github.com/Query-farm/vgi-rpc-go/vgirpc.HttpServer).readHTTPBody = verifC22ReadBody
//verif:stub io.ReadAll = verifC22ReadAll
//verif:stub github.com/Query-farm/vgi-rpc-go/vgirpc.buildNotFoundHTML = verifC22HTML1
//verif:stub github.com/Query-farm/vgi-rpc-go/vgirpc.buildLandingHTML = verifC22HTML2
//verif:stub github.com/Query-farm/vgi-rpc-go/vgirpc.buildDescribeHTML = verifC22HTML3
//verif:stub github.com/Query-farm/vgi-rpc-go/vgirpc.buildHTTPCookies = verifXCookies
//verif:stub time.Now = verifFixedNow
//verif:bound the route table is harvested from the real initRoutes / EnableSticky / initPages (so a newly registered route is covered automatically) for every combination of prefix {"", "/vgi"}, upload provider, token introspection, sticky sessions, PKCE login; every harvested route that is not on the property's exemption list is invoked once with a well-formed request (Arrow content type, a registered unary / producer / exchange method name in the path, a parseable body) under an authenticator that rejects in one of five ways (AuthFailure, ValueError, PermissionError, AuthUnavailable, plain error), returning a nil context or the context it decoded alongside the error
func verifH_C22_routes_behind_auth() {
	verifResetIPC()
	verifResetHandler()
	verifC22Routes, verifC22BodyReads, verifC22Provider, verifC22Resolver = nil, 0, 0, 0
	srv := verifPipeServer()
	h := &HttpServer{server: srv, tokenKey: verifXKey, tokenTTL: time.Hour, callStates: newCallStateCache(8, time.Hour),
		enableLandingPage: true, enableDescribePage: true, enableNotFoundPage: true}
	if verifNondetBool("prefix") {
		h.prefix = "/vgi"
	}
	if verifNondetBool("upload_provider") {
		h.uploadURLProvider = verifC22UploadProvider{}
	}
	if verifNondetBool("introspection") {
		h.introspect = &tokenIntrospection{
			resolver: func(credential string) (TokenIdentity, bool, error) {
				verifC22Resolver++
				return TokenIdentity{Principal: "p"}, true, nil
			},
			principals: map[string]bool{"proxy": true}, defaultTTL: 60, limiter: newIntrospectRateLimiter(10, time.Second)}
	}
	h.initRoutes()
	if verifNondetBool("sticky") {
		h.EnableSticky(0)
	}
	if verifNondetBool("pkce") {
		h.pkce = &oauthPkceState{prefix: h.prefix}
	}
	h.initPages()
	verifReach("routes-harvested")
	verifAssert(len(verifC22Routes) >= 7, "the route table was harvested")

	var reject error
	kind := verifChoice("reject", 5)
	switch kind {
	case 0:
		reject = &AuthFailure{Reason: AuthReasonInvalidCredential}
	case 1:
		reject = &RpcError{Type: "ValueError", Message: "no"}
	case 2:
		reject = &RpcError{Type: "PermissionError", Message: "no"}
	case 3:
		reject = &AuthUnavailableError{Detail: "down"}
	default:
		reject = errors.New("boom")
	}
	authCalls := 0
	// a rejecting authenticator may still hand back the identity it decoded
	var rejectedCtx *AuthContext
	if verifNondetBool("context_with_error") {
		rejectedCtx = &AuthContext{Authenticated: true, Principal: "proxy", Domain: "bearer"}
	}
	h.authenticateFunc = func(r *http.Request) (*AuthContext, error) { authCalls++; return rejectedCtx, reject }
	verifHFn = func(ctx context.Context, cc *CallContext) (interface{}, error) { return 1, nil }

	i := verifChoice("route", len(verifC22Routes))
	rt := verifC22Routes[i]
	if verifC22Exempt(rt.pattern, h.prefix) {
		return // reachable without authentication by the property's own list
	}
	verifReach("protected-route")
	verb := "POST"
	if j := strings.IndexByte(rt.pattern, ' '); j >= 0 {
		verb = rt.pattern[:j]
	}
	method := []string{"u", "p", "x"}[verifChoice("method", 3)]
	// a well-formed request for whatever this route expects
	verifQueueRequest(1, 0, []string{MetaMethod, MetaRequestVersion, MetaStreamState, MetaCallState}, []string{method, ProtocolVersion, "Tzz", "Tzz"})
	r := &http.Request{Method: verb, Header: http.Header{}, URL: &url.URL{Path: "/x"}, RemoteAddr: "1.2.3.4:5", Body: io.NopCloser(strings.NewReader("{}"))}
	r.Header.Set("Content-Type", arrowContentType)
	r.SetPathValue("method", method)
	r = r.WithContext(context.Background())
	rw := verifNewRecorder()
	rt.handler(rw, r)
	verifReach("handler-returned")
	work := verifC22BodyReads + verifC22Provider + verifC22Resolver + verifHCalls + verifParamsSeen + len(verifOutStreams) + verifInNext
	verifAssert(work == 0, "no body read, provider, resolver, handler, parameter binding or response stream happens on a protected route when the authenticator rejects")
	disabledFeature := rw.status == 404 && ((strings.HasSuffix(rt.pattern, IntrospectEndpoint) && h.introspect == nil) || (strings.HasSuffix(rt.pattern, "/__upload_url__/init") && h.uploadURLProvider == nil))
	if !disabledFeature {
		verifAssert(authCalls == 1, "the authenticator is consulted")
		switch kind {
		case 3:
			verifAssert(rw.status == 503, "an unavailable authenticator yields 503")
		case 4:
			verifAssert(rw.status == 500, "an internal authenticator error yields 500")
		default:
			verifAssert(rw.status == 401, "a rejection yields 401")
		}
	} else {
		verifReach("disabled-feature")
	}
}
