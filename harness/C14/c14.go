package vgirpc

//verif:ints lia
//verif:unwind 32
//verif:maxconcretize 16
//verif:maxdecisions 4000

import (
	"context"
)

// verifC14Init runs method a's real /init handler with a ghost stream handler
// returning state, and returns the (cursor, call token) pair it minted.
func verifC14Init(h *HttpServer, a string, state interface{}) ([]byte, []byte, int) {
	verifHFn = func(ctx context.Context, cc *CallContext) (interface{}, error) {
		return &StreamResult{OutputSchema: verifDataSchema, State: state}, nil
	}
	params := verifNewBatch(verifEmptySchema, 1, 0, []string{MetaMethod, MetaRequestVersion}, []string{a, ProtocolVersion})
	verifInQueue = append(verifInQueue, &verifInStream{batches: []*verifBatch{params}, schema: verifEmptySchema, failAt: -1})
	r := verifXExchangeRequest(a, nil, nil)
	verifInQueue = verifInQueue[:len(verifInQueue)-1] // the init request has its own body stream (queued above)
	rw := verifNewRecorder()
	h.handleStreamInit(rw, r)
	var cur, call []byte
	for _, st := range verifOutStreams {
		for _, b := range st.batches {
			if v, ok := verifMetaGet(b, MetaStreamState); ok {
				cur = []byte(v)
			}
			if v, ok := verifMetaGet(b, MetaCallState); ok {
				call = []byte(v)
			}
		}
	}
	return cur, call, rw.status
}

// A continuation token only resumes the stream method that minted it.
//
//verif:use ipc tokens httpx handler
//verif:bound all ordered pairs (minting method A, presenting route B) over the three registered stream methods {producer "prod" (batch limit 1 so /init ends with a token), exchange "xchg", dynamic "dyn" (state producer-like, exchange-like or both)}; token set = the cursor and call token that A's real /init handler minted, presented together at B's continuation route, on the same instance (call cache warm) or another instance sharing the key (cold), as a normal or a cancel continuation; abstract IPC, ideal token algebra, reflect-dispatched handler replaced by a ghost handler, body reader / cookies / protocol hash stubbed
func verifH_C14_cross_method() {
	verifResetIPC()
	verifResetHandler()
	verifXReset()
	verifToks = nil
	verifRandCtr = 0
	methods := []string{"prod", "xchg", "dyn"}
	a := methods[verifChoice("minted_by", 3)]
	b := methods[verifChoice("presented_at", 3)]
	hA := verifXServer(Anonymous())
	hA.producerBatchLimit = 1
	var state interface{}
	switch a {
	case "prod":
		state = &verifXProducerA{}
	case "xchg":
		state = &verifXExchangeB{}
	default:
		switch verifChoice("dyn_state", 3) {
		case 0:
			state = &verifXProducerA{}
		case 1:
			state = &verifXExchangeB{}
		default:
			state = &verifXBoth{}
		}
	}
	cur, callTok, st := verifC14Init(hA, a, state)
	if _, both := state.(*verifXBoth); both {
		// a both-capable dynamic state is run as a producer and finishes at once: no token, nothing to present
		verifAssert(st == 200, "init answered")
		if cur == nil {
			return
		}
	}
	verifAssert(st == 200 && cur != nil && callTok != nil, "A's /init mints a cursor and a call token")
	if cur == nil || callTok == nil {
		return
	}
	verifXReset()
	h := hA
	if verifNondetBool("cold_instance") {
		h = verifXServer(Anonymous())
		h.producerBatchLimit = 1
	}
	keys := []string{MetaStreamState, MetaCallState}
	vals := []string{string(cur), string(callTok)}
	cancel := verifNondetBool("cancel")
	if cancel {
		keys = append(keys, MetaCancel)
		vals = append(vals, "1")
	}
	r := verifXExchangeRequest(b, keys, vals)
	rw := verifNewRecorder()
	h.handleStreamExchange(rw, r)
	verifReach("answered")
	verifAssert(rw.status != 0, "the request is answered (no panic aborts the exchange)")
	if a == b {
		verifReach("same-method")
		verifAssert(rw.status == 200 && rw.hdr.Get(rpcErrorHeader) == "", "the minting method's own route accepts its tokens")
		verifAssert(verifXProduce+verifXExchange+verifXCancel >= 1 || cancel, "and runs the stream state")
	} else {
		verifReach("foreign-method")
		verifAssert(rw.status >= 400 && rw.status < 500, "another method's route refuses the tokens with a client error")
		verifAssert(verifXProduce == 0 && verifXExchange == 0 && verifXCancel == 0 && verifXRehydrate == 0, "no state method, cancel hook or rehydrate callback runs on the foreign state")
	}
}
