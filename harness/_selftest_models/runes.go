package vgirpc

import "unicode/utf8"

//verif:ints bv
//verif:unwind 64
//verif:maxconcretize 16
//verif:maxdecisions 4000

// model self-test: symbolic rune decoding against the library's own decoder tables
//
//verif:bound every string "a" + 4 ARBITRARY bytes + "z": the engine's symbolic rune decoder (string range) against unicode/utf8.DecodeRuneInString and RuneCountInString executed from the library source
func verifH_MT_runes() {
	s := "a" + verifNondetString("b", 4) + "z"
	n := 0
	for i, r := range s {
		// compare with DecodeRuneInString executed from source
		r2, w := utf8.DecodeRuneInString(s[i:])
		verifAssert(r == r2, "same rune as DecodeRuneInString")
		_ = w
		n++
	}
	verifReach("counted")
	verifAssert(n == utf8.RuneCountInString(s), "same count")
}
