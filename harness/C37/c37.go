package vgirpc

import (
	"context"
	"errors"
	"net/http"
	"net/url"
	"time"
)

//verif:ints lia
//verif:unwind 32
//verif:maxconcretize 16
//verif:maxdecisions 4000
//verif:maxpaths quick=30000 thorough=120000

type verifC37Hook struct {
	startPanics, endPanics bool
	starts, ends           int
	endErr                 error
	endTok                 HookToken
	tokens                 int
}

func (k *verifC37Hook) OnDispatchStart(ctx context.Context, info DispatchInfo) (context.Context, HookToken) {
	k.starts++
	if k.startPanics {
		panic("hook start panicked")
	}
	k.tokens++
	return ctx, k.tokens
}
func (k *verifC37Hook) OnDispatchEnd(ctx context.Context, token HookToken, info DispatchInfo, stats *CallStatistics, err error) {
	k.ends++
	k.endErr = err
	k.endTok = token
	if k.endPanics {
		panic("hook end panicked")
	}
}

func verifC37ReportsError(streams []*verifOutStream) bool {
	for _, st := range streams {
		for _, b := range st.batches {
			if verifIsException(b) {
				return true
			}
		}
	}
	return false
}

func verifC37Shape(streams []*verifOutStream) string {
	s := ""
	for _, st := range streams {
		s += "["
		for _, b := range st.batches {
			switch {
			case verifIsException(b):
				s += "E"
			case verifIsLog(b):
				s += "L"
			case b.tag > 0:
				s += "D"
			default:
				s += "z"
			}
		}
		if st.closed {
			s += "]"
		}
	}
	return s
}

func (k *verifC37Hook) check(reportsError bool) {
	if k.startPanics {
		verifReach("start-panicked")
		verifAssert(k.starts == 1 && k.ends == 0, "a hook whose start panicked never sees end")
		return
	}
	verifAssert(k.starts == 1 && k.ends == 1, "a hook whose start returned normally sees exactly one end")
	verifAssert(k.endTok == HookToken(1), "end receives the token start returned")
	verifAssert((k.endErr != nil) == reportsError, "end receives a non-nil error exactly when the response reports an error to the client")
}

// ---- pipe ----

type verifC37PipeCase struct {
	method  string
	outcome int // unary: handler outcome; stream: init outcome
	turn    int
	ticks   int
}

func verifC37PipeChoose() verifC37PipeCase {
	c := verifC37PipeCase{method: []string{"u", "v", "p", "x"}[verifChoice("method", 4)]}
	if c.method == "u" || c.method == "v" {
		c.outcome = verifChoice("outcome", 5) // value, error, rpc error, panic, param mismatch
	} else {
		c.outcome = verifChoice("init", 6) // state, error, panic, param mismatch, nil result, state of the wrong kind
		c.turn = verifChoice("turn", verifNTurnKinds)
		c.ticks = verifChoice("ticks", 3)
	}
	return c
}

func (c verifC37PipeCase) run(hook *verifC37Hook) ([]*verifOutStream, error) {
	verifResetIPC()
	verifResetHandler()
	s := verifPipeServer()
	s.dispatchHook = hook
	stream := c.method == "p" || c.method == "x"
	if stream {
		verifParamsFail = c.outcome == 3
		var state interface{}
		if c.method == "x" {
			state = &verifPipeExchange{verifPipeState: verifPipeState{turns: []int{c.turn}}}
		} else {
			state = &verifPipeProducer{verifPipeState{producer: true, turns: []int{c.turn}}}
		}
		verifHFn = func(ctx context.Context, cc *CallContext) (interface{}, error) {
			switch c.outcome {
			case 1:
				return nil, errors.New("init failed")
			case 2:
				panic("init panicked")
			case 4:
				return (*StreamResult)(nil), nil
			case 5:
				// a state that implements neither ProducerState nor ExchangeState
				return &StreamResult{OutputSchema: verifDataSchema, State: &struct{}{}}, nil
			}
			return &StreamResult{OutputSchema: verifDataSchema, State: state}, nil
		}
	} else {
		verifParamsFail = c.outcome == 4
		verifHFn = func(ctx context.Context, cc *CallContext) (interface{}, error) {
			switch c.outcome {
			case 1:
				return nil, errors.New("handler failed")
			case 2:
				return nil, &RpcError{Type: "ValueError", Message: "bad"}
			case 3:
				panic("handler panicked")
			}
			return 5, nil
		}
	}
	verifQueueRequest(1, 0, []string{MetaMethod, MetaRequestVersion}, []string{c.method, ProtocolVersion})
	if stream {
		verifQueueTicks(c.ticks, -1)
	}
	sink := &verifSink{}
	err := s.serveOne(context.Background(), &verifConn{}, sink, &shmConnState{})
	return verifSinkStreams(sink), err
}

// Pipe: one start, one end, the end's error matches the response, hook panics change nothing.
//
//verif:use ipc pipe handler
//verif:bound one dispatched call through serveOne: unary/void (value, error, RpcError, panic, parameter mismatch) or producer/exchange (init ok/error/panic/parameter mismatch/nil result/state of the wrong kind, first turn any of 8 outcomes, 0..2 input batches); hook normal, panicking in start, or panicking in end; each scenario is run with the chosen hook and again with a well-behaved hook and the two responses are compared
func verifH_C37_pipe() {
	c := verifC37PipeChoose()
	hook := &verifC37Hook{}
	switch verifChoice("hook", 3) {
	case 1:
		hook.startPanics = true
	case 2:
		hook.endPanics = true
	}
	out, err := c.run(hook)
	verifReach("served")
	verifAssert(err == nil, "the session continues")
	shape := verifC37Shape(out)
	hook.check(verifC37ReportsError(out))
	// the same call with a well-behaved hook: the response must be the same
	ref := &verifC37Hook{}
	out2, err2 := c.run(ref)
	verifAssert(err2 == nil && verifC37Shape(out2) == shape, "a panicking hook does not change the response")
	ref.check(verifC37ReportsError(out2))
}

// ---- HTTP ----

var verifC37SealFails bool

func verifC37Seal(h *HttpServer, version byte, payload interface{}, aad []byte) ([]byte, error) {
	if _, isCursor := payload.(*cursorTokenData); isCursor && verifC37SealFails {
		return nil, errors.New("state token encode: gob: type not registered for interface")
	}
	return verifSealToken(h, version, payload, aad)
}

type verifC37HTTPCase struct {
	route   int // 0 unary, 1 stream init, 2 continuation
	method  string
	outcome int
	turn    int
	seal    bool
	cancel  bool
}

func verifC37HTTPChoose() verifC37HTTPCase {
	c := verifC37HTTPCase{route: verifChoice("route", 3)}
	switch c.route {
	case 0:
		c.method = []string{"u", "v"}[verifChoice("unary", 2)]
		c.outcome = verifChoice("outcome", 5)
	case 1:
		c.method = []string{"p", "x"}[verifChoice("stream", 2)]
		c.outcome = verifChoice("init", 6)
		c.turn = verifChoice("turn", verifNTurnKinds)
		c.seal = verifNondetBool("seal_fails")
	default:
		c.method = []string{"p", "x"}[verifChoice("stream", 2)]
		c.turn = verifChoice("turn", verifNTurnKinds)
		c.seal = verifNondetBool("seal_fails")
		c.cancel = verifNondetBool("cancel")
	}
	return c
}

func (c verifC37HTTPCase) run(hook *verifC37Hook) (*verifRecorder, []*verifOutStream) {
	verifResetIPC()
	verifResetHandler()
	verifToks = nil
	verifC37SealFails = false
	srv := verifPipeServer()
	srv.dispatchHook = hook
	h := &HttpServer{server: srv, tokenKey: verifXKey, tokenTTL: time.Hour, callStates: newCallStateCache(8, time.Hour), producerBatchLimit: 1}
	mkState := func() interface{} {
		if c.method == "x" {
			return &verifPipeExchange{verifPipeState: verifPipeState{turns: []int{c.turn}}}
		}
		return &verifPipeProducer{verifPipeState{producer: true, turns: []int{c.turn, verifTurnEmit, verifTurnEmit}}}
	}
	r := &http.Request{Method: "POST", Header: http.Header{}, URL: &url.URL{Path: "/" + c.method}, RemoteAddr: "1.2.3.4:5"}
	r.Header.Set("Content-Type", arrowContentType)
	r.SetPathValue("method", c.method)
	r = r.WithContext(context.Background())
	rw := verifNewRecorder()
	switch c.route {
	case 0:
		verifParamsFail = c.outcome == 4
		verifHFn = func(ctx context.Context, cc *CallContext) (interface{}, error) {
			switch c.outcome {
			case 1:
				return nil, errors.New("handler failed")
			case 2:
				return nil, &RpcError{Type: "ValueError", Message: "bad"}
			case 3:
				panic("handler panicked")
			}
			return 5, nil
		}
		verifQueueRequest(1, 0, []string{MetaMethod, MetaRequestVersion}, []string{c.method, ProtocolVersion})
		h.handleUnary(rw, r)
	case 1:
		verifParamsFail = c.outcome == 3
		state := mkState()
		verifHFn = func(ctx context.Context, cc *CallContext) (interface{}, error) {
			switch c.outcome {
			case 1:
				return nil, errors.New("init failed")
			case 2:
				panic("init panicked")
			case 4:
				return (*StreamResult)(nil), nil
			case 5:
				// a state that implements neither ProducerState nor ExchangeState
				return &StreamResult{OutputSchema: verifDataSchema, State: &struct{}{}}, nil
			}
			return &StreamResult{OutputSchema: verifDataSchema, State: state}, nil
		}
		verifC37SealFails = c.seal
		verifQueueRequest(1, 0, []string{MetaMethod, MetaRequestVersion}, []string{c.method, ProtocolVersion})
		h.handleStreamInit(rw, r)
	default:
		// a genuine stream of this method, minted without a hook in the way
		srv.dispatchHook = nil
		cur, e1 := h.packCursorToken("c1", mkState(), Anonymous())
		call, e2 := h.packCallTokenFor(c.method, "c1", nil, Anonymous(), "sid")
		verifAssert(e1 == nil && e2 == nil, "mint")
		srv.dispatchHook = hook
		verifC37SealFails = c.seal
		keys := []string{MetaStreamState, MetaCallState}
		vals := []string{string(cur), string(call)}
		if c.cancel {
			keys, vals = append(keys, MetaCancel), append(vals, "1")
		}
		b := verifNewBatch(verifDataSchema, 1, 9, keys, vals)
		verifInQueue = append(verifInQueue, &verifInStream{batches: []*verifBatch{b}, schema: verifDataSchema, failAt: -1})
		h.handleStreamExchange(rw, r)
	}
	var resp []*verifOutStream
	if len(verifOutStreams) > 0 {
		// the response body is the last stream(s) written into the response buffer: keep those after the last reset marker
		resp = verifOutStreams
	}
	return rw, resp
}

// HTTP: the same hook contract on the unary, stream-init and continuation routes.
//
//verif:use ipc pipe handler httpx tokens
//verif:stub (*github.com/Query-farm/vgi-rpc-go/vgirpc.HttpServer).sealToken = verifC37Seal
//verif:bound one dispatched call: unary/void (value, error, RpcError, panic, parameter mismatch); stream init of a producer (batch limit 1) or exchange (init ok/error/panic/parameter mismatch/nil result/state of the wrong kind, first turn any of 8 outcomes, cursor seal succeeding or failing as gob does for an unregistered state type); continuation of a producer or exchange stream with genuine tokens (turn any of 8 outcomes, seal succeeding or failing, cancel or not); hook normal / panicking in start / panicking in end
func verifH_C37_http() {
	c := verifC37HTTPChoose()
	hook := &verifC37Hook{}
	switch verifChoice("hook", 3) {
	case 1:
		hook.startPanics = true
	case 2:
		hook.endPanics = true
	}
	rw, out := c.run(hook)
	verifReach("served-http")
	verifAssert(rw.status != 0, "answered")
	reports := verifC37ReportsError(out) || rw.hdr.Get(rpcErrorHeader) == "true" || rw.status >= 400
	hook.check(reports)
	shape, status := verifC37Shape(out), rw.status
	ref := &verifC37Hook{}
	rw2, out2 := c.run(ref)
	verifAssert(rw2.status == status && verifC37Shape(out2) == shape, "a panicking hook does not change the response")
	if c.seal {
		verifReach("seal-failure-explored")
	}
}
