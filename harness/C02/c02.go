package vgirpc

import (
	"context"
	"errors"
)

//verif:ints lia
//verif:unwind 32
//verif:maxconcretize 16
//verif:maxdecisions 4000
//verif:maxpaths quick=30000 thorough=120000

type verifC02NotAState struct{}

// A session stays in frame: whatever the first request is, it gets exactly one
// complete response and the next request on the connection is served correctly.
//
//verif:use ipc pipe handler
//verif:bound two consecutive serveOne steps on one connection. Request 1: (a) garbage unary-shaped request — method key missing / invalid UTF-8 / unknown method, request version missing or wrong, row count 0 or 2, with 0..1 trailing batches in its stream; (b) unary call (valued/void) with parameter mismatch or handler value/error/panic or result serialisation failure; (c) stream call (producer/exchange/producer-with-header/dynamic) followed by the client's input stream of 0..2 batches with cancel at any position: parameter mismatch, init error/panic/nil result/state of the wrong type, header present or failing to serialise, first turn with any of 8 outcomes. Request 2: a valid unary call. One step from an arbitrary connection position = induction over session length. Abstract IPC, ghost handlers.
func verifH_C02_stays_in_frame() {
	verifResetIPC()
	verifResetHandler()
	s := verifPipeServer()
	sink := &verifSink{}
	conn := &verifConn{}
	shape := verifChoice("shape", 3)
	method := ""
	keys := []string{}
	vals := []string{}
	rows := int64(1)
	extra := 0
	stream := false
	expectHandler := false
	switch shape {
	case 0: // garbage unary-shaped
		switch verifChoice("garbage", 6) {
		case 0: // missing method
			keys, vals = []string{MetaRequestVersion}, []string{ProtocolVersion}
		case 1: // invalid UTF-8 method
			keys, vals = []string{MetaMethod, MetaRequestVersion}, []string{"\xff\xfe", ProtocolVersion}
		case 2: // unknown method
			keys, vals = []string{MetaMethod, MetaRequestVersion}, []string{"zz", ProtocolVersion}
		case 3: // missing version
			keys, vals = []string{MetaMethod}, []string{"u"}
		case 4: // wrong version
			keys, vals = []string{MetaMethod, MetaRequestVersion}, []string{"u", "0"}
		default: // wrong row count
			keys, vals = []string{MetaMethod, MetaRequestVersion}, []string{"u", ProtocolVersion}
			rows = []int64{0, 2}[verifChoice("rows", 2)]
		}
		extra = verifChoice("trailing", 2)
	case 1: // unary
		method = []string{"u", "v"}[verifChoice("unary", 2)]
		keys, vals = []string{MetaMethod, MetaRequestVersion}, []string{method, ProtocolVersion}
		out := verifChoice("unary_outcome", 6)
		verifParamsFail = out == 4
		verifResultFail = out == 5
		expectHandler = out != 4
		verifHFn = func(ctx context.Context, cc *CallContext) (interface{}, error) {
			switch out {
			case 1:
				return nil, errors.New("handler failed")
			case 2:
				return nil, &RpcError{Type: "ValueError", Message: "bad"}
			case 3:
				panic("handler panicked")
			}
			return 5, nil
		}
	default: // stream
		stream = true
		method = []string{"p", "x", "ph", "d"}[verifChoice("stream", 4)]
		keys, vals = []string{MetaMethod, MetaRequestVersion}, []string{method, ProtocolVersion}
		init := verifChoice("init", 7)
		verifParamsFail = init == 5
		verifHeaderFail = init == 6
		expectHandler = init != 5
		turn := verifChoice("turn", verifNTurnKinds)
		var state interface{}
		if method == "x" {
			state = &verifPipeExchange{verifPipeState: verifPipeState{turns: []int{turn}}}
		} else {
			state = &verifPipeProducer{verifPipeState{producer: true, turns: []int{turn}}}
		}
		verifHFn = func(ctx context.Context, cc *CallContext) (interface{}, error) {
			switch init {
			case 1:
				return nil, errors.New("init failed")
			case 2:
				panic("init panicked")
			case 3:
				return (*StreamResult)(nil), nil
			case 4:
				return &StreamResult{OutputSchema: verifDataSchema, State: &verifC02NotAState{}}, nil
			}
			res := &StreamResult{OutputSchema: verifDataSchema, State: state}
			if method == "ph" {
				res.Header = verifHeader{}
			}
			return res, nil
		}
		verifHeaderStream = &verifInStream{batches: []*verifBatch{verifNewBatch(verifDataSchema, 1, 999, nil, nil)}, schema: verifDataSchema, failAt: -1}
	}
	verifQueueRequest(rows, extra, keys, vals)
	if stream {
		n := verifChoice("ticks", 3)
		verifQueueTicks(n, verifChoice("cancel_at", n+1)-1)
	}
	// request 2: a valid unary call
	verifQueueRequest(1, 0, []string{MetaMethod, MetaRequestVersion, MetaRequestID}, []string{"u", ProtocolVersion, "second"})

	err1 := s.serveOne(context.Background(), conn, sink, &shmConnState{})
	verifReach("first-served")
	verifAssert(err1 == nil, "an answered failure never ends the session")
	if expectHandler {
		verifAssert(verifHCalls == 1, "the handler of a well-formed call runs once")
	} else {
		verifAssert(verifHCalls == 0, "no handler runs for a request refused before dispatch")
	}
	first := verifSinkStreams(sink)
	verifAssert(len(first) >= 1 && len(first) <= 2, "request 1 receives one response: an optional header stream and one data stream")
	for _, st := range first {
		verifAssert(st.closed, "every response stream is complete")
	}
	nFirst := len(first)

	// request 2 must be read from its own stream and answered correctly
	verifParamsFail, verifResultFail, verifHeaderFail = false, false, false
	verifHFn = func(ctx context.Context, cc *CallContext) (interface{}, error) { return 42, nil }
	callsBefore := verifHCalls
	err2 := s.serveOne(context.Background(), conn, sink, &shmConnState{})
	verifReach("second-served")
	verifAssert(err2 == nil, "the next request is served")
	verifAssert(verifInDesync == 0 && verifInLost == 0, "nothing a request leaves behind is read as part of the next one, and nothing of the next one is swallowed with it")
	verifAssert(verifInNext == len(verifInQueue), "every stream the client sent was consumed by the request it belongs to")
	verifAssert(verifHCalls == callsBefore+1, "the next request reaches its handler")
	all := verifSinkStreams(sink)
	verifAssert(len(all) == nFirst+1, "the next request receives exactly one response, after the first one")
	if len(all) == nFirst+1 {
		resp := all[nFirst]
		ok := resp.closed && len(resp.batches) == 1 && resp.batches[0].tag == 42 && resp.batches[0].rows == 1
		verifAssert(ok, "the next request's response is its own result")
	}
}
