package vgirpc

import "sync"

//verif:ints lia
//verif:unwind 32
//verif:maxdecisions 2000

// expected: VIOLATED (unsynchronised counter)
//
//verif:sched 2
//verif:race all
//verif:bound selftest
func verifH_RT_plain_race() {
	var wg sync.WaitGroup
	n := 0
	for i := 0; i < 2; i++ {
		wg.Add(1)
		go func() { defer wg.Done(); n++ }()
	}
	wg.Wait()
	verifReach("done")
	_ = n
}

// expected: holds (mutex-protected)
//
//verif:sched 2
//verif:race all
//verif:bound selftest
func verifH_RT_mutex_ok() {
	var wg sync.WaitGroup
	var mu sync.Mutex
	n := 0
	for i := 0; i < 2; i++ {
		wg.Add(1)
		go func() { defer wg.Done(); mu.Lock(); n++; mu.Unlock() }()
	}
	wg.Wait()
	verifAssert(n == 2, "both")
	verifReach("done")
}

// expected: holds (handoff through a channel, then WaitGroup)
//
//verif:sched 2
//verif:race all
//verif:bound selftest
func verifH_RT_channel_handoff_ok() {
	ch := make(chan *int, 1)
	var wg sync.WaitGroup
	wg.Add(1)
	go func() {
		defer wg.Done()
		p := <-ch
		*p = *p + 1
	}()
	x := 1
	ch <- &x
	wg.Wait()
	verifAssert(x == 2, "handed off and back")
	verifReach("done")
}

// expected: holds (Once publishes)
//
//verif:sched 3
//verif:race all
//verif:bound selftest
func verifH_RT_once_publish_ok() {
	var once sync.Once
	var wg sync.WaitGroup
	val := 0
	got := make([]int, 2)
	for i := 0; i < 2; i++ {
		wg.Add(1)
		i := i
		go func() {
			defer wg.Done()
			once.Do(func() { val = 42 })
			got[i] = val
		}()
	}
	wg.Wait()
	verifAssert(got[0] == 42 && got[1] == 42, "published")
	verifReach("done")
}

// expected: VIOLATED (read without the lock the writer holds)
//
//verif:sched 2
//verif:race all
//verif:bound selftest
func verifH_RT_half_locked() {
	var mu sync.Mutex
	var wg sync.WaitGroup
	flag := false
	wg.Add(2)
	go func() { defer wg.Done(); mu.Lock(); flag = true; mu.Unlock() }()
	seen := false
	go func() { defer wg.Done(); seen = flag }()
	wg.Wait()
	_ = seen
	verifReach("done")
}
