package vgirpc

import "sync"

//verif:ints lia
//verif:unwind 32
//verif:maxdecisions 2000

// expected: holds
//
//verif:sched 4
//verif:bound selftest
func verifH_ST_mutex_counter() {
	var mu sync.Mutex
	var wg sync.WaitGroup
	n := 0
	for i := 0; i < 2; i++ {
		wg.Add(1)
		go func() {
			defer wg.Done()
			mu.Lock()
			n++
			mu.Unlock()
		}()
	}
	wg.Wait()
	verifAssert(n == 2, "both increments happen")
	verifReach("done")
}

// expected: VIOLATED (check-then-act across two critical sections)
//
//verif:sched 4
//verif:bound selftest
func verifH_ST_toctou() {
	var mu sync.Mutex
	var wg sync.WaitGroup
	taken, winners := false, 0
	for i := 0; i < 2; i++ {
		wg.Add(1)
		go func() {
			defer wg.Done()
			mu.Lock()
			free := !taken
			mu.Unlock()
			if free {
				mu.Lock()
				taken = true
				winners++
				mu.Unlock()
			}
		}()
	}
	wg.Wait()
	verifAssert(winners == 1, "exactly one winner")
}

// expected: VIOLATED (deadlock)
//
//verif:sched 4
//verif:bound selftest
func verifH_ST_deadlock() {
	var a, b sync.Mutex
	var wg sync.WaitGroup
	wg.Add(2)
	go func() { defer wg.Done(); a.Lock(); b.Lock(); b.Unlock(); a.Unlock() }()
	go func() { defer wg.Done(); b.Lock(); a.Lock(); a.Unlock(); b.Unlock() }()
	wg.Wait()
	verifReach("no-deadlock-on-some-schedule")
}

// expected: holds
//
//verif:sched 4
//verif:bound selftest
func verifH_ST_channel() {
	ch := make(chan int)
	done := make(chan struct{})
	var got []int
	go func() {
		for v := range ch {
			got = append(got, v)
		}
		close(done)
	}()
	ch <- 1
	ch <- 2
	close(ch)
	<-done
	verifAssert(len(got) == 2 && got[0] == 1 && got[1] == 2, "values arrive in order")
	verifReach("done")
}

// expected: holds
//
//verif:sched 6
//verif:bound selftest
func verifH_ST_once() {
	var once sync.Once
	var wg sync.WaitGroup
	runs, val := 0, 0
	seen := make([]int, 2)
	for i := 0; i < 2; i++ {
		wg.Add(1)
		i := i
		go func() {
			defer wg.Done()
			once.Do(func() { runs++; verifYield(); val = 42 })
			seen[i] = val
		}()
	}
	wg.Wait()
	verifAssert(runs == 1 && seen[0] == 42 && seen[1] == 42, "f runs once and every caller sees its effect")
	verifReach("done")
}

// expected: VIOLATED (a panic in a goroutine)
//
//verif:sched 2
//verif:bound selftest
func verifH_ST_goroutine_panic() {
	var wg sync.WaitGroup
	wg.Add(1)
	go func() { defer wg.Done(); var m map[string]int; m["x"] = 1 }()
	wg.Wait()
}
