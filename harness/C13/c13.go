package vgirpc

import (
	"bytes"
	"net/http"
	"time"
)

//verif:ints lia
//verif:unwind 64
//verif:maxconcretize 16
//verif:maxdecisions 6000

func verifC13StrMax() int {
	if verifTier() == 1 {
		return 3
	}
	return 2
}

// verifC13Auth builds an arbitrary caller identity: nil, unauthenticated, or
// authenticated with a Domain (no NUL: operator-chosen scheme name) and an
// arbitrary Principal.
func verifC13Auth(name string) *AuthContext {
	switch verifChoice(name+".kind", 3) {
	case 0:
		return nil
	case 1:
		// unauthenticated contexts may still carry strings; they must not matter
		return &AuthContext{Authenticated: false, Domain: verifNondetString(name+".udom", 1), Principal: verifNondetString(name+".uprin", 1)}
	}
	m := verifC13StrMax()
	d := verifNondetString(name+".dom", verifChoice(name+".dom.len", m+1))
	verifAssume(verifAllInSet(d, "\x01\xff"))
	pl := verifChoice(name+".prin.len", m+2)
	if pl == m+1 {
		// a principal as long as the anonymous sentinel's text ("anonymous", 9 bytes), bytes arbitrary
		pl = 9
	}
	p := verifNondetString(name+".prin", pl)
	return &AuthContext{Authenticated: true, Domain: d, Principal: p}
}

func verifC13Anon(a *AuthContext) bool { return a == nil || !a.Authenticated }

func verifC13Same(a, b *AuthContext) bool {
	if verifC13Anon(a) || verifC13Anon(b) {
		return verifC13Anon(a) && verifC13Anon(b)
	}
	return a.Domain == b.Domain && a.Principal == b.Principal
}

// The AAD is an injective rendering of the identity, and the two token kinds
// never share an AAD.
//
//verif:stub time.Now = verifFixedNow
//verif:bound two identities, each nil / unauthenticated / authenticated with Domain of 0..2 (quick) / 0..3 (thorough) non-NUL bytes and Principal of 0..2 / 0..3 or exactly 9 arbitrary bytes (NUL allowed; 9 = the length of the anonymous sentinel's text)
func verifH_C13_aad_injective() {
	a := verifC13Auth("a")
	b := verifC13Auth("b")
	same := verifC13Same(a, b)
	verifReach("built")
	verifAssert(bytes.Equal(stateTokenAad(a), stateTokenAad(b)) == same, "cursor/sticky AADs are equal exactly for the same identity")
	verifAssert(bytes.Equal(callTokenAad(a), callTokenAad(b)) == same, "call-token AADs are equal exactly for the same identity")
	verifAssert(!bytes.Equal(callTokenAad(a), stateTokenAad(b)), "a call-token AAD never equals a cursor AAD, for any two identities")
	// the call-state cache and the session registry find an identity's own entries
	// (their keys need not be injective: every lookup is made with a call or
	// session id that a token sealed under the caller's AAD has authenticated —
	// that end-to-end binding is what stream_identity and sticky_identity decide)
	cache := newCallStateCache(4, time.Hour)
	cache.put("c1", a, &resolvedCall{Method: "m"}, time.Now().Unix())
	if same {
		verifAssert(cache.get("c1", b) != nil, "a call cached for an identity is found again by that identity")
		verifAssert(principalKeyFromAuth(a) == principalKeyFromAuth(b), "the same identity maps to the same registry partition")
	}
	if same {
		verifReach("same-identity")
	}
}

type verifC13State struct{ N int }

// A stream minted for identity I1 continues only for I1, with the call cache
// warm, cold or disabled, and whatever another identity did before.
//
//verif:stub time.Now = verifFixedNow
//verif:stub (*github.com/Query-farm/vgi-rpc-go/vgirpc.HttpServer).sealToken = verifSealToken
//verif:stub (*github.com/Query-farm/vgi-rpc-go/vgirpc.HttpServer).openToken = verifOpenToken
//verif:bound identities as in aad_injective; one stream minted for I1 (call id c1); optionally an earlier stream minted for the presenting identity I2 (call id c2) so the cache holds I2's entries; cache default-sized, size 1 or disabled; presentation = (I1's cursor, I1's call token) by I2; AEAD/gob/zstd replaced by the ideal token algebra (harness/common/tokens.go)
func verifH_C13_stream_identity() {
	i1 := verifC13Auth("a")
	i2 := verifC13Auth("b")
	size := defaultCallStateCacheEntries
	switch verifChoice("cache", 3) {
	case 1:
		size = 1
	case 2:
		size = 0
	}
	verifToks = nil
	h := &HttpServer{tokenKey: []byte("0123456789abcdef0123456789abcdef"), tokenTTL: time.Hour, callStates: newCallStateCache(size, time.Hour), server: &Server{serverID: "w1"}}
	if verifNondetBool("i2_used_server_before") {
		_, e := h.packCallToken("c2", nil, i2, "s2")
		verifAssert(e == nil, "mint")
	}
	callTok, e1 := h.packCallToken("c1", nil, i1, "s1")
	cur, e2 := h.packCursorToken("c1", &verifC13State{N: 7}, i1)
	verifAssert(e1 == nil && e2 == nil, "mint")
	if verifNondetBool("i2_used_server_after") {
		_, e := h.packCallToken("c3", nil, i2, "s3")
		verifAssert(e == nil, "mint")
	}
	data, err := h.openCursorToken(cur, i2)
	var rc *resolvedCall
	if err == nil {
		rc, err = h.resolveCall(data, callTok, i2)
	}
	same := verifC13Same(i1, i2)
	verifReach("presented")
	verifAssert((err == nil) == same, "the continuation is accepted exactly when the presenting identity is the minting identity")
	if err == nil {
		verifReach("accepted")
		verifAssert(rc != nil && rc.StreamID == "s1" && data.CallID == "c1", "an accepted continuation resolves the stream it was minted for")
	}
	// kind confusion, same identity: each token presented in the other's place
	_, kerr := h.openCursorToken(callTok, i1)
	verifAssert(kerr != nil, "a call token is never accepted as a cursor")
	cold := &HttpServer{tokenKey: h.tokenKey, tokenTTL: time.Hour, callStates: newCallStateCache(0, time.Hour)}
	_, kerr2 := cold.resolveCall(&cursorTokenData{CallID: "c1"}, cur, i1)
	verifAssert(kerr2 != nil, "a cursor is never accepted as a call token")
	// re-versioned wire bytes (the version byte is not authenticated)
	rv := []byte{callTok[0], cursorTokenVersion, callTok[2]}
	_, kerr3 := h.openCursorToken(rv, i1)
	verifAssert(kerr3 != nil, "a re-versioned call token is never accepted as a cursor")
}

// A sticky session minted for I1 resolves only for I1; cursor and sticky
// tokens are not interchangeable.
//
//verif:stub time.Now = verifFixedNow
//verif:stub crypto/rand.Read = verifRandRead
//verif:stub github.com/Query-farm/vgi-rpc-go/vgirpc.sealSessionToken = verifSealSessionToken
//verif:stub github.com/Query-farm/vgi-rpc-go/vgirpc.openSessionToken = verifOpenSessionToken
//verif:stub (*github.com/Query-farm/vgi-rpc-go/vgirpc.HttpServer).sealToken = verifSealToken
//verif:stub (*github.com/Query-farm/vgi-rpc-go/vgirpc.HttpServer).openToken = verifOpenToken
//verif:stub (*github.com/Query-farm/vgi-rpc-go/vgirpc.sessionRegistry).ensureReaper = verifNoReaper
//verif:bound identities as in aad_injective; one session opened by I1 through CallContext.OpenSession, resumed by I2 through installStickyOnRequestNoCtx; optionally I2 opened its own session first; same worker; ideal token algebra; session ids fresh (96-bit random in the real code)
func verifH_C13_sticky_identity() {
	i1 := verifC13Auth("a")
	i2 := verifC13Auth("b")
	verifToks = nil
	verifRandCtr = 0
	h := &HttpServer{tokenKey: []byte("0123456789abcdef0123456789abcdef"), tokenTTL: time.Hour, server: &Server{serverID: "w1"}, stickyRegistry: newSessionRegistry(0)}
	open := func(auth *AuthContext) (string, error) {
		sink := &stickySink{registry: h.stickyRegistry, tokenKey: h.tokenKey, serverID: h.server.serverID, auth: auth, acceptOpens: true, transport: TransportKindHTTP}
		ctx := &CallContext{stickySink: sink}
		err := ctx.OpenSession(&verifC13State{N: 1}, 0)
		return sink.mintedToken, err
	}
	if verifNondetBool("i2_opened_before") {
		_, e := open(i2)
		verifAssert(e == nil, "open")
	}
	tok, e := open(i1)
	verifAssert(e == nil && tok != "", "open")
	r := &http.Request{Header: http.Header{}}
	r.Header.Set(stickySessionHeader, tok)
	cleanup, err := h.installStickyOnRequestNoCtx(r, i2)
	same := verifC13Same(i1, i2)
	verifReach("resumed")
	verifAssert((err == nil && cleanup.entry != nil) == same, "a session resolves exactly for the identity that opened it")
	if err != nil {
		_, isLost := err.(*SessionLostError)
		verifAssert(isLost && cleanup.entry == nil, "any other identity gets session_lost and no entry")
	}
	cleanup.ReleaseLock()
	// sticky token as a cursor, cursor as a sticky token (same identity)
	_, kerr := h.openCursorToken([]byte(tok), i1)
	verifAssert(kerr != nil, "a sticky token is never accepted as a cursor")
	rv := []byte{tok[0], cursorTokenVersion, tok[2]}
	_, kerr1 := h.openCursorToken(rv, i1)
	verifAssert(kerr1 != nil, "a re-versioned sticky token is never accepted as a cursor")
	cur, e2 := h.packCursorToken("c1", &verifC13State{N: 7}, i1)
	verifAssert(e2 == nil, "mint")
	r2 := &http.Request{Header: http.Header{}}
	r2.Header.Set(stickySessionHeader, string([]byte{cur[0], sessionTokenVersion, cur[2]}))
	c2, kerr2 := h.installStickyOnRequestNoCtx(r2, i1)
	verifAssert(kerr2 != nil && c2.entry == nil, "a (re-versioned) cursor is never accepted as a sticky token")
}

// The teardown route binds to the caller's identity like every other route: a
// session can be deleted only by the identity that opened it.
//
//verif:stub time.Now = verifFixedNow
//verif:stub crypto/rand.Read = verifRandRead
//verif:stub github.com/Query-farm/vgi-rpc-go/vgirpc.sealSessionToken = verifSealSessionToken
//verif:stub github.com/Query-farm/vgi-rpc-go/vgirpc.openSessionToken = verifOpenSessionToken
//verif:stub (*github.com/Query-farm/vgi-rpc-go/vgirpc.sessionRegistry).ensureReaper = verifNoReaper
//verif:bound identities as in aad_injective; one session opened by I1, then DELETE {prefix}/__session__ bearing I1's token with the authenticator resolving the caller to I2 (or failing, which the route treats as anonymous); ideal token algebra
func verifH_C13_sticky_delete() {
	i1 := verifC13Auth("a")
	i2 := verifC13Auth("b")
	verifToks = nil
	verifRandCtr = 0
	h := &HttpServer{tokenKey: []byte("0123456789abcdef0123456789abcdef"), tokenTTL: time.Hour, server: &Server{serverID: "w1"}, stickyRegistry: newSessionRegistry(0)}
	sink := &stickySink{registry: h.stickyRegistry, tokenKey: h.tokenKey, serverID: "w1", auth: i1, acceptOpens: true, transport: TransportKindHTTP}
	st := &verifC13State{N: 1}
	verifAssert((&CallContext{stickySink: sink}).OpenSession(st, 0) == nil && sink.mintedToken != "", "open")
	authFails := verifNondetBool("authenticator_fails")
	h.authenticateFunc = func(r *http.Request) (*AuthContext, error) {
		if authFails {
			return nil, &RpcError{Type: "ValueError", Message: "bad credentials"}
		}
		return i2, nil
	}
	presenter := i2
	if authFails {
		presenter = nil // treated as the anonymous caller
	}
	r := &http.Request{Method: "DELETE", Header: http.Header{}}
	r.Header.Set(stickySessionHeader, sink.mintedToken)
	rw := &verifC13RW{hdr: http.Header{}}
	h.handleStickyDelete(rw, r)
	verifReach("delete-answered")
	same := verifC13Same(i1, presenter)
	// is the session still there for its owner?
	r2 := &http.Request{Header: http.Header{}}
	r2.Header.Set(stickySessionHeader, sink.mintedToken)
	c, err := h.installStickyOnRequestNoCtx(r2, i1)
	alive := err == nil && c.entry != nil
	c.ReleaseLock()
	verifAssert(alive == !same, "a session is torn down exactly when the identity that opened it asks — any other identity's DELETE leaves it alone")
	verifAssert((rw.status == 204) == same, "and only the owner is told it was closed")
	if same {
		verifReach("owner-deleted")
	} else {
		verifReach("stranger-refused")
	}
}

type verifC13RW struct {
	hdr    http.Header
	status int
}

func (w *verifC13RW) Header() http.Header         { return w.hdr }
func (w *verifC13RW) WriteHeader(code int)        { w.status = code }
func (w *verifC13RW) Write(b []byte) (int, error) { return len(b), nil }
