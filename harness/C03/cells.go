package vgirpc

import (
	"context"
	"net/http"
	"net/url"

	"github.com/apache/arrow-go/v18/arrow"
	"github.com/apache/arrow-go/v18/arrow/array"
)

// A request that is well-formed Arrow IPC as far as the reader checks — right
// schema, one row — but whose cells point nowhere: a dictionary index past the end
// of its dictionary, list offsets outside the child array or running backwards.
// arrow-go's IPC reader does not validate these (no ValidateFull), so they reach
// parameter binding.

type verifC03Hostile struct {
	Color string  `vgirpc:"color,enum"`
	Xs    []int64 `vgirpc:"xs"`
}

var verifC03DictIndex int

func verifC03GetValueIndex(d *array.Dictionary, i int) int { return verifC03DictIndex }

func verifC03Data(n int) *array.Data {
	d := new(array.Data)
	verifSetField(d, "length", n)
	return d
}

func verifC03HostileHandler(ctx context.Context, cc *CallContext, p verifC03Hostile) (int64, error) {
	return 1, nil
}

// No cell content makes parameter binding take the server down.
//
//verif:use ipc pipe httpx
//verif:stub (*github.com/apache/arrow-go/v18/arrow/array.Dictionary).GetValueIndex = verifC03GetValueIndex
//verif:bound one unary call through serveOne (pipe) or handleUnary (HTTP) with a parameter batch of exactly the declared schema {color: dictionary<int16,utf8>, xs: list<int64>}: the dictionary has 2 entries and the row's index is ANY value 0..65535 (what an unsigned 16-bit index can say); the list's offsets are ANY pair in -1..6 over a child array of 4 values (in range, past the end, running backwards, negative); real arrow-go array objects with their fields filled in, real binding through the engine's reflect model, real handler; abstract IPC carries the batch object through
func verifH_C03_hostile_cells() {
	verifResetIPC()
	s := NewServer()
	s.serverID = "srv"
	Unary(s, "paint", verifC03HostileHandler)
	decl := s.methods["paint"].ParamsSchema
	verifAssert(decl != nil && decl.NumFields() == 2, "declared schema")
	if decl == nil || decl.NumFields() != 2 {
		return
	}
	// color: a dictionary column
	dict := new(array.String)
	verifSetField(dict, "array.data", verifC03Data(2))
	verifSetField(dict, "offsets", []int32{0, 3, 7})
	verifSetField(dict, "values", "redblue")
	col0 := new(array.Dictionary)
	verifSetField(col0, "array.data", verifC03Data(1))
	verifSetField(col0, "dict", arrow.Array(dict))
	verifC03DictIndex = verifNondetInt("dictionary.index")
	verifAssume(verifC03DictIndex >= 0 && verifC03DictIndex <= 65535)
	// xs: a list column over 4 values
	child := new(array.Int64)
	verifSetField(child, "numericArray.array.data", verifC03Data(4))
	verifSetField(child, "numericArray.values", []int64{10, 11, 12, 13})
	o0, o1 := verifNondetInt32("list.offset0"), verifNondetInt32("list.offset1")
	verifAssume(o0 >= -1 && o0 <= 6 && o1 >= -1 && o1 <= 6)
	col1 := new(array.List)
	verifSetField(col1, "array.data", verifC03Data(1))
	verifSetField(col1, "values", arrow.Array(child))
	verifSetField(col1, "offsets", []int32{o0, o1})
	req := &verifBatch{schema: decl, rows: 1, refs: 1, cols: []arrow.Array{col0, col1}, tag: 1}
	req.meta, req.hasMeta = arrow.NewMetadata([]string{MetaMethod, MetaRequestVersion}, []string{"paint", ProtocolVersion}), true
	verifInQueue = append(verifInQueue, &verifInStream{batches: []*verifBatch{req}, schema: decl, failAt: -1})
	wellFormed := verifC03DictIndex < 2 && o0 >= 0 && o0 <= o1 && o1 <= 4
	answered := false
	if verifNondetBool("over_http") {
		h := &HttpServer{server: s, tokenKey: verifXKey}
		r := &http.Request{Method: "POST", Header: http.Header{}, URL: &url.URL{Path: "/paint"}, RemoteAddr: "1.2.3.4:5"}
		r.Header.Set("Content-Type", arrowContentType)
		r.SetPathValue("method", "paint")
		rec := verifNewRecorder()
		h.handleUnary(rec, r.WithContext(context.Background()))
		answered = rec.status != 0
		if wellFormed {
			verifAssert(rec.status == 200 && rec.hdr.Get(rpcErrorHeader) == "", "well-formed cells bind and the call succeeds")
		}
	} else {
		sink := &verifSink{}
		err := s.serveOne(context.Background(), &verifConn{}, sink, &shmConnState{})
		out := verifSinkStreams(sink)
		answered = err == nil && len(out) == 1 && out[0].closed
		if wellFormed && len(out) == 1 {
			verifAssert(len(out[0].batches) == 1 && !verifIsException(out[0].batches[0]), "well-formed cells bind and the call succeeds")
		}
	}
	verifReach("cells-served")
	verifAssert(answered, "whatever the cells say, the request is answered (a result or an error) and nothing escapes dispatch")
	if wellFormed {
		verifReach("well-formed")
	} else {
		verifReach("hostile")
	}
}

// The wrapped-request shape: a single binary column named "request" whose value is
// an inner IPC stream. The offsets that delimit that value are client bytes too.
//
//verif:use ipc pipe httpx
//verif:bound one unary call through serveOne (pipe) or handleUnary (HTTP) whose parameter batch is the wrapped shape {request: binary}: a real *array.Binary of 1 row over 4 value bytes whose two offsets are ANY pair in -1..6 (in range, past the end, running backwards, negative), null or not; well-formed offsets delimit an inner stream holding a batch of the declared schema; abstract IPC for the inner stream, real unwrap and binding
func verifH_C03_hostile_wrapped_request() {
	verifResetIPC()
	s := NewServer()
	s.serverID = "srv"
	Unary(s, "paint", verifC03HostileHandler)
	decl := s.methods["paint"].ParamsSchema
	if decl == nil {
		return
	}
	o0, o1 := verifNondetInt32("value.offset0"), verifNondetInt32("value.offset1")
	verifAssume(o0 >= -1 && o0 <= 6 && o1 >= -1 && o1 <= 6)
	bin := new(array.Binary)
	d := verifC03Data(1)
	verifSetField(d, "dtype", arrow.DataType(arrow.BinaryTypes.Binary))
	verifSetField(bin, "array.data", d)
	if verifNondetBool("null") {
		verifSetField(bin, "array.nullBitmapBytes", []byte{0})
		verifSetField(d, "nulls", 1)
	}
	verifSetField(bin, "valueOffsets", []int32{o0, o1})
	verifSetField(bin, "valueBytes", []byte("Sxyz"))
	outer := arrow.NewSchema([]arrow.Field{{Name: "request", Type: arrow.BinaryTypes.Binary}}, nil)
	req := &verifBatch{schema: outer, rows: 1, refs: 1, cols: []arrow.Array{bin}, tag: 1}
	req.meta, req.hasMeta = arrow.NewMetadata([]string{MetaMethod, MetaRequestVersion}, []string{"paint", ProtocolVersion}), true
	verifInQueue = append(verifInQueue, &verifInStream{batches: []*verifBatch{req}, schema: outer, failAt: -1})
	// what the inner stream decodes to, if the unwrap gets that far: a batch of another schema (refused by the gate)
	verifMemQueue = []*verifInStream{{batches: []*verifBatch{verifNewBatch(verifDataSchema, 1, 2, nil, nil)}, schema: verifDataSchema, failAt: -1}}
	answered := false
	if verifNondetBool("over_http") {
		h := &HttpServer{server: s, tokenKey: verifXKey}
		r := &http.Request{Method: "POST", Header: http.Header{}, URL: &url.URL{Path: "/paint"}, RemoteAddr: "1.2.3.4:5"}
		r.Header.Set("Content-Type", arrowContentType)
		r.SetPathValue("method", "paint")
		rec := verifNewRecorder()
		h.handleUnary(rec, r.WithContext(context.Background()))
		answered = rec.status != 0
	} else {
		sink := &verifSink{}
		err := s.serveOne(context.Background(), &verifConn{}, sink, &shmConnState{})
		out := verifSinkStreams(sink)
		answered = err == nil && len(out) == 1 && out[0].closed
	}
	verifReach("wrapped-served")
	verifAssert(answered, "whatever the offsets of the wrapped request say, the request is answered and nothing escapes dispatch")
	if o0 >= 0 && o0 <= o1 && o1 <= 4 {
		verifReach("wrapped-well-formed")
	} else {
		verifReach("wrapped-hostile")
	}
}
