package vgirpc

import (
	"context"
	"net/http"
	"net/url"
	"time"
)

//verif:quote approx
//verif:ints lia
//verif:unwind 32
//verif:maxconcretize 16
//verif:maxdecisions 4000
//verif:maxpaths quick=30000 thorough=120000

// verifC03Meta builds request metadata from an arbitrary subset of the keys the
// dispatchers look at, with arbitrary (short) values where the value matters.
func verifC03Meta(method string) ([]string, []string) {
	var keys, vals []string
	add := func(k, v string) { keys = append(keys, k); vals = append(vals, v) }
	switch verifChoice("method_key", 3) {
	case 0:
		add(MetaMethod, method)
	case 1:
		add(MetaMethod, verifNondetString("method_bytes", 1)) // one arbitrary byte (another registered name, an unknown method, invalid UTF-8)
	}
	switch verifChoice("version_key", 3) {
	case 0:
		add(MetaRequestVersion, ProtocolVersion)
	case 1:
		add(MetaRequestVersion, verifNondetString("version_bytes", 1))
	}
	if verifNondetBool("location") {
		add(MetaLocation, "https://x/y")
	}
	if verifNondetBool("shm_offset") {
		add(MetaShmOffset, verifNondetString("shm_offset_bytes", 1))
		if verifNondetBool("shm_length") {
			add(MetaShmLength, "8")
		}
	}
	return keys, vals
}

func verifC03Handler() {
	verifHFn = func(ctx context.Context, cc *CallContext) (interface{}, error) {
		return 1, nil
	}
}

// No request shape makes a panic escape the pipe dispatcher.
//
//verif:use ipc pipe handler
//verif:bound one serveOne on a pipe: the request stream is unreadable, empty, or holds a batch of 0, 1 or 2 rows (schema with one field, or the empty schema) whose custom metadata is any subset of {method (a registered unary/void/producer/exchange name or 1 arbitrary byte), request_version (right or 1 arbitrary byte), location, shm_offset (1 arbitrary byte) [+ shm_length]}; stream methods are followed by a 0..1-batch input stream. No shm segment attached, no external storage configured. Abstract IPC; deserializeParams is a stub with the real function's observed contract (it reads row 0 of every column and so panics on a zero-row batch with columns).
func verifH_C03_pipe_no_panic() {
	verifResetIPC()
	verifResetHandler()
	verifC03Handler()
	s := verifPipeServer()
	method := []string{"u", "v", "p", "x"}[verifChoice("method", 4)]
	switch verifChoice("stream_shape", 3) {
	case 0:
		verifInQueue = append(verifInQueue, &verifInStream{bad: true, failAt: -1})
	case 1:
		verifInQueue = append(verifInQueue, &verifInStream{schema: verifDataSchema, failAt: -1})
	default:
		keys, vals := verifC03Meta(method)
		rows := int64(verifChoice("rows", 3))
		schema := verifDataSchema
		if verifNondetBool("empty_schema") {
			schema = verifEmptySchema
		}
		b := verifNewBatch(schema, rows, 1, keys, vals)
		verifInQueue = append(verifInQueue, &verifInStream{batches: []*verifBatch{b}, schema: schema, failAt: -1})
	}
	if method == "p" || method == "x" {
		verifQueueTicks(verifChoice("ticks", 2), -1)
	}
	sink := &verifSink{}
	err := s.serveOne(context.Background(), &verifConn{}, sink, &shmConnState{})
	verifReach("returned")
	// the engine reports any panic that escapes serveOne; reaching this line means none did
	if err != nil {
		verifReach("session-closed")
		verifAssert(len(verifSinkStreams(sink)) == 0, "a session is closed only without a half-written response")
	} else {
		for _, st := range verifSinkStreams(sink) {
			verifAssert(st.closed, "every response stream is complete")
		}
	}
}

func verifC03HTTPRequest(routeMethod string) (*http.Request, *verifRecorder) {
	r := &http.Request{Method: "POST", Header: http.Header{}, URL: &url.URL{Path: "/" + routeMethod}, RemoteAddr: "1.2.3.4:5"}
	if !verifNondetBool("wrong_content_type") {
		r.Header.Set("Content-Type", arrowContentType)
	}
	r.SetPathValue("method", routeMethod)
	return r.WithContext(context.Background()), verifNewRecorder()
}

// No request shape makes a panic escape the unary or stream-init HTTP handler,
// and every request gets a status.
//
//verif:use ipc pipe handler httpx tokens
//verif:bound one request to the unary or the stream-init route named after a registered unary / producer / exchange method or an unregistered name: Content-Type right or wrong; body unreadable as IPC, empty, or a batch of 0..2 rows with metadata as in verifH_C03_pipe_no_panic (the metadata method equal to the route's or another registered one). No external storage.
func verifH_C03_http_request_routes() {
	verifResetIPC()
	verifResetHandler()
	verifXReset()
	verifToks = nil
	verifC03Handler()
	h := &HttpServer{server: verifPipeServer(), tokenKey: verifXKey, callStates: newCallStateCache(4, 0)}
	routeMethod := []string{"u", "p", "x", "nope"}[verifChoice("route_method", 4)]
	metaMethod := routeMethod
	if verifNondetBool("meta_method_differs") {
		metaMethod = "u"
	}
	switch verifChoice("stream_shape", 3) {
	case 0:
		verifInQueue = append(verifInQueue, &verifInStream{bad: true, failAt: -1})
	case 1:
		verifInQueue = append(verifInQueue, &verifInStream{schema: verifDataSchema, failAt: -1})
	default:
		keys, vals := verifC03Meta(metaMethod)
		rows := int64(verifChoice("rows", 3))
		b := verifNewBatch(verifDataSchema, rows, 1, keys, vals)
		verifInQueue = append(verifInQueue, &verifInStream{batches: []*verifBatch{b}, schema: verifDataSchema, failAt: -1})
	}
	r, rw := verifC03HTTPRequest(routeMethod)
	if verifNondetBool("init_route") {
		h.handleStreamInit(rw, r)
	} else {
		h.handleUnary(rw, r)
	}
	verifReach("answered")
	verifAssert(rw.status != 0, "every request receives a complete HTTP response with a status code")
}

// No continuation shape makes a panic escape the stream-continuation handler.
//
//verif:use ipc pipe handler httpx tokens
//verif:bound one request to the continuation route of a registered unary / producer / exchange method or an unregistered name: Content-Type right or wrong; body unreadable, empty, or a batch of 0..1 rows whose metadata is any subset of {stream_state = ANY 3 bytes, call_state = ANY 3 bytes, cancel}; a genuine cursor + call token pair minted by the exchange method is in the token pool, so the arbitrary bytes include it (replayed tokens moved between methods); the call-state cache is warm or absent (a sibling instance sharing the key).
func verifH_C03_http_continuation_route() {
	verifResetIPC()
	verifResetHandler()
	verifXReset()
	verifToks = nil
	verifC03Handler()
	// the instance that minted the tokens (warm call cache) or a sibling sharing the key (no cache)
	h := &HttpServer{server: verifPipeServer(), tokenKey: verifXKey, tokenTTL: time.Hour, callStates: newCallStateCache(4*verifChoice("call_cache", 2), time.Hour)}
	_, e1 := h.packCursorToken("c1", &verifPipeExchange{}, Anonymous())
	_, e2 := h.packCallTokenFor("x", "c1", nil, Anonymous(), "sid")
	verifAssert(e1 == nil && e2 == nil, "mint")
	routeMethod := []string{"u", "p", "x", "nope"}[verifChoice("route_method", 4)]
	switch verifChoice("stream_shape", 3) {
	case 0:
		verifInQueue = append(verifInQueue, &verifInStream{bad: true, failAt: -1})
	case 1:
		verifInQueue = append(verifInQueue, &verifInStream{schema: verifDataSchema, failAt: -1})
	default:
		var keys, vals []string
		if verifNondetBool("stream_state") {
			keys = append(keys, MetaStreamState)
			vals = append(vals, verifNondetString("cursor", 3))
		}
		if verifNondetBool("call_state") {
			keys = append(keys, MetaCallState)
			vals = append(vals, verifNondetString("call", 3))
		}
		if verifNondetBool("cancel") {
			keys = append(keys, MetaCancel)
			vals = append(vals, "1")
		}
		rows := int64(verifChoice("rows", 2))
		b := verifNewBatch(verifDataSchema, rows, 1, keys, vals)
		verifInQueue = append(verifInQueue, &verifInStream{batches: []*verifBatch{b}, schema: verifDataSchema, failAt: -1})
	}
	r, rw := verifC03HTTPRequest(routeMethod)
	h.handleStreamExchange(rw, r)
	verifReach("answered")
	verifAssert(rw.status != 0, "every continuation receives a complete HTTP response with a status code")
}
