package vgirpc

import (
	"context"
	"errors"
	"io"
	"net/http"
	"strconv"
	"strings"
	"time"
)

//verif:ints lia
//verif:unwind 64
//verif:maxconcretize 16
//verif:maxdecisions 8000
//verif:maxpaths quick=150000 thorough=900000

// ---- the origin server and the clock ----

const (
	c32Exact    = iota // 206 with exactly the requested range
	c32Whole           // 200 with the whole resource (a server that ignores Range)
	c32Short           // 206 with the range cut short by one byte
	c32Status          // 500
	c32Transport       // the request fails
	c32Kinds
)

type verifC32Body struct {
	data   []byte
	closed int
}

func (b *verifC32Body) Read(p []byte) (int, error) { panic("read through the io.ReadAll stub only") }
func (b *verifC32Body) Close() error               { b.closed++; return nil }

var (
	verifC32Resource  []byte
	verifC32Plan      map[string]int // behaviour of the first request for a range, by Range header
	verifC32HedgePlan int            // behaviour of every hedged (second) request for a range
	verifC32Seen      map[string]int // requests seen per range
	verifC32Requests  int
	verifC32Tick      int64
	verifC32HeadFails bool
	verifC32NoRanges  bool
	verifC32Simple    int
)

var (
	verifC32Hold      chan struct{} // when set: the first request for verifC32SlowRange waits for the other two answers
	verifC32SlowRange string
	verifC32Fast      int
)

func verifC32Now() time.Time {
	verifC32Tick++
	return time.Unix(1700000000, verifC32Tick*int64(time.Millisecond))
}
func verifC32Since(t time.Time) time.Duration { return verifC32Now().Sub(t) }

func verifC32WithCancel(parent context.Context) (context.Context, context.CancelFunc) {
	return parent, func() {}
}

func verifC32NewRequest(ctx context.Context, method, url string, body io.Reader) (*http.Request, error) {
	return &http.Request{Method: method, Header: http.Header{}}, nil
}

func verifC32Head(c *http.Client, url string) (*http.Response, error) {
	if verifC32HeadFails {
		return nil, errors.New("HEAD failed")
	}
	h := http.Header{}
	if !verifC32NoRanges {
		h.Set("Accept-Ranges", "bytes")
	}
	return &http.Response{StatusCode: 200, Header: h, ContentLength: int64(len(verifC32Resource)), Body: &verifC32Body{}}, nil
}

func verifC32Get(c *http.Client, url string) (*http.Response, error) {
	verifC32Simple++
	return &http.Response{StatusCode: 200, Header: http.Header{}, Body: &verifC32Body{data: verifC32Resource}}, nil
}

func verifC32Do(c *http.Client, req *http.Request) (*http.Response, error) {
	verifC32Requests++
	rng := req.Header.Get("Range")
	verifC32Seen[rng]++
	kind := verifC32Plan[rng]
	if verifC32Seen[rng] > 1 {
		kind = verifC32HedgePlan
	}
	verifYield() // the request is on the wire: anything may happen meanwhile
	if verifC32Hold != nil && verifC32Seen[rng] == 1 {
		// a slow original: the first request for the last range is answered only after
		// the other two ranges have been — from then on it races with its hedge
		if rng == verifC32SlowRange {
			<-verifC32Hold
		} else {
			verifC32Fast++
			if verifC32Fast == 2 {
				close(verifC32Hold)
			}
		}
	}
	spec := strings.TrimPrefix(rng, "bytes=")
	dash := strings.IndexByte(spec, '-')
	lo, _ := strconv.Atoi(spec[:dash])
	hi, _ := strconv.Atoi(spec[dash+1:])
	switch kind {
	case c32Transport:
		return nil, errors.New("connection reset")
	case c32Status:
		return &http.Response{StatusCode: 500, Header: http.Header{}, Body: &verifC32Body{}}, nil
	case c32Whole:
		return &http.Response{StatusCode: 200, Header: http.Header{}, Body: &verifC32Body{data: verifC32Resource}}, nil
	case c32Short:
		return &http.Response{StatusCode: 206, Header: http.Header{}, Body: &verifC32Body{data: verifC32Resource[lo:hi]}}, nil
	}
	return &http.Response{StatusCode: 206, Header: http.Header{}, Body: &verifC32Body{data: verifC32Resource[lo : hi+1]}}, nil
}

func verifC32ReadAll(r io.Reader) ([]byte, error) {
	b, ok := r.(*verifC32Body)
	if !ok {
		verifUnmodelled("io.ReadAll over a reader the model does not know")
		return nil, nil
	}
	return append([]byte(nil), b.data...), nil
}

// A parallel range fetch returns exactly the resource or an error, and returns.
//
//verif:sched quick=1 thorough=2
//verif:race
//verif:stub (*net/http.Client).Head = verifC32Head
//verif:stub (*net/http.Client).Get = verifC32Get
//verif:stub (*net/http.Client).Do = verifC32Do
//verif:stub net/http.NewRequestWithContext = verifC32NewRequest
//verif:stub io.ReadAll = verifC32ReadAll
//verif:stub time.Now = verifC32Now
//verif:stub time.Since = verifC32Since
//verif:stub context.WithCancel = verifC32WithCancel
//verif:bound a resource of 4 distinct bytes in 2 chunks (no hedging possible: it needs two completions and a pending chunk), the first request for each range answered with ANY of: 206 exact, 200 whole body, 206 one byte short, 500, transport failure; and a resource of 6 bytes in 3 chunks with hedging on (multiplier 1.0, at most 1 hedge), first answers exact / transport failure / one byte short and the hedged duplicate answered with one of exact / transport failure / whole body (thorough: ANY one of the five); parallelism 1 or 2; ALL interleavings of the chunk goroutines at synchronisation points (channel, mutex, and a yield while each request is on the wire) with at most 1 (2) preemptions (switches at blocking points are unbounded); the clock ticks 1 ms per reading; HEAD failing / no Accept-Ranges fall back to a plain GET. Deadlock (a fetch that never returns) is reported by the scheduler
func verifH_C32_parallel_fetch() {
	verifC32Three = false
	verifC32Run()
	verifReach("two-chunk-fetch-returned")
}

var verifC32Three bool

// Hedged duplicates never change the result.
//
//verif:sched quick=0 thorough=1
//verif:race
//verif:stub (*net/http.Client).Head = verifC32Head
//verif:stub (*net/http.Client).Get = verifC32Get
//verif:stub (*net/http.Client).Do = verifC32Do
//verif:stub net/http.NewRequestWithContext = verifC32NewRequest
//verif:stub io.ReadAll = verifC32ReadAll
//verif:stub time.Now = verifC32Now
//verif:stub time.Since = verifC32Since
//verif:stub context.WithCancel = verifC32WithCancel
//verif:bound a resource of 6 bytes in 3 chunks (the smallest shape in which a hedge can be launched: two completions and a pending chunk) with hedging on (multiplier 1.0, at most 1 hedge), parallelism 1 or 2; first answers per range exact / transport failure / one byte short, the hedged duplicate exact / transport failure / whole body (thorough: any of the five); interleavings: every choice among runnable goroutines at blocking points, with 0 (thorough: 1) preemptions
func verifH_C32_hedging() {
	verifC32Three = true
	if verifC32Run() {
		verifReach("hedged")
	}
}

// A hedge's losing attempt arrives while another chunk is still pending, and that
// chunk then fails: the call must still return.
//
//verif:sched quick=0 thorough=1
//verif:stub (*net/http.Client).Head = verifC32Head
//verif:stub (*net/http.Client).Get = verifC32Get
//verif:stub (*net/http.Client).Do = verifC32Do
//verif:stub net/http.NewRequestWithContext = verifC32NewRequest
//verif:stub io.ReadAll = verifC32ReadAll
//verif:stub time.Now = verifC32Now
//verif:stub time.Since = verifC32Since
//verif:stub context.WithCancel = verifC32WithCancel
//verif:bound a resource of 8 bytes in 4 chunks, parallelism 4, hedging on (multiplier 1.0, one hedge): the first three ranges are answered exactly, the fourth exactly / with a transport failure / with a 500, the hedged duplicate exactly or with a transport failure; every choice among runnable goroutines at blocking points (which decides who is slow: an original may lose to its hedge and report later, while the fourth chunk is still pending), with 0 (thorough: 1) preemptions
func verifH_C32_hedge_loser() {
	verifC32Plan, verifC32Seen = map[string]int{}, map[string]int{}
	verifC32Requests, verifC32Tick, verifC32Simple = 0, 0, 0
	verifC32HeadFails, verifC32NoRanges = false, false
	verifC32Resource = []byte("abcdefgh")
	for i := 0; i < 4; i++ {
		k := c32Exact
		if i == 3 {
			k = []int{c32Exact, c32Transport, c32Status}[verifChoice("last.behaviour", 3)]
		}
		verifC32Plan["bytes="+strconv.Itoa(2*i)+"-"+strconv.Itoa(2*i+1)] = k
	}
	verifC32HedgePlan = []int{c32Exact, c32Transport}[verifChoice("hedge.behaviour", 2)]
	cfg := &FetchConfig{ParallelThresholdBytes: 1, ChunkSizeBytes: 2, MaxParallelRequests: 4, MaxFetchBytes: 1 << 20,
		SpeculativeRetryMultiplier: 1.0, MaxSpeculativeHedges: 1}
	data, err := FetchWithParallelRangeRequests(&http.Client{}, "https://origin/x", cfg)
	verifReach("four-chunk-fetch-returned")
	verifAssert(err != nil || string(data) == string(verifC32Resource), "the fetch returns exactly the bytes of the resource, or an error")
	if verifC32Plan["bytes=6-7"] == c32Exact {
		verifAssert(err == nil, "when every first answer is right the resource is returned, whatever became of the duplicate")
	}
}

func verifC32Run() (hedged bool) {
	verifC32Plan, verifC32Seen = map[string]int{}, map[string]int{}
	verifC32Requests, verifC32Tick, verifC32Simple = 0, 0, 0
	verifC32HeadFails, verifC32NoRanges = false, false
	n := 4
	three := false // a third chunk is what makes hedging possible at all (two completions, one pending)
	if verifC32Three {
		n, three = 6, true
	} else {
		switch verifChoice("probe", 3) {
		case 1:
			verifC32HeadFails = true
		case 2:
			verifC32NoRanges = true
		}
	}
	verifC32Resource = []byte("abcdef")[:n]
	if verifC32HeadFails || verifC32NoRanges {
		data, err := FetchWithParallelRangeRequests(&http.Client{}, "https://origin/x", &FetchConfig{ParallelThresholdBytes: 1, ChunkSizeBytes: 2, MaxParallelRequests: 2, MaxFetchBytes: 1 << 20})
		verifAssert(verifC32Simple == 1 && verifC32Requests == 0 && err == nil && string(data) == string(verifC32Resource), "without range support the resource is fetched with one plain GET")
		return false
	}
	chunks := (n + 1) / 2
	allExact := true
	for i := 0; i < chunks; i++ {
		lo, hi := 2*i, 2*i+1
		if hi >= n {
			hi = n - 1
		}
		var k int
		if three {
			// with three chunks the first answers are exact / slow-then-exact is the scheduler's business / failing
			k = []int{c32Exact, c32Transport, c32Short}[verifChoice("behaviour3", 3)]
		} else {
			k = verifChoice("behaviour", c32Kinds)
		}
		if k != c32Exact {
			allExact = false
		}
		verifC32Plan["bytes="+strconv.Itoa(lo)+"-"+strconv.Itoa(hi)] = k
	}
	cfg := &FetchConfig{ParallelThresholdBytes: 1, ChunkSizeBytes: 2, MaxParallelRequests: 1 + verifChoice("parallelism", 2), MaxFetchBytes: 1 << 20}
	if three {
		cfg.SpeculativeRetryMultiplier, cfg.MaxSpeculativeHedges = 1.0, 1
		if verifTier() == 1 {
			verifC32HedgePlan = verifChoice("hedge.behaviour", c32Kinds)
		} else {
			verifC32HedgePlan = []int{c32Exact, c32Transport, c32Whole}[verifChoice("hedge.behaviour", 3)]
		}
	}
	data, err := FetchWithParallelRangeRequests(&http.Client{}, "https://origin/x", cfg)
	verifAssert(err != nil || string(data) == string(verifC32Resource), "the fetch returns exactly the bytes of the resource, or an error")
	for _, c := range verifC32Seen {
		if c > 1 {
			hedged = true
		}
	}
	if allExact {
		verifAssert(err == nil && string(data) == string(verifC32Resource), "when every first answer is right the resource is returned, whatever the hedged duplicates did")
	}
	return hedged
}


// A slow original and its hedge race on a network with latency: whichever answer
// arrives first, a complete set of chunks is a successful fetch.
//
//verif:sched quick=0 thorough=1
//verif:stub (*net/http.Client).Head = verifC32Head
//verif:stub (*net/http.Client).Get = verifC32Get
//verif:stub (*net/http.Client).Do = verifC32Do
//verif:stub net/http.NewRequestWithContext = verifC32NewRequest
//verif:stub io.ReadAll = verifC32ReadAll
//verif:stub time.Now = verifC32Now
//verif:stub time.Since = verifC32Since
//verif:stub context.WithCancel = verifC32WithCancel
//verif:bound a resource of 6 bytes in 3 chunks, parallelism 3, hedging on (multiplier 1.0, one hedge); the first request for the last range is answered only after the other two ranges have been (a slow original), and from then on races with its hedge in every order the scheduler allows (so a hedge's failure can arrive before the original's success, or after it); first answers exact, or the third range fails; the hedged duplicate exact / transport failure / 500; interleavings at blocking points (thorough: plus 1 preemption)
func verifH_C32_slow_original() {
	verifC32Plan, verifC32Seen = map[string]int{}, map[string]int{}
	verifC32Requests, verifC32Tick, verifC32Simple = 0, 0, 0
	verifC32HeadFails, verifC32NoRanges = false, false
	verifC32Resource = []byte("abcdef")
	for i := 0; i < 3; i++ {
		verifC32Plan["bytes="+strconv.Itoa(2*i)+"-"+strconv.Itoa(2*i+1)] = c32Exact
	}
	lastFails := verifNondetBool("last_range_fails")
	if lastFails {
		verifC32Plan["bytes=4-5"] = c32Transport
	}
	verifC32HedgePlan = []int{c32Exact, c32Transport, c32Status}[verifChoice("hedge.behaviour", 3)]
	verifC32Hold, verifC32SlowRange, verifC32Fast = make(chan struct{}), "bytes=4-5", 0
	cfg := &FetchConfig{ParallelThresholdBytes: 1, ChunkSizeBytes: 2, MaxParallelRequests: 3, MaxFetchBytes: 1 << 20,
		SpeculativeRetryMultiplier: 1.0, MaxSpeculativeHedges: 1}
	data, err := FetchWithParallelRangeRequests(&http.Client{}, "https://origin/x", cfg)
	verifC32Hold = nil
	verifReach("latency-fetch-returned")
	verifAssert(err != nil || string(data) == string(verifC32Resource), "the fetch returns exactly the bytes of the resource, or an error")
	hedged := false
	for _, c := range verifC32Seen {
		if c > 1 {
			hedged = true
		}
	}
	if !lastFails {
		verifAssert(err == nil && string(data) == string(verifC32Resource), "when every first answer is right the resource is returned — a hedge that fails, early or late, changes nothing")
		if hedged && verifC32HedgePlan != c32Exact {
			verifReach("failed-hedge-with-good-original")
		}
	}
}
