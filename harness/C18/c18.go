package vgirpc

import (
	"compress/gzip"
	"errors"
	"io"
	"net/http"
	"net/url"

	"github.com/apache/arrow-go/v18/arrow"
	"github.com/klauspost/compress/zstd"
)

//verif:ints lia
//verif:unwind 32
//verif:maxconcretize 16
//verif:maxdecisions 4000

// ---- environment: readers of symbolic length ----

// verifC18Body is the request body: L bytes available.
type verifC18Body struct{ avail int64 }

func (b *verifC18Body) Read(p []byte) (int, error) { panic("read through the io.ReadAll stub only") }
func (b *verifC18Body) Close() error               { return nil }

var (
	verifC18Decoded     int64 // true decoded size D of the body
	verifC18FCS         bool  // zstd frame declares its content size
	verifC18InitFail    bool  // codec refuses the stream (corrupt)
	verifC18RawAsked    int64 // most bytes requested from the body (-1 = unbounded read)
	verifC18DecAsked    int64 // most bytes requested from a decoder (-1 = unbounded)
	verifC18DecReads    int
	verifC18MaxMemory   uint64
	verifC18Status      int
	verifC18StatusWrote int
)

// http.MaxBytesReader as its contract: at most n bytes are delivered; when the body
// holds more, the read ends in a *http.MaxBytesError
type verifC18MaxBytes struct {
	r io.Reader
	n int64
}

func (m *verifC18MaxBytes) Read(p []byte) (int, error) { panic("read through the io.ReadAll stub only") }
func (m *verifC18MaxBytes) Close() error               { return nil }
func verifC18MaxBytesReader(w http.ResponseWriter, r io.ReadCloser, n int64) io.ReadCloser {
	return &verifC18MaxBytes{r: r, n: n}
}

func verifC18ReadAll(r io.Reader) ([]byte, error) {
	limit := int64(-1)
	if lr, ok := r.(*io.LimitedReader); ok {
		limit = lr.N
		r = lr.R
	}
	if mb, ok := r.(*verifC18MaxBytes); ok {
		if body, isBody := mb.r.(*verifC18Body); isBody {
			verifC18RawAsked = mb.n
			if body.avail > mb.n {
				return verifOpaqueBytes(int(mb.n)), &http.MaxBytesError{Limit: mb.n}
			}
			return verifOpaqueBytes(int(body.avail)), nil
		}
		verifUnmodelled("MaxBytesReader over a reader the model does not know")
		return nil, nil
	}
	var avail int64
	switch src := r.(type) {
	case *verifC18Body:
		avail = src.avail
		verifC18RawAsked = limit
	case *zstd.Decoder, *gzip.Reader:
		avail = verifC18Decoded
		if verifC18Stages != nil {
			avail = verifC18Stages[verifC18StageNo]
			verifC18StageNo++
		}
		if verifC18DecReads == 0 || limit == -1 || (verifC18DecAsked != -1 && limit > verifC18DecAsked) {
			verifC18DecAsked = limit
		}
		verifC18DecReads++
	default:
		verifUnmodelled("io.ReadAll over a reader the model does not know")
		return nil, nil
	}
	n := avail
	if limit >= 0 && limit < n {
		n = limit
	}
	return verifOpaqueBytes(int(n)), nil
}

func verifC18HeaderDecode(h *zstd.Header, in []byte) error {
	if verifC18InitFail {
		return errors.New("bad magic")
	}
	h.HasFCS = verifC18FCS
	if verifC18FCS {
		h.FrameContentSize = uint64(verifC18Decoded)
	}
	return nil
}

var (
	verifC18Order   []string // codecs in the order they were applied
	verifC18Stages  []int64  // decoded size per decode stage (nil: verifC18Decoded for every stage)
	verifC18StageNo int
)

func verifC18ZstdNewReader(r io.Reader, opts ...zstd.DOption) (*zstd.Decoder, error) {
	verifC18Order = append(verifC18Order, "zstd")
	if verifC18InitFail {
		return nil, errors.New("zstd: invalid input")
	}
	return &zstd.Decoder{}, nil
}
func verifC18WithMaxMem(n uint64) zstd.DOption { verifC18MaxMemory = n; return nil }
func verifC18ZstdClose(d *zstd.Decoder)        {}
func verifC18GzipNewReader(r io.Reader) (*gzip.Reader, error) {
	verifC18Order = append(verifC18Order, "gzip")
	if verifC18InitFail {
		return nil, errors.New("gzip: invalid header")
	}
	return &gzip.Reader{}, nil
}
func verifC18GzipClose(z *gzip.Reader) error { return nil }

func verifC18WriteHttpError(h *HttpServer, w http.ResponseWriter, statusCode int, err error, schema *arrow.Schema) {
	verifC18Status = statusCode
	verifC18StatusWrote++
}

func verifC18Encoding() (hdr string, kind int) {
	// kind: 0 identity, 1 zstd, 2 gzip, 3 unknown
	switch verifChoice("encoding", 8) {
	case 0:
		return "", 0
	case 1:
		return "identity", 0
	case 2:
		return "zstd", 1
	case 3:
		return "gzip", 2
	case 4:
		return " ZSTD ", 1
	case 5:
		return "GZip", 2
	case 6:
		return "br", 3
	}
	return "zstd, gzip", 3 // a coding stack is not something readHTTPBody speaks
}

const verifC18CapMax = 1 << 40

// readHTTPBody + writeBodyReadError: the outcome is the property's table for
// every combination of caps and sizes.
//
//verif:stub io.ReadAll = verifC18ReadAll
//verif:stub net/http.MaxBytesReader = verifC18MaxBytesReader
//verif:stub (*github.com/klauspost/compress/zstd.Header).Decode = verifC18HeaderDecode
//verif:stub github.com/klauspost/compress/zstd.NewReader = verifC18ZstdNewReader
//verif:stub github.com/klauspost/compress/zstd.WithDecoderMaxMemory = verifC18WithMaxMem
//verif:stub (*github.com/klauspost/compress/zstd.Decoder).Close = verifC18ZstdClose
//verif:stub compress/gzip.NewReader = verifC18GzipNewReader
//verif:stub (*compress/gzip.Reader).Close = verifC18GzipClose
//verif:stub (*github.com/Query-farm/vgi-rpc-go/vgirpc.HttpServer).writeHttpError = verifC18WriteHttpError
//verif:bound maxBodySize, maxRequestBytes, maxDecompressedBodySize each 0 (off) or ANY value in [1,2^40]; raw body length and decoded length ANY value in [0,2^41]; path health-exempt or not; Content-Encoding one of "", identity, zstd, gzip, " ZSTD ", GZip, br, "zstd, gzip"; codec accepts or rejects the stream; zstd frame declares its content size or not. When both maxBodySize and an applicable maxRequestBytes are set, maxRequestBytes <= maxBodySize (the advertised cap is the binding one). The codecs are readers of symbolic length: byte-exact decoding is outside the claim.
func verifH_C18_read_body() {
	capv := func(name string) int64 {
		if !verifNondetBool(name + ".set") {
			return 0
		}
		v := verifNondetInt64(name)
		verifAssume(v >= 1 && v <= verifC18CapMax)
		return v
	}
	B := capv("max_body")
	R := capv("max_request")
	Dc := capv("max_decompressed")
	L := verifNondetInt64("raw_len")
	D := verifNondetInt64("decoded_len")
	verifAssume(L >= 0 && L <= 2*verifC18CapMax && D >= 0 && D <= 2*verifC18CapMax)
	exempt := verifNondetBool("health_path")
	path := "/m"
	if exempt {
		path = "/health"
	}
	advertised := R > 0 && !exempt
	if advertised && B > 0 {
		verifAssume(R <= B)
	}
	hdr, kind := verifC18Encoding()
	verifC18Decoded, verifC18FCS, verifC18InitFail = D, verifNondetBool("fcs"), verifNondetBool("corrupt")
	verifC18RawAsked, verifC18DecAsked, verifC18DecReads, verifC18MaxMemory = -2, -2, 0, 0
	h := &HttpServer{server: &Server{}, maxBodySize: B, maxRequestBytes: R, maxDecompressedBodySize: Dc}
	r := &http.Request{Method: "POST", Header: http.Header{}, URL: &url.URL{Path: path}, Body: &verifC18Body{avail: L}}
	if hdr != "" {
		r.Header.Set("Content-Encoding", hdr)
	}
	body, err := h.readHTTPBody(r)
	status := 0
	if err != nil {
		verifC18Status, verifC18StatusWrote = 0, 0
		h.writeBodyReadError(nil, err, nil)
		status = verifC18Status
		verifAssert(verifC18StatusWrote == 1, "a refused body gets exactly one error response")
	}
	verifReach("read")

	// ---- reference (the property's table) ----
	rawCap := int64(0) // 0 = none
	rawIsAdvertised := false
	if advertised {
		rawCap, rawIsAdvertised = R, true
	} else if B > 0 {
		rawCap = B
	}
	if rawCap > 0 {
		verifAssert(verifC18RawAsked >= rawCap && verifC18RawAsked <= rawCap+1, "at most one byte past the raw cap is read from the connection (and never fewer than the cap)")
	}
	if rawCap > 0 && L > rawCap {
		verifReach("raw-over")
		want := 400
		if rawIsAdvertised {
			want = 413
		}
		verifAssert(err != nil && status == want, "a raw body over the cap is refused: 413 for the advertised request cap, 400 otherwise")
		verifAssert(verifC18DecReads == 0, "an over-cap raw body is never decoded")
		return
	}
	switch kind {
	case 0:
		verifReach("identity")
		verifAssert(err == nil && int64(len(body)) == L, "an identity body within the cap is accepted whole")
		return
	case 3:
		verifReach("unknown-coding")
		verifAssert(err != nil && status == 415, "an unknown coding is refused with 415")
		return
	}
	// zstd / gzip
	decCap := int64(0)
	decIsAdvertised := false
	switch {
	case advertised && (Dc <= 0 || R <= Dc): // on a tie the binding cap is (also) the advertised one
		decCap, decIsAdvertised = R, true
	case Dc > 0:
		decCap = Dc
	case rawCap > 0:
		decCap = rawCap * 16
	}
	if verifC18InitFail {
		verifReach("corrupt")
		if !(kind == 1 && verifC18FCS && false) {
			verifAssert(err != nil && status == 400, "a stream the codec rejects is a 400")
		}
		return
	}
	if decCap > 0 {
		verifAssert(verifC18DecAsked <= decCap+1 && verifC18DecAsked != -1, "never more than one byte past the decoded-size cap is requested from the decoder")
	}
	if decCap > 0 && D > decCap {
		verifReach("decoded-over")
		want := 400
		if decIsAdvertised {
			want = 413
		}
		verifAssert(err != nil && status == want, "a decoded body over the cap is refused: 413 for the advertised request cap, 400 otherwise")
		return
	}
	verifReach("decoded-ok")
	verifAssert(err == nil && int64(len(body)) == D, "a body within both caps is decoded whole")
}

// The intermediary decoder undoes a stack of codings in reverse order and
// never returns (or requests) more than its per-coding limit.
//
//verif:stub io.ReadAll = verifC18ReadAll
//verif:stub net/http.MaxBytesReader = verifC18MaxBytesReader
//verif:stub (*github.com/klauspost/compress/zstd.Header).Decode = verifC18HeaderDecode
//verif:stub github.com/klauspost/compress/zstd.NewReader = verifC18ZstdNewReader
//verif:stub github.com/klauspost/compress/zstd.WithDecoderMaxMemory = verifC18WithMaxMem
//verif:stub (*github.com/klauspost/compress/zstd.Decoder).Close = verifC18ZstdClose
//verif:stub compress/gzip.NewReader = verifC18GzipNewReader
//verif:stub (*compress/gzip.Reader).Close = verifC18GzipClose
//verif:bound Content-Encoding stacks of 0..3 codings drawn from {zstd, gzip, identity, br, upper-case and padded variants}; per-coding limit 0 (off) or ANY value in [1,2^40]; decoded size of every stage ANY value in [0,2^41]; codecs are readers of symbolic length
func verifH_C18_decode_stack() {
	names := []string{"zstd", "gzip", "identity", "br", " GZIP", "Zstd "}
	canon := []string{"zstd", "gzip", "", "", "gzip", "zstd"}
	k := verifChoice("n", 4)
	hdr := ""
	var want []string // decode order = reverse of application order
	for i := 0; i < k; i++ {
		c := verifChoice("coding", len(names))
		if i > 0 {
			hdr += ","
		}
		hdr += names[c]
		if canon[c] != "" {
			want = append([]string{canon[c]}, want...)
		}
	}
	limit := int64(0)
	if verifNondetBool("limit.set") {
		limit = verifNondetInt64("limit")
		verifAssume(limit >= 1 && limit <= verifC18CapMax)
	}
	verifC18Stages = make([]int64, len(want))
	for i := range verifC18Stages {
		d := verifNondetInt64("stage_len")
		verifAssume(d >= 0 && d <= 2*verifC18CapMax)
		verifC18Stages[i] = d
	}
	verifC18StageNo, verifC18Order, verifC18InitFail, verifC18FCS = 0, nil, false, verifNondetBool("fcs")
	verifC18DecAsked, verifC18DecReads = -2, 0
	in := verifOpaqueBytes(5)
	out, err := DecodeContentEncoding(in, hdr, limit)
	st := verifC18Stages
	verifC18Stages = nil
	verifReach("decoded")
	// reference: the first stage whose decoded size exceeds the limit refuses the stack
	over := false
	if limit > 0 {
		for _, d := range st {
			if d > limit {
				over = true
			}
		}
	}
	verifAssert((err != nil) == over, "the stack is refused exactly when some stage decodes to more than the per-coding limit")
	if err == nil {
		verifReach("stack-ok")
		verifAssert(len(verifC18Order) == len(want), "every compressed coding of the stack is undone exactly once")
		for i := range want {
			if i < len(verifC18Order) {
				verifAssert(verifC18Order[i] == want[i], "codings are undone in reverse order of application")
			}
		}
		if limit > 0 && len(want) > 0 {
			verifAssert(int64(len(out)) <= limit, "the result never exceeds the per-coding limit")
		}
		if len(want) == 0 {
			verifAssert(len(out) == 5, "with nothing to undo the body is returned unchanged")
		} else {
			verifAssert(int64(len(out)) == st[len(st)-1], "the result is the output of the last decode stage")
		}
	} else {
		verifReach("stack-refused")
		verifAssert(out == nil, "a refused stack returns no bytes")
	}
	if limit > 0 && verifC18DecReads > 0 {
		verifAssert(verifC18DecAsked != -1 && verifC18DecAsked <= limit+1, "no stage requests more than one byte past the per-coding limit")
	}
}
