package vgirpc

import (
	"errors"
	"net/http"
	"strconv"
)

//verif:ints lia
//verif:unwind 32
//verif:maxconcretize 16
//verif:maxdecisions 4000

type verifC23RW struct {
	hdr    http.Header
	status int
	body   []byte
}

func (w *verifC23RW) Header() http.Header         { return w.hdr }
func (w *verifC23RW) WriteHeader(code int)        { if w.status == 0 { w.status = code } }
func (w *verifC23RW) Write(b []byte) (int, error) { if w.status == 0 { w.status = 200 }; w.body = append(w.body, b...); return len(b), nil }

// verifC23Wrap is a generic wrapper with an Unwrap method (what fmt.Errorf("%w") produces).
type verifC23Wrap struct{ inner error }

func (e *verifC23Wrap) Error() string { return "wrap: " + e.inner.Error() }
func (e *verifC23Wrap) Unwrap() error { return e.inner }

// verifC23Opaque hides its cause (no Unwrap).
type verifC23Opaque struct{ inner error }

func (e *verifC23Opaque) Error() string { return "opaque" }

const (
	verifC23KFailure = iota
	verifC23KRpc
	verifC23KUnavail
	verifC23KPlain
)

type verifC23Desc struct {
	kind    int
	reason  AuthReason
	rpcType string
	retry   int
	depth   int  // number of Unwrap-able wrappers around the base
	opaque  bool // an opaque (non-unwrappable) layer sits outermost
}

var verifC23Reasons = []AuthReason{AuthReasonMissingCredential, AuthReasonInvalidCredential, AuthReasonExpiredCredential, AuthReasonInsufficientScope, AuthReasonProxyRequired, AuthReasonUnauthorized, ""}

// verifC23Error builds an arbitrary authenticator error within the bound and
// its description.
func verifC23Error(name string) (error, verifC23Desc) {
	var d verifC23Desc
	var base error
	d.kind = verifChoice(name+".kind", 4)
	switch d.kind {
	case verifC23KFailure:
		d.reason = verifC23Reasons[verifChoice(name+".reason", len(verifC23Reasons))]
		base = &AuthFailure{Reason: d.reason, Detail: "d"}
	case verifC23KRpc:
		// the type is an arbitrary string of the length of "ValueError" (10),
		// "PermissionError" (15) or 3: the solver decides which ones are special
		n := []int{10, 15, 3}[verifChoice(name+".tlen", 3)]
		d.rpcType = verifNondetString(name+".type", n)
		base = &RpcError{Type: d.rpcType, Message: "m"}
	case verifC23KUnavail:
		d.retry = verifNondetInt(name + ".retry")
		verifAssume(d.retry >= -5 && d.retry <= 100000)
		base = &AuthUnavailableError{Detail: "down", RetryAfter: d.retry}
	default:
		base = errors.New("boom")
	}
	d.depth = verifChoice(name+".depth", 3)
	err := base
	for i := 0; i < d.depth; i++ {
		err = &verifC23Wrap{inner: err}
	}
	if verifNondetBool(name + ".opaque") {
		d.opaque = true
		err = &verifC23Opaque{inner: err}
	}
	return err, d
}

// authenticate maps every authenticator error to the documented status.
//
//verif:stub encoding/json.Marshal = verifJSONMarshal
//verif:bound error = base (AuthFailure with any of the 6 reasons or empty; RpcError whose Type is ANY string of length 3, 10 or 15; AuthUnavailableError with RetryAfter in [-5,100000]; plain error) wrapped in 0..2 Unwrap-able layers and optionally one opaque layer; wwwAuthenticate set or empty; proxy hint on or off; the failing authenticator returns a nil context or a decoded context alongside the error
func verifH_C23_status() {
	err, d := verifC23Error("e")
	h := &HttpServer{server: &Server{}}
	if verifNondetBool("www") {
		h.wwwAuthenticate = `Bearer resource_metadata="https://x/"`
	}
	if verifNondetBool("proxy") {
		h.proxyProofRequired = true
	}
	var rejectedCtx *AuthContext
	if verifNondetBool("context_with_error") {
		rejectedCtx = &AuthContext{Authenticated: true, Principal: "p"}
	}
	h.authenticateFunc = func(r *http.Request) (*AuthContext, error) { return rejectedCtx, err }
	rw := &verifC23RW{hdr: http.Header{}}
	r := &http.Request{Header: http.Header{}, RemoteAddr: "1.2.3.4:5"}
	ac := h.authenticate(rw, r)
	verifReach("answered")
	verifAssert(ac == nil, "a failing authenticator never yields an identity")
	visible := !d.opaque // the chain is visible to errors.As / Unwrap walking
	switch {
	case d.kind == verifC23KUnavail && visible:
		verifReach("unavailable")
		want := d.retry
		if want <= 0 {
			want = 5
		}
		verifAssert(rw.status == 503, "AuthUnavailableError anywhere in the chain yields 503")
		verifAssert(rw.hdr.Get("Retry-After") == strconv.Itoa(want), "503 carries the error's Retry-After (default 5)")
	case d.kind == verifC23KFailure && visible:
		verifReach("failure")
		want := d.reason
		if want == "" {
			want = AuthReasonUnauthorized
		}
		verifAssert(rw.status == 401, "an AuthFailure in the Unwrap chain yields 401")
		verifAssert(rw.hdr.Get(HeaderAuthReason) == string(want), "401 carries the failure's reason code (unauthorized when empty)")
	case d.kind == verifC23KRpc && visible && d.depth == 0 && (d.rpcType == "ValueError" || d.rpcType == "PermissionError"):
		verifReach("rpc-rejection")
		want := AuthReasonUnauthorized
		if d.rpcType == "PermissionError" {
			want = AuthReasonInsufficientScope
		}
		verifAssert(rw.status == 401, "a directly returned ValueError/PermissionError RpcError yields 401")
		verifAssert(rw.hdr.Get(HeaderAuthReason) == string(want), "reason is insufficient_scope for PermissionError, unauthorized for ValueError")
	default:
		verifReach("other")
		verifAssert(rw.status == 500, "anything else yields 500")
		verifAssert(rw.hdr.Get(HeaderAuthReason) == "" && rw.hdr.Get("WWW-Authenticate") == "", "a 500 carries no auth headers")
	}
	if rw.status == 401 {
		verifAssert(rw.hdr.Get("Cache-Control") == "no-store", "401 is no-store")
		verifAssert(rw.hdr.Get("WWW-Authenticate") == h.wwwAuthenticate, "401 carries the configured WWW-Authenticate")
		verifAssert((rw.hdr.Get(HeaderAuthProxyRequired) == "true") == h.proxyProofRequired, "proxy-required hint follows configuration only")
		r := rw.hdr.Get(HeaderAuthReason)
		closed := false
		for _, k := range verifC23Reasons[:6] {
			if r == string(k) {
				closed = true
			}
		}
		verifAssert(closed, "the reason code is from the closed set")
	}
}

// A chain returns the first success, moves on only past a directly returned
// ValueError RpcError, and stops at anything else.
//
//verif:bound chains of 1..3 authenticators, each succeeding or failing with an error as in verifH_C23_status
func verifH_C23_chain() {
	n := 1 + verifChoice("n", 3)
	calls := 0
	var auths []AuthenticateFunc
	okCtx := make([]*AuthContext, n)
	errs := make([]error, n)
	descs := make([]verifC23Desc, n)
	succ := make([]bool, n)
	for i := 0; i < n; i++ {
		i := i
		// the outcome of authenticator i is chosen when (and only if) it is called
		auths = append(auths, func(r *http.Request) (*AuthContext, error) {
			calls++
			succ[i] = verifNondetBool("ok")
			if succ[i] {
				okCtx[i] = &AuthContext{Authenticated: true, Principal: string(rune('a' + i))}
			} else {
				errs[i], descs[i] = verifC23Error("e")
			}
			return okCtx[i], errs[i]
		})
	}
	chain := ChainAuthenticate(auths...)
	ac, err := chain(&http.Request{Header: http.Header{}})
	verifReach("chain-returned")
	// reference walk
	wantCalls := 0
	var wantCtx *AuthContext
	var wantErr error
	exhausted := true
	for i := 0; i < n && i < calls; i++ {
		wantCalls++
		if succ[i] {
			wantCtx = okCtx[i]
			exhausted = false
			break
		}
		d := descs[i]
		passOn := d.kind == verifC23KRpc && d.depth == 0 && !d.opaque && d.rpcType == "ValueError"
		if !passOn {
			wantErr = errs[i]
			exhausted = false
			break
		}
	}
	if exhausted {
		// the reference walk ran off the authenticators that were called: the chain must have called all n
		wantCalls = n
	}
	verifAssert(calls == wantCalls, "exactly the authenticators up to the deciding one are called")
	if wantCtx != nil {
		verifReach("chain-success")
		verifAssert(ac == wantCtx && err == nil, "the first success is returned")
	} else if !exhausted {
		verifReach("chain-stop")
		verifAssert(ac == nil && err == wantErr, "the chain stops with the first error that is not a direct ValueError")
	} else {
		verifReach("chain-exhausted")
		rpcErr, ok := err.(*RpcError)
		verifAssert(ac == nil && ok && rpcErr.Type == "ValueError", "an exhausted chain returns a ValueError")
	}
}
