package vgirpc

import (
	"context"
	"errors"
	"strconv"

	"github.com/apache/arrow-go/v18/arrow"
)

//verif:quote approx
//verif:ints lia
//verif:unwind 64
//verif:maxconcretize 16
//verif:maxdecisions 8000
//verif:maxpaths quick=60000 thorough=600000

// ---- the segment: a ghost allocation table ----
//
// The allocator itself (first fit, coalescing, the table-full guard) is C34's
// subject; here the segment is its contract: AllocateAndWrite stores the batch
// and returns a fresh (offset, length) when it fits, ReadBatch returns what is
// stored at exactly (offset, length), FreeOffset removes it.

type verifC36Slot struct {
	off    uint64
	length int
	b      *verifBatch
}

var (
	verifC36Cap      int64
	verifC36Used     int64
	verifC36Next     uint64
	verifC36Slots    []verifC36Slot
	verifC36Attached int
	verifC36Closed   int
	verifC36BadFree  int
)

const (
	verifC36Large = 200
	verifC36Small = 16
)

func verifC36Reset() {
	verifC36Used, verifC36Next, verifC36Slots = 0, 4096, nil
	verifC36Attached, verifC36Closed, verifC36BadFree = 0, 0, 0
}

func verifC36Attach(name string, size int, track bool) (*ShmSegment, error) {
	verifC36Attached++
	return &ShmSegment{name: name, size: size}, nil
}

func verifC36Close(s *ShmSegment) error { verifC36Closed++; return nil }

func verifC36AllocWrite(s *ShmSegment, batch arrow.RecordBatch) (uint64, int, bool, error) {
	b, ok := batch.(*verifBatch)
	if !ok {
		return 0, 0, false, errors.New("foreign batch")
	}
	n := b.size
	if verifC36Used+n > verifC36Cap {
		return 0, 0, false, nil
	}
	off := verifC36Next
	verifC36Next += uint64(n)
	verifC36Used += n
	cp := *b
	verifC36Slots = append(verifC36Slots, verifC36Slot{off: off, length: int(n), b: &cp})
	return off, int(n), true, nil
}

func verifC36ReadBatch(s *ShmSegment, offset uint64, length int, schema *arrow.Schema) (arrow.RecordBatch, error) {
	for _, sl := range verifC36Slots {
		if sl.off == offset && sl.length == length {
			return verifRegister(&verifBatch{schema: sl.b.schema, rows: sl.b.rows, tag: sl.b.tag, size: sl.b.size, refs: 1}), nil
		}
	}
	return nil, errors.New("shm: no allocation at that offset")
}

func verifC36Free(s *ShmSegment, offset uint64) error {
	for i, sl := range verifC36Slots {
		if sl.off == offset {
			verifC36Used -= int64(sl.length)
			verifC36Slots = append(verifC36Slots[:i:i], verifC36Slots[i+1:]...)
			return nil
		}
	}
	verifC36BadFree++
	return errors.New("shm: free of an unallocated offset")
}

func verifC36MinBytes() int64 { return 128 }

// ---- a session: calls drawn once, served twice ----

type verifC36Call struct {
	method    string // u, p, x
	advertise bool
	ptrParams bool   // the client ships the parameter batch through the segment
	sizes     []bool // true = large; per output (unary: one)
	ptrInputs []bool // exchange: per input, shipped through the segment
	fail      bool   // unary: the handler fails
}

type verifC36Decoded struct {
	rows      int64
	tag       int
	exception bool
	log       bool
	reqID     string
}

type verifC36Run struct {
	streams   [][]verifC36Decoded
	inputs    [][]int // per exchange call: the input tags the state saw
	params    []int   // tags handed to parameter binding
	handler   int
	pointers  int // pointer batches received by the client
	resolveOK bool
	leaked, unbalanced, overRelease int
}

func verifC36SizeOf(tag int) int64 {
	// tags 1000+ are large by construction
	if tag >= 1000 {
		return verifC36Large
	}
	return verifC36Small
}

// verifC36Serve plays the calls on one connection. shm=false: nothing is ever
// advertised and every batch travels inline.
func verifC36Serve(calls []verifC36Call, shm bool) *verifC36Run {
	verifResetIPC()
	verifResetHandler()
	verifC36Reset()
	verifPipeBatchSize = verifC36SizeOf
	s := verifPipeServer()
	conn, sink := &verifConn{}, &verifSink{}
	shmConn := &shmConnState{}
	run := &verifC36Run{resolveOK: true}
	attached := false
	seenStreams := 0
	for ci, c := range calls {
		adv := shm && c.advertise
		if adv {
			attached = true
		}
		keys := []string{MetaMethod, MetaRequestVersion, MetaRequestID}
		vals := []string{c.method, ProtocolVersion, "rid" + strconv.Itoa(ci)}
		if adv {
			keys = append(keys, MetaShmSegmentName, MetaShmSegmentSize)
			vals = append(vals, "seg", "1000000")
		}
		// the parameter batch: tag 50+ci, small or large as the client pleases
		params := verifNewBatch(verifDataSchema, 1, 50+ci, nil, nil)
		params.size = verifC36Large
		engaged := adv
		reqBatch := params
		reqKeys, reqVals := keys, vals
		if shm && attached && c.ptrParams {
			if off, n, ok, _ := verifC36AllocWrite(nil, params); ok {
				reqKeys = append(append([]string{}, keys...), MetaShmOffset, MetaShmLength)
				reqVals = append(append([]string{}, vals...), strconv.FormatUint(off, 10), strconv.Itoa(n))
				reqBatch = verifNewBatch(verifDataSchema, 0, 0, nil, nil)
				params.Release() // the client wrote it into the segment and is done with its own copy
				engaged = true
			}
		}
		reqBatch.meta, reqBatch.hasMeta = arrow.NewMetadata(reqKeys, reqVals), true
		verifInQueue = append(verifInQueue, &verifInStream{batches: []*verifBatch{reqBatch}, schema: verifDataSchema, failAt: -1})

		var xstate *verifPipeExchange
		switch c.method {
		case "u":
			tag := 7 + ci
			if c.sizes[0] {
				tag = 1000 + ci
			}
			fail := c.fail
			verifHFn = func(ctx context.Context, cc *CallContext) (interface{}, error) {
				if fail {
					return nil, errors.New("handler failed")
				}
				return tag, nil
			}
		case "p", "x":
			turns := make([]int, len(c.sizes))
			st := verifPipeState{producer: c.method == "p", turns: turns}
			var state interface{}
			if c.method == "x" {
				xstate = &verifPipeExchange{verifPipeState: st}
				state = xstate
			} else {
				state = &verifPipeProducer{st}
			}
			sizes := c.sizes
			verifPipeBatchSize = func(tag int) int64 {
				// stream batches are tagged 100*turn+emitted: turn t (1-based) is large iff sizes[t-1]
				t := tag / 100
				if t >= 1 && t <= len(sizes) && sizes[t-1] {
					return verifC36Large
				}
				if tag >= 1000 {
					return verifC36Large
				}
				return verifC36Small
			}
			verifHFn = func(ctx context.Context, cc *CallContext) (interface{}, error) {
				return &StreamResult{OutputSchema: verifDataSchema, State: state}, nil
			}
			// the input stream: producers get len(sizes)+1 ticks, exchanges one input per turn
			var bs []*verifBatch
			n := len(c.sizes)
			if c.method == "p" {
				n++
			}
			for i := 0; i < n; i++ {
				var in *verifBatch
				if c.method == "p" {
					in = verifNewBatch(verifEmptySchema, 0, 0, nil, nil)
				} else {
					in = verifNewBatch(verifDataSchema, 1, 10+i, nil, nil)
					in.size = verifC36Large
					if shm && engaged && c.ptrInputs[i] {
						if off, ln, ok, _ := verifC36AllocWrite(nil, in); ok {
							in.Release() // written into the segment; the client's own copy is done with
							in = verifNewBatch(verifDataSchema, 0, 0, []string{MetaShmOffset, MetaShmLength}, []string{strconv.FormatUint(off, 10), strconv.Itoa(ln)})
						}
					}
				}
				bs = append(bs, in)
			}
			verifInQueue = append(verifInQueue, &verifInStream{batches: bs, schema: verifDataSchema, failAt: -1})
		}
		err := s.serveOne(context.Background(), conn, sink, shmConn)
		verifAssert(err == nil, "every call is answered and the session continues")
		if xstate != nil {
			run.inputs = append(run.inputs, xstate.inputs)
		}
		// the client reads the response: pointer batches are resolved through the segment and released
		out := verifSinkStreams(sink)
		for _, st := range out[seenStreams:] {
			verifAssert(st.closed, "every response stream is complete")
			var dec []verifC36Decoded
			for _, b := range st.batches {
				d := verifC36Decoded{rows: b.rows, tag: b.tag, exception: verifIsException(b), log: verifIsLog(b)}
				d.reqID, _ = verifMetaGet(b, MetaRequestID)
				if offStr, isPtr := verifMetaGet(b, MetaShmOffset); isPtr && b.rows == 0 && !d.log {
					run.pointers++
					lenStr, _ := verifMetaGet(b, MetaShmLength)
					off, _ := strconv.ParseUint(offStr, 10, 64)
					ln, _ := strconv.Atoi(lenStr)
					rb, rerr := verifC36ReadBatch(nil, off, ln, b.schema)
					if rerr != nil {
						run.resolveOK = false
					} else {
						vb := rb.(*verifBatch)
						d.rows, d.tag = vb.rows, vb.tag
						vb.Release() // the client is done with its own copy
						if verifC36Free(nil, off) != nil {
							run.resolveOK = false
						}
					}
				}
				dec = append(dec, d)
			}
			run.streams = append(run.streams, dec)
		}
		seenStreams = len(out)
	}
	shmConn.close()
	run.leaked, run.unbalanced = verifLedger()
	run.overRelease = verifOverRelease
	run.params = verifParamsTags
	run.handler = verifHCalls
	verifPipeBatchSize = nil
	return run
}

func verifC36Draw(n int) []verifC36Call {
	calls := make([]verifC36Call, n)
	for i := range calls {
		c := &calls[i]
		c.method = "u"
		if i < 2 {
			// (a third call, thorough tier, is a unary call: it is there to find state left behind by the first two)
			c.method = []string{"u", "p", "x"}[verifChoice("method", 3)]
		}
		c.advertise = verifNondetBool("advertise")
		c.ptrParams = verifNondetBool("params_via_segment")
		outs := 1
		if c.method != "u" {
			outs = 1 + verifChoice("outputs", 2)
		} else {
			c.fail = verifNondetBool("handler_fails")
		}
		for j := 0; j < outs; j++ {
			c.sizes = append(c.sizes, verifNondetBool("large_output"))
			c.ptrInputs = append(c.ptrInputs, c.method == "x" && verifNondetBool("input_via_segment"))
		}
	}
	return calls
}

// The same session with and without a segment gives the same results, and the
// table is empty once the client has released what it received.
//
//verif:use ipc pipe handler
//verif:stub github.com/Query-farm/vgi-rpc-go/vgirpc.ShmAttach = verifC36Attach
//verif:stub (*github.com/Query-farm/vgi-rpc-go/vgirpc.ShmSegment).Close = verifC36Close
//verif:stub (*github.com/Query-farm/vgi-rpc-go/vgirpc.ShmSegment).AllocateAndWrite = verifC36AllocWrite
//verif:stub (*github.com/Query-farm/vgi-rpc-go/vgirpc.ShmSegment).ReadBatch = verifC36ReadBatch
//verif:stub (*github.com/Query-farm/vgi-rpc-go/vgirpc.ShmSegment).FreeOffset = verifC36Free
//verif:stub github.com/Query-farm/vgi-rpc-go/vgirpc.shmMinBatchBytes = verifC36MinBytes
//verif:bound sessions of 2 calls, each unary (value or handler error) | producer | exchange with 1..2 outputs (thorough: followed by a third, unary, call), every output large (200 B, over the 128 B shm threshold) or small (16 B); in the shm run the segment is advertised on ANY subset of the requests, the parameter batch and every exchange input travel inline or through the segment (a well-behaved client: only once a segment is attached, and stream inputs only when this request engaged shm), and the segment fits none (0 B), one large batch (250 B) or everything; the client resolves and releases every pointer it receives after each call. The segment is its allocation contract (C34 decides the allocator), IPC is abstract, handlers are ghosts
func verifH_C36_same_results_and_no_leak() {
	n := 2
	if verifTier() == 1 {
		n = 3
	}
	calls := verifC36Draw(n)
	verifC36Cap = []int64{0, 250, 1 << 20}[verifChoice("segment.capacity", 3)]
	plain := verifC36Serve(calls, false)
	verifAssert(plain.pointers == 0 && verifC36Attached == 0, "without an advertised segment nothing travels through shared memory")
	withShm := verifC36Serve(calls, true)
	verifReach("both-served")
	verifAssert(withShm.resolveOK, "every pointer the client receives resolves to a live allocation and can be released")
	verifAssert(withShm.handler == plain.handler, "the same handlers run")
	verifAssert(len(withShm.params) == len(plain.params), "the same parameter bindings happen")
	for i := 0; i < len(plain.params) && i < len(withShm.params); i++ {
		verifAssert(withShm.params[i] == plain.params[i], "handlers are bound to the same parameter payloads")
	}
	verifAssert(len(withShm.inputs) == len(plain.inputs), "the same exchanges run")
	for i := 0; i < len(plain.inputs) && i < len(withShm.inputs); i++ {
		verifAssert(len(withShm.inputs[i]) == len(plain.inputs[i]), "exchange states see the same number of inputs")
		for j := 0; j < len(plain.inputs[i]) && j < len(withShm.inputs[i]); j++ {
			verifAssert(withShm.inputs[i][j] == plain.inputs[i][j], "exchange states see the same input payloads")
		}
	}
	verifAssert(len(withShm.streams) == len(plain.streams), "the same number of response streams")
	for i := 0; i < len(plain.streams) && i < len(withShm.streams); i++ {
		a, b := plain.streams[i], withShm.streams[i]
		verifAssert(len(a) == len(b), "the same number of batches per response")
		for j := 0; j < len(a) && j < len(b); j++ {
			verifAssert(a[j] == b[j], "every decoded response batch (payload, rows, log/exception marker, request id) is the same")
		}
	}
	verifAssert(len(verifC36Slots) == 0 && verifC36Used == 0, "once the client has released every pointer it received the allocation table is empty")
	verifAssert(verifC36BadFree == 0, "nothing is freed twice")
	verifAssert(plain.leaked == 0 && plain.unbalanced == 0 && plain.overRelease == 0, "the plain session releases every record batch it made, once")
	verifAssert(withShm.leaked == 0 && withShm.unbalanced == 0 && withShm.overRelease == 0, "the shared-memory session releases every record batch it made — pointer batches, resolved batches and the originals — once")
	verifAssert(verifC36Closed == verifC36Attached, "every attached segment is closed when the connection ends")
	if withShm.pointers > 0 {
		verifReach("pointers-used")
	}
}

// A pointer batch on a connection that never advertised a segment is answered
// with an error and the session continues.
//
//verif:use ipc pipe handler
//verif:stub github.com/Query-farm/vgi-rpc-go/vgirpc.ShmAttach = verifC36Attach
//verif:stub (*github.com/Query-farm/vgi-rpc-go/vgirpc.ShmSegment).Close = verifC36Close
//verif:stub (*github.com/Query-farm/vgi-rpc-go/vgirpc.ShmSegment).AllocateAndWrite = verifC36AllocWrite
//verif:stub (*github.com/Query-farm/vgi-rpc-go/vgirpc.ShmSegment).ReadBatch = verifC36ReadBatch
//verif:stub (*github.com/Query-farm/vgi-rpc-go/vgirpc.ShmSegment).FreeOffset = verifC36Free
//verif:stub github.com/Query-farm/vgi-rpc-go/vgirpc.shmMinBatchBytes = verifC36MinBytes
//verif:bound one connection that never advertises a segment (or advertises an unusable one: size not a number / not above the header size); request 1 is a pointer batch for a unary, producer or exchange method (with its input stream behind it), or an exchange whose input is a pointer batch; request 2 is a plain unary call
func verifH_C36_pointer_without_segment() {
	verifResetIPC()
	verifResetHandler()
	verifC36Reset()
	verifC36Cap = 1 << 20
	s := verifPipeServer()
	conn, sink := &verifConn{}, &verifSink{}
	shmConn := &shmConnState{}
	method := []string{"u", "p", "x"}[verifChoice("method", 3)]
	keys := []string{MetaMethod, MetaRequestVersion, MetaRequestID}
	vals := []string{method, ProtocolVersion, "first"}
	switch verifChoice("advertisement", 3) {
	case 1:
		keys, vals = append(keys, MetaShmSegmentName, MetaShmSegmentSize), append(vals, "seg", "lots")
	case 2:
		keys, vals = append(keys, MetaShmSegmentName, MetaShmSegmentSize), append(vals, "seg", "65536")
	}
	requestIsPointer := method != "x" || verifNondetBool("request_is_pointer")
	rows := int64(1)
	if requestIsPointer {
		keys, vals = append(keys, MetaShmOffset, MetaShmLength), append(vals, "4096", "200")
		rows = 0
	}
	verifInQueue = append(verifInQueue, &verifInStream{batches: []*verifBatch{verifNewBatch(verifDataSchema, rows, 0, keys, vals)}, schema: verifDataSchema, failAt: -1})
	state := &verifPipeExchange{}
	verifHFn = func(ctx context.Context, cc *CallContext) (interface{}, error) {
		if method == "u" {
			return 5, nil
		}
		return &StreamResult{OutputSchema: verifDataSchema, State: state}, nil
	}
	if method != "u" {
		in := verifNewBatch(verifDataSchema, 0, 0, []string{MetaShmOffset, MetaShmLength}, []string{"4096", "200"})
		if requestIsPointer {
			in = verifNewBatch(verifDataSchema, 1, 10, nil, nil)
		}
		verifInQueue = append(verifInQueue, &verifInStream{batches: []*verifBatch{in}, schema: verifDataSchema, failAt: -1})
	}
	verifQueueRequest(1, 0, []string{MetaMethod, MetaRequestVersion, MetaRequestID}, []string{"u", ProtocolVersion, "second"})

	err1 := s.serveOne(context.Background(), conn, sink, shmConn)
	verifReach("first-served")
	verifAssert(err1 == nil, "the session continues")
	verifAssert(verifC36Attached == 0, "no segment is attached from an unusable advertisement")
	first := verifSinkStreams(sink)
	verifAssert(len(first) == 1 && first[0].closed, "request 1 receives exactly one complete response stream")
	if len(first) != 1 {
		return
	}
	hasErr := false
	for _, b := range first[0].batches {
		if verifIsException(b) {
			hasErr = true
		}
	}
	verifAssert(hasErr, "a pointer batch without an attached segment is answered with an error")
	if requestIsPointer {
		verifAssert(verifHCalls == 0, "and no handler runs for a request whose parameters cannot be resolved")
	} else {
		verifAssert(len(state.inputs) == 0, "and the exchange state is never handed the unresolved pointer as if it were an input")
	}
	calls := verifHCalls
	verifHFn = func(ctx context.Context, cc *CallContext) (interface{}, error) { return 42, nil }
	err2 := s.serveOne(context.Background(), conn, sink, shmConn)
	verifAssert(err2 == nil && verifHCalls == calls+1, "request 2 is read from its own stream and dispatched")
	all := verifSinkStreams(sink)
	verifAssert(len(all) == 2, "request 2 receives its own response")
	if len(all) == 2 {
		last := all[1].batches
		verifAssert(len(last) == 1 && last[0].tag == 42 && !verifIsException(last[0]), "with its own result")
	}
	verifAssert(verifInDesync == 0 && verifInLost == 0, "the connection's framing is intact")
}
