package vgirpc

import (
	"github.com/apache/arrow-go/v18/arrow"
)

// writeSchemaOnlyStream as its contract: the schema message of exactly this
// schema's content, followed by the end-of-stream marker.
func verifC35SchemaOnlyStream(schema *arrow.Schema) ([]byte, error) {
	return append(verifSerializeSchema(schema), ipcEOS[:]...), nil
}

func verifC35SchemaVariant(base []arrow.Field, k int) *arrow.Schema {
	fields := append([]arrow.Field(nil), base...)
	var md *arrow.Metadata
	switch k {
	case 0: // same content, fresh object
	case 1: // field metadata only
		fields[0].Metadata = arrow.NewMetadata([]string{"unit"}, []string{"seconds"})
	case 2: // other field metadata
		fields[0].Metadata = arrow.NewMetadata([]string{"unit"}, []string{"metres"})
	case 3: // schema metadata only
		m := arrow.NewMetadata([]string{"tag"}, []string{"alpha"})
		md = &m
	case 4:
		m := arrow.NewMetadata([]string{"tag"}, []string{"beta"})
		md = &m
	case 5: // nullability
		fields[0].Nullable = !fields[0].Nullable
	case 6: // type
		fields[0].Type = arrow.BinaryTypes.String
	case 7: // name
		fields[0].Name = "y"
	}
	return arrow.NewSchema(fields, md)
}

// The schema message prepended to a batch written into the segment is the
// message of that batch's own schema, whatever was written before it.
//
//verif:ints lia
//verif:use ipc
//verif:stub github.com/Query-farm/vgi-rpc-go/vgirpc.writeSchemaOnlyStream = verifC35SchemaOnlyStream
//verif:bound one segment; 2..3 successive batches whose schemas are drawn (with repetition, and also as the very same object) from 8 variants of {x: int64}: same content, two field-metadata variants, two schema-metadata variants, nullability flipped, type changed, renamed; the schema-only stream encoder is its contract (an injective encoding of schema content incl. metadata), arrow.Schema.Equal / Metadata.Equal / Fingerprint are the real source
func verifH_C35_schema_message_per_schema() {
	verifSchemas = nil
	seg := verifC35Segment()
	base := []arrow.Field{{Name: "x", Type: arrow.PrimitiveTypes.Int64}}
	n := 2 + verifChoice("writes", 2)
	var prev *arrow.Schema
	for i := 0; i < n; i++ {
		var sc *arrow.Schema
		if prev != nil && verifNondetBool("same_object") {
			sc = prev
		} else {
			sc = verifC35SchemaVariant(base, verifChoice("variant", 8))
		}
		msg, err := seg.cachedSchemaBytes(sc)
		verifAssert(err == nil, "the schema message is available")
		if err != nil {
			return
		}
		dec, derr := verifDeserializeSchema(msg)
		verifAssert(derr == nil && verifSameSchema(dec, sc), "the schema message written for a batch is the message of that batch's own schema (fields, nullability, field and schema metadata), whatever the segment cached before")
		prev = sc
	}
	verifReach("written")
}
