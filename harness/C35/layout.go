package vgirpc

import (
	"bytes"

	"github.com/apache/arrow-go/v18/arrow"
)

// ---- writer and reader must agree on how a dictionary-bearing batch is laid out ----

var (
	verifC35LayoutRead []byte // what the reader handed to the IPC decoder
	verifC35Stripped   int
	verifC35Full       int
)

// the two serialisers, as their contracts: the stripped layout (dictionary and
// record-batch messages only) and the complete self-contained stream
func verifC35SerializeStripped(batch arrow.RecordBatch) ([]byte, error) {
	verifC35Stripped++
	return []byte("DB"), nil
}
func verifC35SerializeFull(batch arrow.RecordBatch) ([]byte, error) {
	verifC35Full++
	return []byte("SDBE"), nil // schema, dictionaries, batch, end-of-stream
}
func verifC35LayoutSchemaOnly(schema *arrow.Schema) ([]byte, error) {
	return append([]byte("S"), ipcEOS[:]...), nil
}
func verifC35LayoutReadStream(buf []byte) (arrow.RecordBatch, error) {
	verifC35LayoutRead = append([]byte(nil), buf...)
	return verifNewBatch(verifDataSchema, 1, 77, nil, nil), nil
}
func verifC35Estimate(batch arrow.RecordBatch) int { return 8 }

type verifC35LayoutBatch struct {
	verifBatch
	sc *arrow.Schema
}

func (b *verifC35LayoutBatch) Schema() *arrow.Schema { return b.sc }

// What AllocateAndWrite stores for a schema that carries a dictionary anywhere is
// what ReadBatch expects to find for that schema.
//
//verif:ints lia
//verif:use ipc
//verif:stub github.com/Query-farm/vgi-rpc-go/vgirpc.serializeForShm = verifC35SerializeStripped
//verif:stub github.com/Query-farm/vgi-rpc-go/vgirpc.serializeForShmFull = verifC35SerializeFull
//verif:stub github.com/Query-farm/vgi-rpc-go/vgirpc.writeSchemaOnlyStream = verifC35LayoutSchemaOnly
//verif:stub github.com/Query-farm/vgi-rpc-go/vgirpc.readIPCStream = verifC35LayoutReadStream
//verif:stub github.com/Query-farm/vgi-rpc-go/vgirpc.estimateSerializedSize = verifC35Estimate
//verif:bound schemas of 1..3 columns, each column ANY of: int64, dictionary<int8,utf8> (top-level dictionary), struct<state: dictionary> (nested), list<dictionary> (nested) — in every order, with at least one dictionary somewhere (dictionary-free schemas take the zero-copy path, whose bytes are C35's other harnesses' subject); one AllocateAndWrite then one ReadBatch of the stored region with the same schema. The two serialisers, the schema-only stream and the IPC decoder are their contracts (letters for the messages a stream consists of); the real schema walkers decide the layout on both sides
func verifH_C35_dictionary_layout_agrees() {
	dict := &arrow.DictionaryType{IndexType: arrow.PrimitiveTypes.Int8, ValueType: arrow.BinaryTypes.String}
	kinds := []arrow.DataType{
		arrow.PrimitiveTypes.Int64,
		dict,
		arrow.StructOf(arrow.Field{Name: "state", Type: dict}),
		arrow.ListOf(dict),
	}
	n := 1 + verifChoice("columns", 3)
	var fields []arrow.Field
	anyDict := false
	for i := 0; i < n; i++ {
		k := verifChoice("column_kind", len(kinds))
		if k != 0 {
			anyDict = true
		}
		fields = append(fields, arrow.Field{Name: string(rune('a' + i)), Type: kinds[k]})
	}
	verifAssume(anyDict)
	sc := arrow.NewSchema(fields, nil)
	seg := &ShmSegment{name: "/seg", size: ShmHeaderSize + 64, data: make([]byte, ShmHeaderSize+64)}
	verifC35Stripped, verifC35Full, verifC35LayoutRead = 0, 0, nil
	b := &verifC35LayoutBatch{sc: sc}
	b.schema, b.rows = sc, 1
	off, length, ok, err := seg.AllocateAndWrite(b)
	verifReach("written")
	verifAssert(err == nil && ok && length > 0, "the batch is stored")
	if err != nil || !ok {
		return
	}
	verifAssert(verifC35Stripped+verifC35Full == 1, "exactly one of the two dictionary layouts is used")
	_, rerr := seg.ReadBatch(off, length, sc)
	verifReach("read-back")
	verifAssert(rerr == nil, "the stored region reads back")
	want := []byte("SDBE")
	want = append(want[:3], ipcEOS[:]...)
	if verifC35Full == 1 {
		want = []byte("SDBE")
	}
	// either way the decoder must be handed one well-formed stream: schema, dictionaries, batch, end
	if verifC35Full == 1 {
		verifReach("full-layout")
		verifAssert(bytes.Equal(verifC35LayoutRead, []byte("SDBE")), "a self-contained stream is opened as it is — the reader does not prepend a second schema message")
	} else {
		verifReach("stripped-layout")
		verifAssert(bytes.Equal(verifC35LayoutRead, want), "a stripped region is read behind a reconstructed schema message and in front of an end-of-stream marker")
	}
}
