package vgirpc

import (
	"errors"

	"github.com/apache/arrow-go/v18/arrow"
)

//verif:quote approx
//verif:ints bv
//verif:unwind 64
//verif:maxconcretize 40
//verif:maxdecisions 4000

var (
	verifC35RegionLen int
	verifC35Reads     int
)

func verifC35ReadIPCStream(buf []byte) (arrow.RecordBatch, error) {
	verifC35Reads++
	verifC35RegionLen = len(buf)
	if len(buf) == 0 {
		return nil, errors.New("empty SHM region")
	}
	b := verifNewBatch(verifDataSchema, 1, 77, nil, nil)
	return b, nil
}

const verifC35Size = 24 // segment size used by the harness (bytes)

func verifC35Segment() *ShmSegment {
	return &ShmSegment{name: "/seg", size: verifC35Size, data: make([]byte, verifC35Size)}
}

// ReadBatch never reads outside the segment: every (offset, length) either
// yields an error or a region inside [0, size]; a panic can only be the
// recovered slice-bounds panic inside ResolveShmBatch.
//
//verif:use ipc
//verif:stub github.com/Query-farm/vgi-rpc-go/vgirpc.readIPCStream = verifC35ReadIPCStream
//verif:bound segment of 24 bytes; offset ANY uint64 and length ANY int (64-bit machine integers with wrap-around); schema without dictionaries; the IPC decoding of the region is replaced by a recorder of the region handed to it
func verifH_C35_read_bounds() {
	s := verifC35Segment()
	off := verifNondetUint64("offset")
	length := verifNondetInt("length")
	inRange := length >= 0 && off <= verifC35Size && uint64(length) <= verifC35Size-off
	verifC35Reads = 0
	panicked := false
	var err error
	func() {
		defer func() {
			if recover() != nil {
				panicked = true
			}
		}()
		_, err = s.ReadBatch(off, length, verifDataSchema)
	}()
	verifReach("read")
	if inRange {
		verifReach("in-range")
		verifAssert(!panicked, "an in-range region never panics")
		if length > 0 {
			verifAssert(err == nil && verifC35Reads == 1 && verifC35RegionLen == length, "an in-range region is read whole")
		}
	} else {
		verifReach("out-of-range")
		verifAssert(verifC35Reads == 0, "nothing outside the segment is ever handed to the decoder (negative, overflowing and out-of-segment regions are never read)")
		verifAssert(panicked || err != nil, "an out-of-range region is refused")
	}
}

// ResolveShmBatch: malformed, negative, overflowing or out-of-segment pointers
// yield an error, never a panic; a good pointer resolves with the pointer keys
// replaced by the source key.
//
//verif:use ipc
//verif:stub github.com/Query-farm/vgi-rpc-go/vgirpc.readIPCStream = verifC35ReadIPCStream
//verif:bound shm_offset and shm_length strings of 0..3 ARBITRARY bytes each (quick: 0..2), or the 20-digit / 19-digit boundary numerals 18446744073709551615, 18446744073709551616, 9223372036854775807, -9223372036854775808; one extra user metadata key; 24-byte segment
func verifH_C35_resolve_pointer() {
	s := verifC35Segment()
	max := 2
	if verifTier() == 1 {
		max = 3
	}
	pick := func(name string) string {
		k := verifChoice(name+".kind", 5)
		switch k {
		case 1:
			return "18446744073709551615"
		case 2:
			return "18446744073709551616"
		case 3:
			return "9223372036854775807"
		case 4:
			return "-9223372036854775808"
		}
		return verifNondetString(name, verifChoice(name+".len", max+1))
	}
	offStr := pick("offset")
	lenStr := pick("length")
	b := verifNewBatch(verifDataSchema, 0, 0, []string{MetaShmOffset, "user_key", MetaShmLength}, []string{offStr, "u", lenStr})
	verifC35Reads = 0
	out, relOff, rel, err := ResolveShmBatch(b, s) // any escaping panic is reported by the engine
	verifReach("resolved")
	if err != nil {
		verifReach("refused")
		verifAssert(!rel, "a refused pointer asks for no release")
	} else {
		verifReach("accepted")
		ob, ok := out.(*verifBatch)
		verifAssert(ok && verifC35Reads == 1 && rel, "a good pointer is read once and marked for release")
		if ok {
			_, hasOff := verifMetaGet(ob, MetaShmOffset)
			_, hasLen := verifMetaGet(ob, MetaShmLength)
			src, hasSrc := verifMetaGet(ob, MetaShmSource)
			u, hasU := verifMetaGet(ob, "user_key")
			verifAssert(!hasOff && !hasLen && hasSrc && src == "/seg" && hasU && u == "u", "pointer keys are replaced by the source key; other metadata is kept")
			verifAssert(ob.tag == 77, "the resolved batch is the one read from the region")
		}
		verifAssert(relOff <= verifC35Size && uint64(verifC35RegionLen) <= verifC35Size-relOff, "an accepted pointer lies inside the segment")
	}
}

// The flatbuffer walkers never panic on arbitrary bytes.
//
//verif:bound every buffer of 0..12 (quick) / 0..16 (thorough) bytes whose first 12 bytes are ARBITRARY and the rest zero
func verifH_C35_walkers_no_panic() {
	max := 12
	if verifTier() == 1 {
		max = 16
	}
	n := verifChoice("len", max+1)
	sym := n
	if sym > 12 {
		sym = 12
	}
	buf := append(verifNondetBytes("buf", sym), make([]byte, n-sym)...)
	pos, err := skipOneIPCMessage(buf)
	verifReach("walked")
	if err == nil {
		verifReach("walked-ok")
		_ = pos
	}
	bl, err2 := readMessageBodyLength(buf)
	if err2 == nil {
		_ = bl
	}
}
