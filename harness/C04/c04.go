package vgirpc

import (
	"context"
	"errors"
	"net/http"
	"net/url"
)

//verif:ints lia
//verif:unwind 32
//verif:maxconcretize 16
//verif:maxdecisions 4000
//verif:maxpaths quick=20000 thorough=80000

var verifC04Levels = []LogLevel{LogException, LogError, LogWarn, LogInfo, LogDebug, LogTrace, "NOISE"}

func verifC04Prio(l LogLevel) int {
	for i, x := range verifC04Levels {
		if x == l {
			return i
		}
	}
	return 6
}

func verifC04AnyLevel(name string) LogLevel {
	n := []int{4, 5, 9}[verifChoice(name+".len", 3)]
	return LogLevel(verifNondetString(name, n))
}

type verifC04Case struct {
	method    string
	requested LogLevel // "" = not sent
	reqID     string
	logs      []LogLevel
	outcome   int
	value     int
	stamped   bool // the RpcError the handler returns already carries a RequestID (relayed from a downstream call)
}

func verifC04Build(maxLogs int, symbolicLogLevels bool) *verifC04Case {
	c := &verifC04Case{method: "u", value: 7}
	if verifNondetBool("void") {
		c.method = "v"
	}
	// the requested level is absent or ANY string of length 4, 5 or 9 (the lengths of the six level names)
	if verifNondetBool("requested.sent") {
		c.requested = verifC04AnyLevel("requested")
	}
	if verifNondetBool("request_id") {
		c.reqID = "rid-1"
	}
	n := verifChoice("logs", maxLogs+1)
	for i := 0; i < n; i++ {
		if symbolicLogLevels || verifTier() == 1 {
			c.logs = append(c.logs, verifC04AnyLevel("level"))
		} else {
			c.logs = append(c.logs, verifC04Levels[verifChoice("level", len(verifC04Levels))])
		}
	}
	c.outcome = verifChoice("outcome", 4)
	if c.outcome == verifOutRpcError {
		c.stamped = verifNondetBool("error_carries_foreign_request_id")
	}
	return c
}

func (c *verifC04Case) install() {
	verifHFn = func(ctx context.Context, cc *CallContext) (interface{}, error) {
		for i, l := range c.logs {
			cc.ClientLog(l, string(rune('a'+i)))
		}
		switch c.outcome {
		case verifOutValue:
			return c.value, nil
		case verifOutError:
			return nil, errors.New("handler failed")
		case verifOutRpcError:
			e := &RpcError{Type: "ValueError", Message: "bad input", Kind: "k1"}
			if c.stamped {
				e.RequestID = "downstream-0007"
			}
			return nil, e
		}
		panic("handler panicked")
	}
}

func (c *verifC04Case) meta() ([]string, []string) {
	keys := []string{MetaMethod, MetaRequestVersion}
	vals := []string{c.method, ProtocolVersion}
	if c.requested != "" {
		keys = append(keys, MetaLogLevel)
		vals = append(vals, string(c.requested))
	}
	if c.reqID != "" {
		keys = append(keys, MetaRequestID)
		vals = append(vals, c.reqID)
	}
	return keys, vals
}

// check verifies one response stream against the reference.
func (c *verifC04Case) check(st *verifOutStream) {
	verifAssert(st.closed, "the response stream is complete")
	eff := c.requested
	if eff == "" {
		eff = LogTrace
	}
	var want []LogLevel
	var wantMsg []string
	for i, l := range c.logs {
		if verifC04Prio(l) <= verifC04Prio(eff) {
			want = append(want, l)
			wantMsg = append(wantMsg, string(rune('a'+i)))
		}
	}
	verifAssert(len(st.batches) == len(want)+1, "the stream is the kept logs followed by exactly one terminal batch")
	if len(st.batches) != len(want)+1 {
		return
	}
	for i := range want {
		b := st.batches[i]
		lvl, _ := verifMetaGet(b, MetaLogLevel)
		msg, _ := verifMetaGet(b, MetaLogMessage)
		rid, hasRid := verifMetaGet(b, MetaRequestID)
		verifAssert(b.rows == 0 && lvl == string(want[i]) && msg == wantMsg[i], "logs at or above the requested level, in emission order")
		verifAssert(hasRid == (c.reqID != "") && rid == c.reqID, "every log batch echoes the request id")
	}
	last := st.batches[len(want)]
	if c.outcome == verifOutValue {
		verifReach("result")
		verifAssert(!verifIsException(last) && !verifIsLog(last), "a successful call ends with a result batch, not an exception")
		if c.method == "u" {
			verifAssert(last.rows == 1 && last.tag == c.value && last.schema == verifDataSchema, "the result batch holds the handler's value in the declared result schema")
		} else {
			verifAssert(last.rows == 0 && last.schema.NumFields() == 0, "a void method ends with an empty batch")
		}
	} else {
		verifReach("exception")
		verifAssert(verifIsException(last) && last.rows == 0, "a failed call ends with exactly one exception batch and no result")
		rid, hasRid := verifMetaGet(last, MetaRequestID)
		verifAssert(hasRid == (c.reqID != "") && rid == c.reqID, "the exception batch echoes the request id")
		kind, hasKind := verifMetaGet(last, MetaErrorKind)
		verifAssert(hasKind == (c.outcome == verifOutRpcError) && (!hasKind || kind == "k1"), "error_kind is carried exactly when the error has one")
		extra, _ := verifJSONLast.(errorExtra)
		wantType := "RuntimeError"
		if c.outcome == verifOutRpcError {
			wantType = "ValueError"
		}
		verifAssert(extra.ExceptionType == wantType, "the exception names the stable error type")
	}
}

// Pipe: logs then value or error.
//
//verif:use ipc pipe handler
//verif:bound one unary call through serveOne: valued or void method; requested level absent or ANY byte string of length 4, 5 or 9 (the six level names and every unknown name of those lengths); handler emits 0..2 logs (quick: levels from the six names plus one unknown; thorough: ANY strings of those lengths), then returns a value / error / RpcError with a kind (fresh, or relayed from a downstream call and still carrying that call's RequestID) / panics; request id present or absent. Abstract IPC, ghost handler, result serialisation stubbed (value fidelity through Arrow is outside the claim).
func verifH_C04_pipe() {
	verifResetIPC()
	verifResetHandler()
	c := verifC04Build(2, false)
	c.install()
	keys, vals := c.meta()
	verifQueueRequest(1, 0, keys, vals)
	s := verifPipeServer()
	sink := &verifSink{}
	err := s.serveOne(context.Background(), &verifConn{}, sink, &shmConnState{})
	verifReach("served")
	verifAssert(err == nil, "a handler outcome never ends the session")
	verifAssert(verifHCalls == 1, "the handler runs once")
	out := verifSinkStreams(sink)
	verifAssert(len(out) == 1, "exactly one response stream")
	if len(out) == 1 {
		c.check(out[0])
	}
}

// HTTP: the same contract through handleUnary.
//
//verif:use ipc pipe handler httpx
//verif:bound as verifH_C04_pipe but 0..1 logs with ANY level string in the quick tier (0..2 thorough), through handleUnary; the HTTP body is the abstract request stream; no caps, no externalization
func verifH_C04_http() {
	verifResetIPC()
	verifResetHandler()
	ml := 1
	if verifTier() == 1 {
		ml = 2
	}
	c := verifC04Build(ml, true)
	c.install()
	keys, vals := c.meta()
	verifQueueRequest(1, 0, keys, vals)
	h := &HttpServer{server: verifPipeServer()}
	h.authenticateFunc = nil
	r := &http.Request{Method: "POST", Header: http.Header{}, URL: &url.URL{Path: "/" + c.method}, RemoteAddr: "1.2.3.4:5"}
	r.Header.Set("Content-Type", arrowContentType)
	r.SetPathValue("method", c.method)
	r = r.WithContext(context.Background())
	rw := verifNewRecorder()
	h.handleUnary(rw, r)
	verifReach("served-http")
	verifAssert(rw.status == 200, "a dispatched unary call answers 200")
	verifAssert((rw.hdr.Get(rpcErrorHeader) == "true") == (c.outcome != verifOutValue), "X-VGI-RPC-Error marks exactly the failed calls")
	verifAssert(verifHCalls == 1, "the handler runs once")
	verifAssert(len(verifOutStreams) == 1, "exactly one response stream")
	if len(verifOutStreams) == 1 {
		c.check(verifOutStreams[0])
	}
}
