package vgiotel

import (
	"context"
	"errors"
	"time"

	"github.com/Query-farm/vgi-rpc-go/vgirpc"

	"go.opentelemetry.io/otel/attribute"
	"go.opentelemetry.io/otel/codes"
	"go.opentelemetry.io/otel/metric"
	membedded "go.opentelemetry.io/otel/metric/embedded"
	"go.opentelemetry.io/otel/propagation"
	"go.opentelemetry.io/otel/trace"
	tembedded "go.opentelemetry.io/otel/trace/embedded"
)

//verif:ints lia
//verif:unwind 64
//verif:maxconcretize 16
//verif:maxdecisions 4000
//verif:maxpaths quick=40000 thorough=400000

// ---- an in-memory span recorder, metric reader and propagator ----

type verifSpan struct {
	tembedded.Span
	name      string
	parent    string // traceparent in effect in the context the span was started from
	state     string
	recording bool
	ended     int
	status    codes.Code
	statusSet int
	attrs     []attribute.KeyValue
	recorded  []error
}

func (s *verifSpan) End(options ...trace.SpanEndOption)                  { s.ended++ }
func (s *verifSpan) AddEvent(name string, options ...trace.EventOption)  {}
func (s *verifSpan) AddLink(link trace.Link)                             {}
func (s *verifSpan) IsRecording() bool                                   { return s.recording && s.ended == 0 }
func (s *verifSpan) RecordError(err error, options ...trace.EventOption) { s.recorded = append(s.recorded, err) }
func (s *verifSpan) SpanContext() trace.SpanContext                      { return trace.SpanContext{} }
func (s *verifSpan) SetStatus(code codes.Code, description string)       { s.status = code; s.statusSet++ }
func (s *verifSpan) SetName(name string)                                 { s.name = name }
func (s *verifSpan) SetAttributes(kv ...attribute.KeyValue)              { s.attrs = append(s.attrs, kv...) }
func (s *verifSpan) TracerProvider() trace.TracerProvider                { return nil }

// verifCtx is a context that carries what the propagator extracted.
type verifCtx struct {
	context.Context
	traceparent string
	tracestate  string
}

type verifTracer struct {
	tembedded.Tracer
	spans     []*verifSpan
	recording bool
}

func (t *verifTracer) Start(ctx context.Context, spanName string, opts ...trace.SpanStartOption) (context.Context, trace.Span) {
	sp := &verifSpan{name: spanName, recording: t.recording}
	if vc, ok := ctx.(*verifCtx); ok {
		sp.parent, sp.state = vc.traceparent, vc.tracestate
	}
	t.spans = append(t.spans, sp)
	return ctx, sp
}

type verifPropagator struct{ extracts int }

func (p *verifPropagator) Inject(ctx context.Context, carrier propagation.TextMapCarrier) {}
func (p *verifPropagator) Extract(ctx context.Context, carrier propagation.TextMapCarrier) context.Context {
	p.extracts++
	tp := carrier.Get("traceparent")
	if tp == "" {
		return ctx
	}
	return &verifCtx{Context: ctx, traceparent: tp, tracestate: carrier.Get("tracestate")}
}
func (p *verifPropagator) Fields() []string { return []string{"traceparent", "tracestate"} }

type verifCounter struct {
	membedded.Int64Counter
	adds   []int64
	status []string
	method []string
}

// A measurement option that remembers the attributes it was built from. It embeds
// the interface so that it satisfies it (the interface's methods are unexported);
// the recorders below read the attributes of the option they are actually handed —
// an option built once and reused is seen as exactly that.
type verifOpt struct {
	metric.MeasurementOption
	attrs []attribute.KeyValue
}

func verifWithAttributes(attributes ...attribute.KeyValue) metric.MeasurementOption {
	return &verifOpt{attrs: append([]attribute.KeyValue(nil), attributes...)}
}

// attribute.NewSet / metric.WithAttributeSet, the other way to build the option:
// the set is a handle into a table of what it was built from
var verifSets [][]attribute.KeyValue

func verifNewSet(kvs ...attribute.KeyValue) attribute.Set {
	verifSets = append(verifSets, append([]attribute.KeyValue(nil), kvs...))
	var s attribute.Set
	verifSetField(&s, "hash", uint64(len(verifSets)))
	return s
}
func verifWithAttributeSet(set attribute.Set) metric.MeasurementOption {
	for i := range verifSets {
		var probe attribute.Set
		verifSetField(&probe, "hash", uint64(i+1))
		if probe.Equivalent() == set.Equivalent() {
			return &verifOpt{attrs: verifSets[i]}
		}
	}
	return &verifOpt{}
}

func verifOptAttrs(n int, get func(i int) interface{}) []attribute.KeyValue {
	var out []attribute.KeyValue
	for i := 0; i < n; i++ {
		if o, ok := get(i).(*verifOpt); ok {
			out = append(out, o.attrs...)
		}
	}
	return out
}

// a method name: "a" or "b", left to the solver (the hook never branches on it), so
// that within a history the same method recurs with another outcome
func verifC43Method(i int) string {
	m := verifNondetString("method", 1)
	verifAssume(verifAllInSet(m, "ab"))
	return m
}

func verifAttr(kvs []attribute.KeyValue, key string) (string, int) {
	v, n := "", 0
	for _, kv := range kvs {
		if string(kv.Key) == key {
			v = kv.Value.AsString()
			n++
		}
	}
	return v, n
}

func (c *verifCounter) Add(ctx context.Context, incr int64, options ...metric.AddOption) {
	c.adds = append(c.adds, incr)
	attrs := verifOptAttrs(len(options), func(i int) interface{} { return options[i] })
	st, _ := verifAttr(attrs, "status")
	m, _ := verifAttr(attrs, "rpc.method")
	c.status, c.method = append(c.status, st), append(c.method, m)
}
func (c *verifCounter) Enabled(ctx context.Context) bool { return true }

type verifHistogram struct {
	membedded.Float64Histogram
	records int
	status  []string
}

func (h *verifHistogram) Record(ctx context.Context, incr float64, options ...metric.RecordOption) {
	h.records++
	attrs := verifOptAttrs(len(options), func(i int) interface{} { return options[i] })
	st, _ := verifAttr(attrs, "status")
	h.status = append(h.status, st)
}
func (h *verifHistogram) Enabled(ctx context.Context) bool { return true }

func verifNow() time.Time                 { return time.Unix(1700000000, 0) }
func verifSince(t time.Time) time.Duration { return 1500 * time.Millisecond }
func verifAttrInt64(k string, v int64) attribute.KeyValue {
	return attribute.KeyValue{Key: attribute.Key(k)}
}

// Every span the hook starts is ended exactly once with the call's outcome,
// parented on the caller's traceparent, and every dispatch is counted once.
//
//verif:stub go.opentelemetry.io/otel/metric.WithAttributes = verifWithAttributes
//verif:stub go.opentelemetry.io/otel/metric.WithAttributeSet = verifWithAttributeSet
//verif:stub go.opentelemetry.io/otel/attribute.NewSet = verifNewSet
//verif:stub go.opentelemetry.io/otel/attribute.Int64 = verifAttrInt64
//verif:stub time.Now = verifNow
//verif:stub time.Since = verifSince
//verif:bound histories of 1..2 (thorough: 1..3) dispatches through one hook: tracing on/off, metrics on/off, RecordExceptions on/off, the tracer's spans recording or not; per dispatch: method 'a' or 'b' (symbolic, so the same method recurs with different outcomes), transport metadata absent, without trace headers, with traceparent, or with traceparent+tracestate (values ANY 2-byte / 1-byte strings); the call succeeds, fails with a plain error, or fails with an *RpcError; statistics present or nil and request id present or not (per history); dispatches run one after the other or nested (start, start, end, end). Tracer, span, counter, histogram and propagator are in-memory recorders with the OpenTelemetry interfaces; attribute sets are recorded as given
func verifH_C43_span_and_metric_per_dispatch() {
	tracer := &verifTracer{recording: verifNondetBool("spans_recording")}
	prop := &verifPropagator{}
	counter, hist := &verifCounter{}, &verifHistogram{}
	cfg := OtelConfig{EnableTracing: verifNondetBool("tracing"), EnableMetrics: verifNondetBool("metrics"),
		RecordExceptions: verifNondetBool("record_exceptions"), ServiceName: "svc", Propagator: prop}
	h := &otelHook{cfg: cfg, tracer: tracer}
	if cfg.EnableMetrics {
		h.requestCounter, h.durationHistogram = counter, hist
	}
	max := 2
	if verifTier() == 1 {
		max = 3
	}
	n := 1 + verifChoice("dispatches", max)
	nested := n >= 2 && verifNondetBool("nested")
	type call struct {
		info   vgirpc.DispatchInfo
		tp, ts string
		hasTP  bool
		err    error
		stats  *vgirpc.CallStatistics
		token  vgirpc.HookToken
		ctx    context.Context
		span   int // index of its span, -1 without tracing
	}
	calls := make([]*call, n)
	withRID, withStats := verifNondetBool("request_id"), verifNondetBool("stats")
	for i := range calls {
		c := &call{span: -1}
		c.info = vgirpc.DispatchInfo{Method: verifC43Method(i), MethodType: "unary", ServerID: "srv"}
		if withRID {
			c.info.RequestID = "rid"
		}
		switch verifChoice("transport_metadata", 4) {
		case 1:
			c.info.TransportMetadata = map[string]string{"remote_addr": "1.2.3.4"}
		case 2:
			c.tp, c.hasTP = verifNondetString("traceparent", 2), true
			c.info.TransportMetadata = map[string]string{"traceparent": c.tp}
		case 3:
			c.tp, c.hasTP = verifNondetString("traceparent", 2), true
			c.ts = verifNondetString("tracestate", 1)
			c.info.TransportMetadata = map[string]string{"traceparent": c.tp, "tracestate": c.ts}
		}
		switch verifChoice("outcome", 3) {
		case 1:
			c.err = errors.New("boom")
		case 2:
			c.err = &vgirpc.RpcError{Type: "ValueError", Message: "bad"}
		}
		if withStats {
			c.stats = &vgirpc.CallStatistics{InputBatches: 1, OutputBatches: 2}
		}
		calls[i] = c
	}
	start := func(c *call) {
		before := len(tracer.spans)
		c.ctx, c.token = h.OnDispatchStart(context.Background(), c.info)
		started := len(tracer.spans) - before
		if cfg.EnableTracing {
			verifAssert(started == 1, "with tracing on, a dispatch starts exactly one span")
			if started == 1 {
				c.span = before
			}
		} else {
			verifAssert(started == 0, "with tracing off no span is started")
		}
		verifAssert(c.token != nil, "a token is always returned")
	}
	end := func(c *call) {
		endedBefore := make([]int, len(tracer.spans))
		for i, sp := range tracer.spans {
			endedBefore[i] = sp.ended
		}
		addsBefore, recsBefore := len(counter.adds), hist.records
		h.OnDispatchEnd(c.ctx, c.token, c.info, c.stats, c.err)
		// metrics
		if cfg.EnableMetrics {
			verifAssert(len(counter.adds) == addsBefore+1 && counter.adds[addsBefore] == 1, "the request is counted exactly once")
			if len(counter.adds) == addsBefore+1 {
				want := "ok"
				if c.err != nil {
					want = "error"
				}
				verifAssert(counter.status[addsBefore] == want, "with status ok exactly when the call succeeded")
				verifAssert(counter.method[addsBefore] == c.info.Method, "under its own method")
			}
			verifAssert(hist.records == recsBefore+1, "and its duration recorded once")
		} else {
			verifAssert(len(counter.adds) == addsBefore && hist.records == recsBefore, "with metrics off nothing is counted")
		}
		// spans: only this call's span may change
		for i, sp := range tracer.spans {
			if i == c.span {
				continue
			}
			verifAssert(sp.ended == endedBefore[i], "ending one dispatch never ends another dispatch's span")
		}
		if c.span >= 0 {
			sp := tracer.spans[c.span]
			if tracer.recording {
				verifReach("recording-span-ended")
				verifAssert(sp.ended == 1, "a recording span is ended exactly once")
				wantCode := codes.Ok
				if c.err != nil {
					wantCode = codes.Error
				}
				verifAssert(sp.statusSet == 1 && sp.status == wantCode, "marked as an error exactly when the call failed")
				et, nType := verifAttr(sp.attrs, "rpc.vgi_rpc.error_type")
				if c.err == nil {
					verifAssert(nType == 0 && len(sp.recorded) == 0, "a successful call records no error")
				} else {
					verifAssert(nType == 1, "a failed call carries its error type once")
					if _, isRpc := c.err.(*vgirpc.RpcError); isRpc {
						verifAssert(et == "ValueError", "the RpcError's own type")
					} else {
						verifAssert(et == "*errors.errorString", "the Go type of any other error")
					}
					if cfg.RecordExceptions {
						verifAssert(len(sp.recorded) == 1 && sp.recorded[0] == c.err, "the error is recorded once when RecordExceptions is on")
					} else {
						verifAssert(len(sp.recorded) == 0, "and not at all when it is off")
					}
				}
			} else {
				verifAssert(sp.statusSet == 0 && len(sp.attrs) == 0, "a non-recording span is left alone")
			}
			// parent
			if c.hasTP {
				verifReach("parented")
				verifAssert(sp.parent == c.tp && sp.state == c.ts, "the span is parented on the caller's traceparent (and tracestate)")
			} else {
				verifAssert(sp.parent == "", "without a traceparent the span is a root")
			}
			verifAssert(sp.name == "vgi_rpc/"+c.info.Method, "the span is named after the method")
		}
	}
	if nested {
		verifReach("nested")
		for _, c := range calls {
			start(c)
		}
		for i := len(calls) - 1; i >= 0; i-- {
			end(calls[i])
		}
	} else {
		for _, c := range calls {
			start(c)
			end(c)
		}
	}
	// a second End for the same token must not end the span twice or count twice... the
	// dispatchers never do that (C37), so it is not part of this claim.
	total := 0
	for _, sp := range tracer.spans {
		total += sp.ended
		if tracer.recording {
			verifAssert(sp.ended == 1, "at the end of the history every recording span has been ended exactly once")
		}
	}
	if cfg.EnableTracing {
		verifAssert(len(tracer.spans) == n, "one span per dispatch")
	}
	if cfg.EnableMetrics {
		verifAssert(len(counter.adds) == n, "one count per dispatch")
	}
	verifReach("history-done")
}

// A token that is not the hook's own is ignored.
//
//verif:stub go.opentelemetry.io/otel/metric.WithAttributes = verifWithAttributes
//verif:stub go.opentelemetry.io/otel/metric.WithAttributeSet = verifWithAttributeSet
//verif:stub go.opentelemetry.io/otel/attribute.NewSet = verifNewSet
//verif:stub time.Now = verifNow
//verif:stub time.Since = verifSince
//verif:bound OnDispatchEnd with a nil or foreign token
func verifH_C43_foreign_token() {
	counter := &verifCounter{}
	h := &otelHook{cfg: OtelConfig{EnableMetrics: true, EnableTracing: true}, tracer: &verifTracer{}, requestCounter: counter}
	var tok vgirpc.HookToken
	if verifNondetBool("foreign") {
		tok = "someone else's token"
	}
	h.OnDispatchEnd(context.Background(), tok, vgirpc.DispatchInfo{Method: "m"}, nil, nil)
	verifAssert(len(counter.adds) == 0, "a dispatch the hook did not start is not counted")
	verifReach("ignored")
}
