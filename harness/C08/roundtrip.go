package vgirpc

import (
	"reflect"

	"github.com/apache/arrow-go/v18/arrow"
	"github.com/apache/arrow-go/v18/arrow/array"
	"github.com/apache/arrow-go/v18/arrow/memory"
)

// Ghost builders that produce REAL arrays: arrow-go's builders write through
// unsafe-backed buffers and are out of the engine's reach, so every builder the
// serializer uses for scalars is a recorder whose NewArray() makes an object of
// the real array type with its own fields filled in (verifSetField). Decoding then
// runs arrow-go's accessors (Value, IsNull through bitutil) as written.

type verifC08Build struct {
	obj   interface{}
	null  bool
	i64   int64
	u64   uint64
	f64   float64
	str   string
	bin   []byte
	b     bool
	count int
}

var verifC08Builds []*verifC08Build

func verifC08BuildOf(obj interface{}) *verifC08Build {
	for _, x := range verifC08Builds {
		if x.obj == obj {
			return x
		}
	}
	panic("verifC08: unknown builder")
}

func verifC08Data(n int) *array.Data {
	d := new(array.Data)
	verifSetField(d, "length", n)
	return d
}

func verifC08Validity(null bool) []byte {
	if null {
		return []byte{0}
	}
	return []byte{1}
}

func verifC08NewInt64Builder(mem memory.Allocator) *array.Int64Builder {
	b := new(array.Int64Builder)
	verifC08Builds = append(verifC08Builds, &verifC08Build{obj: b})
	return b
}
func verifC08Int64Append(b *array.Int64Builder, v int64) {
	c := verifC08BuildOf(b)
	c.i64, c.count = int64(v), c.count+1
}
func verifC08Int64AppendNull(b *array.Int64Builder) {
	c := verifC08BuildOf(b)
	c.null, c.count = true, c.count+1
}
func verifC08Int64NewArray(b *array.Int64Builder) arrow.Array {
	c := verifC08BuildOf(b)
	x := new(array.Int64)
	verifSetField(x, "numericArray.array.data", verifC08Data(c.count))
	verifSetField(x, "numericArray.array.nullBitmapBytes", verifC08Validity(c.null))
	verifSetField(x, "numericArray.values", []int64{int64(c.i64)})
	return x
}
func verifC08Int64Release(b *array.Int64Builder) {}

func verifC08NewInt32Builder(mem memory.Allocator) *array.Int32Builder {
	b := new(array.Int32Builder)
	verifC08Builds = append(verifC08Builds, &verifC08Build{obj: b})
	return b
}
func verifC08Int32Append(b *array.Int32Builder, v int32) {
	c := verifC08BuildOf(b)
	c.i64, c.count = int64(v), c.count+1
}
func verifC08Int32AppendNull(b *array.Int32Builder) {
	c := verifC08BuildOf(b)
	c.null, c.count = true, c.count+1
}
func verifC08Int32NewArray(b *array.Int32Builder) arrow.Array {
	c := verifC08BuildOf(b)
	x := new(array.Int32)
	verifSetField(x, "numericArray.array.data", verifC08Data(c.count))
	verifSetField(x, "numericArray.array.nullBitmapBytes", verifC08Validity(c.null))
	verifSetField(x, "numericArray.values", []int32{int32(c.i64)})
	return x
}
func verifC08Int32Release(b *array.Int32Builder) {}

func verifC08NewInt16Builder(mem memory.Allocator) *array.Int16Builder {
	b := new(array.Int16Builder)
	verifC08Builds = append(verifC08Builds, &verifC08Build{obj: b})
	return b
}
func verifC08Int16Append(b *array.Int16Builder, v int16) {
	c := verifC08BuildOf(b)
	c.i64, c.count = int64(v), c.count+1
}
func verifC08Int16AppendNull(b *array.Int16Builder) {
	c := verifC08BuildOf(b)
	c.null, c.count = true, c.count+1
}
func verifC08Int16NewArray(b *array.Int16Builder) arrow.Array {
	c := verifC08BuildOf(b)
	x := new(array.Int16)
	verifSetField(x, "numericArray.array.data", verifC08Data(c.count))
	verifSetField(x, "numericArray.array.nullBitmapBytes", verifC08Validity(c.null))
	verifSetField(x, "numericArray.values", []int16{int16(c.i64)})
	return x
}
func verifC08Int16Release(b *array.Int16Builder) {}

func verifC08NewInt8Builder(mem memory.Allocator) *array.Int8Builder {
	b := new(array.Int8Builder)
	verifC08Builds = append(verifC08Builds, &verifC08Build{obj: b})
	return b
}
func verifC08Int8Append(b *array.Int8Builder, v int8) {
	c := verifC08BuildOf(b)
	c.i64, c.count = int64(v), c.count+1
}
func verifC08Int8AppendNull(b *array.Int8Builder) {
	c := verifC08BuildOf(b)
	c.null, c.count = true, c.count+1
}
func verifC08Int8NewArray(b *array.Int8Builder) arrow.Array {
	c := verifC08BuildOf(b)
	x := new(array.Int8)
	verifSetField(x, "oneByteArrs.numericArray.array.data", verifC08Data(c.count))
	verifSetField(x, "oneByteArrs.numericArray.array.nullBitmapBytes", verifC08Validity(c.null))
	verifSetField(x, "oneByteArrs.numericArray.values", []int8{int8(c.i64)})
	return x
}
func verifC08Int8Release(b *array.Int8Builder) {}

func verifC08NewUint64Builder(mem memory.Allocator) *array.Uint64Builder {
	b := new(array.Uint64Builder)
	verifC08Builds = append(verifC08Builds, &verifC08Build{obj: b})
	return b
}
func verifC08Uint64Append(b *array.Uint64Builder, v uint64) {
	c := verifC08BuildOf(b)
	c.u64, c.count = uint64(v), c.count+1
}
func verifC08Uint64AppendNull(b *array.Uint64Builder) {
	c := verifC08BuildOf(b)
	c.null, c.count = true, c.count+1
}
func verifC08Uint64NewArray(b *array.Uint64Builder) arrow.Array {
	c := verifC08BuildOf(b)
	x := new(array.Uint64)
	verifSetField(x, "numericArray.array.data", verifC08Data(c.count))
	verifSetField(x, "numericArray.array.nullBitmapBytes", verifC08Validity(c.null))
	verifSetField(x, "numericArray.values", []uint64{uint64(c.u64)})
	return x
}
func verifC08Uint64Release(b *array.Uint64Builder) {}

func verifC08NewUint32Builder(mem memory.Allocator) *array.Uint32Builder {
	b := new(array.Uint32Builder)
	verifC08Builds = append(verifC08Builds, &verifC08Build{obj: b})
	return b
}
func verifC08Uint32Append(b *array.Uint32Builder, v uint32) {
	c := verifC08BuildOf(b)
	c.u64, c.count = uint64(v), c.count+1
}
func verifC08Uint32AppendNull(b *array.Uint32Builder) {
	c := verifC08BuildOf(b)
	c.null, c.count = true, c.count+1
}
func verifC08Uint32NewArray(b *array.Uint32Builder) arrow.Array {
	c := verifC08BuildOf(b)
	x := new(array.Uint32)
	verifSetField(x, "numericArray.array.data", verifC08Data(c.count))
	verifSetField(x, "numericArray.array.nullBitmapBytes", verifC08Validity(c.null))
	verifSetField(x, "numericArray.values", []uint32{uint32(c.u64)})
	return x
}
func verifC08Uint32Release(b *array.Uint32Builder) {}

func verifC08NewUint16Builder(mem memory.Allocator) *array.Uint16Builder {
	b := new(array.Uint16Builder)
	verifC08Builds = append(verifC08Builds, &verifC08Build{obj: b})
	return b
}
func verifC08Uint16Append(b *array.Uint16Builder, v uint16) {
	c := verifC08BuildOf(b)
	c.u64, c.count = uint64(v), c.count+1
}
func verifC08Uint16AppendNull(b *array.Uint16Builder) {
	c := verifC08BuildOf(b)
	c.null, c.count = true, c.count+1
}
func verifC08Uint16NewArray(b *array.Uint16Builder) arrow.Array {
	c := verifC08BuildOf(b)
	x := new(array.Uint16)
	verifSetField(x, "numericArray.array.data", verifC08Data(c.count))
	verifSetField(x, "numericArray.array.nullBitmapBytes", verifC08Validity(c.null))
	verifSetField(x, "numericArray.values", []uint16{uint16(c.u64)})
	return x
}
func verifC08Uint16Release(b *array.Uint16Builder) {}

func verifC08NewUint8Builder(mem memory.Allocator) *array.Uint8Builder {
	b := new(array.Uint8Builder)
	verifC08Builds = append(verifC08Builds, &verifC08Build{obj: b})
	return b
}
func verifC08Uint8Append(b *array.Uint8Builder, v uint8) {
	c := verifC08BuildOf(b)
	c.u64, c.count = uint64(v), c.count+1
}
func verifC08Uint8AppendNull(b *array.Uint8Builder) {
	c := verifC08BuildOf(b)
	c.null, c.count = true, c.count+1
}
func verifC08Uint8NewArray(b *array.Uint8Builder) arrow.Array {
	c := verifC08BuildOf(b)
	x := new(array.Uint8)
	verifSetField(x, "oneByteArrs.numericArray.array.data", verifC08Data(c.count))
	verifSetField(x, "oneByteArrs.numericArray.array.nullBitmapBytes", verifC08Validity(c.null))
	verifSetField(x, "oneByteArrs.numericArray.values", []uint8{uint8(c.u64)})
	return x
}
func verifC08Uint8Release(b *array.Uint8Builder) {}

func verifC08NewFloat64Builder(mem memory.Allocator) *array.Float64Builder {
	b := new(array.Float64Builder)
	verifC08Builds = append(verifC08Builds, &verifC08Build{obj: b})
	return b
}
func verifC08Float64Append(b *array.Float64Builder, v float64) {
	c := verifC08BuildOf(b)
	c.f64, c.count = float64(v), c.count+1
}
func verifC08Float64AppendNull(b *array.Float64Builder) {
	c := verifC08BuildOf(b)
	c.null, c.count = true, c.count+1
}
func verifC08Float64NewArray(b *array.Float64Builder) arrow.Array {
	c := verifC08BuildOf(b)
	x := new(array.Float64)
	verifSetField(x, "floatArray.numericArray.array.data", verifC08Data(c.count))
	verifSetField(x, "floatArray.numericArray.array.nullBitmapBytes", verifC08Validity(c.null))
	verifSetField(x, "floatArray.numericArray.values", []float64{float64(c.f64)})
	return x
}
func verifC08Float64Release(b *array.Float64Builder) {}

func verifC08NewBooleanBuilder(mem memory.Allocator) *array.BooleanBuilder {
	b := new(array.BooleanBuilder)
	verifC08Builds = append(verifC08Builds, &verifC08Build{obj: b})
	return b
}
func verifC08BooleanAppend(b *array.BooleanBuilder, v bool) {
	c := verifC08BuildOf(b)
	c.b, c.count = v, c.count+1
}
func verifC08BooleanAppendNull(b *array.BooleanBuilder) {
	c := verifC08BuildOf(b)
	c.null, c.count = true, c.count+1
}
func verifC08BooleanNewArray(b *array.BooleanBuilder) arrow.Array {
	c := verifC08BuildOf(b)
	x := new(array.Boolean)
	verifSetField(x, "array.data", verifC08Data(c.count))
	verifSetField(x, "array.nullBitmapBytes", verifC08Validity(c.null))
	bits := []byte{0}
	if c.b {
		bits[0] = 1
	}
	verifSetField(x, "values", bits)
	return x
}
func verifC08BooleanRelease(b *array.BooleanBuilder) {}

// StringBuilder embeds *BinaryBuilder: the string builder's own methods are stubbed by name
func verifC08NewStringBuilder(mem memory.Allocator) *array.StringBuilder {
	b := new(array.StringBuilder)
	verifC08Builds = append(verifC08Builds, &verifC08Build{obj: b})
	return b
}
func verifC08StringAppend(b *array.StringBuilder, v string) {
	c := verifC08BuildOf(b)
	c.str, c.count = v, c.count+1
}
func verifC08StringNewArray(b *array.StringBuilder) arrow.Array {
	c := verifC08BuildOf(b)
	x := new(array.String)
	verifSetField(x, "array.data", verifC08Data(c.count))
	verifSetField(x, "array.nullBitmapBytes", verifC08Validity(c.null))
	verifSetField(x, "offsets", []int32{0, int32(len(c.str))})
	verifSetField(x, "values", c.str)
	return x
}

var verifC08CurrentBinary *verifC08Build // BinaryBuilder is also what StringBuilder.Release reaches through its embedded pointer

func verifC08NewBinaryBuilder(mem memory.Allocator, dt arrow.BinaryDataType) *array.BinaryBuilder {
	b := new(array.BinaryBuilder)
	verifC08Builds = append(verifC08Builds, &verifC08Build{obj: b})
	return b
}
func verifC08BinaryAppend(b *array.BinaryBuilder, v []byte) {
	c := verifC08BuildOf(b)
	c.bin, c.count = append([]byte(nil), v...), c.count+1
}
func verifC08BinaryNewArray(b *array.BinaryBuilder) arrow.Array {
	c := verifC08BuildOf(b)
	x := new(array.Binary)
	verifSetField(x, "array.data", verifC08Data(c.count))
	verifSetField(x, "array.nullBitmapBytes", verifC08Validity(c.null))
	verifSetField(x, "valueOffsets", []int32{0, int32(len(c.bin))})
	verifSetField(x, "valueBytes", c.bin)
	return x
}
func verifC08BinaryRelease(b *array.BinaryBuilder) {}

// buildNullArray: one null of the given type
func verifC08BuildNull(mem memory.Allocator, dt arrow.DataType) arrow.Array {
	switch dt.ID() {
	case arrow.STRING:
		x := new(array.String)
		verifSetField(x, "array.data", verifC08Data(1))
		verifSetField(x, "array.nullBitmapBytes", []byte{0})
		verifSetField(x, "offsets", []int32{0, 0})
		return x
	case arrow.BOOL:
		x := new(array.Boolean)
		verifSetField(x, "array.data", verifC08Data(1))
		verifSetField(x, "array.nullBitmapBytes", []byte{0})
		verifSetField(x, "values", []byte{0})
		return x
	default:
		x := new(array.Int64)
		verifSetField(x, "numericArray.array.data", verifC08Data(1))
		verifSetField(x, "numericArray.array.nullBitmapBytes", []byte{0})
		verifSetField(x, "numericArray.values", []int64{0})
		return x
	}
}

// verifC08RoundTrip: encode with the serializer's buildArray under the type the
// schema derivation gives the field, decode with setFieldFromArrow into a fresh field.
func verifC08RoundTrip(v interface{}, tag tagInfo) (reflect.Value, bool) {
	verifC08Builds = nil
	t := reflect.TypeOf(v)
	dt, _, err := goTypeToArrowType(t, tag)
	verifAssert(err == nil, "the field type has an Arrow type")
	if err != nil {
		return reflect.Value{}, false
	}
	arr, err := buildArray(nil, dt, v)
	verifAssert(err == nil && arr != nil && arr.Len() == 1, "the value serialises to a one-element array")
	if err != nil || arr == nil {
		return reflect.Value{}, false
	}
	field := reflect.New(t).Elem()
	if arr.IsNull(0) {
		return field, true // a null leaves the zero value (nil for pointers)
	}
	derr := setFieldFromArrow(field, t, arr, 0, tag)
	verifAssert(derr == nil, "the array decodes")
	return field, derr == nil
}

// Serialise then decode gives back the same value, for every value of every
// scalar field type.
//
//verif:stub github.com/apache/arrow-go/v18/arrow/array.NewInt64Builder = verifC08NewInt64Builder
//verif:stub (*github.com/apache/arrow-go/v18/arrow/array.Int64Builder).Append = verifC08Int64Append
//verif:stub (*github.com/apache/arrow-go/v18/arrow/array.Int64Builder).AppendNull = verifC08Int64AppendNull
//verif:stub (*github.com/apache/arrow-go/v18/arrow/array.Int64Builder).NewArray = verifC08Int64NewArray
//verif:stub (*github.com/apache/arrow-go/v18/arrow/array.Int64Builder).Release = verifC08Int64Release
//verif:stub github.com/apache/arrow-go/v18/arrow/array.NewInt32Builder = verifC08NewInt32Builder
//verif:stub (*github.com/apache/arrow-go/v18/arrow/array.Int32Builder).Append = verifC08Int32Append
//verif:stub (*github.com/apache/arrow-go/v18/arrow/array.Int32Builder).AppendNull = verifC08Int32AppendNull
//verif:stub (*github.com/apache/arrow-go/v18/arrow/array.Int32Builder).NewArray = verifC08Int32NewArray
//verif:stub (*github.com/apache/arrow-go/v18/arrow/array.Int32Builder).Release = verifC08Int32Release
//verif:stub github.com/apache/arrow-go/v18/arrow/array.NewInt16Builder = verifC08NewInt16Builder
//verif:stub (*github.com/apache/arrow-go/v18/arrow/array.Int16Builder).Append = verifC08Int16Append
//verif:stub (*github.com/apache/arrow-go/v18/arrow/array.Int16Builder).AppendNull = verifC08Int16AppendNull
//verif:stub (*github.com/apache/arrow-go/v18/arrow/array.Int16Builder).NewArray = verifC08Int16NewArray
//verif:stub (*github.com/apache/arrow-go/v18/arrow/array.Int16Builder).Release = verifC08Int16Release
//verif:stub github.com/apache/arrow-go/v18/arrow/array.NewInt8Builder = verifC08NewInt8Builder
//verif:stub (*github.com/apache/arrow-go/v18/arrow/array.Int8Builder).Append = verifC08Int8Append
//verif:stub (*github.com/apache/arrow-go/v18/arrow/array.Int8Builder).AppendNull = verifC08Int8AppendNull
//verif:stub (*github.com/apache/arrow-go/v18/arrow/array.Int8Builder).NewArray = verifC08Int8NewArray
//verif:stub (*github.com/apache/arrow-go/v18/arrow/array.Int8Builder).Release = verifC08Int8Release
//verif:stub github.com/apache/arrow-go/v18/arrow/array.NewUint64Builder = verifC08NewUint64Builder
//verif:stub (*github.com/apache/arrow-go/v18/arrow/array.Uint64Builder).Append = verifC08Uint64Append
//verif:stub (*github.com/apache/arrow-go/v18/arrow/array.Uint64Builder).AppendNull = verifC08Uint64AppendNull
//verif:stub (*github.com/apache/arrow-go/v18/arrow/array.Uint64Builder).NewArray = verifC08Uint64NewArray
//verif:stub (*github.com/apache/arrow-go/v18/arrow/array.Uint64Builder).Release = verifC08Uint64Release
//verif:stub github.com/apache/arrow-go/v18/arrow/array.NewUint32Builder = verifC08NewUint32Builder
//verif:stub (*github.com/apache/arrow-go/v18/arrow/array.Uint32Builder).Append = verifC08Uint32Append
//verif:stub (*github.com/apache/arrow-go/v18/arrow/array.Uint32Builder).AppendNull = verifC08Uint32AppendNull
//verif:stub (*github.com/apache/arrow-go/v18/arrow/array.Uint32Builder).NewArray = verifC08Uint32NewArray
//verif:stub (*github.com/apache/arrow-go/v18/arrow/array.Uint32Builder).Release = verifC08Uint32Release
//verif:stub github.com/apache/arrow-go/v18/arrow/array.NewUint16Builder = verifC08NewUint16Builder
//verif:stub (*github.com/apache/arrow-go/v18/arrow/array.Uint16Builder).Append = verifC08Uint16Append
//verif:stub (*github.com/apache/arrow-go/v18/arrow/array.Uint16Builder).AppendNull = verifC08Uint16AppendNull
//verif:stub (*github.com/apache/arrow-go/v18/arrow/array.Uint16Builder).NewArray = verifC08Uint16NewArray
//verif:stub (*github.com/apache/arrow-go/v18/arrow/array.Uint16Builder).Release = verifC08Uint16Release
//verif:stub github.com/apache/arrow-go/v18/arrow/array.NewUint8Builder = verifC08NewUint8Builder
//verif:stub (*github.com/apache/arrow-go/v18/arrow/array.Uint8Builder).Append = verifC08Uint8Append
//verif:stub (*github.com/apache/arrow-go/v18/arrow/array.Uint8Builder).AppendNull = verifC08Uint8AppendNull
//verif:stub (*github.com/apache/arrow-go/v18/arrow/array.Uint8Builder).NewArray = verifC08Uint8NewArray
//verif:stub (*github.com/apache/arrow-go/v18/arrow/array.Uint8Builder).Release = verifC08Uint8Release
//verif:stub github.com/apache/arrow-go/v18/arrow/array.NewFloat64Builder = verifC08NewFloat64Builder
//verif:stub (*github.com/apache/arrow-go/v18/arrow/array.Float64Builder).Append = verifC08Float64Append
//verif:stub (*github.com/apache/arrow-go/v18/arrow/array.Float64Builder).AppendNull = verifC08Float64AppendNull
//verif:stub (*github.com/apache/arrow-go/v18/arrow/array.Float64Builder).NewArray = verifC08Float64NewArray
//verif:stub (*github.com/apache/arrow-go/v18/arrow/array.Float64Builder).Release = verifC08Float64Release
//verif:stub github.com/apache/arrow-go/v18/arrow/array.NewBooleanBuilder = verifC08NewBooleanBuilder
//verif:stub (*github.com/apache/arrow-go/v18/arrow/array.BooleanBuilder).Append = verifC08BooleanAppend
//verif:stub (*github.com/apache/arrow-go/v18/arrow/array.BooleanBuilder).AppendNull = verifC08BooleanAppendNull
//verif:stub (*github.com/apache/arrow-go/v18/arrow/array.BooleanBuilder).NewArray = verifC08BooleanNewArray
//verif:stub (*github.com/apache/arrow-go/v18/arrow/array.BooleanBuilder).Release = verifC08BooleanRelease
//verif:stub github.com/apache/arrow-go/v18/arrow/array.NewStringBuilder = verifC08NewStringBuilder
//verif:stub (*github.com/apache/arrow-go/v18/arrow/array.StringBuilder).Append = verifC08StringAppend
//verif:stub (*github.com/apache/arrow-go/v18/arrow/array.StringBuilder).NewArray = verifC08StringNewArray
//verif:stub github.com/apache/arrow-go/v18/arrow/array.NewBinaryBuilder = verifC08NewBinaryBuilder
//verif:stub (*github.com/apache/arrow-go/v18/arrow/array.BinaryBuilder).Append = verifC08BinaryAppend
//verif:stub (*github.com/apache/arrow-go/v18/arrow/array.BinaryBuilder).NewArray = verifC08BinaryNewArray
//verif:stub (*github.com/apache/arrow-go/v18/arrow/array.BinaryBuilder).Release = verifC08BinaryRelease
//verif:stub github.com/Query-farm/vgi-rpc-go/vgirpc.buildNullArray = verifC08BuildNull
//verif:ints lia
//verif:bound one value of each of int64, int32, int16, int8, int, uint64, uint32, uint16, uint8, uint (ANY value of the type), string and []byte (ANY 0..2 bytes), bool, float64 in {0, -1.5, 1e300}, *int64 / *string / *bool (nil or pointing at ANY value), and int64 / int fields carried as int32 by tag (ANY value in the int32 range): encoded by buildArray under the Arrow type that goTypeToArrowType derives, decoded by setFieldFromArrow. Builders are recorders whose NewArray makes real array objects; the accessors on the decode side are arrow-go's own; reflect is the engine's model
func verifH_C08_scalar_roundtrip() {
	switch verifChoice("type", 18) {
	case 0:
		v := verifNondetInt64("v")
		f, ok := verifC08RoundTrip(v, tagInfo{})
		verifAssert(!ok || f.Interface().(int64) == v, "int64 round-trips")
	case 1:
		v := verifNondetInt32("v")
		f, ok := verifC08RoundTrip(v, tagInfo{})
		verifAssert(!ok || f.Interface().(int32) == v, "int32 round-trips")
	case 2:
		v := int16(verifNondetInt64("v"))
		f, ok := verifC08RoundTrip(v, tagInfo{})
		verifAssert(!ok || f.Interface().(int16) == v, "int16 round-trips")
	case 3:
		v := int8(verifNondetInt64("v"))
		f, ok := verifC08RoundTrip(v, tagInfo{})
		verifAssert(!ok || f.Interface().(int8) == v, "int8 round-trips")
	case 4:
		v := verifNondetInt("v")
		f, ok := verifC08RoundTrip(v, tagInfo{})
		verifAssert(!ok || f.Interface().(int) == v, "int round-trips")
	case 5:
		v := verifNondetUint64("v")
		f, ok := verifC08RoundTrip(v, tagInfo{})
		verifAssert(!ok || f.Interface().(uint64) == v, "uint64 round-trips over its whole range")
	case 6:
		v := verifNondetUint32("v")
		f, ok := verifC08RoundTrip(v, tagInfo{})
		verifAssert(!ok || f.Interface().(uint32) == v, "uint32 round-trips")
	case 7:
		v := verifNondetUint16("v")
		f, ok := verifC08RoundTrip(v, tagInfo{})
		verifAssert(!ok || f.Interface().(uint16) == v, "uint16 round-trips")
	case 8:
		v := verifNondetByte("v")
		f, ok := verifC08RoundTrip(v, tagInfo{})
		verifAssert(!ok || f.Interface().(uint8) == v, "uint8 round-trips")
	case 9:
		v := uint(verifNondetUint64("v"))
		f, ok := verifC08RoundTrip(v, tagInfo{})
		verifAssert(!ok || f.Interface().(uint) == v, "uint round-trips over its whole range")
	case 10:
		v := verifNondetString("v", verifChoice("len", 3))
		f, ok := verifC08RoundTrip(v, tagInfo{})
		verifAssert(!ok || f.Interface().(string) == v, "strings round-trip byte for byte")
	case 11:
		v := verifNondetBytes("v", verifChoice("len", 3))
		f, ok := verifC08RoundTrip(v, tagInfo{})
		verifAssert(!ok || string(f.Interface().([]byte)) == string(v), "binaries round-trip (nil and empty alike)")
	case 12:
		v := verifNondetBool("v")
		f, ok := verifC08RoundTrip(v, tagInfo{})
		verifAssert(!ok || f.Interface().(bool) == v, "bool round-trips")
	case 13:
		v := []float64{0, -1.5, 1e300}[verifChoice("f", 3)]
		f, ok := verifC08RoundTrip(v, tagInfo{})
		verifAssert(!ok || f.Interface().(float64) == v, "float64 round-trips")
	case 14:
		var v *int64
		if verifNondetBool("present") {
			x := verifNondetInt64("v")
			v = &x
		}
		f, ok := verifC08RoundTrip(v, tagInfo{})
		if ok {
			g := f.Interface().(*int64)
			verifAssert((g == nil) == (v == nil) && (v == nil || *g == *v), "an optional int64 round-trips: nil stays nil, a value stays that value")
		}
	case 15:
		var v *string
		if verifNondetBool("present") {
			x := verifNondetString("v", verifChoice("len", 3))
			v = &x
		}
		f, ok := verifC08RoundTrip(v, tagInfo{})
		if ok {
			g := f.Interface().(*string)
			verifAssert((g == nil) == (v == nil) && (v == nil || *g == *v), "an optional string round-trips (the empty string is not nil)")
		}
	case 16:
		var v *bool
		if verifNondetBool("present") {
			x := verifNondetBool("v")
			v = &x
		}
		f, ok := verifC08RoundTrip(v, tagInfo{})
		if ok {
			g := f.Interface().(*bool)
			verifAssert((g == nil) == (v == nil) && (v == nil || *g == *v), "an optional bool round-trips (false is not nil)")
		}
	case 17:
		v := int64(verifNondetInt32("v"))
		f, ok := verifC08RoundTrip(v, tagInfo{ArrowType: "int32"})
		verifAssert(!ok || f.Interface().(int64) == v, "an int64 field carried as int32 round-trips every value representable on the wire")
	}
	verifReach("round-tripped")
}
