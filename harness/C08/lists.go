package vgirpc

import (
	"reflect"

	"github.com/apache/arrow-go/v18/arrow"
	"github.com/apache/arrow-go/v18/arrow/array"
)

// Real arrow-go array objects with their own fields filled in (verifSetField):
// ValueOffsets, ListValues, IsNull (validity bitmap through bitutil) and Value run
// as written in arrow-go.

func verifC08Int64Array(vals []int64, validity byte) *array.Int64 {
	x := new(array.Int64)
	d := new(array.Data)
	verifSetField(d, "length", len(vals))
	verifSetField(x, "numericArray.array.data", d)
	verifSetField(x, "numericArray.array.nullBitmapBytes", []byte{validity})
	verifSetField(x, "numericArray.values", vals)
	return x
}

func verifC08ListArray(values arrow.Array, offsets []int32, validity byte) *array.List {
	l := new(array.List)
	d := new(array.Data)
	verifSetField(d, "length", len(offsets)-1)
	verifSetField(l, "array.data", d)
	verifSetField(l, "array.nullBitmapBytes", []byte{validity})
	verifSetField(l, "values", values)
	verifSetField(l, "offsets", offsets)
	return l
}

func verifC08Offsets(name string, rows, max int) []int32 {
	offs := []int32{int32(verifChoice(name+".first", 2))}
	for i := 0; i < rows; i++ {
		offs = append(offs, offs[len(offs)-1]+int32(verifChoice(name+".len", max+1)))
	}
	return offs
}

// A list column decodes, row by row, to exactly its own elements: the values at
// [start,end) of the child array, nil where the child is null.
//
//verif:ints lia
//verif:bound list<int64> arrays of 2 rows over a child of up to 5 int64 values (ANY values, ANY validity pattern over the first 5 slots), first offset 0 or 1 (a sliced array), row lengths 0..2, decoded into []*int64 and into []int64, either row; and list<list<int64>> of 2 outer rows over 3 inner rows over the same child, decoded into [][]*int64; arrow-go's List/Int64 accessors run as written on objects whose fields the harness fills in; reflect is the engine's model
func verifH_C08_list_decode() {
	vals := []int64{verifNondetInt64("v0"), verifNondetInt64("v1"), verifNondetInt64("v2"), verifNondetInt64("v3"), verifNondetInt64("v4")}
	validity := byte(verifChoice("validity", 32))
	child := verifC08Int64Array(vals, validity)
	isNull := func(i int) bool { return validity&(1<<uint(i)) == 0 }
	nested := verifNondetBool("nested")
	if !nested {
		offs := verifC08Offsets("list", 2, 2)
		list := verifC08ListArray(child, offs, 0xff)
		idx := verifChoice("row", 2)
		start, end := int(offs[idx]), int(offs[idx+1])
		if verifNondetBool("pointer_elements") {
			field := reflect.New(reflect.TypeOf([]*int64(nil))).Elem()
			err := setFieldFromArrow(field, field.Type(), list, idx, tagInfo{})
			verifReach("flat-pointers")
			verifAssert(err == nil, "a list<int64> row decodes")
			got := field.Interface().([]*int64)
			verifAssert(len(got) == end-start, "to as many elements as the row has")
			for j := 0; j < len(got) && j < end-start; j++ {
				if isNull(start + j) {
					verifAssert(got[j] == nil, "a null element is nil")
				} else {
					verifAssert(got[j] != nil && *got[j] == vals[start+j], "every element is the row's own element, in order")
				}
			}
		} else {
			field := reflect.New(reflect.TypeOf([]int64(nil))).Elem()
			err := setFieldFromArrow(field, field.Type(), list, idx, tagInfo{})
			verifReach("flat-values")
			verifAssert(err == nil, "a list<int64> row decodes")
			got := field.Interface().([]int64)
			verifAssert(len(got) == end-start, "to as many elements as the row has")
			for j := 0; j < len(got) && j < end-start; j++ {
				if isNull(start + j) {
					verifAssert(got[j] == 0, "a null element of a value-typed slice is zero")
				} else {
					verifAssert(got[j] == vals[start+j], "every element is the row's own element, in order")
				}
			}
		}
		return
	}
	// list<list<int64>>: 3 inner rows over the child, 2 outer rows over the inner rows
	innerOffs := []int32{0}
	for i := 0; i < 3; i++ {
		innerOffs = append(innerOffs, innerOffs[len(innerOffs)-1]+int32(verifChoice("inner.len", 3)))
	}
	verifAssume(int(innerOffs[3]) <= len(vals))
	inner := verifC08ListArray(child, innerOffs, 0xff)
	outerOffs := []int32{0, int32(1 + verifChoice("outer.split", 2)), 3}
	outer := verifC08ListArray(inner, outerOffs, 0xff)
	idx := verifChoice("row", 2)
	field := reflect.New(reflect.TypeOf([][]*int64(nil))).Elem()
	err := setFieldFromArrow(field, field.Type(), outer, idx, tagInfo{})
	verifReach("nested")
	verifAssert(err == nil, "a list<list<int64>> row decodes")
	got := field.Interface().([][]*int64)
	os, oe := int(outerOffs[idx]), int(outerOffs[idx+1])
	verifAssert(len(got) == oe-os, "to as many inner lists as the row has")
	for a := 0; a < len(got) && a < oe-os; a++ {
		is, ie := int(innerOffs[os+a]), int(innerOffs[os+a+1])
		verifAssert(len(got[a]) == ie-is, "each inner list has its own length")
		for j := 0; j < len(got[a]) && j < ie-is; j++ {
			if isNull(is + j) {
				verifAssert(got[a][j] == nil, "a null element of an inner list is nil (the validity of ITS slot, not of another list's)")
			} else {
				verifAssert(got[a][j] != nil && *got[a][j] == vals[is+j], "every element of every inner list is its own element")
			}
		}
	}
}
