package vgirpc

import (
	"reflect"
	"time"

	"github.com/apache/arrow-go/v18/arrow"
	"github.com/apache/arrow-go/v18/arrow/array"
	"github.com/apache/arrow-go/v18/arrow/memory"
)

// Ghost builders for the temporal types, as in roundtrip.go: recorders whose
// NewArray makes an object of the real array type (with its Arrow data type, so
// that the decoder's c.DataType() works) carrying the appended value.

type verifC08TBuild struct {
	obj   interface{}
	v     int64
	null  bool
	count int
	dtype arrow.DataType
}

var verifC08TBuilds []*verifC08TBuild

func verifC08TOf(obj interface{}) *verifC08TBuild {
	for _, x := range verifC08TBuilds {
		if x.obj == obj {
			return x
		}
	}
	panic("verifC08: unknown temporal builder")
}

func verifC08TData(n int, dt arrow.DataType) *array.Data {
	d := new(array.Data)
	verifSetField(d, "length", n)
	if dt != nil {
		verifSetField(d, "dtype", dt)
	}
	return d
}

func verifC08NewDate32Builder(mem memory.Allocator) *array.Date32Builder {
	b := new(array.Date32Builder)
	verifC08TBuilds = append(verifC08TBuilds, &verifC08TBuild{obj: b, dtype: arrow.FixedWidthTypes.Date32})
	return b
}
func verifC08Date32Append(b *array.Date32Builder, v arrow.Date32) {
	c := verifC08TOf(b)
	c.v, c.count = int64(v), c.count+1
}
func verifC08Date32Release(b *array.Date32Builder) {}
func verifC08Date32NewArray(b *array.Date32Builder) arrow.Array {
	c := verifC08TOf(b)
	x := new(array.Date32)
	verifSetField(x, "dateArray.numericArray.array.data", verifC08TData(c.count, c.dtype))
	verifSetField(x, "dateArray.numericArray.array.nullBitmapBytes", []byte{1})
	verifSetField(x, "dateArray.numericArray.values", []arrow.Date32{arrow.Date32(c.v)})
	return x
}

func verifC08NewTime64Builder(mem memory.Allocator, dtype *arrow.Time64Type) *array.Time64Builder {
	b := new(array.Time64Builder)
	verifC08TBuilds = append(verifC08TBuilds, &verifC08TBuild{obj: b, dtype: dtype})
	return b
}
func verifC08Time64Append(b *array.Time64Builder, v arrow.Time64) {
	c := verifC08TOf(b)
	c.v, c.count = int64(v), c.count+1
}
func verifC08Time64Release(b *array.Time64Builder) {}
func verifC08Time64NewArray(b *array.Time64Builder) arrow.Array {
	c := verifC08TOf(b)
	x := new(array.Time64)
	verifSetField(x, "timeArray.numericArray.array.data", verifC08TData(c.count, c.dtype))
	verifSetField(x, "timeArray.numericArray.array.nullBitmapBytes", []byte{1})
	verifSetField(x, "timeArray.numericArray.values", []arrow.Time64{arrow.Time64(c.v)})
	return x
}

func verifC08NewDurationBuilder(mem memory.Allocator, dtype *arrow.DurationType) *array.DurationBuilder {
	b := new(array.DurationBuilder)
	verifC08TBuilds = append(verifC08TBuilds, &verifC08TBuild{obj: b, dtype: dtype})
	return b
}
func verifC08DurationAppend(b *array.DurationBuilder, v arrow.Duration) {
	c := verifC08TOf(b)
	c.v, c.count = int64(v), c.count+1
}
func verifC08DurationRelease(b *array.DurationBuilder) {}
func verifC08DurationNewArray(b *array.DurationBuilder) arrow.Array {
	c := verifC08TOf(b)
	x := new(array.Duration)
	verifSetField(x, "numericArray.array.data", verifC08TData(c.count, c.dtype))
	verifSetField(x, "numericArray.array.nullBitmapBytes", []byte{1})
	verifSetField(x, "numericArray.values", []arrow.Duration{arrow.Duration(c.v)})
	return x
}

func verifC08NewTimestampBuilder(mem memory.Allocator, dtype *arrow.TimestampType) *array.TimestampBuilder {
	b := new(array.TimestampBuilder)
	verifC08TBuilds = append(verifC08TBuilds, &verifC08TBuild{obj: b, dtype: dtype})
	return b
}
func verifC08TimestampAppend(b *array.TimestampBuilder, v arrow.Timestamp) {
	c := verifC08TOf(b)
	c.v, c.count = int64(v), c.count+1
}
func verifC08TimestampRelease(b *array.TimestampBuilder) {}
func verifC08TimestampNewArray(b *array.TimestampBuilder) arrow.Array {
	c := verifC08TOf(b)
	x := new(array.Timestamp)
	verifSetField(x, "array.data", verifC08TData(c.count, c.dtype))
	verifSetField(x, "array.nullBitmapBytes", []byte{1})
	verifSetField(x, "values", []arrow.Timestamp{arrow.Timestamp(c.v)})
	return x
}

func verifC08TimeRoundTrip(v interface{}, tag string) (reflect.Value, bool) {
	verifC08TBuilds = nil
	t := reflect.TypeOf(v)
	info := tagInfo{ArrowType: tag}
	dt, _, err := goTypeToArrowType(t, info)
	verifAssert(err == nil, "the field type has an Arrow type")
	if err != nil {
		return reflect.Value{}, false
	}
	arr, err := buildArray(nil, dt, v)
	verifAssert(err == nil && arr != nil && arr.Len() == 1, "the value serialises to a one-element array")
	if err != nil || arr == nil {
		return reflect.Value{}, false
	}
	field := reflect.New(t).Elem()
	derr := setFieldFromArrow(field, t, arr, 0, info)
	verifAssert(derr == nil, "the array decodes")
	return field, derr == nil
}

// Temporal values survive serialise-then-decode up to the documented precision.
//
//verif:stub github.com/apache/arrow-go/v18/arrow/array.NewDate32Builder = verifC08NewDate32Builder
//verif:stub (*github.com/apache/arrow-go/v18/arrow/array.Date32Builder).Append = verifC08Date32Append
//verif:stub (*github.com/apache/arrow-go/v18/arrow/array.Date32Builder).NewArray = verifC08Date32NewArray
//verif:stub (*github.com/apache/arrow-go/v18/arrow/array.Date32Builder).Release = verifC08Date32Release
//verif:stub github.com/apache/arrow-go/v18/arrow/array.NewTime64Builder = verifC08NewTime64Builder
//verif:stub (*github.com/apache/arrow-go/v18/arrow/array.Time64Builder).Append = verifC08Time64Append
//verif:stub (*github.com/apache/arrow-go/v18/arrow/array.Time64Builder).NewArray = verifC08Time64NewArray
//verif:stub (*github.com/apache/arrow-go/v18/arrow/array.Time64Builder).Release = verifC08Time64Release
//verif:stub github.com/apache/arrow-go/v18/arrow/array.NewDurationBuilder = verifC08NewDurationBuilder
//verif:stub (*github.com/apache/arrow-go/v18/arrow/array.DurationBuilder).Append = verifC08DurationAppend
//verif:stub (*github.com/apache/arrow-go/v18/arrow/array.DurationBuilder).NewArray = verifC08DurationNewArray
//verif:stub (*github.com/apache/arrow-go/v18/arrow/array.DurationBuilder).Release = verifC08DurationRelease
//verif:stub github.com/apache/arrow-go/v18/arrow/array.NewTimestampBuilder = verifC08NewTimestampBuilder
//verif:stub (*github.com/apache/arrow-go/v18/arrow/array.TimestampBuilder).Append = verifC08TimestampAppend
//verif:stub (*github.com/apache/arrow-go/v18/arrow/array.TimestampBuilder).NewArray = verifC08TimestampNewArray
//verif:stub (*github.com/apache/arrow-go/v18/arrow/array.TimestampBuilder).Release = verifC08TimestampRelease
//verif:ints lia
//verif:bound one time.Time (seconds within +-2^60 microseconds of the epoch, ANY nanosecond part) carried as timestamp, timestamp_utc, date or time by tag, and one time.Duration (ANY value whose microsecond count fits) carried as duration: encoded by the real buildArray under the derived Arrow type, decoded by the real setFieldFromArrow; precision: the microsecond instant, the UTC calendar day, the time of day to the microsecond, the duration to the microsecond
func verifH_C08_temporal_roundtrip() {
	s := verifNondetInt64("sec")
	n := verifNondetInt64("nsec")
	verifAssume(s >= -1152921504606 && s <= 1152921504606 && n >= 0 && n < 1000000000)
	g := time.Unix(s, n).UTC()
	switch verifChoice("kind", 5) {
	case 0, 1:
		tag := []string{"timestamp", "timestamp_utc"}[verifChoice("tz", 2)]
		f, ok := verifC08TimeRoundTrip(g, tag)
		if ok {
			back := f.Interface().(time.Time)
			verifAssert(back.UnixMicro() == g.UnixMicro(), "a timestamp keeps its instant to the microsecond")
		}
	case 2:
		f, ok := verifC08TimeRoundTrip(g, "date")
		if ok {
			back := f.Interface().(time.Time)
			verifAssert(back.Hour() == 0 && back.Minute() == 0 && back.Second() == 0 && back.Nanosecond() == 0, "a date decodes to midnight UTC")
			verifAssert(!back.After(g) && g.Sub(back) < 24*time.Hour, "and it is the UTC calendar day the instant lies in")
		}
	case 3:
		f, ok := verifC08TimeRoundTrip(g, "time")
		if ok {
			back := f.Interface().(time.Time)
			verifAssert(back.Hour() == g.Hour() && back.Minute() == g.Minute() && back.Second() == g.Second() && back.Nanosecond() == (g.Nanosecond()/1000)*1000, "a time keeps its time of day to the microsecond")
		}
	case 4:
		d := time.Duration(verifNondetInt64("duration"))
		f, ok := verifC08TimeRoundTrip(d, "duration")
		if ok {
			back := f.Interface().(time.Duration)
			verifAssert(back == d-d%time.Microsecond, "a duration is kept to the microsecond (truncated toward zero)")
		}
	}
	verifReach("temporal-round-tripped")
}

// Temporal values inside lists, structs and maps go through appendToBuilder, a
// second encoder: it must put the same wire value into the builder as the
// top-level encoder buildArray does (whose round trip is decided above).
//
//verif:stub github.com/apache/arrow-go/v18/arrow/array.NewDate32Builder = verifC08NewDate32Builder
//verif:stub (*github.com/apache/arrow-go/v18/arrow/array.Date32Builder).Append = verifC08Date32Append
//verif:stub (*github.com/apache/arrow-go/v18/arrow/array.Date32Builder).NewArray = verifC08Date32NewArray
//verif:stub (*github.com/apache/arrow-go/v18/arrow/array.Date32Builder).Release = verifC08Date32Release
//verif:stub github.com/apache/arrow-go/v18/arrow/array.NewTime64Builder = verifC08NewTime64Builder
//verif:stub (*github.com/apache/arrow-go/v18/arrow/array.Time64Builder).Append = verifC08Time64Append
//verif:stub (*github.com/apache/arrow-go/v18/arrow/array.Time64Builder).NewArray = verifC08Time64NewArray
//verif:stub (*github.com/apache/arrow-go/v18/arrow/array.Time64Builder).Release = verifC08Time64Release
//verif:stub github.com/apache/arrow-go/v18/arrow/array.NewDurationBuilder = verifC08NewDurationBuilder
//verif:stub (*github.com/apache/arrow-go/v18/arrow/array.DurationBuilder).Append = verifC08DurationAppend
//verif:stub (*github.com/apache/arrow-go/v18/arrow/array.DurationBuilder).NewArray = verifC08DurationNewArray
//verif:stub (*github.com/apache/arrow-go/v18/arrow/array.DurationBuilder).Release = verifC08DurationRelease
//verif:stub github.com/apache/arrow-go/v18/arrow/array.NewTimestampBuilder = verifC08NewTimestampBuilder
//verif:stub (*github.com/apache/arrow-go/v18/arrow/array.TimestampBuilder).Append = verifC08TimestampAppend
//verif:stub (*github.com/apache/arrow-go/v18/arrow/array.TimestampBuilder).NewArray = verifC08TimestampNewArray
//verif:stub (*github.com/apache/arrow-go/v18/arrow/array.TimestampBuilder).Release = verifC08TimestampRelease
//verif:ints lia
//verif:bound one time.Time (seconds within +-2^60 microseconds of the epoch — about +-36 500 years, far past what a nanosecond Duration can span — ANY nanosecond part), given as a value or through a pointer, appended as timestamp / date / time, and one time.Duration (ANY value) appended as duration, through the real appendToBuilder into a recording builder; compared with what the real buildArray records for the same value
func verifH_C08_nested_temporal_encode() {
	s := verifNondetInt64("sec")
	n := verifNondetInt64("nsec")
	verifAssume(s >= -1152921504606 && s <= 1152921504606 && n >= 0 && n < 1000000000)
	g := time.Unix(s, n).UTC()
	var dt arrow.DataType
	var b array.Builder
	var val interface{} = g
	kind := verifChoice("kind", 4)
	switch kind {
	case 0:
		ts := &arrow.TimestampType{Unit: arrow.Microsecond}
		if verifNondetBool("utc") {
			ts.TimeZone = "UTC"
		}
		dt, b = ts, array.NewTimestampBuilder(nil, ts)
	case 1:
		dt, b = arrow.FixedWidthTypes.Date32, array.NewDate32Builder(nil)
	case 2:
		t64 := &arrow.Time64Type{Unit: arrow.Microsecond}
		dt, b = t64, array.NewTime64Builder(nil, t64)
	default:
		du := &arrow.DurationType{Unit: arrow.Microsecond}
		dt, b = du, array.NewDurationBuilder(nil, du)
		val = time.Duration(verifNondetInt64("duration"))
	}
	if kind != 3 && verifNondetBool("through_pointer") {
		val = &g
	}
	nested := verifC08TOf(b)
	err := appendToBuilder(b, dt, val)
	verifReach("appended")
	verifAssert(err == nil && nested.count == 1 && !nested.null, "a temporal element is appended")
	verifC08TBuilds = nil
	arr, err2 := buildArray(nil, dt, val)
	verifAssert(err2 == nil && arr != nil && len(verifC08TBuilds) == 1, "the same value serialises at top level")
	if err == nil && err2 == nil && len(verifC08TBuilds) == 1 {
		verifAssert(nested.v == verifC08TBuilds[0].v, "an element inside a list, struct or map is written with the same wire value as a top-level column")
		if kind == 0 {
			verifAssert(nested.v == g.UnixMicro(), "a nested timestamp is its instant in microseconds, however far from the epoch")
		}
	}
}
