package vgirpc

import (
	"time"

	"github.com/apache/arrow-go/v18/arrow"
)

//verif:ints lia
//verif:unwind 32
//verif:maxconcretize 16
//verif:maxdecisions 4000

// Timestamps (microseconds): wire -> Go -> wire is the identity over the whole
// int64 microsecond range, and Go -> wire -> Go keeps the instant to the microsecond.
//
//verif:bound ANY int64 wire value for timestamp[us] (the encode expression is the one buildArray/appendToBuilder use: t.UTC().UnixMicro()); Go instants with seconds in [-2^60/10^6, 2^60/10^6] and any nanosecond part for the other direction
func verifH_C08_timestamp_micros() {
	v := verifNondetInt64("wire_us")
	t := timestampToTime(v, &arrow.TimestampType{Unit: arrow.Microsecond, TimeZone: "UTC"})
	back := t.UTC().UnixMicro()
	verifReach("ts-roundtrip")
	verifAssert(back == v, "timestamp[us]: decode then encode returns the wire value, for every int64 microsecond count")
	// the other direction
	s := verifNondetInt64("go.sec")
	n := verifNondetInt64("go.nsec")
	verifAssume(s >= -1152921504606 && s <= 1152921504606 && n >= 0 && n < 1000000000)
	g := time.Unix(s, n)
	w := g.UTC().UnixMicro()
	g2 := timestampToTime(w, &arrow.TimestampType{Unit: arrow.Microsecond, TimeZone: "UTC"})
	verifAssert(g2.Unix() == s && int64(g2.Nanosecond()) == (n/1000)*1000, "timestamp[us]: encode then decode keeps the instant truncated to the microsecond")
}

// Timestamps in the other units decode to the instant they denote.
//
//verif:bound ANY wire value whose instant time.Time can hold (|seconds| <= 2^50) for units s, ms, ns
func verifH_C08_timestamp_units() {
	v := verifNondetInt64("wire")
	switch verifChoice("unit", 3) {
	case 0:
		verifAssume(v >= -(1<<50) && v <= 1<<50)
		t := timestampToTime(v, &arrow.TimestampType{Unit: arrow.Second})
		verifReach("unit-s")
		verifAssert(t.Unix() == v && t.Nanosecond() == 0, "timestamp[s] decodes to that second")
	case 1:
		verifAssume(v >= -(1<<60) && v <= 1<<60)
		t := timestampToTime(v, &arrow.TimestampType{Unit: arrow.Millisecond})
		verifReach("unit-ms")
		verifAssert(t.UnixMilli() == v, "timestamp[ms] decodes to that millisecond")
	default:
		t := timestampToTime(v, &arrow.TimestampType{Unit: arrow.Nanosecond})
		verifReach("unit-ns")
		verifAssert(t.UnixNano() == v, "timestamp[ns] decodes to that nanosecond")
	}
}

// Dates: wire -> Go -> wire is the identity over the whole int32 day range, and
// any instant encodes to its UTC calendar day (floor, also before 1970).
//
//verif:bound ANY int32 day count; Go instants with seconds in [-2^45, 2^45] and any nanosecond part
func verifH_C08_date32() {
	d := verifNondetInt32("wire_days")
	t := time.Date(1970, 1, 1, 0, 0, 0, 0, time.UTC).AddDate(0, 0, int(d)) // the Date32 arm of setFieldFromArrow
	back := daysSinceEpoch(t)
	verifReach("date-roundtrip")
	verifAssert(back == d, "date32: decode then encode returns the wire value, for every int32 day count")
	s := verifNondetInt64("go.sec")
	n := verifNondetInt64("go.nsec")
	verifAssume(s >= -(1<<45) && s <= 1<<45 && n >= 0 && n < 1000000000)
	day := s / 86400
	if s%86400 < 0 {
		day--
	}
	got := daysSinceEpoch(time.Unix(s, n))
	verifAssert(int64(got) == day, "date32: an instant encodes to its UTC calendar day (floor division, also before 1970)")
}

// Times of day: wire -> Go -> wire is the identity, and any instant encodes to its time of day.
//
//verif:bound every microsecond of the day for the wire value; Go instants with seconds in [-2^45, 2^45] and any nanosecond part
func verifH_C08_time64() {
	us := verifNondetInt64("wire_us")
	verifAssume(us >= 0 && us < 86400000000)
	t := time.Date(1970, 1, 1, 0, 0, 0, 0, time.UTC).Add(time.Duration(us) * time.Microsecond) // the Time64 arm
	verifReach("time-roundtrip")
	verifAssert(microsSinceMidnight(t) == us, "time64[us]: decode then encode returns the wire value")
	s := verifNondetInt64("go.sec")
	n := verifNondetInt64("go.nsec")
	verifAssume(s >= -(1<<45) && s <= 1<<45 && n >= 0 && n < 1000000000)
	sod := s % 86400
	if sod < 0 {
		sod += 86400
	}
	verifAssert(microsSinceMidnight(time.Unix(s, n)) == sod*1000000+n/1000, "time64[us]: an instant encodes to its UTC time of day")
}

// Durations: within time.Duration's range the microsecond wire value round-trips.
//
//verif:bound wire values with |v| <= 2^63/1000 (what time.Duration, a nanosecond count, can hold); ANY time.Duration for the other direction
func verifH_C08_duration() {
	v := verifNondetInt64("wire_us")
	verifAssume(v >= -9223372036854775 && v <= 9223372036854775)
	d := time.Duration(v) * time.Microsecond // the Duration arm of setFieldFromArrow
	verifReach("duration-roundtrip")
	verifAssert(d.Microseconds() == v, "duration[us]: decode then encode returns the wire value")
	g := verifNondetInt64("go_ns")
	w := time.Duration(g).Microseconds()
	back := time.Duration(w) * time.Microsecond
	verifAssert(int64(back) == (g/1000)*1000, "duration[us]: encode then decode keeps the duration truncated to the microsecond")
}
