package vgirpc

import "time"

//verif:ints lia
//verif:unwind 64
//verif:maxconcretize 32
//verif:maxdecisions 4000

var (
	verifC33Sec, verifC33Nsec int64
	verifC33Rand              int
)

func verifC33Now() time.Time { return time.Unix(verifC33Sec, verifC33Nsec) }

// verifC33RandRead: the operating system's random source — fresh bytes on every call.
func verifC33RandRead(b []byte) (int, error) {
	verifC33Rand++
	for i := range b {
		b[i] = 0
	}
	if len(b) > 0 {
		b[len(b)-1] = byte(verifC33Rand)
	}
	return len(b), nil
}

// Two uploads never get the same object key, whatever the clock reads.
//
//verif:stub time.Now = verifC33Now
//verif:stub crypto/rand.Read = verifC33RandRead
//verif:bound two consecutive key generations (the S3 backend's generateUUID, which is the whole variable part of the key: key = prefix + generateUUID()) at any two non-decreasing clock instants whose second is one of {1700000000, 1700000001, 2000000000} and whose nanosecond part is ARBITRARY, equal instants included; crypto/rand, where used, yields fresh bytes. Concurrent uploads and other processes reduce to this: nothing but the clock and the random source feeds the key.
func verifH_C33_s3_keys_distinct() {
	// the second of the wall clock is one of three fixed values (decimal digit
	// extraction of two unconstrained 19-digit numbers is beyond the solvers);
	// the nanosecond parts are arbitrary
	secs := []int64{1700000000, 1700000001, 2000000000}
	i1 := verifChoice("t1.sec", 3)
	i2 := verifChoice("t2.sec", 3)
	verifAssume(i2 >= i1)
	s1, s2 := secs[i1], secs[i2]
	n1 := verifNondetInt64("t1.nsec")
	n2 := verifNondetInt64("t2.nsec")
	verifAssume(n1 >= 0 && n1 < 1000000000 && n2 >= 0 && n2 < 1000000000)
	verifAssume(s2 > s1 || n2 >= n1)
	verifC33Sec, verifC33Nsec = s1, n1
	k1 := generateUUID()
	verifC33Sec, verifC33Nsec = s2, n2
	k2 := generateUUID()
	verifReach("generated")
	verifAssert(k1 != k2, "two uploads never share an object key")
	verifAssert(len(k1) == 36 && len(k2) == 36, "keys have the UUID text shape")
}

// A random source whose every 16-byte block is distinct from every other block it
// ever produced (the ideal a 122-bit random UUID stands on): the global block
// number is written at both ends of each block, clear of the UUID version and
// variant bits.
var verifC33Pos int

func verifC33RandBlocks(b []byte) (int, error) {
	for i := range b {
		p := verifC33Pos
		blk := p / 16
		switch p % 16 {
		case 0, 15:
			b[i] = byte(blk)
		case 1, 14:
			b[i] = byte(blk >> 8)
		case 2, 13:
			b[i] = byte(blk >> 16)
		default:
			b[i] = 0x5a
		}
		verifC33Pos++
	}
	// a read never ends inside a block: the next draw starts a fresh one
	if r := verifC33Pos % 16; r != 0 {
		verifC33Pos += 16 - r
	}
	return len(b), nil
}

// No key is handed out twice over a long run of uploads in one process.
//
//verif:unwind 4096
//verif:maxdecisions 20000
//verif:stub time.Now = verifC33Now
//verif:stub crypto/rand.Read = verifC33RandBlocks
//verif:bound 300 (quick) / 5000 (thorough) consecutive key generations in one process, the wall clock frozen at ANY instant (so time contributes nothing); crypto/rand is an ideal source whose 16-byte blocks never repeat. State a key generator keeps between calls (pools, counters) is exercised for that many calls; longer runs and several processes are outside the bound
func verifH_C33_s3_long_run() {
	verifC33Pos = 0
	verifC33Sec = 1700000000
	verifC33Nsec = verifNondetInt64("nsec")
	verifAssume(verifC33Nsec >= 0 && verifC33Nsec < 1000000000)
	n := 300
	if verifTier() == 1 {
		n = 5000
	}
	seen := make(map[string]int, n)
	for i := 1; i <= n; i++ {
		k := generateUUID()
		prev := seen[k]
		verifAssert(prev == 0, "no object key is handed out twice in one process")
		if prev != 0 {
			return
		}
		seen[k] = i
	}
	verifReach("long-run")
}
