package vgirpc

import (
	"context"
	"io"

	"cloud.google.com/go/storage"
	"github.com/google/uuid"
)

//verif:ints lia
//verif:unwind 64
//verif:maxconcretize 32

var (
	verifC33Keys  []string
	verifC33UUIDs int
)

// verifC33UUIDNew: google/uuid's random UUID — fresh on every call.
func verifC33UUIDNew() uuid.UUID {
	verifC33UUIDs++
	var u uuid.UUID
	u[15] = byte(verifC33UUIDs)
	u[6], u[8] = 0x40, 0x80
	return u
}
func verifC33Bucket(c *storage.Client, name string) *storage.BucketHandle { return &storage.BucketHandle{} }
func verifC33Object(b *storage.BucketHandle, name string) *storage.ObjectHandle {
	verifC33Keys = append(verifC33Keys, name)
	return &storage.ObjectHandle{}
}
func verifC33NewWriter(o *storage.ObjectHandle, ctx context.Context) *storage.Writer { return &storage.Writer{} }
func verifC33Copy(dst io.Writer, src io.Reader) (int64, error)                       { return 0, nil }
func verifC33WriterClose(w *storage.Writer) error                                   { return nil }
func verifC33SignedURL(b *storage.BucketHandle, object string, opts *storage.SignedURLOptions) (string, error) {
	return "https://signed/" + object, nil
}

// Two GCS uploads never write to the same object key.
//
//verif:stub github.com/google/uuid.New = verifC33UUIDNew
//verif:stub (*cloud.google.com/go/storage.Client).Bucket = verifC33Bucket
//verif:stub (*cloud.google.com/go/storage.BucketHandle).Object = verifC33Object
//verif:stub (*cloud.google.com/go/storage.ObjectHandle).NewWriter = verifC33NewWriter
//verif:stub io.Copy = verifC33Copy
//verif:stub (*cloud.google.com/go/storage.Writer).Close = verifC33WriterClose
//verif:stub (*cloud.google.com/go/storage.BucketHandle).SignedURL = verifC33SignedURL
//verif:bound two consecutive GCSStorage.Upload calls with any combination of content encodings ("" / zstd) and the same prefix; google/uuid's generator yields a fresh UUID per call (its own randomness is outside the claim); the storage client is replaced by a recorder of the object names written
func verifH_C33_gcs_keys_distinct() {
	s := &GCSStorage{client: &storage.Client{}, bucket: "b", prefix: "p/"}
	enc := func(name string) string {
		if verifNondetBool(name) {
			return "zstd"
		}
		return ""
	}
	u1, e1 := s.Upload([]byte("a"), nil, enc("zstd1"))
	u2, e2 := s.Upload([]byte("b"), nil, enc("zstd2"))
	verifReach("uploaded")
	verifAssert(e1 == nil && e2 == nil && u1 != "" && u2 != "", "uploads succeed")
	verifAssert(len(verifC33Keys) == 2, "each upload writes exactly one object")
	if len(verifC33Keys) == 2 {
		verifAssert(verifC33Keys[0] != verifC33Keys[1], "two uploads never share an object key")
		verifAssert(verifC33UUIDs == 2, "every upload draws its own UUID")
	}
}
