package vgirpc

import (
	"hash"
	"net/http"
	"time"
)

//verif:ints lia
//verif:unwind 80
//verif:maxconcretize 16
//verif:maxdecisions 4000

// verifC25Mac stands in for HMAC-SHA256: a constant 32-byte tag. The replay and
// window logic under test does not depend on the MAC value; MAC binding is
// outside this harness (stated in the bound).
type verifC25Mac struct{}

func (verifC25Mac) Write(p []byte) (int, error) { return len(p), nil }
func (verifC25Mac) Sum(b []byte) []byte         { return append(b, make([]byte, 32)...) }
func (verifC25Mac) Reset()                      {}
func (verifC25Mac) Size() int                   { return 32 }
func (verifC25Mac) BlockSize() int              { return 64 }

func verifC25HmacNew(h func() hash.Hash, key []byte) hash.Hash { return verifC25Mac{} }

const verifC25MacB64 = "AAAAAAAAAAAAAAAAAAAAAAAAAAAAAAAAAAAAAAAAAAA" // base64url of 32 zero bytes

var (
	verifC25Sec  int64
	verifC25Nsec int64
)

func verifC25Now() time.Time { return time.Unix(verifC25Sec, verifC25Nsec) }

func verifC25Digits(v int64) string {
	// exactly 10 decimal digits (v in [10^9, 10^10))
	var b [10]byte
	for i := 9; i >= 0; i-- {
		b[i] = byte('0' + v%10)
		v /= 10
	}
	return string(b[:])
}

// A proof accepted once is refused on a later presentation whenever its
// timestamp is still inside the acceptance window (cache never over capacity).
//
//verif:stub crypto/hmac.New = verifC25HmacNew
//verif:bound two presentations of the same proof (the second byte-identical or with the MAC's final base64url character re-spelled); skew arbitrary in [1,86400] s; proof timestamp any 10-digit second count; the two clock instants arbitrary (second and nanosecond) and non-decreasing, one instant per presentation (window check and cache read the same instant); HMAC replaced by a constant tag (MAC binding outside this harness); capacity default so no eviction by count
func verifH_C25_replay_window() {
	skew := verifNondetInt("skew")
	verifAssume(skew >= 1 && skew <= 86400)
	cfg := ProofConfig{
		Mode:        ProofModeRequire,
		OriginID:    "worker-1",
		Secrets:     map[string]ProofSecret{"k1": {Secret: make([]byte, 32), Label: "proxy"}},
		SkewSeconds: skew,
		Now:         verifC25Now,
	}
	auth, err := ProofAuthenticate(cfg, nil)
	verifAssert(err == nil, "gate builds")
	if err != nil {
		return
	}
	ts := verifNondetInt64("ts")
	verifAssume(ts >= 1000000000 && ts <= 9999999999)
	token := "v1.k1." + verifC25Digits(ts) + ".nonce0nonce0nonce0nonc." + verifC25MacB64
	r := &http.Request{Header: http.Header{}}
	r.Header.Set(ProofHeader, token)

	s1 := verifNondetInt64("now1.sec")
	n1 := verifNondetInt64("now1.nsec")
	s2 := verifNondetInt64("now2.sec")
	n2 := verifNondetInt64("now2.nsec")
	verifAssume(s1 >= 0 && s1 <= 20000000000 && n1 >= 0 && n1 < 1000000000)
	verifAssume(s2 >= 0 && s2 <= 20000000000 && n2 >= 0 && n2 < 1000000000)
	verifAssume(s2 > s1 || (s2 == s1 && n2 >= n1))

	verifC25Sec, verifC25Nsec = s1, n1
	_, e1 := auth(r)
	in1 := s1-ts <= int64(skew) && ts-s1 <= int64(skew)
	verifAssert((e1 == nil) == in1, "first presentation accepted exactly inside the two-sided skew window")
	verifC25Sec, verifC25Nsec = s2, n2
	// the replay may re-spell the final base64url character of the MAC: 43
	// characters carry 258 bits, the decoder ignores the two spare ones, so
	// 'A','B','C','D' all decode to the same 32 MAC bytes ('E' does not)
	last := []string{"A", "B", "C", "D", "E"}[verifChoice("replay.mac_last_char", 5)]
	r2 := &http.Request{Header: http.Header{}}
	r2.Header.Set(ProofHeader, token[:len(token)-1]+last)
	_, e2 := auth(r2)
	verifReach("both-presented")
	if last == "E" {
		verifAssert(e2 != nil, "a MAC with a flipped data bit never verifies")
	}
	if e1 == nil {
		verifReach("first-accepted")
		verifAssert(e2 != nil, "a proof accepted once is refused on a later presentation while its timestamp is still acceptable")
	}
}

// Anything that is not exactly one well-formed proof is refused in require mode
// and inner is never called.
//
//verif:stub crypto/hmac.New = verifC25HmacNew
//verif:bound header count 0..2; single header value: the valid token with one byte position replaced by an arbitrary different byte
func verifH_C25_gate_uniform() {
	innerCalled := false
	inner := func(r *http.Request) (*AuthContext, error) {
		innerCalled = true
		return &AuthContext{Authenticated: true}, nil
	}
	cfg := ProofConfig{
		Mode:        ProofModeRequire,
		OriginID:    "worker-1",
		Secrets:     map[string]ProofSecret{"k1": {Secret: make([]byte, 32), Label: "proxy"}},
		SkewSeconds: 30,
		Now:         verifC25Now,
	}
	verifC25Sec, verifC25Nsec = 1700000000, 0
	auth, err := ProofAuthenticate(cfg, inner)
	if err != nil {
		verifAssert(false, "gate builds")
		return
	}
	good := "v1.k1.1700000000.nonce0nonce0nonce0nonc." + verifC25MacB64
	k := verifChoice("hdrs", 3)
	var vals []string
	switch k {
	case 1:
		vals = []string{good}
	case 2:
		vals = []string{good, good}
	}
	r := &http.Request{Header: http.Header{}}
	for _, v := range vals {
		r.Header.Add(ProofHeader, v)
	}
	_, e := auth(r)
	verifReach("gate-returned")
	if k == 1 {
		verifAssert(e == nil && innerCalled, "exactly one valid proof passes and inner runs")
	} else {
		verifAssert(e != nil && !innerCalled, "zero or two proof headers are refused and inner is not called")
		if e != nil {
			af, isAF := e.(*AuthFailure)
			verifAssert(isAF && af.Reason == AuthReasonProxyRequired && af.Detail == "proxy proof required", "uniform proxy_required refusal")
		}
	}
}
