package vgirpc

import (
	"net/http"
	"sync"
)

// Concurrent presentations of one proof: exactly one is accepted.
//
//verif:sched quick=2 thorough=2
//verif:race
//verif:maxpaths quick=120000 thorough=600000
//verif:stub crypto/hmac.New = verifC25HmacNew
//verif:bound 2 (thorough: 3) goroutines present the same valid proof (byte-identical, or with the MAC's last base64url character re-spelled) through one ProofAuthenticate gate at one clock instant inside the window, plus one goroutine presenting a different nonce; ALL interleavings at synchronisation points with at most 2 preemptions; the happens-before race detector watches the nonce cache; HMAC is the constant-tag model of the sequential harness
func verifH_C25_concurrent_replay() {
	cfg := ProofConfig{
		Mode:        ProofModeRequire,
		OriginID:    "worker-1",
		Secrets:     map[string]ProofSecret{"k1": {Secret: make([]byte, 32), Label: "proxy"}},
		SkewSeconds: 60,
		Now:         verifC25Now,
	}
	verifC25Sec, verifC25Nsec = 2000000000, 5
	inner := 0
	var innerMu sync.Mutex
	auth, err := ProofAuthenticate(cfg, func(r *http.Request) (*AuthContext, error) {
		innerMu.Lock()
		inner++
		innerMu.Unlock()
		return Anonymous(), nil
	})
	verifAssert(err == nil, "gate builds")
	if err != nil {
		return
	}
	token := "v1.k1.2000000000.nonce0nonce0nonce0nonc." + verifC25MacB64
	other := "v1.k1.2000000000.nonce1nonce1nonce1nonc." + verifC25MacB64
	n := 2
	if verifTier() == 1 {
		n = 3
	}
	ok := make([]bool, n+1)
	var wg sync.WaitGroup
	for i := 0; i < n; i++ {
		wg.Add(1)
		i := i
		tok := token
		if i > 0 && verifNondetBool("respelled") {
			tok = token[:len(token)-1] + "B"
		}
		go func() {
			defer wg.Done()
			r := &http.Request{Header: http.Header{}}
			r.Header.Set(ProofHeader, tok)
			_, e := auth(r)
			ok[i] = e == nil
		}()
	}
	wg.Add(1)
	go func() {
		defer wg.Done()
		r := &http.Request{Header: http.Header{}}
		r.Header.Set(ProofHeader, other)
		_, e := auth(r)
		ok[n] = e == nil
	}()
	wg.Wait()
	verifReach("joined")
	accepted := 0
	for i := 0; i < n; i++ {
		if ok[i] {
			accepted++
		}
	}
	verifAssert(accepted == 1, "of the concurrent presentations of one proof exactly one is accepted")
	verifAssert(ok[n], "a proof with its own nonce is accepted alongside")
	verifAssert(inner == accepted+1, "the inner authenticator runs exactly for the accepted presentations")
}
