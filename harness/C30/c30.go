package vgirpc

import (
	"context"
	"errors"
	"io"
	"net/http"

	"github.com/apache/arrow-go/v18/arrow"
	"github.com/apache/arrow-go/v18/arrow/ipc"
	"github.com/apache/arrow-go/v18/arrow/memory"
	"github.com/klauspost/compress/zstd"
)

//verif:quote approx
//verif:ints lia
//verif:unwind 32
//verif:maxconcretize 16
//verif:maxdecisions 4000

var (
	verifC30Fetches   int
	verifC30FetchFail bool
	verifC30Digest    byte
	verifC30Uploads   int
	verifC30Uploaded  []byte
)

func verifC30Fetch(client *http.Client, rawURL string, validator func(string) error, maxFetch, maxDecomp int64, maxRedirects int) ([]byte, error) {
	verifC30Fetches++
	if verifC30FetchFail {
		return nil, errors.New("GET failed")
	}
	return []byte("F"), nil
}

// verifC30Sum256: an ideal digest — the harness decides which payload identity the bytes have
func verifC30Sum256(data []byte) [32]byte {
	var d [32]byte
	d[0] = verifC30Digest
	return d
}
func verifC30WithAllocator(mem memory.Allocator) ipc.Option { return nil }
func verifC30Count(ctx context.Context, n int64)          {}

func verifC30SerializeBatch(batch arrow.RecordBatch, meta *arrow.Metadata) ([]byte, error) {
	return []byte("Fpayload"), nil
}

type verifC30Storage struct{}

func (verifC30Storage) Upload(data []byte, schema *arrow.Schema, contentEncoding string) (string, error) {
	verifC30Uploads++
	verifC30Uploaded = data
	return "https://store/obj", nil
}

const (
	verifC30Data = iota
	verifC30Log
	verifC30Exc
	verifC30Ptr
	verifC30NKinds
)

func verifC30Hex(d byte) string {
	const hexd = "0123456789abcdef"
	out := []byte{hexd[d>>4], hexd[d&15]}
	for i := 1; i < 32; i++ {
		out = append(out, '0', '0')
	}
	return string(out)
}

// Resolution returns only an uploaded data batch.
//
//verif:use ipc
//verif:stub github.com/Query-farm/vgi-rpc-go/vgirpc.fetchExternalData = verifC30Fetch
//verif:stub crypto/sha256.Sum256 = verifC30Sum256
//verif:stub github.com/apache/arrow-go/v18/arrow/ipc.WithAllocator = verifC30WithAllocator
//verif:stub time.Now = verifFixedNow
//verif:bound pointer batch with or without a checksum (matching or not); fetch succeeds or fails (all attempts); fetched stream unreadable, or 0..3 batches each of kind data / log / exception / nested pointer in ANY order, their kind carried where Arrow IPC carries it: in the batch's custom metadata. Abstract IPC, network fetch and SHA-256 stubbed (ideal digest).
func verifH_C30_resolve_selection() {
	verifResetIPC()
	verifC30Fetches = 0
	cfg := &ExternalLocationConfig{URLValidator: nil, MaxRetries: 1}
	keys := []string{MetaLocation}
	vals := []string{"https://store/obj?sig=secret"}
	shaMode := verifChoice("checksum", 3) // absent, match, mismatch
	verifC30Digest = 7
	switch shaMode {
	case 1:
		keys, vals = append(keys, MetaLocationSHA256), append(vals, verifC30Hex(7))
	case 2:
		keys, vals = append(keys, MetaLocationSHA256), append(vals, verifC30Hex(8))
	}
	ptr := verifNewBatch(verifDataSchema, 0, 0, keys, vals)
	verifC30FetchFail = verifNondetBool("fetch_fails")
	n := verifChoice("batches", 4)
	kinds := make([]int, n)
	st := &verifInStream{schema: verifDataSchema, failAt: -1}
	if verifNondetBool("unreadable") {
		st.bad = true
	}
	hasData, hasPtr := false, false
	for i := 0; i < n; i++ {
		kinds[i] = verifChoice("kind", verifC30NKinds)
		switch kinds[i] {
		case verifC30Data:
			st.batches = append(st.batches, verifNewBatch(verifDataSchema, 1, 100+i, []string{"vgi_batch_index"}, []string{"0"}))
			hasData = true
		case verifC30Log:
			st.batches = append(st.batches, verifNewBatch(verifDataSchema, 0, 0, []string{MetaLogLevel, MetaLogMessage}, []string{"INFO", "m"}))
		case verifC30Exc:
			st.batches = append(st.batches, verifNewBatch(verifDataSchema, 0, 0, []string{MetaLogLevel, MetaLogMessage}, []string{"EXCEPTION", "boom"}))
		default:
			st.batches = append(st.batches, verifNewBatch(verifDataSchema, 0, 0, []string{MetaLocation}, []string{"https://store/other"}))
			hasPtr = true
		}
	}
	verifFetchedStream = st
	out, _, err := ResolveExternalLocation(ptr, ptr.meta, cfg)
	verifReach("resolved")
	switch {
	case verifC30FetchFail:
		verifReach("fetch-failed")
		verifAssert(err != nil && verifC30Fetches == 2, "a failing fetch is retried MaxRetries times and then reported")
	case shaMode == 2:
		verifReach("checksum-mismatch")
		verifAssert(err != nil, "a download whose checksum does not match is refused")
	case st.bad:
		verifAssert(err != nil, "an unreadable payload is an error")
	case hasPtr:
		verifReach("nested-pointer")
		verifAssert(err != nil, "a fetched stream that contains another pointer is an error")
	case !hasData:
		verifReach("no-data")
		verifAssert(err != nil, "a fetched stream without a data batch is an error")
	default:
		verifReach("data-returned")
		ob, ok := out.(*verifBatch)
		verifAssert(err == nil && ok, "a stream with a data batch and no pointer resolves")
		if err == nil && ok {
			verifAssert(ob.tag >= 100 && ob.rows > 0 && !verifIsLog(ob) && !verifIsException(ob), "the resolved batch is an uploaded data batch, never a log or exception batch")
		}
	}
	if err != nil {
		verifAssert(out == arrow.RecordBatch(ptr), "on error the pointer batch is handed back unchanged")
	}
}

// Externalization decision: below the threshold, zero rows or no storage leave
// the batch unchanged; otherwise it is uploaded once and replaced by a pointer
// carrying the location and the checksum of the uploaded payload.
//
//verif:use ipc
//verif:stub github.com/Query-farm/vgi-rpc-go/vgirpc.serializeBatchAsIPC = verifC30SerializeBatch
//verif:stub crypto/sha256.Sum256 = verifC30Sum256
//verif:stub github.com/Query-farm/vgi-rpc-go/vgirpc.countExternalizedBytes = verifC30Count
//verif:bound batch buffer size and threshold ANY non-negative int64; rows 0 or 1; config nil / without storage / with storage; no compression
func verifH_C30_externalize_decision() {
	verifResetIPC()
	verifC30Uploads, verifC30Digest = 0, 9
	size := verifNondetInt64("size")
	thr := verifNondetInt64("threshold")
	verifAssume(size >= 0 && thr >= 0)
	rows := int64(1)
	if verifNondetBool("zero_rows") {
		rows = 0
	}
	var cfg *ExternalLocationConfig
	storage := false
	switch verifChoice("config", 3) {
	case 1:
		cfg = &ExternalLocationConfig{ExternalizeThresholdBytes: thr}
	case 2:
		cfg = &ExternalLocationConfig{ExternalizeThresholdBytes: thr, Storage: verifC30Storage{}}
		storage = true
	}
	b := verifNewBatch(verifDataSchema, rows, 5, nil, nil)
	b.size = size
	out, meta, raw, err := externalizeBatchCtx(context.Background(), b, arrow.Metadata{}, cfg)
	verifReach("decided")
	effThr := thr
	if thr <= 0 {
		effThr = 1048576
	}
	upload := storage && rows > 0 && size >= effThr
	verifAssert(err == nil, "no error")
	if upload {
		verifReach("externalized")
		loc, hasLoc := metaGet(meta, MetaLocation)
		sha, hasSha := metaGet(meta, MetaLocationSHA256)
		verifAssert(verifC30Uploads == 1 && out != arrow.RecordBatch(b) && out.NumRows() == 0, "at or above the threshold the batch is uploaded once and replaced by a zero-row pointer")
		verifAssert(hasLoc && loc == "https://store/obj" && hasSha && sha == verifC30Hex(9), "the pointer carries the storage URL and the checksum of the uploaded bytes")
		verifAssert(raw == int64(len("Fpayload")) && string(verifC30Uploaded) == "Fpayload", "the raw IPC size is what is charged and uploaded")
		verifAssert(IsExternalLocationBatch(out, meta), "the result is recognised as an external-location batch")
	} else {
		verifAssert(verifC30Uploads == 0 && out == arrow.RecordBatch(b) && raw == 0, "below the threshold, with zero rows or without storage the batch is unchanged")
	}
}

// ---- compression: what is uploaded must be what its label says ----

var (
	verifC30EncLen  int    // length class of the ideal encoder's output: 0 shorter, 1 equal, 2 longer than the input
	verifC30StoreCE string // Content-Encoding the store recorded with the object
	verifC30Levels  []int
)

type verifC30Store struct{}

func (verifC30Store) Upload(data []byte, schema *arrow.Schema, contentEncoding string) (string, error) {
	verifC30Uploads++
	verifC30Uploaded = append([]byte(nil), data...)
	verifC30StoreCE = contentEncoding
	return "https://store/obj", nil
}

func verifC30NewWriter(w io.Writer, opts ...zstd.EOption) (*zstd.Encoder, error) {
	return &zstd.Encoder{}, nil
}
func verifC30WithLevel(l zstd.EncoderLevel) zstd.EOption {
	verifC30Levels = append(verifC30Levels, int(l))
	return nil
}
func verifC30EncClose(e *zstd.Encoder) error { return nil }

// ideal codec: Enc("Fpayload") is a 'Z'-marked word that is shorter than, as long
// as, or longer than its input (high-entropy data does not shrink); Dec accepts
// only 'Z'-marked words and yields the payload back
func verifC30EncodeAll(e *zstd.Encoder, src, dst []byte) []byte {
	verifAssert(string(src) == "Fpayload", "the encoder is fed the raw IPC bytes")
	out := []string{"Zp", "Zpayload", "Zpayload++"}[verifC30EncLen]
	return append(dst, out...)
}

// the object store + HTTP client: the body comes back under the Content-Encoding
// it was uploaded with, and the client decodes what that label says
func verifC30FetchStore(client *http.Client, rawURL string, validator func(string) error, maxFetch, maxDecomp int64, maxRedirects int) ([]byte, error) {
	verifC30Fetches++
	data := verifC30Uploaded
	if verifC30StoreCE == "zstd" {
		if len(data) == 0 || data[0] != 'Z' {
			return nil, errors.New("decompressing zstd data: magic number mismatch")
		}
		return []byte("Fpayload"), nil
	}
	return data, nil
}

func verifC30SumByContent(data []byte) [32]byte {
	var d [32]byte
	d[0] = 7
	if string(data) == "Fpayload" {
		d[0] = 9
	}
	return d
}

// A batch externalized with or without compression resolves to the original.
//
//verif:use ipc
//verif:stub github.com/Query-farm/vgi-rpc-go/vgirpc.serializeBatchAsIPC = verifC30SerializeBatch
//verif:stub github.com/Query-farm/vgi-rpc-go/vgirpc.fetchExternalData = verifC30FetchStore
//verif:stub crypto/sha256.Sum256 = verifC30SumByContent
//verif:stub github.com/Query-farm/vgi-rpc-go/vgirpc.countExternalizedBytes = verifC30Count
//verif:stub github.com/apache/arrow-go/v18/arrow/ipc.WithAllocator = verifC30WithAllocator
//verif:stub github.com/klauspost/compress/zstd.NewWriter = verifC30NewWriter
//verif:stub github.com/klauspost/compress/zstd.WithEncoderLevel = verifC30WithLevel
//verif:stub (*github.com/klauspost/compress/zstd.Encoder).EncodeAll = verifC30EncodeAll
//verif:stub (*github.com/klauspost/compress/zstd.Encoder).Close = verifC30EncClose
//verif:stub time.Now = verifFixedNow
//verif:bound one batch at or above the threshold through externalizeBatchCtx and back through ResolveExternalLocation; compression absent, zstd (level unset or 1..22) or an unknown algorithm; the codec is an IDEAL one whose output is shorter than, as long as, or longer than the raw IPC bytes (incompressible data) and whose decoder accepts only encoder output; the store returns the object under the Content-Encoding it was uploaded with; serialisation is a fixed 8-byte payload, SHA-256 an ideal digest by content; byte-level zstd losslessness and the HTTP fetch are outside the claim
func verifH_C30_compressed_roundtrip() {
	verifResetIPC()
	verifC30Uploads, verifC30Fetches, verifC30Uploaded, verifC30StoreCE, verifC30Levels = 0, 0, nil, "", nil
	verifC30EncLen = verifChoice("encoded_length", 3)
	cfg := &ExternalLocationConfig{ExternalizeThresholdBytes: 4, Storage: verifC30Store{}, MaxRetries: 1}
	mode := verifChoice("compression", 3)
	level := 0
	switch mode {
	case 1:
		if verifNondetBool("level.set") {
			level = verifNondetInt("level")
			verifAssume(level >= 1 && level <= 22)
		}
		cfg.Compression = &Compression{Algorithm: "zstd", Level: level}
	case 2:
		cfg.Compression = &Compression{Algorithm: "lz4"}
	}
	b := verifNewBatch(verifDataSchema, 1, 5, nil, nil)
	b.size = 64
	ptr, meta, raw, err := externalizeBatchCtx(context.Background(), b, arrow.Metadata{}, cfg)
	verifReach("externalized")
	verifAssert(err == nil && verifC30Uploads == 1 && raw == 8, "the batch is uploaded once and charged its raw IPC size")
	if err != nil {
		return
	}
	if mode == 1 {
		verifReach("compressed")
		verifAssert(verifC30StoreCE == "zstd" && len(verifC30Uploaded) > 0 && verifC30Uploaded[0] == 'Z', "with zstd configured the encoder's output is uploaded, labelled zstd")
		if level > 0 {
			verifAssert(len(verifC30Levels) == 1 && verifC30Levels[0] == level, "the configured level reaches the encoder")
		}
	} else {
		verifAssert(verifC30StoreCE == "" && string(verifC30Uploaded) == "Fpayload", "without (known) compression the raw IPC bytes are uploaded, unlabelled")
	}
	sha, _ := metaGet(meta, MetaLocationSHA256)
	verifAssert(sha == verifC30Hex(9), "the checksum is that of the raw IPC bytes, compressed or not")
	// and back
	verifFetchedStream = &verifInStream{schema: verifDataSchema, failAt: -1, batches: []*verifBatch{verifNewBatch(verifDataSchema, 1, 5, nil, nil)}}
	pb := ptr.(*verifBatch)
	pb.meta, pb.hasMeta = meta, true
	out, _, rerr := ResolveExternalLocation(pb, meta, cfg)
	verifReach("resolved-back")
	ob, ok := out.(*verifBatch)
	verifAssert(rerr == nil && ok && ob.tag == 5 && ob.rows == 1, "the externalized batch resolves to the uploaded data, whatever the codec did to its size")
}
