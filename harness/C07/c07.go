package vgirpc

import (
	"context"
	"net/http"
	"net/url"
	"reflect"

	"github.com/apache/arrow-go/v18/arrow"
	"github.com/apache/arrow-go/v18/arrow/array"
)

//verif:quote approx
//verif:ints lia
//verif:unwind 64
//verif:maxconcretize 16
//verif:maxdecisions 6000
//verif:maxpaths quick=60000 thorough=600000

// ---- arrow columns ----
//
// arrow-go's constructors go through unsafe-backed buffers, so a harness column
// is a zero object of the real array type (the dispatch code type-switches on
// these very types) whose cell is supplied by the harness: numeric arrays get
// their `values` slice filled in (verifSetField) and arrow-go's own Value()
// runs; string / bool / binary cells and the validity bitmap are answered by
// the stubs below, looked up by object identity.

type verifC07Cell struct {
	obj  interface{}
	null bool
	str  string
	b    bool
	bin  []byte
}

var verifC07Cells []verifC07Cell

func verifC07Find(obj interface{}) *verifC07Cell {
	for i := range verifC07Cells {
		if verifC07Cells[i].obj == obj {
			return &verifC07Cells[i]
		}
	}
	panic("verifC07: unknown column object")
}

func verifC07NullI64(a *array.Int64, i int) bool     { return verifC07Find(a).null }
func verifC07NullI32(a *array.Int32, i int) bool     { return verifC07Find(a).null }
func verifC07NullU64(a *array.Uint64, i int) bool    { return verifC07Find(a).null }
func verifC07NullF64(a *array.Float64, i int) bool   { return verifC07Find(a).null }
func verifC07NullStr(a *array.String, i int) bool    { return verifC07Find(a).null }
func verifC07NullBool(a *array.Boolean, i int) bool  { return verifC07Find(a).null }
func verifC07NullBin(a *array.Binary, i int) bool    { return verifC07Find(a).null }
func verifC07StrValue(a *array.String, i int) string { return verifC07Find(a).str }
func verifC07BoolValue(a *array.Boolean, i int) bool { return verifC07Find(a).b }
func verifC07BinValue(a *array.Binary, i int) []byte { return verifC07Find(a).bin }

func verifC07Int64Col(v int64, null bool) arrow.Array {
	x := new(array.Int64)
	verifSetField(x, "numericArray.values", []int64{v})
	verifC07Cells = append(verifC07Cells, verifC07Cell{obj: x, null: null})
	return x
}
func verifC07Int32Col(v int32, null bool) arrow.Array {
	x := new(array.Int32)
	verifSetField(x, "numericArray.values", []int32{v})
	verifC07Cells = append(verifC07Cells, verifC07Cell{obj: x, null: null})
	return x
}
func verifC07Uint64Col(v uint64, null bool) arrow.Array {
	x := new(array.Uint64)
	verifSetField(x, "numericArray.values", []uint64{v})
	verifC07Cells = append(verifC07Cells, verifC07Cell{obj: x, null: null})
	return x
}
func verifC07Float64Col(v float64, null bool) arrow.Array {
	x := new(array.Float64)
	verifSetField(x, "floatArray.numericArray.values", []float64{v})
	verifC07Cells = append(verifC07Cells, verifC07Cell{obj: x, null: null})
	return x
}
func verifC07StringCol(v string, null bool) arrow.Array {
	x := new(array.String)
	verifC07Cells = append(verifC07Cells, verifC07Cell{obj: x, null: null, str: v})
	return x
}
func verifC07BoolCol(v bool, null bool) arrow.Array {
	x := new(array.Boolean)
	verifC07Cells = append(verifC07Cells, verifC07Cell{obj: x, null: null, b: v})
	return x
}

// ---- the struct family ----

type verifC07Plain struct {
	N      int64  `vgirpc:"n"`
	S      string `vgirpc:"s"`
	B      bool   `vgirpc:"b"`
	hidden int
	Ignore int64 `vgirpc:"-"`
	Plain  int64
}

type verifC07Defaults struct {
	N int64   `vgirpc:"n,default=7"`
	S string  `vgirpc:"s,default=hi"`
	B bool    `vgirpc:"b,default=true"`
	F float64 `vgirpc:"f,default=1.5"`
}

type verifC07Optional struct {
	N *int64  `vgirpc:"n"`
	S *string `vgirpc:"s"`
	B *bool   `vgirpc:"b"`
}

type verifC07OptionalDefaults struct {
	N *int64  `vgirpc:"n,default=5"`
	S *string `vgirpc:"s,default=x"`
}

type verifC07Widths struct {
	I  int32  `vgirpc:"i"`
	J  int64  `vgirpc:"j,int32"`
	U  uint64 `vgirpc:"u"`
	X  int64  `vgirpc:"x,nullable"`
	I2 int    `vgirpc:"i2"`
}

// two columns of one type: a swap of them changes neither the per-position types nor the set of names
type verifC07Pair struct {
	Lo    int64  `vgirpc:"lo"`
	Hi    int64  `vgirpc:"hi"`
	Label string `vgirpc:"label"`
}

func verifC07Batch(schema *arrow.Schema, cols []arrow.Array) *verifBatch {
	return &verifBatch{schema: schema, rows: 1, refs: 1, cols: cols, tag: 1}
}

const verifC07ArrayPkg = "github.com/apache/arrow-go/v18/arrow/array"

// When the batch matches the declared schema every field holds the value sent,
// and a null sent for a field with a declared default yields that default.
//
//verif:use ipc
//verif:stub (*github.com/apache/arrow-go/v18/arrow/array.Int64).IsNull = verifC07NullI64
//verif:stub (*github.com/apache/arrow-go/v18/arrow/array.Int32).IsNull = verifC07NullI32
//verif:stub (*github.com/apache/arrow-go/v18/arrow/array.Uint64).IsNull = verifC07NullU64
//verif:stub (*github.com/apache/arrow-go/v18/arrow/array.Float64).IsNull = verifC07NullF64
//verif:stub (*github.com/apache/arrow-go/v18/arrow/array.String).IsNull = verifC07NullStr
//verif:stub (*github.com/apache/arrow-go/v18/arrow/array.Boolean).IsNull = verifC07NullBool
//verif:stub (*github.com/apache/arrow-go/v18/arrow/array.String).Value = verifC07StrValue
//verif:stub (*github.com/apache/arrow-go/v18/arrow/array.Boolean).Value = verifC07BoolValue
//verif:bound five tagged struct types (plain int64/string/bool with untagged, "-" and unexported fields; the same kinds with defaults incl. float64; optional pointer fields; optional pointer fields with defaults; int32 / int64-as-int32 / uint64 / nullable int64 / int), one batch exactly of the schema the library derives from the tags, every cell ANY value of its type (int ranges ANY, strings ANY 0..2 bytes, bools) or null; reflect is the engine's model of package reflect (kinds, addressability and Set* refusals as in the real package), arrow arrays are real array types with harness-supplied cells
func verifH_C07_values_and_defaults() {
	verifC07Cells = nil
	null := func(name string) bool { return verifNondetBool(name + ".null") }
	str := func(name string) string { return verifNondetString(name, verifChoice(name+".len", 3)) }
	switch verifChoice("family", 5) {
	case 0:
		t := reflect.TypeOf(verifC07Plain{})
		desc := describeStruct(t)
		verifAssert(desc.Err == nil && desc.Schema.NumFields() == 3, "only tagged, non-'-' fields are columns")
		n, s, b := verifNondetInt64("n"), str("s"), verifNondetBool("b")
		nn, sn, bn := null("n"), null("s"), null("b")
		batch := verifC07Batch(desc.Schema, []arrow.Array{verifC07Int64Col(n, nn), verifC07StringCol(s, sn), verifC07BoolCol(b, bn)})
		v, err := deserializeParams(batch, t)
		verifReach("plain-bound")
		verifAssert(err == nil, "a batch of exactly the declared schema binds")
		if err != nil {
			return
		}
		got := v.Interface().(verifC07Plain)
		verifAssert(nn || got.N == n, "int64 field holds the value sent")
		verifAssert(sn || got.S == s, "string field holds the value sent")
		verifAssert(bn || got.B == b, "bool field holds the value sent")
		verifAssert((!nn || got.N == 0) && (!sn || got.S == "") && (!bn || !got.B), "a null without a default leaves the zero value")
		verifAssert(got.hidden == 0 && got.Ignore == 0 && got.Plain == 0, "fields that are not columns are untouched")
	case 1:
		t := reflect.TypeOf(verifC07Defaults{})
		desc := describeStruct(t)
		verifAssert(desc.Err == nil && desc.Schema.NumFields() == 4, "four columns")
		n, s, b := verifNondetInt64("n"), str("s"), verifNondetBool("b")
		f := []float64{0, 2.25, -1}[verifChoice("f", 3)]
		nn, sn, bn, fn := null("n"), null("s"), null("b"), null("f")
		batch := verifC07Batch(desc.Schema, []arrow.Array{verifC07Int64Col(n, nn), verifC07StringCol(s, sn), verifC07BoolCol(b, bn), verifC07Float64Col(f, fn)})
		v, err := deserializeParams(batch, t)
		verifReach("defaults-bound")
		verifAssert(err == nil, "a batch of exactly the declared schema binds")
		if err != nil {
			return
		}
		got := v.Interface().(verifC07Defaults)
		if nn {
			verifAssert(got.N == 7, "a null int64 yields its declared default")
		} else {
			verifAssert(got.N == n, "int64 field holds the value sent")
		}
		if sn {
			verifAssert(got.S == "hi", "a null string yields its declared default")
		} else {
			verifAssert(got.S == s, "string field holds the value sent (also when it equals the zero value)")
		}
		if bn {
			verifAssert(got.B, "a null bool yields its declared default")
		} else {
			verifAssert(got.B == b, "bool field holds the value sent")
		}
		if fn {
			verifAssert(got.F == 1.5, "a null float64 yields its declared default")
		} else {
			verifAssert(got.F == f, "float64 field holds the value sent")
		}
	case 2:
		t := reflect.TypeOf(verifC07Optional{})
		desc := describeStruct(t)
		verifAssert(desc.Err == nil && desc.Schema.NumFields() == 3, "three columns")
		for i := 0; i < 3 && desc.Err == nil; i++ {
			verifAssert(desc.Schema.Field(i).Nullable, "pointer fields are nullable columns")
		}
		n, s, b := verifNondetInt64("n"), str("s"), verifNondetBool("b")
		nn, sn, bn := null("n"), null("s"), null("b")
		batch := verifC07Batch(desc.Schema, []arrow.Array{verifC07Int64Col(n, nn), verifC07StringCol(s, sn), verifC07BoolCol(b, bn)})
		v, err := deserializeParams(batch, t)
		verifReach("optional-bound")
		verifAssert(err == nil, "a batch of exactly the declared schema binds")
		if err != nil {
			return
		}
		got := v.Interface().(verifC07Optional)
		verifAssert((got.N == nil) == nn && (nn || *got.N == n), "an optional int64 is nil for null and points at the value sent otherwise")
		verifAssert((got.S == nil) == sn && (sn || *got.S == s), "an optional string likewise")
		verifAssert((got.B == nil) == bn && (bn || *got.B == b), "an optional bool likewise")
	case 3:
		t := reflect.TypeOf(verifC07OptionalDefaults{})
		desc := describeStruct(t)
		verifAssert(desc.Err == nil && desc.Schema.NumFields() == 2, "two columns")
		n, s := verifNondetInt64("n"), str("s")
		nn, sn := null("n"), null("s")
		batch := verifC07Batch(desc.Schema, []arrow.Array{verifC07Int64Col(n, nn), verifC07StringCol(s, sn)})
		v, err := deserializeParams(batch, t)
		verifReach("optional-defaults-bound")
		verifAssert(err == nil, "a batch of exactly the declared schema binds")
		if err != nil {
			return
		}
		got := v.Interface().(verifC07OptionalDefaults)
		if nn {
			verifAssert(got.N != nil && *got.N == 5, "a null sent for an optional int64 with a default yields that default")
		} else {
			verifAssert(got.N != nil && *got.N == n, "optional int64 holds the value sent")
		}
		if sn {
			verifAssert(got.S != nil && *got.S == "x", "a null sent for an optional string with a default yields that default")
		} else {
			verifAssert(got.S != nil && *got.S == s, "optional string holds the value sent")
		}
	case 4:
		t := reflect.TypeOf(verifC07Widths{})
		desc := describeStruct(t)
		verifAssert(desc.Err == nil && desc.Schema.NumFields() == 5, "five columns")
		if desc.Err != nil || desc.Schema.NumFields() != 5 {
			return
		}
		verifAssert(desc.Schema.Field(0).Type.ID() == arrow.INT32 && desc.Schema.Field(1).Type.ID() == arrow.INT32 &&
			desc.Schema.Field(2).Type.ID() == arrow.UINT64 && desc.Schema.Field(3).Type.ID() == arrow.INT64 && desc.Schema.Field(3).Nullable &&
			desc.Schema.Field(4).Type.ID() == arrow.INT64 && !desc.Schema.Field(0).Nullable, "widths, overrides and the nullable flag come from the Go type and the tag")
		i, j, u, x, i2 := verifNondetInt32("i"), verifNondetInt32("j"), verifNondetUint64("u"), verifNondetInt64("x"), verifNondetInt64("i2")
		xn := null("x")
		batch := verifC07Batch(desc.Schema, []arrow.Array{verifC07Int32Col(i, false), verifC07Int32Col(j, false), verifC07Uint64Col(u, false), verifC07Int64Col(x, xn), verifC07Int64Col(i2, false)})
		v, err := deserializeParams(batch, t)
		verifReach("widths-bound")
		verifAssert(err == nil, "a batch of exactly the declared schema binds")
		if err != nil {
			return
		}
		got := v.Interface().(verifC07Widths)
		verifAssert(got.I == i && got.J == int64(j) && got.U == u && got.I2 == int(i2), "every width holds exactly the value sent (no truncation, no sign change)")
		verifAssert((xn && got.X == 0) || (!xn && got.X == x), "a nullable int64 is zero for null and the value otherwise")
	}
}

// Any batch that is not exactly the declared schema is refused.
//
//verif:use ipc
//verif:stub (*github.com/apache/arrow-go/v18/arrow/array.Int64).IsNull = verifC07NullI64
//verif:stub (*github.com/apache/arrow-go/v18/arrow/array.Int32).IsNull = verifC07NullI32
//verif:stub (*github.com/apache/arrow-go/v18/arrow/array.String).IsNull = verifC07NullStr
//verif:stub (*github.com/apache/arrow-go/v18/arrow/array.Boolean).IsNull = verifC07NullBool
//verif:stub (*github.com/apache/arrow-go/v18/arrow/array.String).Value = verifC07StrValue
//verif:stub (*github.com/apache/arrow-go/v18/arrow/array.Boolean).Value = verifC07BoolValue
//verif:bound declared struct {n int64, s string, b bool}, its optional-pointer twin, or {lo int64, hi int64, label string} (two columns of one type, so that a swap changes neither the per-position types nor the set of names); the batch schema is the declared one, or reordered (any of the 5 other permutations), narrowed (any one column dropped, or all), widened (an extra column at either end), type-perturbed (int64->int32, utf8->int64, bool->utf8), nullability flipped on any one column, one column renamed (ANY 1-byte name), or differing only in schema metadata; cells concrete
func verifH_C07_schema_gate() {
	verifC07Cells = nil
	var t reflect.Type
	family := verifChoice("family", 3)
	switch family {
	case 0:
		t = reflect.TypeOf(verifC07Plain{})
	case 1:
		t = reflect.TypeOf(verifC07Optional{})
	case 2:
		t = reflect.TypeOf(verifC07Pair{})
	}
	desc := describeStruct(t)
	verifAssert(desc.Err == nil && desc.Schema.NumFields() == 3, "declared schema")
	if desc.Err != nil || desc.Schema.NumFields() != 3 {
		return
	}
	decl := []arrow.Field{desc.Schema.Field(0), desc.Schema.Field(1), desc.Schema.Field(2)}
	cols := []arrow.Array{verifC07Int64Col(4, false), verifC07StringCol("v", false), verifC07BoolCol(true, false)}
	if family == 2 {
		cols = []arrow.Array{verifC07Int64Col(4, false), verifC07Int64Col(9, false), verifC07StringCol("v", false)}
	}
	fields := append([]arrow.Field(nil), decl...)
	var md *arrow.Metadata
	same := false
	switch verifChoice("perturbation", 8) {
	case 0:
		same = true
	case 1: // reorder
		perms := [][3]int{{0, 2, 1}, {1, 0, 2}, {1, 2, 0}, {2, 0, 1}, {2, 1, 0}}
		pm := perms[verifChoice("order", 5)]
		fields = []arrow.Field{decl[pm[0]], decl[pm[1]], decl[pm[2]]}
		cols = []arrow.Array{cols[pm[0]], cols[pm[1]], cols[pm[2]]}
	case 2: // narrow
		k := verifChoice("drop", 4)
		if k == 3 {
			fields, cols = nil, nil
		} else {
			fields = append(append([]arrow.Field(nil), decl[:k]...), decl[k+1:]...)
			cols = append(append([]arrow.Array(nil), cols[:k]...), cols[k+1:]...)
		}
	case 3: // widen
		extra := arrow.Field{Name: "extra", Type: arrow.PrimitiveTypes.Int64}
		if verifNondetBool("extra_first") {
			fields = append([]arrow.Field{extra}, decl...)
			cols = append([]arrow.Array{verifC07Int64Col(9, false)}, cols...)
		} else {
			fields = append(fields, extra)
			cols = append(cols, verifC07Int64Col(9, false))
		}
	case 4: // type-perturbed
		switch verifChoice("retype", 3) {
		case 0:
			fields[0].Type, cols[0] = arrow.PrimitiveTypes.Int32, verifC07Int32Col(4, false)
		case 1:
			if family == 2 {
				fields[1].Type, cols[1] = arrow.BinaryTypes.String, verifC07StringCol("9", false)
			} else {
				fields[1].Type, cols[1] = arrow.PrimitiveTypes.Int64, verifC07Int64Col(4, false)
			}
		case 2:
			if family == 2 {
				fields[2].Type, cols[2] = arrow.PrimitiveTypes.Int64, verifC07Int64Col(1, false)
			} else {
				fields[2].Type, cols[2] = arrow.BinaryTypes.String, verifC07StringCol("true", false)
			}
		}
	case 5: // nullability
		k := verifChoice("flip", 3)
		fields[k].Nullable = !fields[k].Nullable
	case 6: // rename
		k := verifChoice("rename", 3)
		nm := verifNondetString("newname", 1)
		verifAssume(nm != decl[k].Name)
		fields[k].Name = nm
	case 7: // schema-level metadata only: routing metadata lives on the batch, the parameter contract ignores it
		m := arrow.NewMetadata([]string{"k"}, []string{"v"})
		md = &m
		same = true
	}
	batch := verifC07Batch(arrow.NewSchema(fields, md), cols)
	v, err := deserializeParams(batch, t)
	verifReach("gated")
	if same {
		verifReach("accepted")
		verifAssert(err == nil && v.IsValid(), "the declared schema binds")
	} else {
		verifReach("refused")
		verifAssert(err != nil, "any other shape is refused (field order, names, types and nullability all count)")
	}
}

// ---- dispatch: the four call sites ----

var (
	verifC07Got   []verifC07Plain
	verifC07Calls int
)

func verifC07Handler(ctx context.Context, cc *CallContext, p verifC07Plain) (int64, error) {
	verifC07Calls++
	verifC07Got = append(verifC07Got, p)
	return 1, nil
}

func verifC07StreamHandler(ctx context.Context, cc *CallContext, p verifC07Plain) (*StreamResult, error) {
	verifC07Calls++
	verifC07Got = append(verifC07Got, p)
	return &StreamResult{OutputSchema: verifDataSchema, State: &verifPipeProducer{verifPipeState{producer: true}}}, nil
}

// A call reaches its handler only with a batch of the declared schema, and then
// with the values sent; anything else is a TypeError and the handler never runs.
//
//verif:use ipc pipe httpx
//verif:stub (*github.com/apache/arrow-go/v18/arrow/array.Int64).IsNull = verifC07NullI64
//verif:stub (*github.com/apache/arrow-go/v18/arrow/array.Int32).IsNull = verifC07NullI32
//verif:stub (*github.com/apache/arrow-go/v18/arrow/array.String).IsNull = verifC07NullStr
//verif:stub (*github.com/apache/arrow-go/v18/arrow/array.Boolean).IsNull = verifC07NullBool
//verif:stub (*github.com/apache/arrow-go/v18/arrow/array.String).Value = verifC07StrValue
//verif:stub (*github.com/apache/arrow-go/v18/arrow/array.Boolean).Value = verifC07BoolValue
//verif:bound methods registered with the real generic Unary / Producer registration (schema derived from the tags); one call through each of serveOne->serveUnary, serveOne->serveStream, handleUnary, handleStreamInit; the parameter batch is the declared schema with ANY int64 / ANY 0..2-byte string / bool cells, or a near miss (two columns swapped, one dropped, one extra, int64 sent as int32, nullability flipped); handlers are real Go functions invoked through the reflect model; abstract IPC, result serialisation stubbed
func verifH_C07_dispatch() {
	verifResetIPC()
	verifC07Cells, verifC07Got, verifC07Calls = nil, nil, 0
	s := NewServer()
	s.serverID = "srv"
	Unary(s, "u", verifC07Handler)
	Producer(s, "p", verifDataSchema, verifC07StreamHandler)
	decl := s.methods["u"].ParamsSchema
	verifAssert(decl != nil && decl.NumFields() == 3 && s.methods["p"].ParamsSchema.Equal(decl), "registration derives the parameter schema from the tags")
	if decl == nil || decl.NumFields() != 3 {
		return
	}
	n := verifNondetInt64("n")
	str := verifNondetString("s", verifChoice("s.len", 3))
	b := verifNondetBool("b")
	fields := []arrow.Field{decl.Field(0), decl.Field(1), decl.Field(2)}
	cols := []arrow.Array{verifC07Int64Col(n, false), verifC07StringCol(str, false), verifC07BoolCol(b, false)}
	same := false
	switch verifChoice("shape", 6) {
	case 0:
		same = true
	case 1:
		fields[0], fields[1] = fields[1], fields[0]
		cols[0], cols[1] = cols[1], cols[0]
	case 2:
		fields, cols = fields[:2], cols[:2]
	case 3:
		fields = append(fields, arrow.Field{Name: "extra", Type: arrow.PrimitiveTypes.Int64})
		cols = append(cols, verifC07Int64Col(1, false))
	case 4:
		fields[0].Type, cols[0] = arrow.PrimitiveTypes.Int32, verifC07Int32Col(3, false)
	case 5:
		fields[2].Nullable = !fields[2].Nullable
	}
	route := verifChoice("route", 4)
	method := "u"
	if route == 1 || route == 3 {
		method = "p"
	}
	schema := arrow.NewSchema(fields, nil)
	req := verifC07Batch(schema, cols)
	req.meta, req.hasMeta = arrow.NewMetadata([]string{MetaMethod, MetaRequestVersion}, []string{method, ProtocolVersion}), true
	verifInQueue = append(verifInQueue, &verifInStream{batches: []*verifBatch{req}, schema: schema, failAt: -1})
	isErr := false
	errType := ""
	if route <= 1 {
		if method == "p" {
			verifQueueTicks(1, -1)
		}
		sink := &verifSink{}
		err := s.serveOne(context.Background(), &verifConn{}, sink, &shmConnState{})
		verifAssert(err == nil, "the session continues")
		for _, st := range verifSinkStreams(sink) {
			for _, ob := range st.batches {
				if verifIsException(ob) {
					isErr = true
				}
			}
		}
		verifAssert(verifInDesync == 0 && verifInNext == len(verifInQueue), "every stream the client sent was consumed")
	} else {
		h := &HttpServer{server: s, tokenKey: verifXKey}
		path := "/" + method
		if method == "p" {
			path += "/init"
		}
		r := &http.Request{Method: "POST", Header: http.Header{}, URL: &url.URL{Path: path}, RemoteAddr: "1.2.3.4:5"}
		r.Header.Set("Content-Type", arrowContentType)
		r.SetPathValue("method", method)
		r = r.WithContext(context.Background())
		rec := verifNewRecorder()
		if method == "u" {
			h.handleUnary(rec, r)
		} else {
			h.handleStreamInit(rec, r)
		}
		for _, st := range verifOutStreams {
			for _, ob := range st.batches {
				if verifIsException(ob) {
					isErr = true
				}
			}
		}
		if !same {
			verifAssert(rec.status == http.StatusBadRequest, "a near-miss batch is a 400 over HTTP")
		}
	}
	if ex, ok := verifJSONLast.(errorExtra); ok {
		errType = ex.ExceptionType
	}
	verifReach("dispatched")
	if same {
		verifReach("bound")
		verifAssert(verifC07Calls == 1 && !isErr, "a batch of the declared schema reaches the handler once")
		if len(verifC07Got) == 1 {
			g := verifC07Got[0]
			verifAssert(g.N == n && g.S == str && g.B == b, "the handler receives exactly the values sent")
		}
	} else {
		verifReach("refused")
		verifAssert(verifC07Calls == 0, "the handler never runs for any other shape")
		verifAssert(isErr && errType == "TypeError", "and the answer is a TypeError")
	}
}
