package vgirpc

import (
	"context"
	"errors"
	"io"
	"net/http"
	"net/url"
	"strconv"
	"strings"
	"time"

	"github.com/apache/arrow-go/v18/arrow"
)

//verif:quote approx
//verif:ints lia
//verif:unwind 64
//verif:maxconcretize 16
//verif:maxdecisions 6000
//verif:maxpaths quick=60000 thorough=600000

// ---- the adversarial server + transport behind (*HttpClient).post ----
//
// Every POST the client makes is answered by verifC21Post: it records what the
// client put on the wire (the continuation batch written through the abstract
// IPC writer) and then picks, nondeterministically, what comes back: a
// transport-level failure (connection reset, timeout, non-2xx status, encoded or
// decoded body over the cap, unsupported encoding — post() reports all of them
// as an error and returns no body), or a 2xx body that is any member of the
// fault family below.

var (
	verifC21Sent      []string // stream_state of every POSTed continuation, in order
	verifC21SentCall  []string
	verifC21SentCanc  []bool
	verifC21SentTag   []int // payload tag of the POSTed batch
	verifC21Endpoints []string
	verifC21Minted    int    // tokens the server has minted
	verifC21LastTok   string // cursor carried by the last well-formed response
	verifC21LastCall  string
	verifC21LastKind  int
	verifC21LastTag   int
	verifC21Seq       int // data batches produced so far (producer)
	verifC21Exchange  bool
	verifC21Finish    bool // producer: the response being built is the last one
)

const (
	c21Good = iota
	c21TransportErr
	c21Unreadable
	c21SchemaDrift
	c21Truncated
	c21Trailing
	c21Exception
	c21NoCursor
	c21TwoBatches
	c21RpcErrorHeader
	c21Location
	c21EmptyBody
	c21TimeoutInFlight // the caller's context expires while the request is on the wire
	c21BadStatus       // 503 with a text body
	c21OverCap         // a body longer than the client's encoded-size limit
	c21BadEncoding     // Content-Encoding the client does not speak
	c21Kinds
)

func verifC21Reset(exchange bool) {
	verifResetIPC()
	verifRandCtr = 0
	verifC21Sent, verifC21SentCall, verifC21SentCanc, verifC21SentTag, verifC21Endpoints = nil, nil, nil, nil, nil
	verifC21Minted, verifC21LastTok, verifC21LastCall, verifC21LastKind, verifC21LastTag, verifC21Seq = 0, "", "", 0, 0, 0
	verifC21Exchange, verifC21Finish = exchange, false
}

func verifC21Mint() string {
	verifC21Minted++
	return "tok" + strconv.Itoa(verifC21Minted)
}

func verifC21Post(c *HttpClient, ctx context.Context, endpoint string, body []byte) (clientHTTPResponse, error) {
	// what went on the wire
	out := verifOutStreams[len(verifOutStreams)-1]
	verifAssert(out.closed && len(out.batches) == 1, "a continuation body is one complete IPC stream with one batch")
	sent := out.batches[0]
	tok, _ := verifMetaGet(sent, MetaStreamState)
	call, _ := verifMetaGet(sent, MetaCallState)
	canc, _ := verifMetaGet(sent, MetaCancel)
	verifC21Sent = append(verifC21Sent, tok)
	verifC21SentCall = append(verifC21SentCall, call)
	verifC21SentCanc = append(verifC21SentCanc, canc != "")
	verifC21SentTag = append(verifC21SentTag, sent.tag)
	verifC21Endpoints = append(verifC21Endpoints, endpoint)

	kind := verifChoice("response.kind", c21Kinds)
	verifC21LastKind = kind
	if kind == c21TransportErr || kind >= c21TimeoutInFlight {
		return clientHTTPResponse{}, &RpcError{Type: "TransportError", Message: "HTTP request failed"}
	}
	if kind == c21EmptyBody {
		return clientHTTPResponse{status: 200, body: nil}, nil
	}
	st := &verifInStream{schema: verifDataSchema, failAt: -1}
	resp := clientHTTPResponse{status: 200, body: []byte("S")}
	// the optional decorations vary on the first two POSTs of a history; later POSTs carry none
	rich := len(verifC21Sent) <= 2
	if rich && verifNondetBool("response.log_first") {
		st.batches = append(st.batches, verifNewBatch(verifDataSchema, 0, 0, []string{MetaLogLevel, MetaLogMessage}, []string{"INFO", "hello"}))
	}
	newTok, newCall := verifC21Mint(), ""
	keys, vals := []string{"user.key", MetaStreamState}, []string{"user.val", newTok}
	if rich && verifNondetBool("response.new_call_token") {
		newCall = "call" + strconv.Itoa(verifC21Minted)
		keys, vals = append(keys, MetaCallState), append(vals, newCall)
	}
	rows := int64(1)
	if rich {
		rows = int64(verifChoice("response.rows", 2))
	}
	verifC21Seq++
	tag := 100 + verifC21Seq
	switch kind {
	case c21Good:
		st.batches = append(st.batches, verifNewBatch(verifDataSchema, rows, tag, keys, vals))
	case c21Unreadable:
		st.bad = true
	case c21SchemaDrift:
		st.schema = verifEmptySchema
		st.batches = append(st.batches, verifNewBatch(verifEmptySchema, rows, tag, keys, vals))
	case c21Truncated:
		st.batches = append(st.batches, verifNewBatch(verifDataSchema, rows, tag, keys, vals))
		st.failAt = verifChoice("truncate.at", len(st.batches)+1)
	case c21Trailing:
		st.batches = append(st.batches, verifNewBatch(verifDataSchema, rows, tag, keys, vals))
		resp.body = []byte("S?")
	case c21Exception:
		if verifNondetBool("exception.after_data") {
			st.batches = append(st.batches, verifNewBatch(verifDataSchema, rows, tag, keys, vals))
		}
		st.batches = append(st.batches, verifNewBatch(verifDataSchema, 0, 0,
			[]string{MetaLogLevel, MetaLogMessage, MetaErrorKind}, []string{"EXCEPTION", "boom", "server"}))
	case c21NoCursor:
		st.batches = append(st.batches, verifNewBatch(verifDataSchema, rows, tag, []string{"user.key"}, []string{"user.val"}))
	case c21TwoBatches:
		st.batches = append(st.batches, verifNewBatch(verifDataSchema, rows, tag, keys, vals))
		st.batches = append(st.batches, verifNewBatch(verifDataSchema, 1, tag+50, []string{"user.key"}, []string{"second"}))
	case c21RpcErrorHeader:
		st.batches = append(st.batches, verifNewBatch(verifDataSchema, rows, tag, keys, vals))
		resp.rpcError = true
	case c21Location:
		st.batches = append(st.batches, verifNewBatch(verifDataSchema, rows, tag, append(keys, MetaLocation), append(vals, "https://elsewhere/x")))
	}
	if kind == c21Good {
		verifC21LastTok, verifC21LastTag = newTok, tag
		if newCall != "" {
			verifC21LastCall = newCall
		}
	}
	verifMemQueue = append(verifMemQueue, st)
	return resp, nil
}

// verifC21Ctx is the caller's context: the transport model can make it expire.
type verifC21Ctx struct{ err error }

func (c *verifC21Ctx) Deadline() (time.Time, bool)       { return time.Time{}, false }
func (c *verifC21Ctx) Done() <-chan struct{}             { return nil }
func (c *verifC21Ctx) Err() error                        { return c.err }
func (c *verifC21Ctx) Value(key interface{}) interface{} { return nil }

var verifC21CallCtx *verifC21Ctx

type verifC21RawBody struct{ data []byte }

func (b *verifC21RawBody) Read(p []byte) (int, error) { panic("read through the io.ReadAll stub only") }
func (b *verifC21RawBody) Close() error               { return nil }

func verifC21RawReadAll(r io.Reader) ([]byte, error) {
	limit := int64(-1)
	if lr, ok := r.(*io.LimitedReader); ok {
		limit, r = lr.N, lr.R
	}
	b, ok := r.(*verifC21RawBody)
	if !ok {
		verifUnmodelled("io.ReadAll over a reader the model does not know")
		return nil, nil
	}
	d := b.data
	if limit >= 0 && int64(len(d)) > limit {
		d = d[:limit]
	}
	return append([]byte(nil), d...), nil
}

// verifC21HistoryDo is net/http under the exchange-history harness: the real post()
// runs, and what comes back from the wire is the adversarial server's choice.
func verifC21HistoryDo(c *http.Client, req *http.Request) (*http.Response, error) {
	resp, err := verifC21Post(nil, nil, verifC21Endpoint(req), nil)
	switch verifC21LastKind {
	case c21TimeoutInFlight:
		verifC21CallCtx.err = context.DeadlineExceeded
		return nil, context.DeadlineExceeded
	case c21BadStatus:
		return &http.Response{StatusCode: 503, Header: http.Header{}, ContentLength: -1, Body: &verifC21RawBody{data: []byte("upstream unavailable")}}, nil
	case c21OverCap:
		return &http.Response{StatusCode: 200, Header: http.Header{}, ContentLength: -1, Body: &verifC21RawBody{data: make([]byte, 80)}}, nil
	case c21BadEncoding:
		h := http.Header{}
		h.Set(contentEncodingHeader, "br")
		return &http.Response{StatusCode: 200, Header: h, ContentLength: -1, Body: &verifC21RawBody{data: []byte("S")}}, nil
	}
	if err != nil {
		return nil, errors.New("read tcp: connection reset by peer")
	}
	h := http.Header{}
	if resp.rpcError {
		h.Set(rpcErrorHeader, "true")
	}
	return &http.Response{StatusCode: 200, Header: h, ContentLength: int64(len(resp.body)), Body: &verifC21RawBody{data: resp.body}}, nil
}

var verifC21LastEndpoint string

func verifC21Endpoint(req *http.Request) string { return verifC21LastEndpoint }

func verifC21HistoryNewRequest(ctx context.Context, method, u string, body io.Reader) (*http.Request, error) {
	// the endpoint is the URL's tail after the host
	verifC21LastEndpoint = strings.TrimPrefix(u, "http://h/")
	return &http.Request{Method: method, Header: http.Header{}}, nil
}

func verifC21Client() *HttpClient {
	return &HttpClient{baseURL: &url.URL{Scheme: "http", Host: "h"}, inner: &http.Client{}, headers: http.Header{},
		maxRequest: 1 << 20, maxEncoded: 64, maxDecoded: 64}
}

// An exchange stream never sends a cursor twice and refuses to continue after
// any turn whose outcome is not a completely parsed, well-formed response.
//
//verif:use ipc
//verif:stub (*net/http.Client).Do = verifC21HistoryDo
//verif:stub net/http.NewRequestWithContext = verifC21HistoryNewRequest
//verif:stub io.ReadAll = verifC21RawReadAll
//verif:stub github.com/Query-farm/vgi-rpc-go/vgirpc.boundedText = verifC21BoundedText
//verif:stub crypto/rand.Read = verifRandRead
//verif:bound histories of 3 (thorough: 4) client actions, each Exchange(valid input) | Exchange(input of another schema) | Cancel, on an exchange stream opened with cursor tok0/call0; every POST runs through the real post() against a net/http model and is answered by any of 16 response kinds: well-formed, connection reset, the caller's context expiring while the request is in flight, 503 with a text body, a body over the client's encoded-size cap, an unsupported Content-Encoding, unreadable body, schema drift, truncation at any batch, trailing bytes, exception envelope (before/after the data), missing cursor, two data batches, error header without envelope, external location, empty body; optional leading log batch, optional re-minted call token, 0 or 1 rows (these three vary on the first two POSTs of a history). net/http's Do is the model (post()'s numeric caps over ANY sizes are decided by verifH_C21_post_caps); IPC is the abstract codec
func verifH_C21_exchange_history() {
	verifC21Reset(true)
	c := verifC21Client()
	s := &HttpClientStream{client: c, method: "xchg", exchange: true, token: "tok0", callToken: "call0",
		schemas: ClientStreamSchema{Input: verifDataSchema, Output: verifDataSchema}}
	verifC21LastTok, verifC21LastCall = "tok0", "call0"
	steps := 3
	if verifTier() == 1 {
		steps = 4
	}
	live := true // the last POSTed turn (or the init) delivered a well-formed response with a cursor
	for i := 0; i < steps; i++ {
		before := len(verifC21Sent)
		wantTok, wantCall := verifC21LastTok, verifC21LastCall
		switch verifChoice("action", 3) {
		case 0:
			in := verifNewBatch(verifDataSchema, 1, 7+i, []string{"in.key", MetaStreamState, MetaCancel}, []string{"in.val", "forged", "1"})
			verifC21CallCtx = &verifC21Ctx{}
			got, err := s.Exchange(verifC21CallCtx, in)
			posted := len(verifC21Sent) - before
			if !live {
				verifReach("exchange-after-ambiguous-turn")
				verifAssert(posted == 0 && err != nil && got == nil, "after an ambiguous turn Exchange refuses without any I/O")
				continue
			}
			verifAssert(posted == 1, "a live exchange turn is exactly one POST")
			if posted != 1 {
				return
			}
			verifAssert(verifC21Sent[before] == wantTok, "the POST carries the cursor minted by the last well-formed response (not a forged or stale one)")
			verifAssert(verifC21SentCall[before] == wantCall, "and the latest call token")
			verifAssert(!verifC21SentCanc[before], "an exchange turn is not a cancel (caller metadata cannot forge one)")
			verifAssert(verifC21SentTag[before] == 7+i, "the input batch is what is sent")
			verifAssert(verifC21Endpoints[before] == "xchg/exchange", "to the method's exchange endpoint")
			if verifC21LastKind == c21Good {
				verifReach("turn-ok")
				verifAssert(err == nil && got != nil, "a well-formed response is returned")
				if got != nil {
					b, _ := got.Batch.(*verifBatch)
					verifAssert(b != nil && b.tag == verifC21LastTag, "it is the batch the server produced")
					_, hasTok := got.Metadata[MetaStreamState]
					_, hasCall := got.Metadata[MetaCallState]
					verifAssert(!hasTok && !hasCall, "framework tokens are removed from the returned metadata")
					verifAssert(got.Metadata["user.key"] == "user.val", "user metadata is kept")
				}
			} else {
				verifReach("turn-ambiguous")
				verifAssert(err != nil && got == nil, "any other outcome is an error and returns no batch")
				if verifC21LastKind == c21Exception {
					rpcErr, ok := err.(*RpcError)
					verifAssert(ok && rpcErr.Message == "boom" && rpcErr.Kind == "server", "a server exception surfaces as the typed error it carried")
				}
				live = false
			}
		case 1:
			in := verifNewBatch(verifEmptySchema, 1, 9, nil, nil)
			verifC21CallCtx = &verifC21Ctx{}
			got, err := s.Exchange(verifC21CallCtx, in)
			verifAssert(len(verifC21Sent) == before && err != nil && got == nil, "an input that does not match the declared schema is refused before any byte is sent")
			if live {
				verifReach("schema-refusal-keeps-session")
			}
		case 2:
			verifC21CallCtx = &verifC21Ctx{}
			err := s.Cancel(verifC21CallCtx)
			posted := len(verifC21Sent) - before
			if !live {
				verifReach("cancel-after-ambiguous-turn")
				verifAssert(posted == 0 && err == nil, "cancelling a dead stream is local")
			} else {
				verifAssert(posted == 1, "cancelling a live stream is one POST")
				if posted == 1 {
					verifAssert(verifC21Sent[before] == wantTok && verifC21SentCanc[before], "it carries the current cursor and the cancel marker")
				}
				live = false
			}
			verifAssert(s.Finished(), "a cancelled stream is finished")
		}
	}
	// the headline: no cursor ever goes out twice
	for i := 0; i < len(verifC21Sent); i++ {
		for j := i + 1; j < len(verifC21Sent); j++ {
			verifAssert(verifC21Sent[i] != verifC21Sent[j], "no cursor is ever sent twice")
		}
		verifAssert(verifC21Sent[i] != "" && verifC21Sent[i] != "forged", "every POST carries a server-minted cursor")
	}
	verifReach("history-done")
}

// ---- producer streams ----

// verifC21ProducerPost serves chunk i for cursor "p<i>": nb data batches tagged
// with their global sequence number, then either a zero-row cursor batch or
// nothing (last chunk). A chunk may be delivered faulty, in which case the
// server will serve the same chunk again for the same cursor.
var (
	verifC21ChunkN     []int // batches in chunk i, fixed at first request
	verifC21ChunkStart []int
	verifC21ChunkLast  []bool
	verifC21MaxChunks  int // the server ends the stream at this chunk at the latest
	verifC21Faults     int // faulty deliveries the transport may still inject
	verifC21FaultsDelivered int
)

func verifC21ProducerPost(c *HttpClient, ctx context.Context, endpoint string, body []byte) (clientHTTPResponse, error) {
	out := verifOutStreams[len(verifOutStreams)-1]
	sent := out.batches[0]
	tok, _ := verifMetaGet(sent, MetaStreamState)
	canc, _ := verifMetaGet(sent, MetaCancel)
	verifC21Sent = append(verifC21Sent, tok)
	verifC21SentCanc = append(verifC21SentCanc, canc != "")
	verifC21Endpoints = append(verifC21Endpoints, endpoint)
	idx := -1
	for i := 0; i < len(verifC21ChunkN)+1; i++ {
		if tok == "p"+strconv.Itoa(i) {
			idx = i
		}
	}
	verifAssert(idx >= 0 && idx <= len(verifC21ChunkN), "a producer continuation carries a cursor the server minted, and never skips one")
	if idx < 0 || idx > len(verifC21ChunkN) {
		verifAssume(false)
	}
	if idx == len(verifC21ChunkN) {
		verifC21ChunkN = append(verifC21ChunkN, verifChoice("chunk.batches", 3))
		verifC21ChunkStart = append(verifC21ChunkStart, verifC21Seq)
		verifC21Seq += verifC21ChunkN[idx]
		verifC21ChunkLast = append(verifC21ChunkLast, idx+1 >= verifC21MaxChunks || verifNondetBool("chunk.last"))
	}
	kind := c21Good
	if verifC21Faults > 0 {
		kind = verifChoice("response.kind", 6)
	}
	if kind != c21Good {
		verifC21Faults--
		verifC21FaultsDelivered++
	}
	verifC21LastKind = kind
	if kind == c21TransportErr {
		return clientHTTPResponse{}, &RpcError{Type: "TransportError", Message: "HTTP request failed"}
	}
	st := &verifInStream{schema: verifDataSchema, failAt: -1}
	resp := clientHTTPResponse{status: 200, body: []byte("S")}
	for j := 0; j < verifC21ChunkN[idx]; j++ {
		if j == 1 && verifNondetBool("log_between") {
			st.batches = append(st.batches, verifNewBatch(verifDataSchema, 0, 0, []string{MetaLogLevel, MetaLogMessage}, []string{"INFO", "hello"}))
		}
		st.batches = append(st.batches, verifNewBatch(verifDataSchema, 1, verifC21ChunkStart[idx]+j+1, []string{"user.key"}, []string{"user.val"}))
	}
	if !verifC21ChunkLast[idx] {
		st.batches = append(st.batches, verifNewBatch(verifDataSchema, 0, 0, []string{MetaStreamState}, []string{"p" + strconv.Itoa(idx+1)}))
	}
	switch kind {
	case c21Unreadable:
		st.bad = true
	case c21SchemaDrift:
		st.schema = verifEmptySchema
	case c21Truncated:
		st.failAt = verifChoice("truncate.at", len(st.batches)+1)
	case c21Trailing:
		resp.body = []byte("S?")
	}
	verifMemQueue = append(verifMemQueue, st)
	return resp, nil
}

// A producer stream hands the caller exactly the server's data batches, in
// order, once each, whatever faults hit individual responses.
//
//verif:use ipc
//verif:stub (*github.com/Query-farm/vgi-rpc-go/vgirpc.HttpClient).post = verifC21ProducerPost
//verif:stub crypto/rand.Read = verifRandRead
//verif:bound producer stream with 0..1 batches already pending from init and cursor p0; 5 (thorough: 7) Next calls; the stream has at most 3 (4) chunks and the transport injects at most 1 (2) faulty deliveries per history; the server's chunk for a cursor has 0..2 data batches (optional log batch in between) and either the next cursor or the end of the stream, and is re-served unchanged when the same cursor is presented again; every delivery is well-formed, a transport failure, unreadable, schema-drifted, truncated at any batch or followed by trailing bytes
func verifH_C21_producer_history() {
	verifC21Reset(false)
	verifC21ChunkN, verifC21ChunkStart, verifC21ChunkLast = nil, nil, nil
	c := verifC21Client()
	s := &HttpClientStream{client: c, method: "prod", token: "p0", callToken: "call0",
		schemas: ClientStreamSchema{Output: verifDataSchema}}
	if verifNondetBool("init.pending") {
		verifC21Seq = 1
		s.pending = []*ClientBatch{{Batch: verifNewBatch(verifDataSchema, 1, 1, nil, nil), Metadata: map[string]string{}}}
	}
	calls := 5
	verifC21MaxChunks, verifC21Faults = 3, 1
	if verifTier() == 1 {
		calls, verifC21MaxChunks, verifC21Faults = 7, 4, 2
	}
	next := 1 // sequence number the caller expects
	ended := false
	verifC21FaultsDelivered = 0
	errs := 0
	for i := 0; i < calls; i++ {
		before := len(verifC21Sent)
		b, ok, err := s.Next(context.Background())
		posted := len(verifC21Sent) - before
		if ended {
			verifAssert(!ok && err == nil && posted == 0, "a finished producer stays finished without I/O")
			continue
		}
		if err != nil {
			verifReach("producer-fault")
			errs++
			verifAssert(!ok && b == nil, "a faulty delivery returns nothing")
			verifAssert(verifC21LastKind != c21Good, "a well-formed delivery is not an error")
			continue
		}
		if !ok {
			verifReach("producer-end")
			verifAssert(b == nil, "end of stream has no batch")
			n := len(verifC21ChunkLast)
			verifAssert(n > 0 && verifC21ChunkLast[n-1] && next == verifC21Seq+1, "the stream ends only after the server's last chunk, with every batch delivered")
			ended = true
			continue
		}
		vb, _ := b.Batch.(*verifBatch)
		verifAssert(vb != nil && vb.tag == next, "batches arrive in the server's order, none dropped, none repeated")
		_, hasTok := b.Metadata[MetaStreamState]
		verifAssert(!hasTok, "cursors are not exposed")
		next++
		if posted > 0 {
			verifReach("producer-fetched")
		}
	}
	for i := 0; i < len(verifC21Sent); i++ {
		verifAssert(!verifC21SentCanc[i] && verifC21Endpoints[i] == "prod/exchange", "continuations go to the exchange endpoint and are not cancels")
	}
	verifAssert(errs == verifC21FaultsDelivered, "every faulty delivery (transport failure, unreadable, drifted, truncated, trailing bytes) is reported as an error by the Next that fetched it")
	verifReach("producer-done")
}

// ---- post(): the transport caps ----

type verifC21Body struct{ avail int64 }

func (b *verifC21Body) Read(p []byte) (int, error) { panic("read through the io.ReadAll stub only") }
func (b *verifC21Body) Close() error               { verifC21Closed++; return nil }

var (
	verifC21Closed    int
	verifC21RawAsked  int64 // bytes requested from the response body (-1 unbounded, -2 never read)
	verifC21DecCap    int64
	verifC21DecCalls  int
	verifC21DecSize   int64
	verifC21DoFail    bool
	verifC21Resp      *http.Response
	verifC21ReqHeader http.Header
	verifC21ReqMethod string
)

func verifC21Do(c *http.Client, req *http.Request) (*http.Response, error) {
	verifC21ReqHeader, verifC21ReqMethod = req.Header, req.Method
	if verifC21DoFail {
		return nil, errors.New("dial tcp: connection refused")
	}
	return verifC21Resp, nil
}

func verifC21NewRequest(ctx context.Context, method, url string, body io.Reader) (*http.Request, error) {
	return &http.Request{Method: method, Header: http.Header{}}, nil
}

func verifC21ReadAll(r io.Reader) ([]byte, error) {
	limit := int64(-1)
	if lr, ok := r.(*io.LimitedReader); ok {
		limit = lr.N
		r = lr.R
	}
	src, ok := r.(*verifC21Body)
	if !ok {
		verifUnmodelled("io.ReadAll over a reader the model does not know")
		return nil, nil
	}
	verifC21RawAsked = limit
	n := src.avail
	if limit >= 0 && limit < n {
		n = limit
	}
	return verifOpaqueBytes(int(n)), nil
}

// decompressBounded's contract (decided by C18/C19): the decoded bytes, or an
// error when they would exceed the cap.
func verifC21Decompress(name string, data []byte, maxOutputSize int64) ([]byte, error) {
	verifC21DecCalls++
	verifC21DecCap = maxOutputSize
	if maxOutputSize > 0 && verifC21DecSize > maxOutputSize {
		return nil, errors.New("decompressed size exceeds limit")
	}
	return verifOpaqueBytes(int(verifC21DecSize)), nil
}

func verifC21BoundedText(body []byte) string { return "detail" }

// post() returns a body only when status, sizes and encoding are all within the
// client's limits, and never reads the response without a bound.
//
//verif:stub (*net/http.Client).Do = verifC21Do
//verif:stub net/http.NewRequestWithContext = verifC21NewRequest
//verif:stub io.ReadAll = verifC21ReadAll
//verif:stub github.com/Query-farm/vgi-rpc-go/vgirpc.decompressBounded = verifC21Decompress
//verif:stub github.com/Query-farm/vgi-rpc-go/vgirpc.boundedText = verifC21BoundedText
//verif:bound ANY caps maxEncoded, maxDecoded in 1..2^40, ANY body length and ANY declared Content-Length (absent, honest or lying) in -1..2^41, ANY decoded size in 0..2^41, ANY status 100..599, encodings from {"", identity, zstd, gzip, " ZSTD ", br, "gzip, zstd", "zstd, br"} in either the standard or the X-VGI header, transport failure or not, error header or not; the response body is a length-only reader and the codecs are their size contract
func verifH_C21_post_caps() {
	maxEnc := verifNondetInt64("maxEncoded")
	maxDec := verifNondetInt64("maxDecoded")
	verifAssume(maxEnc >= 1 && maxEnc <= 1<<40 && maxDec >= 1 && maxDec <= 1<<40)
	avail := verifNondetInt64("body.len")
	declared := verifNondetInt64("content_length")
	verifAssume(avail >= 0 && avail <= 1<<41 && declared >= -1 && declared <= 1<<41)
	verifC21DecSize = verifNondetInt64("decoded.len")
	verifAssume(verifC21DecSize >= 0 && verifC21DecSize <= 1<<41)
	status := verifNondetInt("status")
	verifAssume(status >= 100 && status <= 599)
	enc, supported, compressed := "", true, false
	switch verifChoice("encoding", 8) {
	case 1:
		enc = "identity"
	case 2:
		enc, compressed = "zstd", true
	case 3:
		enc, compressed = "gzip", true
	case 4:
		enc, compressed = " ZSTD ", true
	case 5:
		enc, supported = "br", false
	case 6:
		enc, compressed = "gzip, zstd", true
	case 7:
		enc, supported = "zstd, br", false
	}
	hdr := http.Header{}
	if enc != "" {
		if verifNondetBool("custom_header") {
			hdr.Set(customContentEncodingHeader, enc)
		} else {
			hdr.Set(contentEncodingHeader, enc)
		}
	}
	rpcErr := verifNondetBool("rpc_error_header")
	if rpcErr {
		hdr.Set(rpcErrorHeader, "TRUE")
	}
	verifC21DoFail = verifNondetBool("transport_fails")
	verifC21Closed, verifC21RawAsked, verifC21DecCalls, verifC21DecCap = 0, -2, 0, 0
	verifC21Resp = &http.Response{StatusCode: status, Header: hdr, ContentLength: declared, Body: &verifC21Body{avail: avail}}
	c := &HttpClient{baseURL: &url.URL{Scheme: "http", Host: "h"}, inner: &http.Client{}, headers: http.Header{},
		maxRequest: 1 << 20, maxEncoded: maxEnc, maxDecoded: maxDec}
	resp, err := c.post(context.Background(), "m/exchange", []byte("S"))
	verifReach("posted")
	if verifC21DoFail {
		verifAssert(err != nil, "a transport failure is an error")
		return
	}
	verifAssert(verifC21Closed == 1, "the response body is closed exactly once")
	verifAssert(verifC21RawAsked == -2 || (verifC21RawAsked >= 0 && verifC21RawAsked <= maxEnc+1), "the response body is never read without a bound, and never further than one byte past the encoded cap")
	if declared > maxEnc {
		verifAssert(err != nil && verifC21RawAsked == -2, "a declared length over the cap is refused before reading")
	}
	if verifC21DecCalls > 0 {
		verifAssert(verifC21DecCap == maxDec, "decoding is capped at the decoded-size limit")
	}
	finalLen := avail
	if compressed {
		finalLen = verifC21DecSize
	}
	ok := declared <= maxEnc && avail <= maxEnc && supported && finalLen <= maxDec && status >= 200 && status < 300
	if ok {
		verifReach("accepted")
		verifAssert(err == nil, "a response within every limit is accepted")
		verifAssert(int64(len(resp.body)) == finalLen && resp.status == status && resp.rpcError == rpcErr, "and handed on as it is")
	} else {
		verifReach("refused")
		verifAssert(err != nil && resp.body == nil, "a response outside any limit (size, encoding, status) yields an error and no body")
		if declared <= maxEnc && avail <= maxEnc && supported && finalLen <= maxDec {
			var se *HTTPStatusError
			verifAssert(errors.As(err, &se) && se.StatusCode == status, "a non-2xx status is reported as an HTTPStatusError with that status")
		}
	}
	verifAssert(verifC21ReqMethod == "POST" && verifC21ReqHeader.Get("Content-Type") == arrowContentType, "requests are Arrow POSTs")
}

// ---- opening a stream / unary calls ----

var (
	verifC21InitResp clientHTTPResponse
	verifC21InitErr  error
	verifC21InitSent *verifBatch
	verifC21InitEP   string
)

func verifC21InitPost(c *HttpClient, ctx context.Context, endpoint string, body []byte) (clientHTTPResponse, error) {
	out := verifOutStreams[len(verifOutStreams)-1]
	if len(out.batches) == 1 {
		verifC21InitSent = out.batches[0]
	}
	verifC21InitEP = endpoint
	return verifC21InitResp, verifC21InitErr
}

var verifC21HeaderSchema = arrow.NewSchema([]arrow.Field{{Name: "h", Type: &arrow.Int64Type{}}}, nil)

// An init response is accepted only when it is exactly what the declaration
// says: [one header batch] + the output stream, nothing after it; an exchange
// init carries both tokens and no data.
//
//verif:use ipc
//verif:stub (*github.com/Query-farm/vgi-rpc-go/vgirpc.HttpClient).post = verifC21InitPost
//verif:stub crypto/rand.Read = verifRandRead
//verif:bound OpenProducer / OpenExchange / CallUnary with or without a declared header schema; the 2xx init body is [header stream: absent | 0..2 batches of the header or a drifted schema | unreadable] + [main stream: 0..2 data batches, optional log batch, optional zero-row cursor batch, optional call token, optional exception envelope; schema right or drifted; truncated or not] + [0..1 trailing streams]; or post() fails; optional error header
func verifH_C21_open() {
	verifC21Reset(false)
	c := verifC21Client()
	mode := verifChoice("mode", 3) // 0 producer, 1 exchange, 2 unary
	declHeader := mode != 2 && verifNondetBool("declares_header")
	verifC21InitErr = nil
	if verifNondetBool("post_fails") {
		verifC21InitErr = &RpcError{Type: "TransportError", Message: "HTTP request failed"}
	}
	body := ""
	// header part
	hdrState := 0 // 0 absent, 1 exactly one good header batch, 2 anything else
	if verifNondetBool("sends_header") {
		body += "S"
		st := &verifInStream{schema: verifC21HeaderSchema, failAt: -1}
		switch verifChoice("header.kind", 4) {
		case 0:
			st.batches = []*verifBatch{verifNewBatch(verifC21HeaderSchema, 1, 77, []string{"hk"}, []string{"hv"})}
			hdrState = 1
		case 1:
			hdrState = 2 // no batch
		case 2:
			st.batches = []*verifBatch{verifNewBatch(verifC21HeaderSchema, 1, 77, nil, nil), verifNewBatch(verifC21HeaderSchema, 1, 78, nil, nil)}
			hdrState = 2
		case 3:
			st.bad = true
			hdrState = 2
		}
		verifMemQueue = append(verifMemQueue, st)
	}
	// main part
	main := &verifInStream{schema: verifDataSchema, failAt: -1}
	drift := verifNondetBool("main.schema_drift")
	if drift {
		main.schema = verifEmptySchema
	}
	nData := verifChoice("main.data", 3)
	if verifNondetBool("main.log") {
		main.batches = append(main.batches, verifNewBatch(verifDataSchema, 0, 0, []string{MetaLogLevel, MetaLogMessage}, []string{"INFO", "hi"}))
	}
	for j := 0; j < nData; j++ {
		main.batches = append(main.batches, verifNewBatch(verifDataSchema, 1, j+1, []string{"user.key"}, []string{"user.val"}))
	}
	exc := verifNondetBool("main.exception")
	if exc {
		main.batches = append(main.batches, verifNewBatch(verifDataSchema, 0, 0, []string{MetaLogLevel, MetaLogMessage}, []string{"EXCEPTION", "boom"}))
	}
	cursor := verifNondetBool("main.cursor")
	callTok := cursor && verifNondetBool("main.call_token") // servers put the call token on the cursor batch
	if cursor || callTok {
		var keys, vals []string
		if cursor {
			keys, vals = append(keys, MetaStreamState), append(vals, "tokA")
		}
		if callTok {
			keys, vals = append(keys, MetaCallState), append(vals, "callA")
		}
		main.batches = append(main.batches, verifNewBatch(verifDataSchema, 0, 0, keys, vals))
	}
	truncated := verifNondetBool("main.truncated")
	if truncated {
		main.failAt = len(main.batches)
	}
	verifMemQueue = append(verifMemQueue, main)
	body += "S"
	trailing := verifNondetBool("trailing")
	if trailing {
		body += "?"
	}
	rpcErrHdr := verifNondetBool("rpc_error_header")
	verifC21InitResp = clientHTTPResponse{status: 200, body: []byte(body), rpcError: rpcErrHdr}

	params := verifNewBatch(verifEmptySchema, 1, 5, []string{MetaMethod, "p.key"}, []string{"forged", "p.val"})
	schemas := ClientStreamSchema{Output: verifDataSchema}
	if declHeader {
		schemas.Header = verifC21HeaderSchema
	}
	// does the body match the declaration?
	headerOK := (declHeader && hdrState == 1) || (!declHeader && hdrState == 0)
	wellFormed := verifC21InitErr == nil && headerOK && !drift && !exc && !truncated && !trailing && !rpcErrHdr
	var stream *HttpClientStream
	var unary *ClientBatch
	var err error
	switch mode {
	case 0:
		stream, err = c.OpenProducer(context.Background(), "m", params, schemas)
	case 1:
		schemas.Input = verifDataSchema
		stream, err = c.OpenExchange(context.Background(), "m", params, schemas)
		wellFormed = wellFormed && nData == 0 && cursor && callTok
	case 2:
		unary, err = c.CallUnary(context.Background(), "m", params, verifDataSchema)
		// a unary response counts a zero-row cursor batch as data
		n := nData
		if cursor {
			n++
		}
		wellFormed = wellFormed && n == 1
	}
	verifReach("opened")
	if verifC21InitSent != nil {
		m, _ := verifMetaGet(verifC21InitSent, MetaMethod)
		pk, _ := verifMetaGet(verifC21InitSent, "p.key")
		verifAssert(m == "m" && pk == "p.val" && verifC21InitSent.tag == 5, "the request names the method called (caller metadata cannot override it) and carries the parameters")
		if mode == 2 {
			verifAssert(verifC21InitEP == "m", "unary calls go to the method endpoint")
		} else {
			verifAssert(verifC21InitEP == "m/init", "streams open at the init endpoint")
		}
	}
	if !wellFormed {
		verifReach("rejected")
		verifAssert(err != nil && stream == nil && unary == nil, "a response that is not exactly the declared shape is rejected")
		if exc && verifC21InitErr == nil && headerOK && !drift {
			rpcErr, ok := err.(*RpcError)
			verifAssert(ok && rpcErr.Message == "boom", "a server exception surfaces as the typed error")
		}
		return
	}
	verifReach("accepted")
	verifAssert(err == nil, "a response of exactly the declared shape is accepted")
	if err != nil {
		return
	}
	if mode == 2 {
		verifAssert(unary != nil, "one batch is returned")
		return
	}
	verifAssert(stream != nil, "a stream is returned")
	if stream == nil {
		return
	}
	want := ""
	if cursor {
		want = "tokA"
	}
	verifAssert(stream.token == want && stream.Finished() == !cursor, "the stream continues from the server's cursor, or is finished when there is none")
	if callTok {
		verifAssert(stream.callToken == "callA", "with the server's call token")
	}
	verifAssert(len(stream.pending) == nData, "every data batch of the init response is pending")
	for j := 0; j < len(stream.pending) && j < nData; j++ {
		b, _ := stream.pending[j].Batch.(*verifBatch)
		verifAssert(b != nil && b.tag == j+1, "in order")
	}
	if declHeader {
		h := stream.Header()
		verifAssert(h != nil && h.Metadata["hk"] == "hv", "the header batch is exposed")
	}
}

var _ arrow.Schema
