package vgirpc

import "net/http"

//verif:ints lia
//verif:unwind 96
//verif:maxconcretize 16
//verif:maxdecisions 6000

func verifC24HdrMax() int {
	if verifTier() == 1 {
		return 11
	}
	return 10
}

// Static bearer: accepted exactly for "Bearer " + configured token, byte for
// byte, with that token's identity; the order in which the configured tokens
// are visited (map iteration) is arbitrary.
//
//verif:bound two distinct configured tokens, each any byte string of length 1..3; Authorization header any byte string of length 0..10 (quick) / 0..11 (thorough) (all 256 values per byte); more tokens and longer headers are outside the claim
func verifH_C24_bearer_static() {
	la := 1 + verifChoice("tokA.len", 3)
	lb := 1 + verifChoice("tokB.len", 3)
	ta := verifNondetString("tokA", la)
	tb := verifNondetString("tokB", lb)
	verifAssume(ta != tb)
	ctxA := &AuthContext{Domain: "static", Authenticated: true, Principal: "A"}
	ctxB := &AuthContext{Domain: "static", Authenticated: true, Principal: "B"}
	auth := BearerAuthenticateStatic(map[string]*AuthContext{ta: ctxA, tb: ctxB})
	n := verifChoice("hdr.len", verifC24HdrMax()+1)
	hv := verifNondetString("hdr", n)
	r := &http.Request{Header: http.Header{}}
	if n > 0 {
		r.Header.Set("Authorization", hv)
	}
	ac, err := auth(r)
	verifReach("decided")
	isA := hv == "Bearer "+ta
	isB := hv == "Bearer "+tb
	verifAssert((err == nil) == (isA || isB), "accepted exactly when the header is 'Bearer ' + a configured token byte-for-byte")
	if err == nil {
		verifReach("accepted")
		if isA {
			verifAssert(ac == ctxA, "token A yields A's identity")
		}
		if isB {
			verifAssert(ac == ctxB, "token B yields B's identity")
		}
	} else {
		rpcErr, ok := err.(*RpcError)
		verifAssert(ok && rpcErr.Type == "ValueError" && ac == nil, "refusal is a ValueError and yields no identity")
	}
}

// verifC24RefSplit: independent quote-state automaton. A delimiter splits only
// outside double quotes; inside quotes a backslash protects the next byte.
func verifC24RefSplit(text string, delim byte) []string {
	var parts []string
	start := 0
	inQ := false
	i := 0
	for i < len(text) {
		c := text[i]
		if c == '"' {
			inQ = !inQ
			i++
			continue
		}
		if inQ && c == '\\' && i+1 < len(text) {
			i += 2
			continue
		}
		if !inQ && c == delim {
			parts = append(parts, text[start:i])
			start = i + 1
		}
		i++
	}
	parts = append(parts, text[start:])
	return parts
}

func verifC24SplitMax() int {
	if verifTier() == 1 {
		return 7
	}
	return 6
}

// splitRespectingQuotes agrees with the quote-state automaton for both delimiters.
//
//verif:bound every byte string of length 0..6 (quick) / 0..7 (thorough), all 256 byte values; delimiter ',' or ';'
func verifH_C24_split() {
	n := verifChoice("len", verifC24SplitMax()+1)
	s := verifNondetString("text", n)
	d := byte(',')
	if verifNondetBool("semicolon") {
		d = ';'
	}
	got := splitRespectingQuotes(s, d)
	want := verifC24RefSplit(s, d)
	verifReach("split")
	verifAssert(len(got) == len(want), "same number of parts as the quote-state automaton")
	if len(got) == len(want) {
		for i := range got {
			verifAssert(got[i] == want[i], "each part equals the automaton's part")
		}
	}
	if len(got) > 1 {
		verifReach("split-multi")
	}
}

const verifC24Plain = "AZaz09--..__::" // unquoted value characters (no quote, backslash, space, ',', ';', '=', '%', '+')
const verifC24Quoted = " !#[]~"           // printable except '"' (0x22) and '\\' (0x5c): includes ',' ';' '=' '%' '+'

// Structured XFCC elements parse to the grammar's fields: quoted commas and
// semicolons never split an element, backslash escapes inside quotes are
// undone, URI is URL-decoded, and the default identity is the selected
// element's subject CN.
//
//verif:bound header = [By=<b>;]Hash=<h>;Subject="CN=<q>[,O=<o>]";URI=<u>[,Hash=<h2>;Subject="CN=<q2>"] with h,h2 of 1..2 plain characters, q,q2 of 1..3 (quick 1..2) printable characters other than '"' '\' ',' (DN-level commas are covered separately by an escaped '\,' variant), o of 1 plain char, u one of {plain, %2C-escaped, %3B-escaped, quoted with %5C, unquoted %22-wrapped, quoted with an escaped quote and %2C}; SelectElement first/last
func verifH_C24_xfcc_structured() {
	qmax := 2
	if verifTier() == 1 {
		qmax = 3
	}
	h1 := verifNondetString("hash", 1+verifChoice("hash.len", 2))
	verifAssume(verifAllInSet(h1, verifC24Plain))
	q1 := verifNondetString("cn", 1+verifChoice("cn.len", qmax))
	verifAssume(verifAllInSet(q1, " !#+-[]~")) // quoted chars minus ',' (0x2c)
	// RFC 4514: a leading or trailing space of an attribute value must be escaped;
	// extractCN trims unescaped ones by design, so they are outside the grammar.
	verifAssume(q1[0] != ' ' && q1[len(q1)-1] != ' ')
	esc := verifNondetBool("escaped_comma")
	withO := verifNondetBool("with_o")
	subj := "CN=" + q1
	wantCN := q1
	rawSubj := subj
	if esc {
		// a DN-escaped comma inside the CN: on the wire the header quoting doubles the backslash
		subj = "CN=" + q1 + "\\,x"
		rawSubj = "CN=" + q1 + "\\\\,x"
		wantCN = q1 + "\\,x"
	}
	if withO {
		subj += ",O=o"
		rawSubj += ",O=o"
	}
	var u, wantU string
	switch verifChoice("uri", 6) {
	case 0:
		u, wantU = "spiffe://a/b", "spiffe://a/b"
	case 1:
		u, wantU = "a%2Cb", "a,b"
	case 2:
		u, wantU = "a%3Bb", "a;b"
	case 3:
		// percent-encoded backslash inside a quoted value: quoting is undone first, then the URL escape
		u, wantU = "\"urn%3Awin%3AC%5Ca\"", "urn:win:C\\a"
	case 4:
		// percent-encoded quotes in an unquoted value are data, not quoting
		u, wantU = "%22a%22", "\"a\""
	default:
		// a quoted value with an escaped quote and an encoded comma
		u, wantU = "\"a\\\"b%2Cc\"", "a\"b,c"
	}
	hdr := "Hash=" + h1 + ";Subject=\"" + rawSubj + "\";URI=" + u
	if verifNondetBool("with_by") {
		hdr = "By=x;" + hdr
	}
	second := verifNondetBool("second")
	q2 := "zz"
	if second {
		hdr += ",Hash=ff;Subject=\"CN=" + q2 + "\""
	}
	els := ParseXfcc(hdr)
	verifReach("parsed")
	wantN := 1
	if second {
		wantN = 2
	}
	verifAssert(len(els) == wantN, "quoted commas never split an element: element count equals the grammar's")
	if len(els) != wantN {
		return
	}
	verifAssert(els[0].Hash == h1, "Hash field")
	verifAssert(els[0].Subject == subj, "Subject field is the unquoted, unescaped DN")
	verifAssert(els[0].URI == wantU, "URI field is URL-decoded")
	verifAssert(extractCN(els[0].Subject) == wantCN, "CN of the subject")
	last := verifNondetBool("select_last")
	sel := "first"
	if last {
		sel = "last"
	}
	auth, err := MtlsAuthenticateXfcc(MtlsAuthenticateXfccConfig{SelectElement: sel})
	verifAssert(err == nil, "authenticator builds")
	if err != nil {
		return
	}
	r := &http.Request{Header: http.Header{}}
	r.Header.Set("X-Forwarded-Client-Cert", hdr)
	ac, aerr := auth(r)
	verifAssert(aerr == nil && ac != nil, "a structured header authenticates")
	if aerr == nil && ac != nil {
		verifReach("identity")
		want := wantCN
		if last && second {
			want = q2
		}
		verifAssert(ac.Principal == want && ac.Domain == "mtls" && ac.Authenticated, "default identity is the CN of the selected element's subject")
	}
}

// ParseXfcc never panics and yields one element per top-level part with
// non-blank content, for arbitrary noise.
//
//verif:bound every string of length 0..5 over the 10 grammar-relevant bytes {'"', '\', ',', ';', '=', '%', ' ', 'h', 'A', '2'} (quick 0..4)
func verifH_C24_xfcc_noise() {
	max := 4
	if verifTier() == 1 {
		max = 5
	}
	n := verifChoice("len", max+1)
	s := verifNondetString("text", n)
	verifAssume(verifAllInSet(s, "\"\"\\\\,,;;==%%  hhAA22"))
	els := ParseXfcc(s)
	verifReach("noise-parsed")
	want := 0
	for _, part := range verifC24RefSplit(s, ',') {
		blank := true
		for i := 0; i < len(part); i++ {
			if part[i] != ' ' {
				blank = false
			}
		}
		if !blank {
			want++
		}
	}
	verifAssert(len(els) == want, "one element per non-blank top-level part of the reference split")
}

// reference: split a DN at commas that no backslash escape has consumed (escapes
// pair up left to right: in `\\,` the comma is a separator), trim, and take the
// first component that is "CN=" (any case) plus at least one character
func verifC24RefCN(s string) string {
	var parts []string
	cur := ""
	for i := 0; i < len(s); {
		switch {
		case s[i] == '\\' && i+1 < len(s) && s[i+1] != '\n':
			cur += s[i : i+2]
			i += 2
		case s[i] != ',':
			cur += s[i : i+1]
			i++
		default:
			if cur != "" {
				parts = append(parts, cur)
			}
			cur = ""
			i++
		}
	}
	if cur != "" {
		parts = append(parts, cur)
	}
	for _, p := range parts {
		lo, hi := 0, len(p)
		for lo < hi && verifC24DNSpace(p[lo]) {
			lo++
		}
		for hi > lo && verifC24DNSpace(p[hi-1]) {
			hi--
		}
		p = p[lo:hi]
		if len(p) > 3 && (p[0] == 'C' || p[0] == 'c') && (p[1] == 'N' || p[1] == 'n') && p[2] == '=' {
			return p[3:]
		}
	}
	return ""
}

func verifC24DNSpace(c byte) bool {
	return c == ' ' || c == '\t' || c == '\n' || c == '\v' || c == '\f' || c == '\r'
}

// extractCN: the principal is the CN of the subject, with escaped commas kept
// inside a component and unescaped ones separating components.
//
//verif:bound subject = head + mid + tail with head in {"", "O=a", "O=a,", "CN=a", "cn=a"}, tail in {"", "a", "CN=b", ",CN=b", " CN=b "} and mid EVERY string of length 0..3 (thorough 0..4) over {backslash, comma, space, a}: every arrangement of escapes (single, paired, odd and even runs before a comma, trailing), separators, empty components and blanks between two components; compared with an independently written left-to-right escape-pairing splitter
func verifH_C24_extract_cn() {
	max := 3
	if verifTier() == 1 {
		max = 4
	}
	n := verifChoice("len", max+1)
	mid := verifNondetString("mid", n)
	for i := 0; i < len(mid); i++ {
		c := mid[i]
		verifAssume(c == '\\' || c == ',' || c == ' ' || c == 'a')
	}
	head := []string{"", "O=a", "O=a,", "CN=a", "cn=a"}[verifChoice("head", 5)]
	tail := []string{"", "a", "CN=b", ",CN=b", " CN=b "}[verifChoice("tail", 5)]
	s := head + mid + tail
	got := extractCN(s)
	want := verifC24RefCN(s)
	verifReach("cn-extracted")
	verifAssert(got == want, "the CN is that of the first CN component, components being separated by exactly the commas no escape has consumed")
	if want != "" {
		verifReach("cn-found")
	}
}
