package vgirpc

import (
	"hash"
	"reflect"

	"github.com/apache/arrow-go/v18/arrow"
	"github.com/apache/arrow-go/v18/arrow/array"
	"github.com/apache/arrow-go/v18/arrow/memory"
)

//verif:quote approx
//verif:ints lia
//verif:unwind 64
//verif:maxconcretize 16
//verif:maxdecisions 6000
//verif:maxpaths quick=60000 thorough=600000

// ---- column builders: ghost columns that remember what was appended ----

type verifC09ColData struct {
	strs  []string
	bins  [][]byte
	bools []bool
	nulls []bool
}

func (c *verifC09ColData) MarshalJSON() ([]byte, error)       { return []byte("null"), nil }
func (c *verifC09ColData) String() string                     { return "col" }
func (c *verifC09ColData) DataType() arrow.DataType           { return nil }
func (c *verifC09ColData) NullN() int                         { return 0 }
func (c *verifC09ColData) NullBitmapBytes() []byte            { return nil }
func (c *verifC09ColData) IsNull(i int) bool                  { return c.nulls[i] }
func (c *verifC09ColData) IsValid(i int) bool                 { return !c.nulls[i] }
func (c *verifC09ColData) ValueStr(i int) string              { return "" }
func (c *verifC09ColData) GetOneForMarshal(i int) interface{} { return nil }
func (c *verifC09ColData) Data() arrow.ArrayData              { return nil }
func (c *verifC09ColData) Len() int                           { return len(c.nulls) }
func (c *verifC09ColData) Retain()                            {}
func (c *verifC09ColData) Release()                           {}

var (
	verifC09SB   []*array.StringBuilder
	verifC09SBd  []*verifC09ColData
	verifC09BB   []*array.BooleanBuilder
	verifC09BBd  []*verifC09ColData
	verifC09NB   []*array.BinaryBuilder
	verifC09NBd  []*verifC09ColData
	verifC09Sets [][]arrow.Array // column sets handed to array.NewRecordBatch
)

func verifC09NewStringBuilder(mem memory.Allocator) *array.StringBuilder {
	b := &array.StringBuilder{}
	verifC09SB, verifC09SBd = append(verifC09SB, b), append(verifC09SBd, &verifC09ColData{})
	return b
}
func verifC09SData(b *array.StringBuilder) *verifC09ColData {
	for i, x := range verifC09SB {
		if x == b {
			return verifC09SBd[i]
		}
	}
	panic("unknown string builder")
}
func verifC09SAppend(b *array.StringBuilder, v string) {
	d := verifC09SData(b)
	d.strs, d.nulls = append(d.strs, v), append(d.nulls, false)
}
func verifC09SNewArray(b *array.StringBuilder) arrow.Array { return verifC09SData(b) }

func verifC09NewBooleanBuilder(mem memory.Allocator) *array.BooleanBuilder {
	b := &array.BooleanBuilder{}
	verifC09BB, verifC09BBd = append(verifC09BB, b), append(verifC09BBd, &verifC09ColData{})
	return b
}
func verifC09BData(b *array.BooleanBuilder) *verifC09ColData {
	for i, x := range verifC09BB {
		if x == b {
			return verifC09BBd[i]
		}
	}
	panic("unknown boolean builder")
}
func verifC09BAppend(b *array.BooleanBuilder, v bool) {
	d := verifC09BData(b)
	d.bools, d.nulls = append(d.bools, v), append(d.nulls, false)
}
func verifC09BAppendNull(b *array.BooleanBuilder) {
	d := verifC09BData(b)
	d.bools, d.nulls = append(d.bools, false), append(d.nulls, true)
}
func verifC09BNewArray(b *array.BooleanBuilder) arrow.Array { return verifC09BData(b) }
func verifC09BRelease(b *array.BooleanBuilder)             {}

func verifC09NewBinaryBuilder(mem memory.Allocator, dt arrow.BinaryDataType) *array.BinaryBuilder {
	b := &array.BinaryBuilder{}
	verifC09NB, verifC09NBd = append(verifC09NB, b), append(verifC09NBd, &verifC09ColData{})
	return b
}
func verifC09NData(b *array.BinaryBuilder) *verifC09ColData {
	for i, x := range verifC09NB {
		if x == b {
			return verifC09NBd[i]
		}
	}
	panic("unknown binary builder")
}
func verifC09NAppend(b *array.BinaryBuilder, v []byte) {
	d := verifC09NData(b)
	cp := append([]byte(nil), v...)
	d.bins, d.nulls = append(d.bins, cp), append(d.nulls, false)
}
func verifC09NAppendNull(b *array.BinaryBuilder) {
	d := verifC09NData(b)
	d.bins, d.nulls = append(d.bins, nil), append(d.nulls, true)
}
func verifC09NNewArray(b *array.BinaryBuilder) arrow.Array { return verifC09NData(b) }
func verifC09NRelease(b *array.BinaryBuilder)             {}

// the describe batch keeps its columns: tag = 1 + index into verifC09Sets
func verifC09NewRecordBatch(schema *arrow.Schema, cols []arrow.Array, nrows int64) arrow.RecordBatch {
	verifC09Sets = append(verifC09Sets, cols)
	return &verifBatch{schema: schema, rows: nrows, refs: 1, tag: len(verifC09Sets)}
}

// ---- SHA-256 as an ideal hash: the digest stands for exactly the bytes fed in ----

type verifC09Hash struct{ buf []byte }

func (h *verifC09Hash) Write(p []byte) (int, error) { h.buf = append(h.buf, p...); return len(p), nil }
func (h *verifC09Hash) Sum(b []byte) []byte         { return append(b, h.buf...) }
func (h *verifC09Hash) Reset()                      { h.buf = nil }
func (h *verifC09Hash) Size() int                   { return 32 }
func (h *verifC09Hash) BlockSize() int              { return 64 }

func verifC09Sha256New() hash.Hash          { return &verifC09Hash{} }
func verifC09Hex(b []byte) string          { return "sha256(" + string(b) + ")" }
func verifC09Allocator() memory.Allocator  { return nil }

func verifC09Reset() {
	verifResetIPC()
	verifSchemas = nil
	verifC09SchemaNo = 0
	verifC09SB, verifC09SBd, verifC09BB, verifC09BBd, verifC09NB, verifC09NBd, verifC09Sets = nil, nil, nil, nil, nil, nil, nil
}

// the reference algorithm, written from the canonical framing, over the rows
// of a decoded describe response
func verifC09Reference(protocolName string, cols []arrow.Array) string {
	name, mtype, hasRet := cols[0].(*verifC09ColData), cols[1].(*verifC09ColData), cols[2].(*verifC09ColData)
	params, result, hasHdr := cols[3].(*verifC09ColData), cols[4].(*verifC09ColData), cols[5].(*verifC09ColData)
	header, isEx := cols[6].(*verifC09ColData), cols[7].(*verifC09ColData)
	bit := func(c *verifC09ColData, i int) string {
		if c.nulls[i] {
			return "-"
		}
		if c.bools[i] {
			return "1"
		}
		return "0"
	}
	p := "vgi_rpc.describe.v" + "4" + "|" + "1" + "|" + protocolName + "|"
	for i := 0; i < name.Len(); i++ {
		p += "\x1f" + name.strs[i] + "\x1e" + mtype.strs[i] + "\x1e" + bit(hasRet, i) + "\x1e" + bit(hasHdr, i) + "\x1e" + bit(isEx, i)
		p += "\x1e" + string(params.bins[i]) + "\x1e" + string(result.bins[i]) + "\x1e"
		if !header.nulls[i] {
			p += string(header.bins[i])
		}
	}
	return "sha256(" + p + ")"
}

type verifC09Method struct {
	name                           string
	typ                            MethodType
	hasResult, hasHeader, hdrSchema bool
	params, result, output, header *arrow.Schema
}

var verifC09IntType = reflect.TypeOf(0)

// Every registered schema is a distinct CONTENT: the column is the same for every
// method (so structural fingerprints that ignore metadata collide) and a schema-level
// metadata entry names the method and role it was registered for.
var verifC09SchemaNo int

func verifC09Schema(tag string) *arrow.Schema {
	verifC09SchemaNo++
	md := arrow.NewMetadata([]string{"registered_as"}, []string{tag + string(rune('0'+verifC09SchemaNo))})
	return arrow.NewSchema([]arrow.Field{{Name: "x", Type: &arrow.Int64Type{}}}, &md)
}

func verifC09Build(ms []verifC09Method, order []int, service, serverID string, pvSet bool) *Server {
	s := &Server{methods: map[string]*methodInfo{}, serviceName: service, serverID: serverID}
	if pvSet {
		s.protocolVersionSet, s.protocolVersion = true, "1.2.3"
	}
	for _, i := range order {
		m := ms[i]
		info := &methodInfo{Name: m.name, Type: m.typ, ParamsSchema: m.params, ResultSchema: m.result, OutputSchema: m.output,
			HasHeader: m.hasHeader}
		if m.hasResult {
			info.ResultType = verifC09IntType
		}
		if m.hdrSchema {
			info.HeaderSchema = m.header
		}
		s.methods[m.name] = info
	}
	return s
}

// The describe rows are the registered surface, sorted, once each, with schema
// bytes that decode to the registered schemas, and the protocol hash is the
// reference digest of exactly those rows — whatever the registration order and
// map iteration order.
//
//verif:use ipc
//verif:maporder
//verif:stub github.com/apache/arrow-go/v18/arrow/array.NewStringBuilder = verifC09NewStringBuilder
//verif:stub (*github.com/apache/arrow-go/v18/arrow/array.StringBuilder).Append = verifC09SAppend
//verif:stub (*github.com/apache/arrow-go/v18/arrow/array.StringBuilder).NewArray = verifC09SNewArray
//verif:stub github.com/apache/arrow-go/v18/arrow/array.NewBooleanBuilder = verifC09NewBooleanBuilder
//verif:stub (*github.com/apache/arrow-go/v18/arrow/array.BooleanBuilder).Append = verifC09BAppend
//verif:stub (*github.com/apache/arrow-go/v18/arrow/array.BooleanBuilder).AppendNull = verifC09BAppendNull
//verif:stub (*github.com/apache/arrow-go/v18/arrow/array.BooleanBuilder).NewArray = verifC09BNewArray
//verif:stub (*github.com/apache/arrow-go/v18/arrow/array.BooleanBuilder).Release = verifC09BRelease
//verif:stub github.com/apache/arrow-go/v18/arrow/array.NewBinaryBuilder = verifC09NewBinaryBuilder
//verif:stub (*github.com/apache/arrow-go/v18/arrow/array.BinaryBuilder).Append = verifC09NAppend
//verif:stub (*github.com/apache/arrow-go/v18/arrow/array.BinaryBuilder).AppendNull = verifC09NAppendNull
//verif:stub (*github.com/apache/arrow-go/v18/arrow/array.BinaryBuilder).NewArray = verifC09NNewArray
//verif:stub (*github.com/apache/arrow-go/v18/arrow/array.BinaryBuilder).Release = verifC09NRelease
//verif:stub github.com/apache/arrow-go/v18/arrow/array.NewRecordBatch = verifC09NewRecordBatch
//verif:stub crypto/sha256.New = verifC09Sha256New
//verif:stub encoding/hex.EncodeToString = verifC09Hex
//verif:stub github.com/Query-farm/vgi-rpc-go/vgirpc.defaultAllocator = verifC09Allocator
//verif:bound 1..3 registered methods with distinct names that are ANY byte strings of 1..2 bytes, one of them (thorough: every method of 1..2-method surfaces) of ANY method kind (unary, producer, exchange, dynamic) with or without result type, header flag, header schema and output schema, the others of a fixed unary / producer-with-header shape; every registered schema a distinct content that differs from the others only in schema-level metadata (same columns); service name ANY 0..2 bytes, server id and protocol version set or not (on 1-method surfaces; ANY 1-byte service name otherwise); Server.ProtocolHash and the second-server comparison on 1..2-method surfaces; ALL map iteration orders (a symbolic permutation, which is all that registration order can influence) compared against a second server registered in the opposite order; column builders are ghost columns, schema serialisation is an injective opaque encoding, SHA-256 is an ideal (injective) hash and hex is the identity
func verifH_C09_describe_surface() {
	verifC09Reset()
	n := 1 + verifChoice("methods", 3)
	ms := make([]verifC09Method, n)
	// quick: the flags of one method (any position after sorting, since its name is
	// symbolic) take all 64 combinations, the others keep a fixed shape; thorough: every
	// method of a 1..2-method surface varies, 3-method surfaces as in quick
	for i := 0; i < n; i++ {
		m := &ms[i]
		m.name = verifNondetString("name", 1+verifChoice("name.len", 2))
		for j := 0; j < i; j++ {
			verifAssume(ms[j].name != m.name)
		}
		m.params, m.result, m.header = verifC09Schema("p"), verifC09Schema("r"), verifC09Schema("h")
		if i == 0 || (verifTier() == 1 && n <= 2) {
			switch verifChoice("kind", 4) {
			case 0:
				m.typ = MethodUnary
			case 1:
				m.typ = MethodProducer
			case 2:
				m.typ = MethodExchange
			case 3:
				m.typ = MethodDynamic
			}
			m.hasResult = verifNondetBool("has_result_type")
			m.hasHeader = verifNondetBool("has_header")
			m.hdrSchema = verifNondetBool("header_schema")
			if verifNondetBool("has_output_schema") {
				m.output = verifC09Schema("o")
			}
		} else if i == 1 {
			m.typ, m.hasResult = MethodUnary, true
		} else {
			m.typ, m.hasHeader, m.hdrSchema, m.output = MethodProducer, true, true, verifC09Schema("o")
		}
	}
	// Registration order: a Go map forgets insertion order; what registration order can
	// influence is the iteration order, which //verif:maporder makes a symbolic permutation.
	order := make([]int, n)
	for i := range order {
		order[i] = n - 1 - i
	}
	// the response-level metadata does not interact with the rows: it varies on 1-method surfaces
	service, withID, pvSet := verifNondetString("service1", 1), true, false
	if n == 1 {
		service = verifNondetString("service", verifChoice("service.len", 3))
		withID, pvSet = verifNondetBool("server_id"), verifNondetBool("protocol_version_set")
	}
	serverID := ""
	if withID {
		serverID = "srv-1"
	}
	s := verifC09Build(ms, order, service, serverID, pvSet)
	batch, meta := s.buildDescribeBatch()
	verifReach("described")
	vb, _ := batch.(*verifBatch)
	verifAssert(vb != nil && vb.tag >= 1 && vb.schema == describeSchema && vb.rows == int64(n), "the describe batch has the describe schema and one row per registered method")
	if vb == nil || vb.tag < 1 {
		return
	}
	cols := verifC09Sets[vb.tag-1]
	verifAssert(len(cols) == 8, "eight columns")
	if len(cols) != 8 {
		return
	}
	for _, c := range cols {
		cd, ok := c.(*verifC09ColData)
		verifAssert(ok && cd.Len() == n, "every column has one value per method")
		if !ok || cd.Len() != n {
			return
		}
	}
	name, mtype, hasRet := cols[0].(*verifC09ColData), cols[1].(*verifC09ColData), cols[2].(*verifC09ColData)
	params, result, hasHdr := cols[3].(*verifC09ColData), cols[4].(*verifC09ColData), cols[5].(*verifC09ColData)
	header, isEx := cols[6].(*verifC09ColData), cols[7].(*verifC09ColData)
	for i := 0; i < n; i++ {
		if i > 0 {
			verifAssert(name.strs[i-1] < name.strs[i], "rows are in strictly ascending name order (so no method is listed twice)")
		}
		// which registration is this row?
		var m *verifC09Method
		for j := range ms {
			if ms[j].name == name.strs[i] {
				m = &ms[j]
			}
		}
		verifAssert(m != nil, "every row names a registered method")
		if m == nil {
			return
		}
		wantType := "stream"
		if m.typ == MethodUnary {
			wantType = "unary"
		}
		verifAssert(mtype.strs[i] == wantType, "method_type is unary for unary methods and stream otherwise")
		verifAssert(!hasRet.nulls[i] && hasRet.bools[i] == (m.typ == MethodUnary && m.hasResult), "has_return is set exactly for unary methods with a result type")
		verifAssert(!hasHdr.nulls[i] && hasHdr.bools[i] == m.hasHeader, "has_header is the registered flag")
		verifAssert(isEx.nulls[i], "is_exchange is null on the wire")
		ps, perr := verifDeserializeSchema(params.bins[i])
		verifAssert(perr == nil && verifSameSchema(ps, m.params), "params_schema_ipc decodes to the registered parameter schema")
		rs, rerr := verifDeserializeSchema(result.bins[i])
		want := m.result
		if m.output != nil {
			want = m.output
		}
		verifAssert(rerr == nil && verifSameSchema(rs, want), "result_schema_ipc decodes to the registered output schema, or the result schema when there is none")
		if m.hasHeader && m.hdrSchema {
			hs, herr := verifDeserializeSchema(header.bins[i])
			verifAssert(!header.nulls[i] && herr == nil && verifSameSchema(hs, m.header), "header_schema_ipc decodes to the registered header schema")
		} else {
			verifAssert(header.nulls[i], "header_schema_ipc is null without a header schema")
		}
	}
	// metadata
	pn, _ := meta.GetValue(MetaProtocolName)
	wantPN := service
	if service == "" {
		wantPN = "GoRpcServer"
	}
	verifAssert(pn == wantPN, "protocol_name is the service name (GoRpcServer when unset)")
	rv, _ := meta.GetValue(MetaRequestVersion)
	dv, _ := meta.GetValue(MetaDescribeVersion)
	verifAssert(rv == ProtocolVersion && dv == DescribeVersion, "request and describe versions are stamped")
	sid, hasSid := meta.GetValue(MetaServerID)
	verifAssert(hasSid == withID && sid == serverID, "server_id is stamped iff set")
	pv, hasPV := meta.GetValue(MetaProtocolVersion)
	verifAssert(hasPV == pvSet && (!pvSet || pv == "1.2.3"), "protocol_version is stamped iff set")
	hashv, hasHash := meta.GetValue(MetaProtocolHash)
	verifAssert(hasHash && hashv == verifC09Reference(pn, cols), "the protocol hash is the reference digest of exactly the rows and protocol name in this response")
	verifAssert(ProtocolVersion == "1" && DescribeVersion == "4", "the reference's version constants are the framework's")
	if n == 3 {
		// the two re-computations below each add a symbolic map order of their own (6x6 more
		// paths for three methods); they are decided on 1..2-method surfaces
		verifReach("three-methods")
		return
	}
	verifAssert(s.ProtocolHash() == hashv && s.ProtocolHash() == hashv, "Server.ProtocolHash is the same digest, every time")

	// a second server with the same surface registered in the canonical order
	canon := make([]int, n)
	for i := range canon {
		canon[i] = i
	}
	s2 := verifC09Build(ms, canon, service, "other-process", !pvSet)
	_, meta2 := s2.buildDescribeBatch()
	h2, _ := meta2.GetValue(MetaProtocolHash)
	verifAssert(h2 == hashv, "the hash does not depend on registration order, map order, server id or protocol version")
	verifReach("compared")
}

// Pipe and HTTP serve the same describe response.
//
//verif:use ipc
//verif:stub github.com/apache/arrow-go/v18/arrow/array.NewStringBuilder = verifC09NewStringBuilder
//verif:stub (*github.com/apache/arrow-go/v18/arrow/array.StringBuilder).Append = verifC09SAppend
//verif:stub (*github.com/apache/arrow-go/v18/arrow/array.StringBuilder).NewArray = verifC09SNewArray
//verif:stub github.com/apache/arrow-go/v18/arrow/array.NewBooleanBuilder = verifC09NewBooleanBuilder
//verif:stub (*github.com/apache/arrow-go/v18/arrow/array.BooleanBuilder).Append = verifC09BAppend
//verif:stub (*github.com/apache/arrow-go/v18/arrow/array.BooleanBuilder).AppendNull = verifC09BAppendNull
//verif:stub (*github.com/apache/arrow-go/v18/arrow/array.BooleanBuilder).NewArray = verifC09BNewArray
//verif:stub (*github.com/apache/arrow-go/v18/arrow/array.BooleanBuilder).Release = verifC09BRelease
//verif:stub github.com/apache/arrow-go/v18/arrow/array.NewBinaryBuilder = verifC09NewBinaryBuilder
//verif:stub (*github.com/apache/arrow-go/v18/arrow/array.BinaryBuilder).Append = verifC09NAppend
//verif:stub (*github.com/apache/arrow-go/v18/arrow/array.BinaryBuilder).AppendNull = verifC09NAppendNull
//verif:stub (*github.com/apache/arrow-go/v18/arrow/array.BinaryBuilder).NewArray = verifC09NNewArray
//verif:stub (*github.com/apache/arrow-go/v18/arrow/array.BinaryBuilder).Release = verifC09NRelease
//verif:stub github.com/apache/arrow-go/v18/arrow/array.NewRecordBatch = verifC09NewRecordBatch
//verif:stub crypto/sha256.New = verifC09Sha256New
//verif:stub encoding/hex.EncodeToString = verifC09Hex
//verif:stub github.com/Query-farm/vgi-rpc-go/vgirpc.defaultAllocator = verifC09Allocator
//verif:stub (*github.com/Query-farm/vgi-rpc-go/vgirpc.HttpServer).readHTTPBody = verifXReadBody
//verif:maporder
//verif:bound one server with 2 methods (one of ANY kind / flags as above, one unary; fixed names; ANY map iteration order on each transport), described once over serveDescribe (pipe) and once over handleDescribe (HTTP, body read and request framing abstract)
func verifH_C09_same_over_pipe_and_http() {
	verifC09Reset()
	ms := make([]verifC09Method, 2)
	for i := range ms {
		m := &ms[i]
		m.name = []string{"beta", "alpha"}[i]
		m.params, m.result, m.header = verifC09Schema("p"), verifC09Schema("r"), verifC09Schema("h")
		if i == 1 {
			m.typ, m.hasResult = MethodUnary, true
			continue
		}
		switch verifChoice("kind", 4) {
		case 0:
			m.typ = MethodUnary
		case 1:
			m.typ = MethodProducer
		case 2:
			m.typ = MethodExchange
		case 3:
			m.typ = MethodDynamic
		}
		m.hasResult, m.hasHeader, m.hdrSchema = verifNondetBool("has_result_type"), verifNondetBool("has_header"), verifNondetBool("header_schema")
		if verifNondetBool("has_output_schema") {
			m.output = verifC09Schema("o")
		}
	}
	s := verifC09Build(ms, []int{0, 1}, "svc", "srv-1", verifNondetBool("protocol_version_set"))
	sink := &verifSink{}
	err := s.serveDescribe(sink, &Request{Method: "__describe__"})
	verifAssert(err == nil, "describe over a pipe succeeds")
	pipeOut := verifSinkStreams(sink)
	verifAssert(len(pipeOut) == 1 && pipeOut[0].closed && len(pipeOut[0].batches) == 1, "one complete stream with one batch")
	if len(pipeOut) != 1 || len(pipeOut[0].batches) != 1 {
		return
	}
	h := &HttpServer{server: s}
	params := verifNewBatch(verifEmptySchema, 1, 0, []string{MetaMethod, MetaRequestVersion}, []string{"__describe__", ProtocolVersion})
	verifInQueue = append(verifInQueue, &verifInStream{batches: []*verifBatch{params}, schema: verifEmptySchema, failAt: -1})
	verifMemQueue = append(verifMemQueue, &verifInStream{batches: []*verifBatch{params}, schema: verifEmptySchema, failAt: -1})
	rec := verifNewRecorder()
	before := len(verifOutStreams)
	h.handleDescribe(rec, nil)
	verifReach("served-both")
	verifAssert(rec.status == 200, "describe over HTTP succeeds")
	var httpOut *verifOutStream
	for _, o := range verifOutStreams[before:] {
		if o.schema == describeSchema {
			httpOut = o
		}
	}
	verifAssert(httpOut != nil && httpOut.closed && len(httpOut.batches) == 1, "one complete stream with one batch over HTTP")
	if httpOut == nil || len(httpOut.batches) != 1 {
		return
	}
	a, b := pipeOut[0].batches[0], httpOut.batches[0]
	verifAssert(a.schema == describeSchema && b.schema == describeSchema && a.rows == b.rows && a.tag >= 1 && b.tag >= 1, "both are describe batches of the same height")
	if a.tag < 1 || b.tag < 1 {
		return
	}
	ca, cb := verifC09Sets[a.tag-1], verifC09Sets[b.tag-1]
	verifAssert(len(ca) == 8 && len(cb) == 8, "eight columns each")
	for k := 0; k < 8 && k < len(ca) && k < len(cb); k++ {
		x, y := ca[k].(*verifC09ColData), cb[k].(*verifC09ColData)
		verifAssert(x.Len() == y.Len(), "same column length")
		for i := 0; i < x.Len() && i < y.Len(); i++ {
			same := x.nulls[i] == y.nulls[i]
			if len(x.strs) > 0 {
				same = same && x.strs[i] == y.strs[i]
			}
			if len(x.bools) > 0 {
				same = same && x.bools[i] == y.bools[i]
			}
			if len(x.bins) > 0 {
				same = same && string(x.bins[i]) == string(y.bins[i])
			}
			verifAssert(same, "every cell is the same over both transports")
		}
	}
	verifAssert(a.meta.Len() == b.meta.Len(), "same metadata keys")
	for i := 0; i < a.meta.Len() && i < b.meta.Len(); i++ {
		verifAssert(a.meta.Keys()[i] == b.meta.Keys()[i] && a.meta.Values()[i] == b.meta.Values()[i], "same metadata over both transports")
	}
}
