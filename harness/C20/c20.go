package vgirpc

import (
	"errors"
	"net/http"
	"net/url"
	"strings"
	"time"

	"github.com/apache/arrow-go/v18/arrow"
)

//verif:ints lia
//verif:unwind 200
//verif:maxconcretize 16
//verif:maxdecisions 4000
//verif:maxpaths quick=20000 thorough=600000

func verifC20IsHex16(s string) bool {
	if len(s) != 16 {
		return false
	}
	for i := 0; i < len(s); i++ {
		c := s[i]
		if !((c >= '0' && c <= '9') || (c >= 'a' && c <= 'f')) {
			return false
		}
	}
	return true
}

func verifC20Space(c byte) bool {
	return c == ' ' || c == '\t' || c == '\n' || c == '\v' || c == '\f' || c == '\r'
}

// verifC20ID builds a request-id header value of a boundary length with
// symbolic edge bytes and returns it together with its reference trim.
func verifC20ID() (string, string) {
	lens := []int{0, 1, 2, 128, 129, 130}
	if verifTier() == 1 {
		lens = []int{0, 1, 2, 3, 127, 128, 129, 130, 131, 132}
	}
	n := lens[verifChoice("id.len", len(lens))]
	if n == 0 {
		return "", ""
	}
	// up to two symbolic bytes at each edge, concrete 'x' inside
	pre := 2
	if n < 4 {
		pre = n
	}
	post := n - pre
	if post > 2 {
		post = 2
	}
	a := verifNondetString("id.head", pre)
	b := verifNondetString("id.tail", post)
	verifAssume(verifAllInSet(a, "\x00\x7f") && verifAllInSet(b, "\x00\x7f"))
	mid := strings.Repeat("x", n-pre-post)
	s := a + mid + b
	lo, hi := 0, len(s)
	for lo < hi && verifC20Space(s[lo]) {
		lo++
	}
	for hi > lo && verifC20Space(s[hi-1]) {
		hi--
	}
	return s, s[lo:hi]
}

// resolveRequestID echoes a trimmed 1..128-byte id and mints 16 lower-hex otherwise.
//
//verif:stub crypto/rand.Read = verifRandRead
//verif:bound X-Request-ID value of length 0,1,2,128,129,130 (thorough: 0..3,127..132) whose first two and last two bytes are arbitrary ASCII (incl. all white space) and whose interior is 'x'; absent header; non-ASCII bytes outside the claim
func verifH_C20_request_id() {
	r := &http.Request{Header: http.Header{}}
	raw, trimmed := verifC20ID()
	if verifNondetBool("present") {
		r.Header.Set(requestIDHeader, raw)
	} else {
		trimmed = ""
	}
	got := resolveRequestID(r)
	verifReach("resolved")
	if len(trimmed) >= 1 && len(trimmed) <= 128 {
		verifReach("echoed")
		verifAssert(got == trimmed, "a 1..128 byte id is echoed trimmed")
	} else {
		verifReach("minted")
		verifAssert(verifC20IsHex16(got), "otherwise 16 fresh lower-case hex characters")
	}
}

// The 128 is a count of bytes, whatever characters they spell.
//
//verif:stub crypto/rand.Read = verifRandRead
//verif:bound X-Request-ID of 127..130 bytes: 'x' everywhere except two adjacent ARBITRARY bytes (0x00..0xFF, so every two-byte UTF-8 character, every invalid sequence and every control byte occurs) placed at the start of, inside, or at the end of the interior (the first and last byte stay 'x': Unicode white space at the trimmed edges is outside the claim)
func verifH_C20_request_id_bytes() {
	n := 127 + verifChoice("id.len", 4)
	at := []int{1, 60, n - 3}[verifChoice("id.at", 3)]
	inner := verifNondetString("id.inner", 2)
	id := strings.Repeat("x", at) + inner + strings.Repeat("x", n-at-2)
	r := &http.Request{Header: http.Header{}}
	r.Header.Set(requestIDHeader, id)
	got := resolveRequestID(r)
	verifReach("resolved-bytes")
	if n <= 128 {
		verifReach("echoed-bytes")
		verifAssert(got == id, "an id of at most 128 bytes is echoed, whatever its bytes spell")
	} else {
		verifReach("minted-bytes")
		verifAssert(verifC20IsHex16(got), "an id of more than 128 bytes is replaced by 16 fresh lower-case hex characters, however few characters it has")
	}
}

type verifC20RW struct {
	hdr        http.Header
	status     int
	idAtStatus string
}

func (w *verifC20RW) Header() http.Header { return w.hdr }
func (w *verifC20RW) WriteHeader(code int) {
	if w.status == 0 {
		w.status = code
		w.idAtStatus = w.hdr.Get(requestIDHeader)
	}
}
func (w *verifC20RW) Write(b []byte) (int, error) {
	if w.status == 0 {
		w.WriteHeader(200)
	}
	return len(b), nil
}

var (
	verifC20Server *HttpServer
	verifC20Reject bool
	verifC20Routed int
)

// verifC20Mux stands in for the route table: the routed handler either rejects
// (401 through writeUnauthorized) or answers 200 with the per-call headers a
// handler may emit.
func verifC20Mux(m *http.ServeMux, w http.ResponseWriter, r *http.Request) {
	verifC20Routed++
	if verifC20Reject {
		verifC20Server.writeUnauthorized(w, r, AuthReasonInvalidCredential, "d")
		return
	}
	w.Header().Set(rpcErrorHeader, "true")
	w.Header().Set(customContentEncodingHeader, "zstd")
	if verifC20Server.stickyRegistry != nil {
		writeStickyResponseHeaders(w, &stickySink{mintedToken: "tok", closed: true, echoHeaders: verifC20Server.stickyEchoHeaders})
	}
	w.WriteHeader(200)
}

func verifC20NoPages(h *HttpServer) {}

type verifC20Provider struct{}

func (verifC20Provider) GenerateUploadURL(schema *arrow.Schema) (UploadURL, error) {
	return UploadURL{}, nil
}

func verifC20UploadProvider() UploadURLProvider { return verifC20Provider{} }

// corsSafelisted: response headers a browser exposes without being listed, and
// the CORS machinery's own headers.
func verifC20NeedsExpose(k string) bool {
	switch k {
	case "Cache-Control", "Content-Language", "Content-Length", "Content-Type", "Expires", "Last-Modified", "Pragma":
		return false
	case "Cross-Origin-Resource-Policy", "Retry-After", "X-Content-Type-Options":
		return false
	}
	return !strings.HasPrefix(k, "Access-Control-")
}

// verifC20Config applies an arbitrary feature configuration.
func verifC20Config(h *HttpServer) {
	if verifNondetBool("max_request") {
		h.maxRequestBytes = 1000
	}
	if verifNondetBool("max_response") {
		h.maxResponseBytes = 2000
	}
	if verifNondetBool("max_external") {
		h.maxExternalizedResponseBytes = 3000
	}
	switch verifChoice("upload", 3) {
	case 1:
		h.uploadURLProvider = verifC20UploadProvider()
	case 2:
		h.uploadURLProvider = verifC20UploadProvider()
		h.maxUploadBytes = 4000
	}
	h.proxyProofRequired = verifNondetBool("proof")
	if verifNondetBool("introspect") {
		h.introspect = &tokenIntrospection{}
	}
	if verifNondetBool("extra_proxy") {
		h.extraProxyAuthHeaders = []string{"X-Proxy-Auth"}
	}
	if verifNondetBool("www") {
		h.wwwAuthenticate = "Bearer x"
	}
	switch verifChoice("sticky", 4) {
	case 1:
		h.stickyRegistry = newSessionRegistry(30 * time.Second)
	case 2:
		h.stickyRegistry = newSessionRegistry(30 * time.Second)
		h.stickyEchoHeaders = map[string]string{"fly-force-instance-id": "i1"}
	case 3:
		h.stickyRegistry = newSessionRegistry(30 * time.Second)
		h.stickyEchoHeaders = map[string]string{"fly-force-instance-id": "i1", "x-b": "2"}
	}
}

func verifC20CheckExposed(rw *verifC20RW) {
	expose := strings.Split(rw.hdr.Get("Access-Control-Expose-Headers"), ", ")
	for k := range rw.hdr {
		if !verifC20NeedsExpose(k) {
			continue
		}
		found := false
		for _, e := range expose {
			if strings.EqualFold(e, k) {
				found = true
			}
		}
		verifAssert(found, "with CORS on, every capability/rejection header on the response is listed in Access-Control-Expose-Headers")
	}
}

// With CORS enabled, every capability or rejection header the configuration
// can emit is listed in Access-Control-Expose-Headers, for EVERY feature combination.
//
//verif:stub encoding/json.Marshal = verifJSONMarshal
//verif:bound all 3072 combinations of: request cap, response cap, external cap (each off / set), upload provider (off / on / on with max-upload), proof advertisement, introspection, extra proxy-auth header, WWW-Authenticate, sticky (off / on / 1 echo header / 2 echo headers), response = 200 with the per-call headers (X-VGI-RPC-Error, X-VGI-Content-Encoding, VGI-Session, VGI-Session-Close, VGI-Echo-*) or 401 through writeUnauthorized; preflight or not. Cap values are fixed positive numbers (their decimal rendering is not the subject).
func verifH_C20_expose_all_configs() {
	h := &HttpServer{server: &Server{}}
	verifC20Server = h
	h.applyCompressionLevel(1)
	h.corsOrigins = "*"
	h.corsMaxAge = "7200"
	verifC20Config(h)
	isOptions := verifNondetBool("options")
	r := &http.Request{Method: "POST", Header: http.Header{}, URL: &url.URL{Path: "/m"}}
	rw := &verifC20RW{hdr: http.Header{}}
	rw.hdr.Set(requestIDHeader, "abc")
	h.addCapabilityHeaders(rw, isOptions)
	h.addCorsHeaders(rw, r, isOptions)
	if !isOptions {
		verifC20Reject = verifNondetBool("reject")
		verifC20Mux(nil, rw, r)
	} else {
		rw.WriteHeader(204)
	}
	verifReach("emitted")
	verifC20CheckExposed(rw)
}

// Every exit path of ServeHTTP carries X-Request-ID; after the serve-start hook
// succeeded the capability headers are there.
//
//verif:stub crypto/rand.Read = verifRandRead
//verif:stub encoding/json.Marshal = verifJSONMarshal
//verif:stub (*net/http.ServeMux).ServeHTTP = verifC20Mux
//verif:stub (*github.com/Query-farm/vgi-rpc-go/vgirpc.HttpServer).InitPages = verifC20NoPages
//verif:bound serve-start hook absent / ok / failing; compression level any int; CORS on/off; request cap off or 1000 with ANY declared Content-Length; health-exempt or RPC path; OPTIONS / POST; request id absent or any 3 ASCII bytes; routed handler answers 200 or 401; the route table itself is replaced by that stand-in; other features off (their headers are covered by verifH_C20_expose_all_configs)
func verifH_C20_serve_headers() {
	s := &Server{}
	hookFails := false
	switch verifChoice("hook", 3) {
	case 1:
		s.serveStartHook = func(kind TransportKind, caps map[string]bool) error { return nil }
	case 2:
		hookFails = true
		s.serveStartHook = func(kind TransportKind, caps map[string]bool) error { return errors.New("nope") }
	}
	h := &HttpServer{server: s, mux: http.NewServeMux()}
	verifC20Server = h
	h.applyCompressionLevel(verifNondetInt("level"))
	cors := verifNondetBool("cors")
	if cors {
		h.corsOrigins = "*"
		h.corsMaxAge = "7200"
	}
	if verifNondetBool("max_request") {
		h.maxRequestBytes = 1000
	}
	method := "POST"
	if verifNondetBool("options") {
		method = "OPTIONS"
	}
	path := "/m"
	if verifNondetBool("health") {
		path = "/health"
	}
	r := &http.Request{Method: method, Header: http.Header{}, URL: &url.URL{Path: path}, ContentLength: verifNondetInt64("content_length")}
	id := ""
	if verifNondetBool("id.present") {
		id = verifNondetString("id", 3)
		verifAssume(verifAllInSet(id, "\x00\x7f"))
		r.Header.Set(requestIDHeader, id)
	}
	verifC20Reject = verifNondetBool("reject")
	verifC20Routed = 0
	rw := &verifC20RW{hdr: http.Header{}}
	h.ServeHTTP(rw, r)
	verifReach("served")
	verifAssert(rw.status != 0, "every request gets a status")
	got := rw.hdr.Get(requestIDHeader)
	verifAssert(got != "" && rw.idAtStatus == got, "X-Request-ID is on the response before the status line is written")
	t := strings.TrimSpace(id)
	if t != "" {
		verifReach("id-echoed")
		verifAssert(got == t, "a usable caller id is echoed trimmed")
	} else {
		verifAssert(verifC20IsHex16(got), "otherwise a minted 16-hex id")
	}
	if hookFails {
		verifReach("hook-failed")
		verifAssert(rw.status == 500 && verifC20Routed == 0, "a failing serve-start hook refuses the request before routing")
		return
	}
	_, hasEnc := rw.hdr[http.CanonicalHeaderKey(supportedEncodingsHeader)]
	ext := rw.hdr.Get(externalizationEnabledHeader)
	verifAssert(hasEnc, "supported-encodings capability header present after the hook succeeded (possibly empty)")
	verifAssert(ext == "true" || ext == "false", "externalization capability header present after the hook succeeded")
	tooLarge := method != "OPTIONS" && h.maxRequestBytes > 0 && r.ContentLength > 1000 && path != "/health"
	switch {
	case method == "OPTIONS":
		verifReach("preflight")
		verifAssert(rw.status == 204 && verifC20Routed == 0, "a preflight is answered 204 without routing")
	case tooLarge:
		verifReach("too-large")
		verifAssert(rw.status == 413 && verifC20Routed == 0, "a declared length over the advertised request cap is refused 413 before routing")
	default:
		verifAssert(verifC20Routed == 1, "otherwise the request is routed once")
		if verifC20Reject {
			verifReach("rejected")
			verifAssert(rw.status == 401, "the handler's rejection is the response")
		}
	}
	if cors {
		verifReach("cors")
		verifC20CheckExposed(rw)
	}
}
