package vgirpc

import (
	"errors"
	"io"
	"net/http"
	"net/url"
	"strings"

	"github.com/klauspost/compress/zstd"
)

//verif:quote approx
//verif:ints lia
//verif:unwind 64
//verif:maxconcretize 16
//verif:maxdecisions 4000

// ---- a scripted HTTP client: drives the real CheckRedirect policy the way net/http does ----

var (
	verifC31Chain     []string // redirect targets the remote side answers with, in order
	verifC31Issued    []string // URLs a request was actually sent to
	verifC31Status    int
	verifC31CLen      int64
	verifC31BodyLen   int64
	verifC31Encoding  string
	verifC31Decoded   int64
	verifC31BodyAsked int64
	verifC31DecAsked  int64
	verifC31GetFails  bool
	verifC31Gets      int
)

type verifC31Body struct{}

func (verifC31Body) Read(p []byte) (int, error) { panic("read through io.ReadAll stub") }
func (verifC31Body) Close() error               { return nil }

func verifC31Get(c *http.Client, rawURL string) (*http.Response, error) {
	verifC31Gets++
	if verifC31GetFails {
		return nil, &url.Error{Op: "Get", URL: rawURL, Err: errors.New("dial tcp: connection refused")}
	}
	first, _ := url.Parse(rawURL)
	via := []*http.Request{{URL: first}}
	verifC31Issued = append(verifC31Issued, rawURL)
	for _, target := range verifC31Chain {
		u, _ := url.Parse(target)
		req := &http.Request{URL: u}
		if c.CheckRedirect != nil {
			if err := c.CheckRedirect(req, via); err != nil {
				return nil, &url.Error{Op: "Get", URL: target, Err: err}
			}
		} else if len(via) >= 10 {
			return nil, &url.Error{Op: "Get", URL: target, Err: errors.New("stopped after 10 redirects")}
		}
		verifC31Issued = append(verifC31Issued, target)
		via = append(via, req)
	}
	h := http.Header{}
	if verifC31Encoding != "" {
		h.Set("Content-Encoding", verifC31Encoding)
	}
	return &http.Response{StatusCode: verifC31Status, ContentLength: verifC31CLen, Header: h, Body: verifC31Body{}}, nil
}

func verifC31ReadAll(r io.Reader) ([]byte, error) {
	limit := int64(-1)
	if lr, ok := r.(*io.LimitedReader); ok {
		limit = lr.N
		r = lr.R
	}
	avail := verifC31BodyLen
	if _, isDec := r.(*zstd.Decoder); isDec {
		avail = verifC31Decoded
		verifC31DecAsked = limit
	} else {
		verifC31BodyAsked = limit
	}
	n := avail
	if limit >= 0 && limit < n {
		n = limit
	}
	return verifOpaqueBytes(int(n)), nil
}
func verifC31ZstdNewReader(r io.Reader, opts ...zstd.DOption) (*zstd.Decoder, error) {
	return &zstd.Decoder{}, nil
}
func verifC31WithMaxMem(n uint64) zstd.DOption { return nil }
func verifC31ZstdClose(d *zstd.Decoder)        {}

const verifC31Bad = "http://internal.example/" // what the validator rejects

func verifC31Validator(u string) error {
	if strings.HasPrefix(u, "http://") {
		return errors.New("external location URL must use HTTPS")
	}
	return nil
}

// No hop is ever issued to a URL the validator rejects, and at most
// maxRedirects redirects are followed.
//
//verif:stub (*net/http.Client).Get = verifC31Get
//verif:stub io.ReadAll = verifC31ReadAll
//verif:bound redirect chains of 0..7 hops, each hop an accepted (https) or a rejected (http) URL in ANY arrangement; maxRedirects configured 0 (default 5), 1, 2 or 5; validator present or nil; small 200 response at the end. The HTTP client is replaced by a script that calls the real CheckRedirect policy exactly as net/http's redirect loop does (request for hop i checked with via = the i requests before it).
func verifH_C31_redirects() {
	verifC31Issued, verifC31Chain, verifC31Gets, verifC31GetFails = nil, nil, 0, false
	n := verifChoice("hops", 8)
	for i := 0; i < n; i++ {
		if verifNondetBool("hop_rejected") {
			verifC31Chain = append(verifC31Chain, verifC31Bad+"x")
		} else {
			verifC31Chain = append(verifC31Chain, "https://cdn.example/obj")
		}
	}
	cfgMax := []int{0, 1, 2, 5}[verifChoice("max_redirects", 4)]
	cfg := &ExternalLocationConfig{MaxRedirects: cfgMax}
	withValidator := verifNondetBool("validator")
	var v func(string) error
	if withValidator {
		v = verifC31Validator
	}
	verifC31Status, verifC31CLen, verifC31BodyLen, verifC31Encoding = 200, 10, 10, ""
	_, err := fetchExternalData(&http.Client{}, "https://store.example/obj?sig=s3cr3t", v, 1000, 1000, cfg.maxRedirects())
	verifReach("fetched")
	limit := cfgMax
	if limit <= 0 {
		limit = 5
	}
	followed := len(verifC31Issued) - 1
	verifAssert(followed <= limit, "at most the configured number of redirects is followed")
	if withValidator {
		for _, u := range verifC31Issued {
			verifAssert(!strings.HasPrefix(u, "http://"), "no request is ever sent to a URL the validator rejects, redirect targets included")
		}
	}
	// reference: the fetch succeeds iff the whole chain is within the limit and acceptable
	ok := n <= limit
	if withValidator {
		for _, t := range verifC31Chain {
			if strings.HasPrefix(t, "http://") {
				ok = false
			}
		}
	}
	verifAssert((err == nil) == ok, "the fetch succeeds exactly when every hop is acceptable and the chain is within the limit")
	if err != nil {
		verifReach("redirect-refused")
		verifAssert(!strings.Contains(err.Error(), "s3cr3t"), "the error does not carry the URL's query string")
	}
}

// Bodies over the fetch cap and decoded payloads over the decompression cap are refused.
//
//verif:stub (*net/http.Client).Get = verifC31Get
//verif:stub io.ReadAll = verifC31ReadAll
//verif:stub github.com/klauspost/compress/zstd.NewReader = verifC31ZstdNewReader
//verif:stub github.com/klauspost/compress/zstd.WithDecoderMaxMemory = verifC31WithMaxMem
//verif:stub (*github.com/klauspost/compress/zstd.Decoder).Close = verifC31ZstdClose
//verif:bound max_fetch_bytes and max_decompressed_bytes ANY value in [1,2^40]; declared Content-Length ANY int64 >= -1, actual body length and decoded length ANY value in [0,2^41]; status 200 or 404; Content-Encoding absent or zstd; codec = reader of symbolic length
func verifH_C31_caps() {
	verifC31Issued, verifC31Chain, verifC31Gets, verifC31GetFails = nil, nil, 0, false
	maxFetch := verifNondetInt64("max_fetch")
	maxDec := verifNondetInt64("max_decompressed")
	verifAssume(maxFetch >= 1 && maxFetch <= 1<<40 && maxDec >= 1 && maxDec <= 1<<40)
	verifC31CLen = verifNondetInt64("content_length")
	verifC31BodyLen = verifNondetInt64("body_len")
	verifC31Decoded = verifNondetInt64("decoded_len")
	verifAssume(verifC31CLen >= -1 && verifC31CLen <= 1<<41 && verifC31BodyLen >= 0 && verifC31BodyLen <= 1<<41 && verifC31Decoded >= 0 && verifC31Decoded <= 1<<41)
	verifC31Status = 200
	if verifNondetBool("not_found") {
		verifC31Status = 404
	}
	verifC31Encoding = ""
	if verifNondetBool("zstd") {
		verifC31Encoding = "zstd"
	}
	verifC31BodyAsked, verifC31DecAsked = -2, -2
	data, err := fetchExternalData(&http.Client{}, "https://user:pw@store.example/obj?sig=s3cr3t", nil, maxFetch, maxDec, 5)
	verifReach("cap-checked")
	switch {
	case verifC31Status != 200:
		verifAssert(err != nil, "a non-200 answer is an error")
	case verifC31CLen > maxFetch || verifC31BodyLen > maxFetch:
		verifReach("body-over-cap")
		verifAssert(err != nil, "a body over max_fetch_bytes is refused")
	case verifC31Encoding == "zstd" && verifC31Decoded > maxDec:
		verifReach("decoded-over-cap")
		verifAssert(err != nil, "a decoded payload over max_decompressed_bytes is refused")
	default:
		verifReach("within-caps")
		want := verifC31BodyLen
		if verifC31Encoding == "zstd" {
			want = verifC31Decoded
		}
		verifAssert(err == nil && int64(len(data)) == want, "a payload within both caps is returned whole")
	}
	if verifC31BodyAsked != -2 {
		verifAssert(verifC31BodyAsked == maxFetch+1, "at most one byte past max_fetch_bytes is read")
	}
	if verifC31DecAsked != -2 {
		verifAssert(verifC31DecAsked == maxDec+1, "at most one byte past max_decompressed_bytes is decoded")
	}
	if err != nil {
		msg := err.Error()
		verifAssert(!strings.Contains(msg, "s3cr3t") && !strings.Contains(msg, "user:pw") && !strings.Contains(msg, "pw@"), "errors never carry the URL's query string or user info")
	}
}

// At most min(MaxRetries,2)+1 attempts are made.
//
//verif:stub (*net/http.Client).Get = verifC31Get
//verif:stub time.Now = verifFixedNow
//verif:bound MaxRetries ANY int; every attempt fails at the transport
func verifH_C31_attempts() {
	verifC31Issued, verifC31Chain, verifC31Gets, verifC31GetFails = nil, nil, 0, true
	mr := verifNondetInt("max_retries")
	cfg := &ExternalLocationConfig{MaxRetries: mr, URLValidator: verifC31Validator, RetryDelay: 1}
	ptr := verifNewBatch(verifDataSchema, 0, 0, []string{MetaLocation}, []string{"https://user:pw@store.example/obj?sig=s3cr3t"})
	_, _, err := ResolveExternalLocation(ptr, ptr.meta, cfg)
	verifReach("gave-up")
	want := mr
	if mr <= 0 || mr > 2 {
		want = 2
	}
	verifAssert(err != nil && verifC31Gets == want+1, "exactly min(MaxRetries,2)+1 attempts (default 2 retries), never more than three")
	verifAssert(verifC31Gets <= 3, "never more than three attempts")
	if err != nil {
		msg := err.Error()
		verifAssert(!strings.Contains(msg, "s3cr3t") && !strings.Contains(msg, "pw@"), "the final error carries neither query string nor user info")
	}
}

// A URL the validator rejects is never fetched, and the refusal does not leak its secrets.
//
//verif:ints bv
//verif:stub (*net/http.Client).Get = verifC31Get
//verif:stub time.Now = verifFixedNow
//verif:bound location URL = "http" or "https" + "://" + user info of 2 ARBITRARY letters + "@h.example/p?" + query of 2 ARBITRARY letters, both taint-tracked into the returned error text
func verifH_C31_validator_gate() {
	verifC31Issued, verifC31Chain, verifC31Gets, verifC31GetFails = nil, nil, 0, false
	scheme := "https"
	if verifNondetBool("plain_http") {
		scheme = "http"
	}
	ui := verifNondetString("userinfo", 2)
	q := verifNondetString("query", 2)
	verifAssume(verifAllInSet(ui, "az") && verifAllInSet(q, "az"))
	ui, q = verifTaintString(ui), verifTaintString(q)
	loc := scheme + "://" + ui + "@h.example/p?" + q
	cfg := &ExternalLocationConfig{URLValidator: HTTPSOnlyValidator, MaxRetries: 1}
	verifC31Status, verifC31CLen, verifC31BodyLen, verifC31Encoding = 404, 0, 0, ""
	ptr := verifNewBatch(verifDataSchema, 0, 0, []string{MetaLocation}, []string{loc})
	_, _, err := ResolveExternalLocation(ptr, ptr.meta, cfg)
	verifReach("gated")
	verifAssert(err != nil, "rejected or not found")
	if scheme == "http" {
		verifReach("validator-rejected")
		verifAssert(verifC31Gets == 0, "a rejected URL is never requested")
	}
	if err != nil {
		verifAssert(!verifStringTainted(err.Error()), "the error text contains no byte of the user info or the query string")
	}
}
