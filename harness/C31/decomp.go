package vgirpc

import (
	"errors"
	"io"

	"github.com/klauspost/compress/zstd"
)

// ---- the decompression cap of a fetched zstd body ----

// A zstd body is a sequence of frames; a frame may declare its content size in
// its header. The library is reduced to that: streaming Read yields the content
// of ALL frames in order, DecodeAll returns all of it at once, Header.Decode
// reports the FIRST frame's declaration.
var (
	verifC31Frames   []int64 // content size per frame
	verifC31Declared bool    // the first frame declares its size
	verifC31BadInput bool
)

func verifC31DcTotal() int64 {
	var t int64
	for _, n := range verifC31Frames {
		t += n
	}
	return t
}

func verifC31ZNewReader(r io.Reader, opts ...zstd.DOption) (*zstd.Decoder, error) {
	if verifC31BadInput && r != nil {
		return nil, errors.New("zstd: invalid input")
	}
	return &zstd.Decoder{}, nil
}
func verifC31ZMaxMem(n uint64) zstd.DOption { return nil }
func verifC31ZClose(d *zstd.Decoder)        {}
func verifC31ZDecodeAll(d *zstd.Decoder, in, dst []byte) ([]byte, error) {
	if verifC31BadInput {
		return nil, errors.New("zstd: invalid input")
	}
	return verifOpaqueBytes(int(verifC31DcTotal())), nil // dst is nil at the call site
}
func verifC31ZHeaderDecode(h *zstd.Header, in []byte) error {
	if verifC31BadInput {
		return errors.New("bad magic")
	}
	h.HasFCS = verifC31Declared
	if verifC31Declared {
		h.FrameContentSize = uint64(verifC31Frames[0])
	}
	return nil
}
func verifC31DcReadAll(r io.Reader) ([]byte, error) {
	limit := int64(-1)
	if lr, ok := r.(*io.LimitedReader); ok {
		limit, r = lr.N, lr.R
	}
	if _, ok := r.(*zstd.Decoder); !ok {
		verifUnmodelled("io.ReadAll over a reader the model does not know")
		return nil, nil
	}
	n := verifC31DcTotal()
	if limit >= 0 && limit < n {
		n = limit
	}
	return verifOpaqueBytes(int(n)), nil
}

// A fetched zstd body never decodes to more than the decompression cap.
//
//verif:ints lia
//verif:stub github.com/klauspost/compress/zstd.NewReader = verifC31ZNewReader
//verif:stub github.com/klauspost/compress/zstd.WithDecoderMaxMemory = verifC31ZMaxMem
//verif:stub (*github.com/klauspost/compress/zstd.Decoder).Close = verifC31ZClose
//verif:stub (*github.com/klauspost/compress/zstd.Decoder).DecodeAll = verifC31ZDecodeAll
//verif:stub (*github.com/klauspost/compress/zstd.Header).Decode = verifC31ZHeaderDecode
//verif:stub io.ReadAll = verifC31DcReadAll
//verif:bound a zstd body of 1..3 frames whose content sizes are ANY values in [0, 4096] each, the first frame declaring its size or not, or an undecodable body; cap ANY int64 (positive, zero or negative = no cap); the zstd library is its contract (streaming and one-shot decoding both yield the content of every frame, the header describes the first frame only); byte-level zstd is outside the claim
func verifH_C31_decompression_cap() {
	n := 1 + verifChoice("frames", 3)
	verifC31Frames = nil
	for i := 0; i < n; i++ {
		sz := verifNondetInt64("frame_size")
		verifAssume(sz >= 0 && sz <= 4096)
		verifC31Frames = append(verifC31Frames, sz)
	}
	verifC31Declared = verifNondetBool("first_frame_declares_size")
	verifC31BadInput = verifNondetBool("undecodable")
	capv := verifNondetInt64("cap")
	total := verifC31DcTotal()
	out, err := decompressZstdCapped([]byte("zstd-body"), capv)
	verifReach("decoded")
	if verifC31BadInput {
		verifAssert(err != nil, "an undecodable body is an error")
		return
	}
	if capv <= 0 {
		verifReach("uncapped")
		verifAssert(err == nil && int64(len(out)) == total, "without a cap the whole body is decoded")
		return
	}
	if total > capv {
		verifReach("over-cap")
		verifAssert(err != nil, "a body that decodes to more than the cap is refused — however its frames declare their sizes")
	} else {
		verifReach("within-cap")
		verifAssert(err == nil && int64(len(out)) == total, "a body within the cap is decoded completely")
	}
}
