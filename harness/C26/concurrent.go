package vgirpc

import (
	"sync"
	"time"
)

// The introspection rate limiter under concurrent callers.
//
//verif:sched quick=2 thorough=3
//verif:race
//verif:maxpaths quick=120000 thorough=600000
//verif:stub time.Now = verifFixedNow
//verif:bound a limiter of 1 or 2 requests per window; three goroutines asking for the same key (or the third for another key) at one clock instant; ALL interleavings at the limiter's mutex with at most 2 (3) preemptions; happens-before race detection on the limiter's fields
func verifH_C26_limiter_concurrent() {
	per := 1 + verifChoice("per_window", 2)
	l := newIntrospectRateLimiter(per, time.Minute)
	otherKey := verifNondetBool("third_uses_other_key")
	ok := make([]bool, 3)
	var wg sync.WaitGroup
	for i := 0; i < 3; i++ {
		wg.Add(1)
		i := i
		key := "caller-a"
		if i == 2 && otherKey {
			key = "caller-b"
		}
		go func() { defer wg.Done(); ok[i] = l.allow(key) }()
	}
	wg.Wait()
	verifReach("joined")
	same, allowedSame := 3, 0
	if otherKey {
		same = 2
		verifAssert(ok[2], "another key has its own budget")
	}
	for i := 0; i < same; i++ {
		if ok[i] {
			allowedSame++
		}
	}
	want := per
	if same < per {
		want = same
	}
	verifAssert(allowedSame == want, "concurrent callers of one key are admitted up to the budget, never beyond it and never below it")
}
