package vgirpc

import (
	"errors"
	"io"
	"net/http"
	"net/url"
	"strings"
	"time"
)

//verif:ints lia
//verif:unwind 5000
//verif:maxconcretize 32
//verif:maxdecisions 4000

var (
	verifC26Sec, verifC26Nsec int64
)

func verifC26Now() time.Time { return time.Unix(verifC26Sec, verifC26Nsec) }

// The limiter admits at most perWindow requests per key in any of its windows,
// and a window lasts at least the configured duration.
//
//verif:stub time.Now = verifC26Now
//verif:bound inductive step from an ARBITRARY limiter state satisfying the invariant (count of the key in [0,perWindow], another key's count likewise), perWindow in [1,1000], window 1 s, window start and the clock arbitrary instants with the clock not before the window start; then a second call at any later instant
func verifH_C26_limiter_step() {
	per := verifNondetInt("per_window")
	verifAssume(per >= 1 && per <= 1000)
	l := newIntrospectRateLimiter(per, time.Second)
	ws := verifNondetInt64("window_start.sec")
	wn := verifNondetInt64("window_start.nsec")
	verifAssume(ws >= 0 && ws <= 4000000000 && wn >= 0 && wn < 1000000000)
	l.windowStart = time.Unix(ws, wn)
	c0 := verifNondetInt("count")
	o0 := verifNondetInt("other_count")
	verifAssume(c0 >= 0 && c0 <= per && o0 >= 0 && o0 <= per)
	if c0 > 0 {
		l.counts["k"] = c0
	}
	if o0 > 0 {
		l.counts["other"] = o0
	}
	wantOther := o0
	step := func(name string, prevSec, prevNsec int64) (bool, bool, int64, int64) {
		s := verifNondetInt64(name + ".sec")
		n := verifNondetInt64(name + ".nsec")
		verifAssume(s >= 0 && s <= 4000000001 && n >= 0 && n < 1000000000)
		verifAssume(s > prevSec || (s == prevSec && n >= prevNsec))
		verifC26Sec, verifC26Nsec = s, n
		before := l.counts["k"]
		startBefore := l.windowStart
		ok := l.allow("k")
		reset := !l.windowStart.Equal(startBefore)
		// reference
		elapsedNs := (s-startBefore.Unix())*1000000000 + (n - int64(startBefore.Nanosecond()))
		wantReset := elapsedNs >= 1000000000
		verifAssert(reset == wantReset, "a new window starts exactly when the old one has lasted the configured duration")
		inWindow := before
		if reset {
			inWindow = 0
		}
		verifAssert(ok == (inWindow < per), "a request is admitted exactly while the key's count in the current window is below the limit")
		verifAssert(l.counts["k"] <= per, "the key's count never exceeds the limit")
		if ok {
			verifAssert(l.counts["k"] == inWindow+1, "an admission is counted once")
		} else {
			verifAssert(l.counts["k"] == inWindow, "a refusal is not counted")
		}
		if reset {
			wantOther = 0
		}
		verifAssert(l.counts["other"] == wantOther, "another key's count is untouched inside a window and cleared with it")
		return ok, reset, s, n
	}
	_, _, s1, n1 := step("now1", ws, wn)
	verifReach("first-call")
	_, _, _, _ = step("now2", s1, n1)
	verifReach("second-call")
}

// ---- handler ordering ----

var (
	verifC26BodyReads int
	verifC26RawLen    int64
	verifC26Token     string
	verifC26JSONBad   bool
	verifC26Resolver  int
	verifC26Leaks     int
)

func verifC26ReadAll(r io.Reader) ([]byte, error) {
	verifC26BodyReads++
	n := verifC26RawLen
	if lr, ok := r.(*io.LimitedReader); ok && lr.N < n {
		n = lr.N
	}
	return verifOpaqueBytes(int(n)), nil
}

func verifC26Unmarshal(data []byte, v interface{}) error {
	if verifC26JSONBad {
		return errors.New("invalid character")
	}
	if b, ok := v.(*struct {
		Token string `json:"token"`
	}); ok {
		b.Token = verifC26Token
		return nil
	}
	panic("verifC26Unmarshal: unexpected target")
}

func verifC26Digest(credential string) string { return "digest" }

func verifC26Slog(msg string, args ...interface{}) {
	if verifStringTainted(msg) {
		verifC26Leaks++
	}
	for _, a := range args {
		switch x := a.(type) {
		case string:
			if verifStringTainted(x) {
				verifC26Leaks++
			}
		case error:
			if verifStringTainted(x.Error()) {
				verifC26Leaks++
			}
		}
	}
}

type verifC26RW struct {
	hdr    http.Header
	status int
	body   string
}

func (w *verifC26RW) Header() http.Header { return w.hdr }
func (w *verifC26RW) WriteHeader(c int) {
	if w.status == 0 {
		w.status = c
	}
}
func (w *verifC26RW) Write(b []byte) (int, error) {
	if w.status == 0 {
		w.status = 200
	}
	s := string(b)
	if verifStringTainted(s) {
		verifC26Leaks++
	}
	w.body += s
	return len(b), nil
}

func verifC26TokenChar(c byte) bool {
	return verifInSet(c, "AZaz09__--") // one Boolean term: no per-range forking
}

// reference JWS shape: seg '.' seg '.' seg? with seg over [A-Za-z0-9_-], first two non-empty
func verifC26JWS(s string) bool {
	dots := 0
	segLen := 0
	for i := 0; i < len(s); i++ {
		if s[i] == '.' {
			if dots < 2 && segLen == 0 {
				return false
			}
			dots++
			segLen = 0
			continue
		}
		if !verifC26TokenChar(s[i]) {
			return false
		}
		segLen++
	}
	return dots == 2
}

// The introspection route is not an open oracle.
//
//verif:stub time.Now = verifFixedNow
//verif:stub io.ReadAll = verifC26ReadAll
//verif:stub encoding/json.Unmarshal = verifC26Unmarshal
//verif:stub encoding/json.Marshal = verifJSONMarshal
//verif:stub github.com/Query-farm/vgi-rpc-go/vgirpc.TokenDigest = verifC26Digest
//verif:stub log/slog.Warn = verifC26Slog
//verif:stub log/slog.Info = verifC26Slog
//verif:stub log/slog.Debug = verifC26Slog
//verif:stub log/slog.Error = verifC26Slog
//verif:bound feature enabled or not; caller unauthenticated / authenticated with ANY principal of 0..2 bytes against the allow-list {"ab"}; limiter fresh or exhausted for the caller; declared Content-Length and actual body length ANY non-negative int64 up to 2^40; JSON well-formed or not; subject credential = an opaque key or one of two JWS-shaped heads, padded to total length 5, 4096 or 4097 (the size boundary), a 4098-byte credential of 2049 two-byte UTF-8 characters, or empty; resolver resolves / does not resolve / is unavailable / fails. The credential's bytes are taint-tracked into every response write and every slog argument. sha256 digest, JSON codec and slog are stubbed.
func verifH_C26_handler() { verifC26Handler(false) }

// The JWS-shape screen agrees with the grammar for every credential head.
//
//verif:stub time.Now = verifFixedNow
//verif:stub io.ReadAll = verifC26ReadAll
//verif:stub encoding/json.Unmarshal = verifC26Unmarshal
//verif:stub encoding/json.Marshal = verifJSONMarshal
//verif:stub github.com/Query-farm/vgi-rpc-go/vgirpc.TokenDigest = verifC26Digest
//verif:stub log/slog.Warn = verifC26Slog
//verif:stub log/slog.Info = verifC26Slog
//verif:stub log/slog.Debug = verifC26Slog
//verif:stub log/slog.Error = verifC26Slog
//verif:bound enabled, allow-listed caller, fresh limiter, well-formed small body; subject credential = 5 ARBITRARY ASCII bytes alone or followed by 4091 'x' (length 4096); resolver resolves or not. Decides the JWS screen (regexp model) against an independent three-segment grammar, and the taint of all 5 bytes into writes and log arguments.
func verifH_C26_jws_screen() {
	verifC26BodyReads, verifC26Resolver, verifC26Leaks = 0, 0, 0
	h := &HttpServer{server: &Server{}}
	resolves := verifNondetBool("resolves")
	handed := ""
	h.introspect = &tokenIntrospection{
		resolver: func(credential string) (TokenIdentity, bool, error) {
			verifC26Resolver++
			handed = credential
			if !resolves {
				return TokenIdentity{}, false, nil
			}
			return TokenIdentity{Principal: "owner", TokenName: "t"}, true, nil
		},
		principals: map[string]bool{"ab": true}, defaultTTL: 60, limiter: newIntrospectRateLimiter(2, time.Second)}
	h.introspect.limiter.windowStart = verifFixedNow()
	h.authenticateFunc = func(r *http.Request) (*AuthContext, error) {
		return &AuthContext{Authenticated: true, Principal: "ab", Domain: "bearer"}, nil
	}
	verifC26RawLen, verifC26JSONBad = 40, false
	total := 5
	if verifNondetBool("long") {
		total = 4096
	}
	head := verifNondetString("token_head", 5)
	verifAssume(verifAllInSet(head, "\x00\x7f"))
	head = verifTaintString(head)
	verifC26Token = head + strings.Repeat("x", total-5)
	r := &http.Request{Method: "POST", Header: http.Header{}, URL: &url.URL{Path: IntrospectEndpoint}, RemoteAddr: "1.2.3.4:5", ContentLength: 40, Body: io.NopCloser(strings.NewReader(""))}
	rw := &verifC26RW{hdr: http.Header{}}
	h.handleIntrospectToken(rw, r)
	verifReach("screened")
	verifAssert(verifC26Leaks == 0, "the credential never appears in a response or a log argument")
	if verifC26JWS(verifC26Token) {
		verifReach("jws-shaped")
		verifAssert(verifC26Resolver == 0 && rw.status == 404 && rw.body == `{"error":"unresolved"}`, "a JWS-shaped credential never reaches the resolver and gets the fixed 404 body")
	} else {
		verifReach("opaque-key")
		verifAssert(verifC26Resolver == 1, "any other credential is resolved once")
		verifAssert(handed == verifC26Token && !verifC26JWS(handed), "and the resolver is handed exactly the credential that was screened — nothing JWS-shaped is ever resolved")
		if resolves {
			verifAssert(rw.status == 200, "resolved: 200")
		} else {
			verifAssert(rw.status == 404 && rw.body == `{"error":"unresolved"}`, "unresolved: the same fixed 404 body")
		}
	}
}

func verifC26Handler(symbolicHead bool) {
	verifC26BodyReads, verifC26Resolver, verifC26Leaks = 0, 0, 0
	h := &HttpServer{server: &Server{}}
	enabled := true
	if !symbolicHead {
		enabled = verifNondetBool("enabled")
	}
	outcome := verifChoice("resolver", 4)
	if symbolicHead {
		verifAssume(outcome < 2)
	}
	per := 2
	if enabled {
		h.introspect = &tokenIntrospection{
			resolver: func(credential string) (TokenIdentity, bool, error) {
				verifC26Resolver++
				switch outcome {
				case 1:
					return TokenIdentity{}, false, nil
				case 2:
					return TokenIdentity{}, false, &AuthUnavailableError{Detail: "down", RetryAfter: 7}
				case 3:
					return TokenIdentity{}, false, errors.New("backend exploded")
				}
				return TokenIdentity{Principal: "owner", TokenName: "t"}, true, nil
			},
			principals: map[string]bool{"ab": true}, defaultTTL: 60, limiter: newIntrospectRateLimiter(per, time.Second)}
		h.introspect.limiter.windowStart = verifFixedNow()
	}
	authenticated := true
	caller := "ab"
	if !symbolicHead {
		authenticated = verifNondetBool("authenticated")
		caller = verifNondetString("caller", verifChoice("caller.len", 3))
	}
	h.authenticateFunc = func(r *http.Request) (*AuthContext, error) {
		return &AuthContext{Authenticated: authenticated, Principal: caller, Domain: "bearer"}, nil
	}
	exhausted := !symbolicHead && verifNondetBool("rate_exhausted")
	if enabled && exhausted {
		h.introspect.limiter.counts[caller] = per
	}
	cl, total := int64(40), 5
	verifC26RawLen, verifC26JSONBad = 40, false
	head := ""
	if symbolicHead {
		if verifNondetBool("long") {
			total = 4096
		}
		head = verifTaintString(verifNondetString("token_head", 5))
	} else {
		cl = verifNondetInt64("content_length")
		verifC26RawLen = verifNondetInt64("body_len")
		verifAssume(cl >= -1 && cl <= 1<<40 && verifC26RawLen >= 0 && verifC26RawLen <= 1<<40)
		verifC26JSONBad = verifNondetBool("bad_json")
		total = []int{0, 5, 4096, 4097, 4098}[verifChoice("token_len", 5)]
		// an opaque API key or a JWS-shaped string; the shape screen itself is decided in verifH_C26_jws_screen
		head = verifTaintString([]string{"k3y!+", "a.b.c", "ab.c."}[verifChoice("token_head", 3)])
	}
	switch {
	case total == 4098:
		// 2049 two-byte UTF-8 characters: 4098 bytes but only 2049 characters
		verifC26Token = verifTaintString(strings.Repeat("\u00e9", 2049))
	case total > 0:
		verifC26Token = head + strings.Repeat("x", total-5)
	default:
		verifC26Token = ""
	}
	r := &http.Request{Method: "POST", Header: http.Header{}, URL: &url.URL{Path: IntrospectEndpoint}, RemoteAddr: "1.2.3.4:5", ContentLength: cl, Body: io.NopCloser(strings.NewReader(""))}
	rw := &verifC26RW{hdr: http.Header{}}
	h.handleIntrospectToken(rw, r)
	verifReach("answered")
	verifAssert(verifC26Leaks == 0, "the credential never appears in a response or a log argument")
	const unresolved = `{"error":"unresolved"}`
	switch {
	case !enabled:
		verifReach("disabled")
		verifAssert(rw.status == 404 && rw.body == `{"error":"not_enabled"}` && verifC26Resolver == 0 && verifC26BodyReads == 0, "disabled: nothing is resolved or read")
	case !authenticated || caller != "ab":
		verifReach("not-introspector")
		verifAssert(rw.status == 403 && rw.body == `{"error":"not_an_introspector"}`, "non-allowlisted callers get one fixed 403 body")
		verifAssert(verifC26BodyReads == 0 && verifC26Resolver == 0, "the subject is not read before the caller is authorised")
	case exhausted:
		verifReach("rate-limited")
		verifAssert(rw.status == 429 && verifC26Resolver == 0 && verifC26BodyReads == 0, "over the rate: refused before the subject is read")
	default:
		oversized := cl > 8192 || verifC26RawLen > 8192
		unusable := oversized || verifC26JSONBad || total == 0 || total > 4096
		jws := !unusable && verifC26JWS(verifC26Token)
		if unusable || jws {
			verifReach("never-resolved")
			verifAssert(verifC26Resolver == 0, "a JWS-shaped, oversized, empty or unparseable credential never reaches the resolver")
			verifAssert(rw.status == 404 && rw.body == unresolved, "and is answered with the fixed 404 body")
			if jws {
				verifReach("jws")
			}
			if oversized && cl > 8192 {
				verifAssert(verifC26BodyReads == 0, "a declared oversize body is not read")
			}
		} else {
			verifAssert(verifC26Resolver == 1, "a usable credential is resolved once")
			switch outcome {
			case 0:
				verifReach("resolved")
				verifAssert(rw.status == 200, "resolved: 200")
			case 1:
				verifReach("unresolved")
				verifAssert(rw.status == 404 && rw.body == unresolved, "every unresolvable credential gets the same fixed 404 body")
			default:
				verifReach("unavailable")
				verifAssert(rw.status == 503 && rw.hdr.Get("Retry-After") != "", "a resolver failure is transient: 503 with Retry-After")
			}
		}
	}
}
