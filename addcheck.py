#!/usr/bin/env python3
"""usage: addcheck.py ID <<< '{"text":..., "note":...}'  — merges into checks.json, drops ID from na.json, regenerates MANIFEST.json"""
import json,sys,subprocess
i=sys.argv[1]
d=json.load(sys.stdin)
c=json.load(open('/verif/checks.json')); c[i]=d
json.dump(c,open('/verif/checks.json','w'),indent=1)
n=json.load(open('/verif/na.json'))
if i in n: del n[i]
json.dump(n,open('/verif/na.json','w'),indent=1)
subprocess.check_call(['python3','/verif/gen_manifest.py'])
